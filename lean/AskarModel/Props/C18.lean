/-
C18 — store copy, profile copy and Indy migration carry over every record.
ONLY property theorems, refutations with witnesses, and non-vacuity examples; helpers in Lemmas/Copy.lean,
models in Model/Copy.lean and Model/IndyMigration.lean.

What is FALSE on the current tree and kept visible as `def … : Prop` with its negation proved:
* `CopyStoreSameProfiles` — the target of `copy_to` gets a profile named after `config.default_profile` even when the
  source has no such profile (finding, replayed by the harness);
* `ImportIntoLogicallyEmptySucceeds` — a target profile holding only *expired* rows passes the emptiness test, but a
  source record under the identity of such a row makes the whole copy fail with Duplicate (finding D8 of C17 reaching C18).
Decided by a flag read from the source (`migrateAtomic` = `Generated.Flags.migrateSingleTransaction`), in the style of
`blank_raw_refused_everywhere_current` of C08:
* `MigrateAllOrNothingBy g`, `WrongKeyLeavesWalletIntactBy g` — PROVED for the single-transaction variant (`g = true`: the
  tree since the repair of defect D41, commit 25cbe17), REFUTED with a witness for the variant without it (`g = false`: D41,
  found by this check — `migrate` committed `pre_upgrade` before it looked at the wallet key and ran the items in autocommit
  mode, so any failure — wrong key or method, damaged metadata or cell, a fault, a SIGKILL — left a file that neither
  migrates, `half_migrated_is_stuck`, nor opens); the verdict on the tree at hand: `migrate_all_or_nothing_status`.
Outside the property's domain (C18 speaks about wallets in the Indy format, not about damaged ones) and stated only as
facts about the model, which follows the code: `short_salt_panics_iff`, `short_cell_classified`,
`decrypt_merged_panics_iff_short` (`s[..16]`, `split_at(12)`); the harness counts these as observations, the all-or-nothing
part is judged for damaged wallets too.
The whole-store statement `copy_store_all_profiles` (names, default profile and every profile's content at the end
of the `copy_to` loop) is proved from the loop invariant of the target (`Lemmas.TargetInv`: key cache coherent with the
`profiles` table, unique names and ids, FK, no expiry), in the general form with the dangling default profile stated
explicitly (`copy_store_all_profiles_gen`) and in the exact form under "the default profile is one of the profiles".
-/
import AskarModel.Lemmas.Copy
import AskarModel.Lemmas.IndyMigration
import AskarModel.Lemmas.Wql

namespace Askar.Copy
open Askar.Store

/-- A successful `copy_profile` (any record count, any page size): the target profile — resolved through the target's
    own handle, i.e. under the target's own profile id and key — holds exactly the source profile's live records, in
    order; every live row of it is encrypted under the target's key; profiles with another id keep their content; the
    source tables and default profile are untouched.  (`Sorted`: row ids increase in creation order, an invariant of
    every reachable store — `run_sorted`; without it the equality holds up to the scan's id order.) -/
theorem copy_profile_exact (page : Nat) (now : Int) (n : Nat) (src dst : StoreSt) (P P' : String)
    (src' dst' : StoreSt) (n' : Nat) (hsorted : Sorted src.db)
    (h : copyProfile page now none n src dst P P' = (src', dst', n', .ok ())) :
    ∃ ss sd : Sess,
      resolve src.db src.h P = .ok (ss, src'.h) ∧ resolve dst'.db dst'.h P' = .ok (sd, dst'.h) ∧
      liveAbs now sd dst'.db = liveAbs now ss src.db ∧
      (∀ it ∈ dst'.db.items, it.pid = sd.pid → live now it = true → it.key = sd.key) ∧
      (∀ s : Sess, s.pid ≠ sd.pid → liveAbs now s dst'.db = liveAbs now s dst.db) ∧
      src'.db = src.db ∧ src'.default = src.default :=
  Lemmas.copy_profile_exact page now n src dst P P' src' dst' n' hsorted h

/-- The same for `copy_profile(b, b, P, P')` inside one store. -/
theorem copy_within_exact (page : Nat) (now : Int) (st st' : StoreSt) (P P' : String) (hsorted : Sorted st.db)
    (h : copyProfileWithin page now none st P P' = (st', .ok ())) :
    ∃ ss sd : Sess, (∃ hs, resolve st.db st.h P = .ok (ss, hs)) ∧ resolve st'.db st'.h P' = .ok (sd, st'.h) ∧
      liveAbs now sd st'.db = liveAbs now ss st.db ∧
      (∀ s : Sess, s.pid ≠ sd.pid → liveAbs now s st'.db = liveAbs now s st.db) ∧
      st'.default = st.default :=
  Lemmas.copy_within_exact page now st st' P P' hsorted h

/-- The source is never written, whatever the outcome and whatever fault is injected. -/
theorem copy_source_unchanged (page : Nat) (now : Int) (fault : Option Nat) (n : Nat) (src dst : StoreSt) (P P' : String) :
    (copyProfile page now fault n src dst P P').1.db = src.db ∧
    (copyProfile page now fault n src dst P P').1.default = src.default :=
  Lemmas.copy_source_unchanged page now fault n src dst P P'

/-- Copying into an existing profile that holds at least one live record is refused with an Input error, before
    anything is read or written. -/
theorem copy_refuses_nonempty (page : Nat) (now : Int) (fault : Option Nat) (n : Nat) (src dst : StoreSt) (P P' : String)
    (ss sd : Sess) (hs hd : Handle)
    (hsrc : resolve src.db src.h P = .ok (ss, hs))
    (hex : dst.db.profiles.any (·.name == P') = true)
    (hdst : resolve dst.db dst.h P' = .ok (sd, hd))
    (hne : liveAbs now sd dst.db ≠ []) :
    copyProfile page now fault n src dst P P' = ({ src with h := hs }, { dst with h := hd }, n, .error .input) :=
  Lemmas.copy_refuses_nonempty page now fault n src dst P P' ss sd hs hd hsrc hex hdst hne

/-- All-or-nothing per profile (C06 for the import): a `copy_profile` that fails — refused, undecryptable page,
    Duplicate, or a backend fault injected at *any* insert — leaves the target's rows exactly as they were. -/
theorem copy_all_or_nothing (page : Nat) (now : Int) (fault : Option Nat) (n : Nat) (src dst : StoreSt) (P P' : String)
    (src' dst' : StoreSt) (n' : Nat) (e : Err)
    (h : copyProfile page now fault n src dst P P' = (src', dst', n', .error e)) :
    dst'.db.items = dst.db.items ∧ dst'.default = dst.default ∧ src'.db = src.db :=
  Lemmas.copy_all_or_nothing page now fault n src dst P P' src' dst' n' e h

/-- The copy does succeed when the source profile exists, its live rows are under its key with pairwise distinct
    identities (the unique index), and the target profile holds no row. -/
theorem copy_into_fresh_succeeds (page : Nat) (now : Int) (n : Nat) (src dst : StoreSt) (P P' : String)
    (ss : Sess) (hs : Handle) (hsrc : resolve src.db src.h P = .ok (ss, hs))
    (hkey : ∀ it ∈ src.db.items, it.pid = ss.pid → live now it = true → it.key = ss.key)
    (huniq : Lemmas.DistinctIdents (liveAbs now ss src.db)) (hsorted : Sorted src.db)
    (hfresh : ∀ sd hd, resolve (Lemmas.afterCreate dst P').db (Lemmas.afterCreate dst P').h P' = .ok (sd, hd) →
      ∀ it ∈ dst.db.items, it.pid ≠ sd.pid) :
    ∃ dst' n', copyProfile page now none n src dst P P' = ({ src with h := hs }, dst', n', .ok ()) :=
  Lemmas.copy_into_fresh_succeeds page now n src dst P P' ss hs hsrc hkey huniq hsorted hfresh

/-- The logical content of the copy does not depend on the target: two successful copies of one source profile into
    any two targets (any key method, pass key, profile keys, ids, names) hold the same records. -/
theorem copy_independent_of_target_method (page : Nat) (now : Int) (n₁ n₂ : Nat) (src dst₁ dst₂ : StoreSt) (P P₁ P₂ : String)
    (s₁ d₁ s₂ d₂ : StoreSt) (m₁ m₂ : Nat) (hsorted : Sorted src.db)
    (h₁ : copyProfile page now none n₁ src dst₁ P P₁ = (s₁, d₁, m₁, .ok ()))
    (h₂ : copyProfile page now none n₂ src dst₂ P P₂ = (s₂, d₂, m₂, .ok ())) :
    ∃ sd₁ sd₂ : Sess, resolve d₁.db d₁.h P₁ = .ok (sd₁, d₁.h) ∧ resolve d₂.db d₂.h P₂ = .ok (sd₂, d₂.h) ∧
      liveAbs now sd₁ d₁.db = liveAbs now sd₂ d₂.db :=
  Lemmas.copy_independent_of_target_method page now n₁ n₂ src dst₁ dst₂ P P₁ P₂ s₁ d₁ s₂ d₂ m₁ m₂ hsorted h₁ h₂

/-- Whole-store copy (`copy_store` / `copy_to`), the part proved for the loop as a whole: source untouched, default
    profile carried.  (Per profile: `copy_profile_exact`; all profiles at the end of the loop: `copy_store_all_profiles`.) -/
theorem copy_store_default_carried (page : Nat) (now : Int) (keyBase : Nat) (src src' dst' : StoreSt) (existing : Option StoreSt)
    (h : copyStore page now none keyBase src existing true = (src', some dst', .ok ())) :
    src'.db = src.db ∧ src'.default = src.default ∧ dst'.default = src.default :=
  Lemmas.copy_store_default_carried page now keyBase src src' dst' existing h

/-- One successful iteration of the `copy_to` loop preserves the invariant of the *target* (`Lemmas.TargetInv`: the
    handle's key cache agrees with the `profiles` table, names and ids are unique, every row belongs to a profile, no
    row expires) and the coherence of the source's cache; it adds at most the name `P` to the target's table; the
    target profile `P` ends with the source profile's live records under its own key; every profile with another id
    keeps its rows.  This is the loop invariant the whole-store theorem rests on. -/
theorem copy_loop_step_invariant (page : Nat) (now : Int) (n : Nat) (src dst : StoreSt) (P : String)
    (src' dst' : StoreSt) (n' : Nat) (hsorted : Sorted src.db) (hcs : CacheCoherent src.db src.h) (hI : Lemmas.TargetInv dst)
    (h : copyProfile page now none n src dst P P = (src', dst', n', .ok ())) :
    src'.db = src.db ∧ CacheCoherent src.db src'.h ∧ Lemmas.TargetInv dst' ∧
    (∀ name, name ∈ dst'.db.profiles.map (·.name) ↔ name ∈ dst.db.profiles.map (·.name) ∨ name = P) ∧
    (∀ q ∈ dst.db.profiles, q ∈ dst'.db.profiles) ∧
    ∃ ss sd : Sess, (⟨ss.pid, P, ss.key⟩ : Profile) ∈ src.db.profiles ∧ (⟨sd.pid, P, sd.key⟩ : Profile) ∈ dst'.db.profiles ∧
      abs sd dst'.db = liveAbs now ss src.db ∧ KeyCoherent sd dst'.db ∧
      (∀ s : Sess, s.pid ≠ sd.pid → abs s dst'.db = abs s dst.db ∧ (KeyCoherent s dst.db → KeyCoherent s dst'.db)) :=
  Lemmas.copyProfile_step page now n src dst P src' dst' n' hsorted hcs hI h

/-- the freshly provisioned target satisfies the invariant -/
theorem provision_target_invariant (keyBase : Nat) (profile : String) : Lemmas.TargetInv (provision keyBase profile) :=
  Lemmas.provision_targetInv keyBase profile

/-- Whole-store copy, general form (nothing assumed about `config.default_profile`): after a successful `copy_store` /
    `copy_to` onto a freshly provisioned target (`existing = none`, or `recreate = true`), for any number of profiles,
    any record counts and any page size:
    * the source's tables and default profile are untouched, its key cache stays coherent;
    * the target has the source's default profile name;
    * the target's key cache is coherent with its `profiles` table, names and ids are unique, every row belongs to a
      profile of the table, no row carries an expiry;
    * the target's profile names are the source's profile names *plus the source's default profile name*;
    * every source profile `p` — which the source's own handle resolves to `(p.id, p.key)` — resolves through the
      target's own handle to a session whose whole content (`abs`) is exactly the live content of `p` in the source, in
      order, every row of it under the target session's key;
    * when the default profile name is dangling, the extra target profile is empty.
    Hypotheses: `Sorted` (row ids increase in creation order — `run_sorted`; the scan is `ORDER BY id`), `ProfilesWF`
    (UNIQUE(name), PRIMARY KEY(id) of `profiles`), `CacheCoherent` for the *source* handle (C07: what every reachable
    handle satisfies after the repair of D7; without it a stale cache entry makes `copy_profile` read another profile's
    rows, e.g. cache `[("a", 2, k₂)]` over profiles `[⟨1,"a",k₁⟩, ⟨2,"b",k₂⟩]`). -/
theorem copy_store_all_profiles_gen (page : Nat) (now : Int) (keyBase : Nat) (src src' dst' : StoreSt)
    (existing : Option StoreSt) (recreate : Bool) (hfresh : existing = none ∨ recreate = true)
    (hs : Sorted src.db) (hwf : ProfilesWF src.db) (hcc : CacheCoherent src.db src.h)
    (h : copyStore page now none keyBase src existing recreate = (src', some dst', .ok ())) :
    (src'.db = src.db ∧ src'.default = src.default ∧ CacheCoherent src.db src'.h) ∧ dst'.default = src.default ∧
    (CacheCoherent dst'.db dst'.h ∧ ProfilesWF dst'.db ∧ FkInv dst'.db ∧ ∀ it ∈ dst'.db.items, it.expiry = none) ∧
    (∀ name, name ∈ dst'.db.profiles.map (·.name) ↔ name ∈ src.db.profiles.map (·.name) ∨ name = src.default) ∧
    (∀ p ∈ src.db.profiles, ∃ (hs' : Handle) (sd : Sess) (hd : Handle),
      resolve src.db src.h p.name = .ok (⟨p.id, p.key⟩, hs') ∧
      resolve dst'.db dst'.h p.name = .ok (sd, hd) ∧
      abs sd dst'.db = liveAbs now ⟨p.id, p.key⟩ src.db ∧ KeyCoherent sd dst'.db) ∧
    (src.default ∉ src.db.profiles.map (·.name) → ∃ (sd : Sess) (hd : Handle),
      resolve dst'.db dst'.h src.default = .ok (sd, hd) ∧ abs sd dst'.db = []) :=
  Lemmas.copy_store_all_profiles_gen page now keyBase src src' dst' existing recreate hfresh hs hwf hcc h

/-- **copy_store_all_profiles**: the same when the source's default profile is one of its profiles (the hypothesis
    `CopyStoreSameProfiles` lacks, see `copy_store_same_profiles_refuted`): the target's profile names are *exactly* the
    source's (a permutation without duplicates), the default profile is the same, and every profile holds exactly the
    source profile's live records. -/
theorem copy_store_all_profiles (page : Nat) (now : Int) (keyBase : Nat) (src src' dst' : StoreSt)
    (existing : Option StoreSt) (recreate : Bool) (hfresh : existing = none ∨ recreate = true)
    (hs : Sorted src.db) (hwf : ProfilesWF src.db) (hcc : CacheCoherent src.db src.h)
    (hdef : src.default ∈ src.db.profiles.map (·.name))
    (h : copyStore page now none keyBase src existing recreate = (src', some dst', .ok ())) :
    (src'.db = src.db ∧ src'.default = src.default ∧ CacheCoherent src.db src'.h) ∧ dst'.default = src.default ∧
    (CacheCoherent dst'.db dst'.h ∧ ProfilesWF dst'.db ∧ FkInv dst'.db ∧ ∀ it ∈ dst'.db.items, it.expiry = none) ∧
    (∀ name, name ∈ dst'.db.profiles.map (·.name) ↔ name ∈ src.db.profiles.map (·.name)) ∧
    (dst'.db.profiles.map (·.name)).Perm (src.db.profiles.map (·.name)) ∧
    (∀ p ∈ src.db.profiles, ∃ (hs' : Handle) (sd : Sess) (hd : Handle),
      resolve src.db src.h p.name = .ok (⟨p.id, p.key⟩, hs') ∧
      resolve dst'.db dst'.h p.name = .ok (sd, hd) ∧
      abs sd dst'.db = liveAbs now ⟨p.id, p.key⟩ src.db ∧ KeyCoherent sd dst'.db) :=
  Lemmas.copy_store_all_profiles page now keyBase src src' dst' existing recreate hfresh hs hwf hcc hdef h

/-- FALSE on the current code: "the target has exactly the source's profiles". -/
def CopyStoreSameProfiles : Prop := Lemmas.CopyStoreSameProfiles

theorem copy_store_same_profiles_refuted : ¬ CopyStoreSameProfiles := Lemmas.copy_store_same_profiles_refuted

/-- FALSE on the current code: "an import into a profile without live records goes through". -/
def ImportIntoLogicallyEmptySucceeds : Prop := Lemmas.ImportIntoLogicallyEmptySucceeds

theorem import_into_logically_empty_refuted : ¬ ImportIntoLogicallyEmptySucceeds :=
  Lemmas.import_into_logically_empty_refuted

end Askar.Copy

namespace Askar.Indy
open Askar.Store Askar.Copy

/-- Migration of an Indy wallet, at the level of decrypted rows: for every correct AEAD, every key set, every choice of
    nonces and per-item keys (`RowEncodes`), any number of records with both kinds of tags — the migrated store has the
    single profile named after the wallet (id 1, the default profile, resolvable from the returned handle), and that
    profile's records are exactly the wallet's records (kind Item, type ↦ category, encrypted tags then plaintext
    tags), all readable under the new profile key and none expiring. -/
theorem migrate_rows_exact (A : Aead) (hA : A.Correct) (utf8dec : Bytes → Option String)
    (unwrapKeys : Bytes → Option Keys) (keys : Keys) (pkey : Nat)
    (w : Wallet) (walletName : String) (recs : List Lemmas.Rec)
    (hU : ∀ r ∈ recs, Lemmas.RecDecodes utf8dec r)
    (hfresh : w.migrated = false) (hkeys : unwrapKeys w.keysEnc = some keys)
    (henc : Lemmas.Forall2 (Lemmas.RowEncodes A keys) w.rows recs)
    (huniq : recs.Pairwise (fun a b => ¬(a.typ = b.typ ∧ a.name = b.name))) :
    ∃ st : StoreSt, migrate A utf8dec unwrapKeys pkey w walletName = .ok st ∧
      abs ⟨1, pkey⟩ st.db = recs.map Lemmas.Rec.toEntry ∧
      (∀ it ∈ st.db.items, it.key = pkey ∧ it.expiry = none) ∧
      st.db.profiles = [⟨1, walletName, pkey⟩] ∧ st.default = walletName ∧
      resolve st.db st.h walletName = .ok (⟨1, pkey⟩, st.h) :=
  Lemmas.migrate_rows_exact A hA utf8dec unwrapKeys keys pkey w walletName recs hU hfresh hkeys henc huniq

/-- `decrypt_merged` never panics on a value of at least 12 bytes, and does panic (`split_at`) below that. -/
theorem decrypt_merged_panics_iff_short (A : Aead) (key v : Bytes) :
    decryptMerged A key v = .error .panic ↔ v.length < nonceLen := by
  unfold decryptMerged
  split
  · simp [*]
  · split
    · simp [*]
    · split <;> simp [*]

/-! ### Failure semantics of `migrate` on the wallet file (`migrateFile`; `g` = the whole run is one transaction) -/

/-- "A failed migration leaves the file exactly as it was" for the variant `g` of `migrate`, for every AEAD, decoder,
    key primitives, injected fault, arguments and file. -/
def MigrateAllOrNothingBy (g : Bool) : Prop :=
  ∀ (A : Aead) (utf8dec : Bytes → Option String) (P : KeyPrims) (fault : Option Nat) (a : Args) (f f' : File) (e : Err),
    migrateFile g A utf8dec P fault a f = (f', .error e) → f' = f

/-- … and for the CURRENT tree (`migrateCurrent` follows `migrateAtomic`). -/
def MigrateAllOrNothing : Prop :=
  ∀ (A : Aead) (utf8dec : Bytes → Option String) (P : KeyPrims) (fault : Option Nat) (a : Args) (f f' : File) (e : Err),
    migrateCurrent A utf8dec P fault a f = (f', .error e) → f' = f

/-- **migrate_all_or_nothing**: when the run is one transaction (no `COMMIT` at the end of `pre_upgrade`, no `BEGIN` at
    the start of `finish_upgrade`), every failure — invalid method, already migrated, `fetch_indy_key` (wrong key,
    wrong method, bad metadata, even the `s[..16]` panic), an undecryptable or too short cell, a Duplicate, a backend
    fault at any row deletion — leaves the file as it was. -/
theorem migrate_all_or_nothing : MigrateAllOrNothingBy true :=
  fun A u P fault a f f' e h => Lemmas.migrate_all_or_nothing_true A u P fault a f f' e h

/-- Hence it holds on the tree at hand whenever the source is the single-transaction variant (it is, since 25cbe17). -/
theorem migrate_all_or_nothing_current (hg : migrateAtomic = true) : MigrateAllOrNothing := by
  intro A u P fault a f f' e h
  unfold migrateCurrent at h; rw [hg] at h
  exact migrate_all_or_nothing A u P fault a f f' e h

/-- Without the single transaction it is FALSE (defect D41, found by this check, repaired in 25cbe17): `pre_upgrade`
    committed before the wallet key was looked at.  Witness: the empty wallet whose `metadata` table has no row, method "RAW" — the run fails (Backend) and the file has
    the Askar tables next to `metadata`. -/
theorem migrate_not_all_or_nothing_without_single_transaction : ¬ MigrateAllOrNothingBy false := by
  intro h
  have hk : Kdf.parse "RAW" = some .raw := by decide
  have := h toyAead (fun _ => none) ⟨fun _ => none, fun _ _ _ => [], fun _ => none⟩ none ⟨"RAW", "", "w", 1⟩ {}
    { upgraded := true } .backend
    (by rw [Lemmas.key_failure false _ _ _ none ⟨"RAW", "", "w", 1⟩ {} .raw .backend hk rfl rfl rfl]; rfl)
  cases this

/-- Either way the verdict on the tree at hand is decided by the variant read from the source. -/
theorem migrate_all_or_nothing_status :
    (migrateAtomic = true ∧ MigrateAllOrNothing) ∨ (migrateAtomic = false ∧ ¬ MigrateAllOrNothing) := by
  cases hg : migrateAtomic with
  | true => exact Or.inl ⟨rfl, migrate_all_or_nothing_current hg⟩
  | false =>
    refine Or.inr ⟨rfl, fun h => migrate_not_all_or_nothing_without_single_transaction ?_⟩
    intro A u P fault a f f' e hm
    have := h A u P fault a f f' e
    unfold migrateCurrent at this; rw [hg] at this; exact this hm

/-- What does hold for BOTH variants when a run fails: it is refused before anything is written (invalid method name:
    Input; already migrated or half migrated: Backend), or it failed after `pre_upgrade` — then the variant without the single transaction leaves
    a file that still has `metadata` with its value, whose pending rows are a suffix of the wallet's (no unmigrated row
    is lost), and the error is that of `fetch_indy_key` or of `update_items`. -/
theorem migrate_failure_partial (g : Bool) (A : Aead) (utf8dec : Bytes → Option String) (P : KeyPrims)
    (fault : Option Nat) (a : Args) (f f' : File) (e : Err) (h : migrateFile g A utf8dec P fault a f = (f', .error e)) :
    f' = f ∨ (g = false ∧ f.hasMeta = true ∧ f.upgraded = false ∧ f'.hasMeta = true ∧ f'.upgraded = true ∧
              f'.mval = f.mval ∧ f'.pending <:+ f.pending) := by
  rcases Lemmas.migrateFile_cases g A utf8dec P fault a f with ⟨e', h1, _⟩ | ⟨kdf, cur, e', _, hm, hu, h2, c1, c2, c3, c4, _⟩ | ⟨_, _, _, _, _, _, _, _, h3⟩
  · rw [h1] at h; cases h; exact .inl rfl
  · rw [h2] at h
    cases g with
    | true => simp only [if_true] at h; cases h; exact .inl rfl
    | false =>
      simp only [Bool.false_eq_true, if_false] at h
      cases h
      exact .inr ⟨rfl, hm, hu, c1, c2, c3, c4⟩
  · rw [h3] at h; cases h

/-- A successful run (either variant, any fault position not reached): the file was an un-upgraded wallet, it is now a
    complete Askar store (no `metadata`, no pending row, `version` written) and its tables are what `migrateRows`
    yields — so `migrate_rows_exact` speaks about it. -/
theorem migrate_success_complete (g : Bool) (A : Aead) (utf8dec : Bytes → Option String) (P : KeyPrims)
    (fault : Option Nat) (a : Args) (f f' : File) (h : migrateFile g A utf8dec P fault a f = (f', .ok ())) :
    f.hasMeta = true ∧ f.upgraded = false ∧ f'.isAskar ∧
    ∃ kdf keys, Kdf.parse a.kdf = some kdf ∧ fetchIndyKey A P kdf a.walletKey f.mval = .ok keys ∧
      migrateRows A utf8dec keys a.pkey f.pending { profiles := [⟨1, a.walletName, a.pkey⟩] } = .ok f'.db :=
  Lemmas.migrate_ok_complete g A utf8dec P fault a f f' h

/-- Interrupted run (a fault — or the death of the process — at the deletion of any row) in the single-transaction
    variant: the file is the untouched wallet or a complete Askar store, never a mixture. -/
theorem interrupted_migration_never_mixed (A : Aead) (utf8dec : Bytes → Option String) (P : KeyPrims)
    (fault : Option Nat) (a : Args) (f : File) (hf : ¬ f.isMixed) :
    ¬ (migrateFile true A utf8dec P fault a f).1.isMixed := by
  generalize hr : migrateFile true A utf8dec P fault a f = r
  obtain ⟨f', res⟩ := r
  cases res with
  | error e => rw [migrate_all_or_nothing A utf8dec P fault a f f' e hr]; exact hf
  | ok v =>
    cases v
    have := (migrate_success_complete true A utf8dec P fault a f f' hr).2.2.1
    intro hmix
    have h1 : f'.hasMeta = true := hmix.1
    rw [this.1] at h1
    cases h1

/-- … whereas the variant without the single transaction (before 25cbe17) does produce the mixture (the witness of
    `migrate_not_all_or_nothing_without_single_transaction`), and that file is stuck: see `half_migrated_is_stuck`. -/
theorem interrupted_migration_mixed_current :
    ∃ (f : File) (a : Args), ¬ f.isMixed ∧
      (migrateFile false toyAead (fun _ => none) ⟨fun _ => none, fun _ _ _ => [], fun _ => none⟩ none a f).1.isMixed := by
  have hk : Kdf.parse "RAW" = some .raw := by decide
  refine ⟨{}, ⟨"RAW", "", "w", 1⟩, by simp [File.isMixed], ?_⟩
  rw [Lemmas.key_failure false _ _ _ none ⟨"RAW", "", "w", 1⟩ {} .raw .backend hk rfl rfl rfl]
  simp [File.isMixed]

/-- **wrong_key_refused_wallet_intact** (single-transaction variant): a wallet key or method under which the key
    record does not authenticate — the master key is derivable (`masterKey`), the AEAD says no — is refused with an
    Input error and the wallet file is exactly as before, for every wallet content. -/
theorem wrong_key_refused_wallet_intact (A : Aead) (utf8dec : Bytes → Option String) (P : KeyPrims) (fault : Option Nat)
    (a : Args) (f : File) (kdf : Kdf) (keysEnc : Bytes) (salt : Option Bytes) (master : Bytes)
    (hk : Kdf.parse a.kdf = some kdf) (hm : f.hasMeta = true) (hu : f.upgraded = false)
    (hv : f.mval = .json keysEnc salt) (hs : ∀ s, salt = some s → saltLen ≤ s.length)
    (hmaster : masterKey P kdf a.walletKey (salt.map (·.take saltLen)) = .ok master)
    (hdec : A.dec master (keysEnc.take nonceLen) (keysEnc.drop nonceLen) = none) :
    migrateFile true A utf8dec P fault a f = (f, .error .input) := by
  have := Lemmas.key_failure true A utf8dec P fault a f kdf .input hk hm hu
    (by rw [hv]; exact Lemmas.fetchIndyKey_wrong_key A P kdf a.walletKey keysEnc salt master hs hmaster hdec)
  simpa using this

/-- The same for every failure of `fetch_indy_key`, with its classification: Backend iff the `metadata` table has no
    row, a PANIC iff the stored salt is shorter than 16 bytes (`s[..16]`, whatever the method), Input otherwise (no
    salt for an Argon2i method, raw key not base58 / not 32 bytes / empty, key record shorter than a nonce, not
    authentic, not msgpack). -/
theorem key_failure_refused_wallet_intact (A : Aead) (utf8dec : Bytes → Option String) (P : KeyPrims) (fault : Option Nat)
    (a : Args) (f : File) (kdf : Kdf) (e : Err)
    (hk : Kdf.parse a.kdf = some kdf) (hm : f.hasMeta = true) (hu : f.upgraded = false)
    (hf : fetchIndyKey A P kdf a.walletKey f.mval = .error e) :
    migrateFile true A utf8dec P fault a f = (f, .error e) ∧
    ((e = .backend ∧ f.mval = .noRow) ∨ (e = .panic ∧ ∃ k s, f.mval = .json k (some s) ∧ s.length < saltLen) ∨ e = .input) := by
  refine ⟨by simpa using Lemmas.key_failure true A utf8dec P fault a f kdf e hk hm hu hf, ?_⟩
  exact Lemmas.fetchIndyKey_error A P kdf a.walletKey f.mval e hf

/-- "A wrong key leaves the wallet intact", for the variant `g`: true with the single transaction, FALSE without (D41). -/
def WrongKeyLeavesWalletIntactBy (g : Bool) : Prop :=
  ∀ (A : Aead) (utf8dec : Bytes → Option String) (P : KeyPrims) (a : Args) (f : File) (kdf : Kdf) (e : Err),
    Kdf.parse a.kdf = some kdf → f.hasMeta = true → f.upgraded = false →
    fetchIndyKey A P kdf a.walletKey f.mval = .error e → (migrateFile g A utf8dec P none a f).1 = f

theorem wrong_key_leaves_wallet_intact_single_transaction : WrongKeyLeavesWalletIntactBy true := by
  intro A u P a f kdf e hk hm hu hf
  rw [(key_failure_refused_wallet_intact A u P none a f kdf e hk hm hu hf).1]

/-- what the code did before the repair (`g = false`): the error is the same, the file now has the (empty) Askar tables … -/
theorem wrong_key_current (A : Aead) (utf8dec : Bytes → Option String) (P : KeyPrims) (fault : Option Nat)
    (a : Args) (f : File) (kdf : Kdf) (e : Err)
    (hk : Kdf.parse a.kdf = some kdf) (hm : f.hasMeta = true) (hu : f.upgraded = false)
    (hf : fetchIndyKey A P kdf a.walletKey f.mval = .error e) :
    migrateFile false A utf8dec P fault a f = ({ f with upgraded := true }, .error e) := by
  simpa using Lemmas.key_failure false A utf8dec P fault a f kdf e hk hm hu hf

theorem wrong_key_leaves_wallet_intact_refuted : ¬ WrongKeyLeavesWalletIntactBy false := by
  intro h
  have hk : Kdf.parse "RAW" = some .raw := by decide
  have := h toyAead (fun _ => none) ⟨fun _ => none, fun _ _ _ => [], fun _ => none⟩ ⟨"RAW", "", "w", 1⟩ {} .raw .backend hk rfl rfl rfl
  rw [wrong_key_current _ _ _ none ⟨"RAW", "", "w", 1⟩ {} .raw .backend hk rfl rfl rfl] at this
  cases this

/-- … and **a half-migrated file is stuck**: every later run — the right key included, either variant of the code —
    is refused (Backend: `CREATE TABLE config` fails; Input for an invalid method name) and changes nothing.  With
    `wrong_key_current`: before the repair ONE attempt with a wrong key made the wallet unmigratable; files left in
    that state by the old code stay stuck under the new code too. -/
theorem half_migrated_is_stuck (g : Bool) (A : Aead) (utf8dec : Bytes → Option String) (P : KeyPrims) (fault : Option Nat)
    (a : Args) (f : File) (hu : f.upgraded = true) :
    migrateFile g A utf8dec P fault a f = (f, .error (if (Kdf.parse a.kdf).isSome then .backend else .input)) :=
  Lemmas.half_migrated_refuses g A utf8dec P fault a f hu

/-- Single-transaction variant: after any number of refused attempts the right key still migrates the wallet, and the
    store holds exactly the wallet's records (the statement of `migrate_rows_exact`, now about the file). -/
theorem wrong_then_right_key_migrates (A : Aead) (hA : A.Correct) (utf8dec : Bytes → Option String) (P : KeyPrims)
    (bad : List Args) (a : Args) (f : File) (kdf : Kdf) (keys : Keys) (recs : List Lemmas.Rec)
    (hbad : ∀ b ∈ bad, ∃ e, (migrateFile true A utf8dec P none b f).2 = .error e)
    (hk : Kdf.parse a.kdf = some kdf) (hm : f.hasMeta = true) (hu : f.upgraded = false)
    (hf : fetchIndyKey A P kdf a.walletKey f.mval = .ok keys)
    (hU : ∀ r ∈ recs, Lemmas.RecDecodes utf8dec r)
    (henc : Lemmas.Forall2 (Lemmas.RowEncodes A keys) f.pending recs)
    (huniq : recs.Pairwise (fun x y => ¬(x.typ = y.typ ∧ x.name = y.name))) :
    bad.foldl (fun f b => (migrateFile true A utf8dec P none b f).1) f = f ∧
    ∃ f' : File, migrateFile true A utf8dec P none a f = (f', .ok ()) ∧ f'.isAskar ∧
      abs ⟨1, a.pkey⟩ f'.db = recs.map Lemmas.Rec.toEntry ∧
      (∀ it ∈ f'.db.items, it.key = a.pkey ∧ it.expiry = none) ∧
      f'.db.profiles = [⟨1, a.walletName, a.pkey⟩] := by
  constructor
  · induction bad with
    | nil => rfl
    | cons b rest ih =>
      obtain ⟨e, he⟩ := hbad b (by simp)
      have : (migrateFile true A utf8dec P none b f).1 = f :=
        migrate_all_or_nothing A utf8dec P none b f _ e (Prod.ext rfl he)
      simp only [List.foldl_cons, this]
      exact ih (fun b' hb' => hbad b' (by simp [hb']))
  · obtain ⟨f', h1, h2, _, h4, h5, h6, _⟩ := Lemmas.migrate_file_exact true A hA utf8dec P a f kdf keys recs hk hm hu hf hU henc huniq
    exact ⟨f', h1, h2, h4, h5, h6⟩

/-- **migrate_idempotence_or_refusal**: what the code does on a second run, exactly — it is a REFUSAL, not a no-op
    success: after a successful migration every further `connect`+`migrate` on the file, with any arguments (right or
    wrong key, any method), either variant, fails with Backend ("Database is already migrated"; Input if the method name
    is invalid — `connect` fails before the file is opened) and leaves the store unchanged. -/
theorem migrate_idempotence_or_refusal (g : Bool) (A : Aead) (utf8dec : Bytes → Option String) (P : KeyPrims)
    (fault : Option Nat) (a : Args) (f f' : File) (h : migrateFile g A utf8dec P fault a f = (f', .ok ())) :
    ∀ (g' : Bool) (A' : Aead) (utf8dec' : Bytes → Option String) (P' : KeyPrims) (fault' : Option Nat) (a' : Args),
      migrateFile g' A' utf8dec' P' fault' a' f' =
        (f', .error (if (Kdf.parse a'.kdf).isSome then .backend else .input)) := by
  intro g' A' u' P' fault' a'
  have := (migrate_success_complete g A utf8dec P fault a f f' h).2.2.1
  exact Lemmas.migrated_refuses g' A' u' P' fault' a' f' this.1

/-- The same refusal for any file without a `metadata` table — an Askar store that never was a wallet, an empty
    database: nothing is written. -/
theorem not_a_wallet_refused (g : Bool) (A : Aead) (utf8dec : Bytes → Option String) (P : KeyPrims) (fault : Option Nat)
    (a : Args) (f : File) (hm : f.hasMeta = false) :
    migrateFile g A utf8dec P fault a f = (f, .error (if (Kdf.parse a.kdf).isSome then .backend else .input)) :=
  Lemmas.migrated_refuses g A utf8dec P fault a f hm

/-- The complete run on the file (either variant): the statement of `migrate_rows_exact` with the key path
    (`fetch_indy_key`) and the schema swap spelled out. -/
theorem migrate_file_exact (g : Bool) (A : Aead) (hA : A.Correct) (utf8dec : Bytes → Option String) (P : KeyPrims)
    (a : Args) (f : File) (kdf : Kdf) (keys : Keys) (recs : List Lemmas.Rec)
    (hk : Kdf.parse a.kdf = some kdf) (hm : f.hasMeta = true) (hu : f.upgraded = false)
    (hf : fetchIndyKey A P kdf a.walletKey f.mval = .ok keys)
    (hU : ∀ r ∈ recs, Lemmas.RecDecodes utf8dec r)
    (henc : Lemmas.Forall2 (Lemmas.RowEncodes A keys) f.pending recs)
    (huniq : recs.Pairwise (fun x y => ¬(x.typ = y.typ ∧ x.name = y.name))) :
    ∃ f' : File, migrateFile g A utf8dec P none a f = (f', .ok ()) ∧ f'.isAskar ∧
      f'.config.map (·.1) = ["default_profile", "key", "version"] ∧
      abs ⟨1, a.pkey⟩ f'.db = recs.map Lemmas.Rec.toEntry ∧
      (∀ it ∈ f'.db.items, it.key = a.pkey ∧ it.expiry = none) ∧
      f'.db.profiles = [⟨1, a.walletName, a.pkey⟩] ∧
      resolve (f'.store a.walletName a.pkey).db (f'.store a.walletName a.pkey).h a.walletName =
        .ok (⟨1, a.pkey⟩, (f'.store a.walletName a.pkey).h) :=
  Lemmas.migrate_file_exact g A hA utf8dec P a f kdf keys recs hk hm hu hf hU henc huniq

/-- Observation outside the property's domain (a damaged wallet), a fact about the model, which follows the code:
    `s[..16]` on `master_key_salt` — `fetch_indy_key` panics exactly when the stored salt is shorter than 16 bytes, for
    every method (a RAW wallet never uses the salt), key and key record.  (With the single transaction the panic, too,
    leaves the wallet as it was: `key_failure_refused_wallet_intact`.) -/
theorem short_salt_panics_iff (A : Aead) (P : KeyPrims) (kdf : Kdf) (walletKey : String) (m : Meta) :
    fetchIndyKey A P kdf walletKey m = .error .panic ↔ ∃ k s, m = .json k (some s) ∧ s.length < saltLen :=
  Lemmas.fetchIndyKey_panics_iff A P kdf walletKey m

/-- Observation outside the property's domain (a damaged wallet), a fact about the model: a cell cut below nonce + tag
    never decrypts: below 12 bytes `split_at` panics, from 12 to 27 bytes the error is
    Input ("invalid size"), never a success — for an AEAD that refuses inputs shorter than its tag. -/
theorem short_cell_classified (A : Aead) (key v : Bytes) (hA : ∀ k n c, c.length < tagLen → A.dec k n c = none)
    (hv : v.length < nonceLen + tagLen) :
    decryptMerged A key v = .error (if v.length < nonceLen then .panic else .input) := by
  unfold decryptMerged
  by_cases h : v.length < nonceLen
  · simp [h]
  · have hd : (v.drop nonceLen).length < tagLen := by simp only [List.length_drop]; omega
    simp only [h, if_false, hA _ _ _ hd, hv, if_true]

end Askar.Indy

/-! ### Non-vacuity: the hypotheses are satisfiable -/

namespace Askar.Copy
open Askar.Store

/-- a source with one live record in profile "p", copied into a freshly provisioned target -/
def exSrc : StoreSt :=
  { db := { items := [{ id := 1, pid := 1, key := 5, kind := 2, cat := "c", name := "n", value := [1], tags := [], expiry := none }],
            profiles := [⟨1, "p", 5⟩] },
    h := { cache := [("p", 1, 5)], nextKey := 6 }, default := "p" }

example : Sorted exSrc.db := by simp [Sorted, exSrc]

/-- `copy_into_fresh_succeeds` applies to it (so the hypothesis of `copy_profile_exact` is met by a real run) -/
example : ∃ dst' n', copyProfile 32 0 none 0 exSrc (provision 9 "p") "p" "p" = ({ exSrc with h := exSrc.h }, dst', n', .ok ()) := by
  apply copy_into_fresh_succeeds 32 0 0 exSrc (provision 9 "p") "p" "p" ⟨1, 5⟩ exSrc.h
  · simp [resolve, cacheGet, exSrc]
  · intro it hit _ _; simp [exSrc] at hit; subst hit; rfl
  · simp [Lemmas.DistinctIdents, liveAbs, exSrc, live]
  · simp [Sorted, exSrc]
  · intro sd hd _ it hit; simp [provision] at hit

/-- `copy_refuses_nonempty`: hypotheses met by copying the store onto itself -/
example : copyProfile 32 0 none 0 exSrc exSrc "p" "p" = ({ exSrc with h := exSrc.h }, { exSrc with h := exSrc.h }, 0, .error .input) := by
  apply copy_refuses_nonempty 32 0 none 0 exSrc exSrc "p" "p" ⟨1, 5⟩ ⟨1, 5⟩
  · simp [resolve, cacheGet, exSrc]
  · simp [exSrc]
  · simp [resolve, cacheGet, exSrc]
  · simp [liveAbs, exSrc, live]

/-- `copy_store_all_profiles`: a source with two profiles and one record each (default profile "p"; the handle has
    only "p" cached, so "q" goes through the table), page size 1 -/
def exSrc2 : StoreSt :=
  { db := { items := [{ id := 1, pid := 1, key := 5, kind := 2, cat := "c", name := "n", value := [1], tags := [], expiry := none },
                      { id := 2, pid := 2, key := 6, kind := 2, cat := "c", name := "n", value := [2], tags := [], expiry := none }],
            profiles := [⟨1, "p", 5⟩, ⟨2, "q", 6⟩] },
    h := { cache := [("p", 1, 5)], nextKey := 7 }, default := "p" }

/-- what `copy_store` leaves at the target (keys from `keyBase = 9`) -/
def exDst2 : StoreSt :=
  { db := { items := [{ id := 1, pid := 1, key := 9, kind := 2, cat := "c", name := "n", value := [1], tags := [], expiry := none },
                      { id := 2, pid := 2, key := 10, kind := 2, cat := "c", name := "n", value := [2], tags := [], expiry := none }],
            profiles := [⟨1, "p", 9⟩, ⟨2, "q", 10⟩] },
    h := { cache := [("q", 2, 10), ("p", 1, 9)], nextKey := 11 }, default := "p" }

theorem exSrc2_list : listProfiles exSrc2.db = ["p", "q"] := by
  simp only [listProfiles, exSrc2, List.map_cons, List.map_nil, List.foldr_cons, List.foldr_nil, insertName,
    Askar.Wql.Lemmas.utf8_eq]
  decide

/-- the run succeeds: the success hypothesis of `copy_store_all_profiles` is met by a real run -/
theorem exSrc2_copy : copyStore 1 0 none 9 exSrc2 none true =
    ({ exSrc2 with h := { cache := [("q", 2, 6), ("p", 1, 5)], nextKey := 7 } }, some exDst2, .ok ()) := by
  simp only [copyStore, exSrc2_list]
  simp [copyLoop, copyProfile, copyInto, resolve, cacheGet, cachePut, createProfile, provision, exSrc2, exDst2, doCount,
    doScan, selectRows, decryptRows, decryptRow, sortById, insertById, window, batches, drainScan, importScan, importRows,
    doInsert, nextId, Item.inScope, Item.sameIdent, live, matchFilter, matchTags]

/-- … and so are the other hypotheses -/
example : Sorted exSrc2.db ∧ ProfilesWF exSrc2.db ∧ CacheCoherent exSrc2.db exSrc2.h ∧
    exSrc2.default ∈ exSrc2.db.profiles.map (·.name) := by
  refine ⟨by simp [Sorted, exSrc2], by simp [ProfilesWF, exSrc2], ?_, by simp [exSrc2]⟩
  intro name pid key hg
  simp only [exSrc2, cacheGet, List.find?_cons, List.find?_nil] at hg
  split at hg
  · rename_i hn
    simp only [beq_iff_eq] at hn
    simp only [Option.map_some, Option.some.injEq, Prod.mk.injEq] at hg
    obtain ⟨rfl, rfl⟩ := hg
    subst hn
    simp [exSrc2]
  · cases hg

/-- the conclusion is not trivially true: both target profiles are non-empty and different -/
example : abs ⟨1, 9⟩ exDst2.db = [⟨2, "c", "n", [1], []⟩] ∧ abs ⟨2, 10⟩ exDst2.db = [⟨2, "c", "n", [2], []⟩] := by
  simp [abs, exDst2, toEntry]

/-- the dangling-default case of `copy_store_all_profiles_gen` is met by a real run too (the witness of
    `copy_store_same_profiles_refuted`): no profile in the source, default profile "a" -/
example : copyStore 32 0 none 7 { db := {}, h := {}, default := "a" } none true =
    ({ db := {}, h := {}, default := "a" }, some (provision 7 "a"), .ok ()) := rfl

end Askar.Copy

namespace Askar.Indy
open Askar.Store Askar.Copy Lemmas

/-- a correct AEAD exists -/
example : toyAead.Correct := toyAead_correct

/-- a wallet with one record carrying one tag of each kind, encoded with the toy AEAD, a 32-byte item key and
    12-byte nonces; all strings empty so that the decoder fact is checkable (`utf8 "" = []`) -/
example : ∃ (w : Wallet) (keys : Keys) (recs : List Rec) (dec : Bytes → Option String),
    recs ≠ [] ∧ (∀ r ∈ recs, RecDecodes dec r) ∧ w.migrated = false ∧
    Forall2 (RowEncodes toyAead keys) w.rows recs ∧
    recs.Pairwise (fun a b => ¬(a.typ = b.typ ∧ a.name = b.name)) := by
  let n12 : Bytes := List.replicate 12 0
  let ik : Bytes := List.replicate 32 9
  let keys : Keys := ⟨[1], [2], [3], [4], [5]⟩
  let sealed (k m : Bytes) : Bytes := n12 ++ toyAead.enc k n12 m
  have hs : ∀ k m, Sealed toyAead k m (sealed k m) := fun k m => ⟨n12, by simp [n12, nonceLen], rfl⟩
  have hu : utf8 "" = [] := by simp [utf8]
  refine ⟨{ rows := [{ id := 1, typ := sealed [1] [], name := sealed [2] [], value := some (sealed ik [7, 7]), key := sealed [3] ik,
                        tagsEnc := [(sealed [4] [], sealed [5] [])], tagsPlain := [(sealed [4] [], [])] }] },
          keys, [⟨"", "", [7, 7], [("", "")], [("", "")]⟩], (fun b => if b = [] then some "" else none), by simp, ?_, rfl, ?_, by simp⟩
  · intro r hr
    simp only [List.mem_singleton] at hr
    subst hr
    simp [RecDecodes, TagsDecode, Decodes, hu]
  · refine .cons ⟨?_, ?_, ⟨ik, sealed ik [7, 7], by simp [ik, itemKeyLen], hs _ _, rfl, hs _ _⟩, ?_, ?_⟩ .nil
    · rw [hu]; exact hs _ _
    · rw [hu]; exact hs _ _
    · exact .cons ⟨by simp only [hu]; exact hs _ _, by simp only [if_true, hu]; exact hs _ _⟩ .nil
    · exact .cons ⟨by simp only [hu]; exact hs _ _, by simp [hu]⟩ .nil

/-! #### non-vacuity of the failure theorems -/

/-- the driver's AEAD (lengths of ChaCha20-Poly1305) is correct, and refuses inputs shorter than its tag (the
    hypothesis of `short_cell_classified`) -/
example : macAead.Correct := macAead_correct
example : ∀ k n c, c.length < tagLen → macAead.dec k n c = none := by
  intro k n c h; simp [macAead, h]

/-- toy key primitives: the raw key "k" denotes the master key [1], every other string none; one key record -/
def exPrims : KeyPrims :=
  ⟨fun s => if s = "k" then some [1] else none, fun _ _ _ => [2], fun b => if b = [7] then some ⟨[1], [2], [3], [4], [5]⟩ else none⟩

/-- a RAW wallet without records whose key record is sealed under [1] -/
def exWallet : File := { mval := .json (List.replicate 12 0 ++ toyAead.enc [1] (List.replicate 12 0) [7]) none }

theorem exWallet_key : fetchIndyKey toyAead exPrims .raw "k" exWallet.mval = .ok ⟨[1], [2], [3], [4], [5]⟩ := by
  have h0 : ("k" = "") = False := by decide
  simp [fetchIndyKey, exWallet, masterKey, exPrims, nonceLen, toyAead, h0]

/-- the right key migrates it (hypothesis of `migrate_idempotence_or_refusal` and of `migrate_success_complete`) … -/
example : ∃ f', migrateFile false toyAead (fun _ => none) exPrims none ⟨"RAW", "k", "w", 1⟩ exWallet = (f', .ok ()) :=
  ⟨_, Lemmas.migrate_complete false toyAead _ exPrims none ⟨"RAW", "k", "w", 1⟩ exWallet .raw _ [] _ (by decide) rfl rfl exWallet_key rfl⟩

/-- … a master key that is not the wallet's meets the hypotheses of `wrong_key_refused_wallet_intact` (key "j" denotes
    the master key [9] under these primitives) -/
example : migrateFile true toyAead (fun _ => none)
    ⟨fun s => if s = "j" then some [9] else none, fun _ _ _ => [2], fun _ => none⟩ none ⟨"RAW", "j", "w", 1⟩ exWallet =
    (exWallet, .error .input) := by
  have h0 : ("j" = "") = False := by decide
  apply wrong_key_refused_wallet_intact toyAead _ _ none ⟨"RAW", "j", "w", 1⟩ exWallet .raw _ none [9] (by decide) rfl rfl rfl
  · intro s hs; cases hs
  · simp [masterKey, h0]
  · simp [toyAead, nonceLen, exWallet]

/-- … and the failing run of `migrate_failure_partial` / `wrong_key_current` exists on the current variant: key "x" is
    no raw key → Input, the file is left half migrated, and (`half_migrated_is_stuck`) the right key is refused too -/
example : migrateFile false toyAead (fun _ => none) exPrims none ⟨"RAW", "x", "w", 1⟩ exWallet =
      ({ exWallet with upgraded := true }, .error .input) ∧
    migrateFile false toyAead (fun _ => none) exPrims none ⟨"RAW", "k", "w", 1⟩ { exWallet with upgraded := true } =
      ({ exWallet with upgraded := true }, .error .backend) := by
  have hk : Kdf.parse "RAW" = some .raw := by decide
  have h0 : ("x" = "") = False := by decide
  have h1 : ("x" = "k") = False := by decide
  refine ⟨wrong_key_current toyAead _ exPrims none ⟨"RAW", "x", "w", 1⟩ exWallet .raw .input hk rfl rfl ?_, ?_⟩
  · simp [fetchIndyKey, exWallet, masterKey, exPrims, h0, h1]
  · have := half_migrated_is_stuck false toyAead (fun _ => none) exPrims none ⟨"RAW", "k", "w", 1⟩ { exWallet with upgraded := true } rfl
    simpa [hk] using this

/-- `short_salt_panics_iff`: a 15-byte salt on a RAW wallet -/
example : fetchIndyKey toyAead exPrims .raw "k" (.json [] (some (List.replicate 15 0))) = .error .panic := by
  simp [fetchIndyKey, saltLen]

end Askar.Indy
