//! Declarations of the `extern "C"` entry points of aries-askar (linked from the rlib) and the
//! callback plumbing: every callback invocation is recorded per `cb_id`.
#![allow(dead_code)]
use aries_askar as _; // make sure the crate (and its #[no_mangle] symbols) is linked
use once_cell::sync::Lazy;
use std::collections::HashMap;
use std::os::raw::{c_char, c_void};
use std::sync::atomic::{AtomicI64, Ordering};
use std::sync::{Condvar, Mutex};
use std::time::{Duration, Instant};

#[repr(C)]
#[derive(Clone, Copy, Debug, PartialEq, Eq)]
pub struct H(pub usize);

#[repr(C)]
#[derive(Clone, Copy, Debug, PartialEq, Eq)]
pub struct P(pub *const u8);

#[repr(C)]
#[derive(Clone, Copy)]
pub struct ByteBuf {
    pub len: i64,
    pub data: *const u8,
}

#[repr(C)]
#[derive(Clone, Copy)]
pub struct SecretBuf {
    pub len: i64,
    pub data: *mut u8,
}

#[repr(C)]
#[derive(Clone, Copy, Debug, Default, PartialEq, Eq)]
pub struct AeadParams {
    pub nonce_length: i32,
    pub tag_length: i32,
}

#[repr(C)]
#[derive(Clone, Copy)]
pub struct EncryptedBuf {
    pub buffer: SecretBuf,
    pub tag_pos: i64,
    pub nonce_pos: i64,
}

pub type EnabledCb = extern "C" fn(context: *const c_void, level: i32) -> i8;
pub type LogCb = extern "C" fn(context: *const c_void, level: i32, target: *const c_char, message: *const c_char, module_path: *const c_char, file: *const c_char, line: i32);
pub type FlushCb = extern "C" fn(context: *const c_void);

pub type Code = i64;
pub type CbUnit = Option<extern "C" fn(i64, Code)>;
pub type CbHandle = Option<extern "C" fn(i64, Code, H)>;
pub type CbPtr = Option<extern "C" fn(i64, Code, P)>;
pub type CbI64 = Option<extern "C" fn(i64, Code, i64)>;
pub type CbI8 = Option<extern "C" fn(i64, Code, i8)>;
pub type CbStr = Option<extern "C" fn(i64, Code, *const c_char)>;

extern "C" {
    pub fn askar_get_current_error(out: *mut *const c_char) -> Code;
    pub fn askar_string_free(s: *mut c_char);
    pub fn askar_buffer_free(b: SecretBuf);
    pub fn askar_store_generate_raw_key(seed: ByteBuf, out: *mut *const c_char) -> Code;
    pub fn askar_store_provision(uri: *const c_char, method: *const c_char, pass_key: *const c_char, profile: *const c_char, recreate: i8, cb: CbHandle, cb_id: i64) -> Code;
    pub fn askar_store_close(h: H, cb: CbUnit, cb_id: i64) -> Code;
    pub fn askar_store_create_profile(h: H, profile: *const c_char, cb: CbStr, cb_id: i64) -> Code;
    pub fn askar_store_get_profile_name(h: H, cb: CbStr, cb_id: i64) -> Code;
    pub fn askar_store_list_profiles(h: H, cb: CbPtr, cb_id: i64) -> Code;
    pub fn askar_scan_start(h: H, profile: *const c_char, category: *const c_char, tag_filter: *const c_char, offset: i64, limit: i64, order_by: *const c_char, descending: i8, cb: CbHandle, cb_id: i64) -> Code;
    pub fn askar_scan_next(h: H, cb: CbPtr, cb_id: i64) -> Code;
    pub fn askar_scan_free(h: H) -> Code;
    pub fn askar_session_start(h: H, profile: *const c_char, as_transaction: i8, cb: CbHandle, cb_id: i64) -> Code;
    pub fn askar_session_close(h: H, commit: i8, cb: CbUnit, cb_id: i64) -> Code;
    pub fn askar_session_count(h: H, category: *const c_char, tag_filter: *const c_char, cb: CbI64, cb_id: i64) -> Code;
    pub fn askar_session_fetch(h: H, category: *const c_char, name: *const c_char, for_update: i8, cb: CbPtr, cb_id: i64) -> Code;
    pub fn askar_session_fetch_all(h: H, category: *const c_char, tag_filter: *const c_char, limit: i64, order_by: *const c_char, descending: i8, for_update: i8, cb: CbPtr, cb_id: i64) -> Code;
    pub fn askar_session_remove_all(h: H, category: *const c_char, tag_filter: *const c_char, cb: CbI64, cb_id: i64) -> Code;
    pub fn askar_session_update(h: H, operation: i8, category: *const c_char, name: *const c_char, value: ByteBuf, tags: *const c_char, expiry_ms: i64, cb: CbUnit, cb_id: i64) -> Code;
    pub fn askar_session_insert_key(h: H, key: P, name: *const c_char, metadata: *const c_char, tags: *const c_char, expiry_ms: i64, cb: CbUnit, cb_id: i64) -> Code;
    pub fn askar_entry_list_count(l: P, count: *mut i32) -> Code;
    pub fn askar_entry_list_get_category(l: P, index: i32, out: *mut *const c_char) -> Code;
    pub fn askar_entry_list_get_name(l: P, index: i32, out: *mut *const c_char) -> Code;
    pub fn askar_entry_list_get_value(l: P, index: i32, out: *mut SecretBuf) -> Code;
    pub fn askar_entry_list_get_tags(l: P, index: i32, out: *mut *const c_char) -> Code;
    pub fn askar_entry_list_free(l: P);
    pub fn askar_string_list_count(l: P, count: *mut i32) -> Code;
    pub fn askar_string_list_get_item(l: P, index: i32, out: *mut *const c_char) -> Code;
    pub fn askar_string_list_free(l: P);
    pub fn askar_key_generate(alg: *const c_char, backend: *const c_char, ephemeral: i8, out: *mut P) -> Code;
    pub fn askar_key_get_algorithm(k: P, out: *mut *const c_char) -> Code;
    pub fn askar_key_free(k: P);
    pub fn askar_store_open(uri: *const c_char, method: *const c_char, pass_key: *const c_char, profile: *const c_char, cb: CbHandle, cb_id: i64) -> Code;
    pub fn askar_store_rekey(h: H, method: *const c_char, pass_key: *const c_char, cb: CbUnit, cb_id: i64) -> Code;
    pub fn askar_store_remove_profile(h: H, profile: *const c_char, cb: CbI8, cb_id: i64) -> Code;
    pub fn askar_store_get_default_profile(h: H, cb: CbStr, cb_id: i64) -> Code;
    pub fn askar_store_set_default_profile(h: H, profile: *const c_char, cb: CbUnit, cb_id: i64) -> Code;
    pub fn askar_version() -> *mut c_char;
    pub fn askar_set_max_log_level(level: i32) -> Code;
    pub fn askar_key_from_seed(alg: *const c_char, seed: ByteBuf, method: *const c_char, out: *mut P) -> Code;
    pub fn askar_key_get_public_bytes(k: P, out: *mut SecretBuf) -> Code;
    pub fn askar_key_get_secret_bytes(k: P, out: *mut SecretBuf) -> Code;
    pub fn askar_key_get_jwk_secret(k: P, out: *mut SecretBuf) -> Code;
    pub fn askar_key_aead_random_nonce(k: P, out: *mut SecretBuf) -> Code;
    pub fn askar_key_get_jwk_public(k: P, alg: *const c_char, out: *mut *const c_char) -> Code;
    pub fn askar_key_get_jwk_thumbprint(k: P, alg: *const c_char, out: *mut *const c_char) -> Code;
    pub fn askar_key_get_ephemeral(k: P, out: *mut i8) -> Code;
    pub fn askar_key_sign_message(k: P, msg: ByteBuf, sig_type: *const c_char, out: *mut SecretBuf) -> Code;
    pub fn askar_key_verify_signature(k: P, msg: ByteBuf, sig: ByteBuf, sig_type: *const c_char, out: *mut i8) -> Code;
    pub fn askar_key_crypto_box_random_nonce(out: *mut SecretBuf) -> Code;
    pub fn askar_key_get_supported_backends(out: *mut P) -> Code;
    pub fn askar_key_entry_list_count(l: P, count: *mut i32) -> Code;
    pub fn askar_key_entry_list_get_name(l: P, index: i32, out: *mut *const c_char) -> Code;
    pub fn askar_key_entry_list_get_algorithm(l: P, index: i32, out: *mut *const c_char) -> Code;
    pub fn askar_key_entry_list_get_metadata(l: P, index: i32, out: *mut *const c_char) -> Code;
    pub fn askar_key_entry_list_get_tags(l: P, index: i32, out: *mut *const c_char) -> Code;
    pub fn askar_key_entry_list_load_local(l: P, index: i32, out: *mut P) -> Code;
    pub fn askar_key_entry_list_free(l: P);
    pub fn askar_session_fetch_key(h: H, name: *const c_char, for_update: i8, cb: CbPtr, cb_id: i64) -> Code;
    pub fn askar_session_fetch_all_keys(h: H, alg: *const c_char, thumbprint: *const c_char, tag_filter: *const c_char, limit: i64, for_update: i8, cb: CbPtr, cb_id: i64) -> Code;
    pub fn askar_session_update_key(h: H, name: *const c_char, metadata: *const c_char, tags: *const c_char, expiry_ms: i64, cb: CbUnit, cb_id: i64) -> Code;
    pub fn askar_session_remove_key(h: H, name: *const c_char, cb: CbUnit, cb_id: i64) -> Code;
    // --- entry points added for the coverage gaps (COVERAGE.md rows 3, 4, 13, 14, 16)
    pub fn askar_key_from_jwk(jwk: ByteBuf, out: *mut P) -> Code;
    pub fn askar_key_from_public_bytes(alg: *const c_char, public: ByteBuf, out: *mut P) -> Code;
    pub fn askar_key_from_secret_bytes(alg: *const c_char, secret: ByteBuf, out: *mut P) -> Code;
    pub fn askar_key_convert(k: P, alg: *const c_char, out: *mut P) -> Code;
    pub fn askar_key_from_key_exchange(alg: *const c_char, sk: P, pk: P, out: *mut P) -> Code;
    pub fn askar_key_aead_get_params(k: P, out: *mut AeadParams) -> Code;
    pub fn askar_key_aead_get_padding(k: P, msg_len: i64, out: *mut i32) -> Code;
    pub fn askar_key_aead_encrypt(k: P, message: ByteBuf, nonce: ByteBuf, aad: ByteBuf, out: *mut EncryptedBuf) -> Code;
    pub fn askar_key_aead_decrypt(k: P, ciphertext: ByteBuf, nonce: ByteBuf, tag: ByteBuf, aad: ByteBuf, out: *mut SecretBuf) -> Code;
    pub fn askar_key_wrap_key(k: P, other: P, nonce: ByteBuf, out: *mut EncryptedBuf) -> Code;
    pub fn askar_key_unwrap_key(k: P, alg: *const c_char, ciphertext: ByteBuf, nonce: ByteBuf, tag: ByteBuf, out: *mut P) -> Code;
    pub fn askar_key_crypto_box(recip: P, sender: P, message: ByteBuf, nonce: ByteBuf, out: *mut SecretBuf) -> Code;
    pub fn askar_key_crypto_box_open(recip: P, sender: P, message: ByteBuf, nonce: ByteBuf, out: *mut SecretBuf) -> Code;
    pub fn askar_key_crypto_box_seal(k: P, message: ByteBuf, out: *mut SecretBuf) -> Code;
    pub fn askar_key_crypto_box_seal_open(k: P, ciphertext: ByteBuf, out: *mut SecretBuf) -> Code;
    pub fn askar_key_derive_ecdh_es(alg: *const c_char, ephem: P, recip: P, alg_id: ByteBuf, apu: ByteBuf, apv: ByteBuf, receive: i8, out: *mut P) -> Code;
    pub fn askar_key_derive_ecdh_1pu(alg: *const c_char, ephem: P, sender: P, recip: P, alg_id: ByteBuf, apu: ByteBuf, apv: ByteBuf, cc_tag: ByteBuf, receive: i8, out: *mut P) -> Code;
    pub fn askar_store_remove(uri: *const c_char, cb: CbI8, cb_id: i64) -> Code;
    pub fn askar_store_copy(h: H, target_uri: *const c_char, method: *const c_char, pass_key: *const c_char, recreate: i8, cb: CbHandle, cb_id: i64) -> Code;
    pub fn askar_migrate_indy_sdk(spec_uri: *const c_char, wallet_name: *const c_char, wallet_key: *const c_char, kdf_level: *const c_char, cb: CbUnit, cb_id: i64) -> Code;
    pub fn askar_set_custom_logger(context: *const c_void, log: LogCb, enabled: Option<EnabledCb>, flush: Option<FlushCb>, max_level: i32) -> Code;
    pub fn askar_clear_custom_logger();
    pub fn askar_terminate();
    pub fn askar_set_default_logger() -> Code;
}

pub fn code_name(c: Code) -> String {
    match c {
        0 => "Success".into(), 1 => "Backend".into(), 2 => "Busy".into(), 3 => "Duplicate".into(),
        4 => "Encryption".into(), 5 => "Input".into(), 6 => "NotFound".into(), 7 => "Unexpected".into(),
        8 => "Unsupported".into(), 100 => "Custom".into(), n => format!("Code({})", n),
    }
}

#[derive(Clone, Debug)]
pub enum CbVal {
    Unit(Code),
    Handle(Code, usize),
    Ptr(Code, usize),
    I64(Code, i64),
    Str(Code, Option<String>),
}

impl CbVal {
    pub fn code(&self) -> Code {
        match self { CbVal::Unit(c) | CbVal::Handle(c, _) | CbVal::Ptr(c, _) | CbVal::I64(c, _) | CbVal::Str(c, _) => *c }
    }
}

static CALLS: Lazy<(Mutex<HashMap<i64, Vec<CbVal>>>, Condvar)> = Lazy::new(|| (Mutex::new(HashMap::new()), Condvar::new()));
static NEXT_CB: AtomicI64 = AtomicI64::new(1);

pub fn new_cb_id() -> i64 { NEXT_CB.fetch_add(1, Ordering::SeqCst) }

fn record(id: i64, v: CbVal) {
    let (m, cv) = &*CALLS;
    m.lock().unwrap().entry(id).or_default().push(v);
    cv.notify_all();
}

pub extern "C" fn cb_unit(id: i64, c: Code) { record(id, CbVal::Unit(c)) }
pub extern "C" fn cb_handle(id: i64, c: Code, h: H) { record(id, CbVal::Handle(c, h.0)) }
pub extern "C" fn cb_ptr(id: i64, c: Code, p: P) { record(id, CbVal::Ptr(c, p.0 as usize)) }
pub extern "C" fn cb_i64(id: i64, c: Code, n: i64) { record(id, CbVal::I64(c, n)) }
pub extern "C" fn cb_i8(id: i64, c: Code, n: i8) { record(id, CbVal::I64(c, n as i64)) }
pub extern "C" fn cb_str(id: i64, c: Code, s: *const c_char) {
    let v = if s.is_null() { None } else {
        let t = unsafe { std::ffi::CStr::from_ptr(s) }.to_string_lossy().to_string();
        unsafe { askar_string_free(s as *mut c_char) };
        Some(t)
    };
    record(id, CbVal::Str(c, v))
}

/// wait for the first invocation of the callback with this id
pub fn wait_cb(id: i64, timeout: Duration) -> Option<CbVal> {
    let (m, cv) = &*CALLS;
    let deadline = Instant::now() + timeout;
    let mut g = m.lock().unwrap();
    loop {
        if let Some(v) = g.get(&id).and_then(|v| v.first()) { return Some(v.clone()); }
        let now = Instant::now();
        if now >= deadline { return None; }
        g = cv.wait_timeout(g, deadline - now).unwrap().0;
    }
}

/// the callback table as it stands: (cb_id, invocations recorded) of every id not yet collected, newest last
pub fn pending_table() -> Vec<(i64, usize)> {
    let mut v: Vec<(i64, usize)> = CALLS.0.lock().unwrap().iter().map(|(k, c)| (*k, c.len())).collect();
    v.sort();
    v
}

/// number of invocations recorded so far for this id (and forget them)
pub fn take_count(id: i64) -> usize {
    CALLS.0.lock().unwrap().remove(&id).map_or(0, |v| v.len())
}

/// `askar_get_current_error` as text (clears the slot)
pub fn current_error() -> String {
    let mut p: *const c_char = std::ptr::null();
    unsafe { askar_get_current_error(&mut p) };
    if p.is_null() { return String::new(); }
    let s = unsafe { std::ffi::CStr::from_ptr(p) }.to_string_lossy().to_string();
    unsafe { askar_string_free(p as *mut c_char) };
    s
}

/// take ownership of a C string result
pub fn take_str(p: *const c_char) -> Option<String> {
    if p.is_null() { return None; }
    let s = unsafe { std::ffi::CStr::from_ptr(p) }.to_string_lossy().to_string();
    unsafe { askar_string_free(p as *mut c_char) };
    Some(s)
}

pub fn take_buf(b: SecretBuf) -> Vec<u8> {
    let v = if b.data.is_null() || b.len <= 0 { vec![] } else { unsafe { std::slice::from_raw_parts(b.data, b.len as usize) }.to_vec() };
    unsafe { askar_buffer_free(b) };
    v
}
