/-
C07 — profiles are isolated from each other.
ONLY property theorems and non-vacuity examples; helper lemmas are in Lemmas/Refine.lean.
-/
import AskarModel.Model.Spec
import AskarModel.Lemmas.Refine
import AskarModel.Model.SqlShape
import AskarModel.Generated.Stmts
import AskarModel.Generated.Flags
import AskarModel.Generated.StmtsPg

namespace Askar.Store

/-- Frame: a call through a session of profile `s.pid` leaves every row of every other profile
    untouched (same rows, same order, same content). -/
theorem step_frame (like : Bytes → Bytes → Bool) (page : Nat) (now : Int) (s : Sess) (db : Db) (op : Op) :
    (step like page now s db op).1.items.filter (·.pid != s.pid) = db.items.filter (·.pid != s.pid) ∧
    (step like page now s db op).1.profiles = db.profiles :=
  Lemmas.step_frame like page now s db op

/-- hence the map of any other profile is unchanged -/
theorem step_other_abs (like : Bytes → Bytes → Bool) (page : Nat) (now : Int) (s s' : Sess) (db : Db) (op : Op) (h : s'.pid ≠ s.pid) :
    abs s' (step like page now s db op).1 = abs s' db :=
  Lemmas.step_other_abs like page now s s' db op h

/-- Isolation over interleaved histories: whatever calls other profiles make in between, the
    outputs of the calls made through sessions of profile `s` are exactly those of `s`'s own map
    run on `s`'s own calls alone.  (Sessions are identified with (profile id, key); all sessions
    in the history are key-coherent, which `cache_coherent` below provides.) -/
theorem isolation (like : Bytes → Bytes → Bool) (page : Nat) (hp : 0 < page) (now : Int) (db : Db) (hI : Inv db)
    (hist : List (Sess × Op)) (hK : ∀ so ∈ hist, KeyCoherent so.1 db) (hops : ∀ so ∈ hist, so.2.noExpiry = true)
    (hS : ∀ so ∈ hist, ∀ so' ∈ hist, so.1.pid = so'.1.pid → so.1 = so'.1) (s : Sess) (hs : KeyCoherent s db) 
    (hS' : ∀ so ∈ hist, so.1.pid = s.pid → so.1 = s) :
    ((runMulti like page now db hist).2.filter (·.1.pid == s.pid)).map (·.2) =
      (Spec.run like page (abs s db) ((hist.filter (·.1.pid == s.pid)).map (·.2))).2 :=
  Lemmas.isolation like page hp now db hI hist hK hops hS s hs hS'

/-- Removing a profile removes all of its rows and nothing else. -/
theorem remove_profile_exact (db : Db) (h : Handle) (name : String) (p : Profile)
    (hp : db.profiles.find? (·.name == name) = some p) :
    ((removeProfile db h name true).1.1).items = db.items.filter (·.pid != p.id) ∧
    ((removeProfile db h name true).1.1).profiles = db.profiles.filter (·.name != name) ∧
    (removeProfile db h name true).2 = true :=
  Lemmas.remove_profile_exact db h name p hp

/-- The removed profile can no longer be opened through the same store handle (this is the
    statement that was false before the repair of D7: the cache entry survived). -/
theorem removed_profile_not_found (db : Db) (h : Handle) (name : String) :
    resolve (removeProfile db h name true).1.1 (removeProfile db h name true).1.2 name = .error .notFound :=
  Lemmas.removed_profile_not_found db h name

/-- The key cache stays coherent with the profiles table under create / remove / resolve. -/
theorem cache_coherent_create (db : Db) (h : Handle) (name : String) (db' : Db) (h' : Handle)
    (hc : CacheCoherent db h) (hw : ProfilesWF db) (hr : createProfile db h name = .ok (db', h')) :
    CacheCoherent db' h' ∧ ProfilesWF db' :=
  Lemmas.cache_coherent_create db h name db' h' hc hw hr

theorem cache_coherent_remove (db : Db) (h : Handle) (name : String) (hc : CacheCoherent db h) (hw : ProfilesWF db) :
    CacheCoherent (removeProfile db h name true).1.1 (removeProfile db h name true).1.2 ∧
    ProfilesWF (removeProfile db h name true).1.1 :=
  Lemmas.cache_coherent_remove db h name hc hw

theorem cache_coherent_resolve (db : Db) (h : Handle) (name : String) (s : Sess) (h' : Handle)
    (hc : CacheCoherent db h) (hr : resolve db h name = .ok (s, h')) :
    CacheCoherent db h' ∧ (⟨s.pid, name, s.key⟩ : Profile) ∈ db.profiles :=
  Lemmas.cache_coherent_resolve db h name s h' hc hr

/-- A newly created profile is empty even when SQLite hands it the row id of a removed profile:
    removal cascaded, so no row carries that id (foreign-key invariant). -/
theorem created_profile_empty (db : Db) (h : Handle) (name : String) (db' : Db) (h' : Handle)
    (hfk : FkInv db) (hr : createProfile db h name = .ok (db', h')) (s : Sess) (h'' : Handle)
    (hres : resolve db' h' name = .ok (s, h'')) : abs s db' = [] :=
  Lemmas.created_profile_empty db h name db' h' hfk hr s h'' hres

/-- The pinned tree's behaviour, kept as a machine-checked witness of D7: *without* eviction the
    five-step history create P, remove P, create Q, open P resolves P to Q's row id. -/
theorem d7_witness_without_eviction :
    ∃ (s : Sess) (h : Handle) (db : Db),
      (do
        let (db1, h1) ← createProfile {} {} "P"
        let ((db2, h2), _) := removeProfile db1 h1 "P" false
        let (db3, h3) ← createProfile db2 h2 "Q"
        let (s, h4) ← resolve db3 h3 "P"
        pure (s, h4, db3) : Except Err (Sess × Handle × Db)) = .ok (s, h, db) ∧
      (⟨s.pid, "Q", 2⟩ : Profile) ∈ db.profiles ∧ s.key = 1 :=
  Lemmas.d7_witness_without_eviction

/-- Every statement over `items` in the CURRENT source (re-extracted on every run) is restricted to the
    session's profile: `profile_id = ?1` is one of its conjuncts (INSERT binds it as the first column). -/
theorem stmt_profile_scoped :
    (∀ s ∈ [Sql.Generated.countQuery, Sql.Generated.scanQuery, Sql.Generated.fetchQuery, Sql.Generated.deleteQuery,
            Sql.Generated.deleteAllQuery, Sql.Generated.updateQuery], s.profileScoped = true) ∧
    Sql.Generated.insertQuery.cols.head? = some ("profile_id", 1) := by decide

/-- The same for the POSTGRES backend's statements (proof obligation over the extracted text only). -/
theorem pg_stmt_profile_scoped :
    (∀ s ∈ [Sql.GeneratedPg.countQuery, Sql.GeneratedPg.scanQuery, Sql.GeneratedPg.fetchQuery, Sql.GeneratedPg.fetchQueryUpdate,
            Sql.GeneratedPg.deleteQuery, Sql.GeneratedPg.deleteAllQuery, Sql.GeneratedPg.updateQuery], s.profileScoped = true) ∧
    Sql.GeneratedPg.insertQuery.cols.head? = some ("profile_id", 1) := by decide

/-! ### D7's repair as an obligation against the CURRENT source (flag re-extracted on every run) -/

/-- what a handle does WITHOUT the eviction, for every database, handle and name: the removed profile still resolves, to the
    id and key the handle remembered (with eviction it does not: `cache_coherent_remove` + `removed_profile_not_found`) -/
theorem remove_without_eviction_still_resolves (db : Db) (h : Handle) (name : String) (pid key : Nat)
    (hc : cacheGet h.cache name = some (pid, key)) :
    resolve (removeProfile db h name false).1.1 (removeProfile db h name false).1.2 name = .ok (⟨pid, key⟩, h) := by
  have h2 : (removeProfile db h name false).1.2 = h := by
    unfold removeProfile; cases db.profiles.find? (·.name == name) <;> simp
  rw [h2]; unfold resolve; rw [hc]

/-- the SQLite backend's `remove_profile` evicts — what the model (`evictOnRemove`) and every theorem above assume -/
theorem sqlite_remove_profile_evicts_as_modelled :
    Askar.Generated.Flags.removeProfileEvictsSqlite = evictOnRemove := by decide


end Askar.Store
