/-
The TEXT level of the WQL → SQL encoder for BOTH backends: `Model/WqlText.lean` (the SQLite dialect, left untouched)
re-stated with a `Dialect` parameter for the two things `trait QueryPrepare` lets a backend override:

* `QueryPrepare::placeholder(index)`   — default `format!("?{}", index)` (SQLite);  Postgres: `format!("${}", index)`
* `QueryPrepare::limit_query`          — default: push `offset.unwrap_or(0)`, push `limit.unwrap_or(-1)`, append
                                          `replace_arg_placeholders(" LIMIT $$, $$", args.len() + 1)`;
                                          Postgres: push `limit` (an `Option<i64>`: SQL NULL when absent), push
                                          `offset.unwrap_or(0)`, append `replace_arg_placeholders(" LIMIT $$ OFFSET $$", …)`.

`replace_arg_placeholders` itself is ONE generic function (`db_utils.rs`): it scans its INPUT for `$`, and for the
Postgres dialect its OUTPUT contains `$n` as well — so it is not idempotent there (a second pass with start index `s`
adds `s − 1` to every number, `Props/C04SPg.lean: pg_second_pass_shifts`).  The code never makes a second pass:
`encode_tag_filter` renumbers the clause once, `extend_query` appends that clause verbatim, and `limit_query` only
renumbers its own constant text.  `extendQueryD` below has exactly this structure (the clause comes in already renumbered).

`replaceGoD .sqlite = replaceGo`, `limitQueryD .sqlite` / `extendQueryD .sqlite` project to `limitQuery` / `extendQuery`
(`Lemmas/WqlTextPg.lean`), so nothing is re-modelled: only the two overridden methods differ.
-/
import AskarModel.Model.WqlText

namespace Askar.Wql

inductive Dialect
  | sqlite
  | postgres
  deriving DecidableEq, Repr

/-- the character `QueryPrepare::placeholder` puts in front of the index -/
def Dialect.sigil : Dialect → Char
  | .sqlite => '?'
  | .postgres => '$'

/-- `Q::placeholder(index)` -/
def Dialect.placeholder (d : Dialect) (i : Int) : List Char := d.sigil :: intChars i

/-- `replace_arg_placeholders::<Q>`: the automaton of `replaceGo` (same states, same transitions, same checked
    `i64` arithmetic); only the spelling of the emitted placeholder depends on the dialect. -/
def replaceGoD (d : Dialect) (start : Int) : Int → Scan → List Char → Option (List Char)
  | _, .text, [] => some []
  | _, .dollar, [] => some ['$']
  | index, .digits ds, [] =>
    (subIndex start ds).bind fun k => (chk (index + 1)).bind fun _ => some (d.placeholder k)
  | index, .text, c :: cs =>
    if c = '$' then replaceGoD d start index .dollar cs
    else (replaceGoD d start index .text cs).map (c :: ·)
  | index, .dollar, c :: cs =>
    if c = '$' then
      (chk (index + 1)).bind fun i' => (replaceGoD d start i' .text cs).map (d.placeholder index ++ ·)
    else if c.isDigit then replaceGoD d start index (.digits [c]) cs
    else (replaceGoD d start index .text cs).map ('$' :: c :: ·)
  | index, .digits ds, c :: cs =>
    if c.isDigit then replaceGoD d start index (.digits (ds ++ [c])) cs
    else
      (subIndex start ds).bind fun k => (chk (index + 1)).bind fun i' =>
        (if c = '$' then replaceGoD d start i' .dollar cs
         else (replaceGoD d start i' .text cs).map (c :: ·)).map (d.placeholder k ++ ·)

/-- `replace_arg_placeholders::<Q>(filter, start_index)`; `none` = panic -/
def replaceArgsD (d : Dialect) (filter : List Char) (start : Int) : Option (List Char) :=
  replaceGoD d start start .text filter

def replaceArgsStrD (d : Dialect) (filter : String) (start : Int) : Option String :=
  (replaceArgsD d filter.toList start).map String.ofList

/-! ### final pieces, spelled per dialect -/

def finalPieceD (d : Dialect) : String ⊕ Nat → List Char
  | .inl s => s.toList
  | .inr n => d.sigil :: Nat.toDigits 10 n

def finalCharsD (d : Dialect) (xs : List (String ⊕ Nat)) : List Char := xs.flatMap (finalPieceD d)

/-- the final text of a piece list: text pieces as they are, parameter number `n` as `?n` / `$n` -/
def finalStringD (d : Dialect) (xs : List (String ⊕ Nat)) : String := String.ofList (finalCharsD d xs)

/-- re-spelling of a placeholder sigil: `?` ↦ `$` (on text whose only `?` are placeholder sigils this is `?n ↦ $n`) -/
def respellChar (c : Char) : Char := if c = '?' then '$' else c

def respell (s : List Char) : List Char := s.map respellChar

/-- a final piece read back as a token of placeholder text (the Postgres output IS placeholder text again) -/
def pieceTok : String ⊕ Nat → Tok
  | .inl s => .text s
  | .inr n => .ph (.num n)

/-- what a second pass with start index `s` does to a numbered piece -/
def shiftPiece (s : Nat) : String ⊕ Nat → String ⊕ Nat
  | .inl t => .inl t
  | .inr n => .inr (n + s - 1)

/-! ### `limit_query` and `extend_query` -/

/-- one value pushed on `QueryParams` by `limit_query` -/
inductive Bind
  | int (i : Int)
  | null
  deriving DecidableEq, Repr

/-- `args.push(x)` for an `Option<i64>`: `None` is bound as SQL NULL -/
def Bind.ofOpt : Option Int → Bind
  | some i => .int i
  | none => .null

/-- the constant text `limit_query` renumbers -/
def Dialect.limitText : Dialect → List Char
  | .sqlite => " LIMIT $$, $$".toList
  | .postgres => " LIMIT $$ OFFSET $$".toList

/-- the two `args.push(…)` of `limit_query`, in push order -/
def Dialect.limitBinds : Dialect → (offset limit : Option Int) → List Bind
  | .sqlite, offset, limit => [.int (offset.getD 0), .int (limit.getD (-1))]
  | .postgres, offset, limit => [Bind.ofOpt limit, .int (offset.getD 0)]

/-- `Q::limit_query`: `(text, number of parameters, what was pushed)`; `none` = panic -/
def limitQueryD (d : Dialect) (q : List Char) (nargs : Nat) (offset limit : Option Int) :
    Option (List Char × Nat × List Bind) :=
  if offset.isSome || limit.isSome then
    (replaceArgsD d d.limitText ((nargs : Int) + 1)).map fun l => (q ++ l, nargs + 2, d.limitBinds offset limit)
  else some (q, nargs, [])

/-- the statement text after the filter clause has been appended (`" AND "` + clause, verbatim) -/
def withFilter (base : List Char) (filter : Option (List Char × Nat)) : List Char :=
  match filter with
  | some (clause, _) => base ++ " AND ".toList ++ clause
  | none => base

/-- `filter_args.len()` -/
def filterArgs (filter : Option (List Char × Nat)) : Nat :=
  match filter with
  | some (_, k) => k
  | none => 0

/-- does `extend_query` call `limit_query` with something to add?  (SELECT statements only) -/
def windowAdded (base : List Char) (filter : Option (List Char × Nat)) (offset limit : Option Int) : Bool :=
  startsWithSelect (withFilter base filter) && (offset.isSome || limit.isSome)

/-- `extend_query::<Q>`: `filter` = the clause text ALREADY renumbered by `encode_tag_filter::<Q>` and its number of
    arguments; it is appended verbatim.  Result: final text, final number of bound parameters, and the values pushed
    for the window after the filter arguments; `none` = panic. -/
def extendQueryD (d : Dialect) (base : List Char) (nparams : Nat) (filter : Option (List Char × Nat))
    (offset limit : Option Int) (orderBy descending : Bool) : Option (List Char × Nat × List Bind) :=
  let (q, n) := match filter with
    | some (clause, k) => (base ++ " AND ".toList ++ clause, nparams + k)
    | none => (base, nparams)
  if startsWithSelect q then
    let q := if orderBy then orderByQuery q descending else q
    if offset.isSome || limit.isSome then limitQueryD d q n offset limit else some (q, n, [])
  else some (q, n, [])

end Askar.Wql
