/-
Base58 (Bitcoin alphabet) — executable SPECIFICATION: a byte string is read as a big-endian number and written
in base 58 with the alphabet below; every leading zero BYTE is written as one leading '1' (the digit zero).
Decoding inverts this: leading '1's become zero bytes, the remainder is the minimal big-endian byte string of
the number.  Validated in `selfTest` against the published vectors of the scheme (THESE ARE TESTS); the round
trip `decode (encode b) = some b` is proved for every byte string in Lemmas/StorageScheme.lean.
-/
import AskarModel.Base.Bytes

namespace Askar.Crypto.Base58
open Askar

def alphabet : List Char := "123456789ABCDEFGHJKLMNPQRSTUVWXYZabcdefghijkmnopqrstuvwxyz".toList

/-- little-endian digits of `n` in base `b` without most-significant zeros (`[]` for 0); any `fuel ≥ n` suffices -/
def toLE (b : Nat) : Nat → Nat → List Nat
  | 0, _ => []
  | fuel + 1, n => if n = 0 then [] else n % b :: toLE b fuel (n / b)

def ofLE (b : Nat) : List Nat → Nat
  | [] => 0
  | d :: ds => d + b * ofLE b ds

/-- most-significant-first digits -/
def digits (b n : Nat) : List Nat := (toLE b n n).reverse
def ofDigits (b : Nat) (ds : List Nat) : Nat := ofLE b ds.reverse

def digitChar (d : Nat) : Char := alphabet.getD d '1'

def charVal (c : Char) : Option Nat :=
  let i := alphabet.idxOf c
  if i < 58 then some i else none

def encode (b : Bytes) : List Char :=
  List.replicate (b.takeWhile (· = 0)).length '1' ++ (digits 58 (ofDigits 256 (b.map UInt8.toNat))).map digitChar

def decodeDigits (ds : List Nat) : Bytes :=
  List.replicate (ds.takeWhile (· = 0)).length 0 ++ (digits 256 (ofDigits 58 ds)).map UInt8.ofNat

def decode (s : List Char) : Option Bytes := (s.mapM charVal).map decodeDigits

def encodeStr (b : Bytes) : String := String.ofList (encode b)
def decodeStr (s : String) : Option Bytes := decode s.toList

/-- TEST: vectors of the Bitcoin base58 test suite (base58_encode_decode.json) -/
def selfTest : Bool :=
  let x (s : String) : Bytes := (Bytes.ofHex s).getD []
  encodeStr [] == "" &&
  encodeStr (x "61") == "2g" &&
  encodeStr (x "626262") == "a3gV" &&
  encodeStr (x "636363") == "aPEr" &&
  encodeStr (x "73696d706c792061206c6f6e6720737472696e67") == "2cFupjhnEsSn59qHXstmK2ffpLv2" &&
  encodeStr (x "00eb15231dfceb60925886b67d065299925915aeb172c06647") == "1NS17iag9jJgTHD1VXjvLCEnZuQ3rJDE9L" &&
  encodeStr (x "516b6fcd0f") == "ABnLTmg" &&
  encodeStr (x "bf4f89001e670274dd") == "3SEo3LWLoPntC" &&
  encodeStr (x "572e4794") == "3EFU7m" &&
  encodeStr (x "ecac89cad93923c02321") == "EJDM8drfXA6uyA" &&
  encodeStr (x "10c8511e") == "Rt5zm" &&
  encodeStr (x "00000000000000000000") == "1111111111" &&
  decodeStr "1NS17iag9jJgTHD1VXjvLCEnZuQ3rJDE9L" == some (x "00eb15231dfceb60925886b67d065299925915aeb172c06647") &&
  decodeStr "1111111111" == some (x "00000000000000000000") &&
  decodeStr "" == some [] &&
  decodeStr "0" == none && decodeStr "O" == none && decodeStr "I" == none && decodeStr "l" == none &&
  decodeStr "2g " == none

end Askar.Crypto.Base58
