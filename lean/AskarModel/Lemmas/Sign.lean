/-
C13 — helper lemmas about `Model/Sign.lean`: the normaliser against its specification, the dispatch table, totality; and (second
wave, at the end) about the executable specifications `Crypto/Ed25519.lean` and `Crypto/Ecdsa.lean`: encodings, the canonical-S
rule, signature widths, low-S, the RFC 6979 nonce range, and correctness of the ECDSA equations over an abstract group.
Core Lean only.
-/
import AskarModel.Model.Sign
import AskarModel.Crypto.Ed25519
import AskarModel.Crypto.Ecdsa

namespace Askar.Sign

/-! ## characters -/

theorem toLower_idem (c : Char) : c.toLower.toLower = c.toLower := by
  unfold Char.toLower
  split <;> rename_i h
  · split <;> rename_i h2
    · exfalso
      simp only [ge_iff_le, UInt32.le_iff_toNat_le] at h h2
      simp at h h2
      have := c.valid
      omega
    · rfl
  · simp

theorem isSep_toLower (c : Char) : isSep c.toLower = isSep c := by
  unfold Char.toLower
  split <;> rename_i h
  · have hc : isSep c = false := by
      simp only [ge_iff_le, UInt32.le_iff_toNat_le] at h
      simp at h
      simp only [isSep, Bool.or_eq_false_iff, beq_eq_false_iff_ne, ne_eq]
      refine ⟨⟨?_, ?_⟩, ?_⟩ <;> (intro e; subst e; simp at h)
    rw [hc]
    simp only [ge_iff_le, UInt32.le_iff_toNat_le] at h
    simp at h
    simp only [isSep, Bool.or_eq_false_iff, beq_eq_false_iff_ne, ne_eq]
    refine ⟨⟨?_, ?_⟩, ?_⟩ <;>
      (intro e; have := congrArg (fun x : Char => x.val.toNat) e; simp at this; omega)
  · rfl

/-! ## the specification of the normaliser -/

/-- what `normalize_alg` is meant to compute: drop `-`, `_`, space; ASCII lower-case -/
def normSpec (s : List Char) : List Char := (s.filter fun c => !isSep c).map Char.toLower

/-- UTF-8 length of a character list -/
def utf8Len (cs : List Char) : Nat := (cs.map Char.utf8Size).sum

@[simp] theorem normSpec_nil : normSpec [] = [] := rfl

theorem normSpec_cons_sep {c : Char} {s : List Char} (h : isSep c = true) : normSpec (c :: s) = normSpec s := by
  simp [normSpec, h]

theorem normSpec_cons_keep {c : Char} {s : List Char} (h : isSep c = false) : normSpec (c :: s) = c.toLower :: normSpec s := by
  simp [normSpec, h]

theorem normSpec_append (s t : List Char) : normSpec (s ++ t) = normSpec s ++ normSpec t := by
  simp [normSpec]

theorem normSpec_idem (s : List Char) : normSpec (normSpec s) = normSpec s := by
  induction s with
  | nil => rfl
  | cons c s ih =>
    cases h : isSep c
    · rw [normSpec_cons_keep h, normSpec_cons_keep (by rw [isSep_toLower]; exact h), toLower_idem, ih]
    · rw [normSpec_cons_sep h, ih]

@[simp] theorem encode_nil : encode [] = [] := rfl
theorem encode_cons (c : Char) (cs : List Char) : encode (c :: cs) = String.utf8EncodeChar c ++ encode cs := by
  simp [encode]

theorem encode_length (cs : List Char) : (encode cs).length = utf8Len cs := by
  induction cs with
  | nil => rfl
  | cons c cs ih => simp [encode_cons, utf8Len, ih] at *

/-- UTF-8 is injective (from core Lean's `String` theory) -/
theorem encode_injective {l l' : List Char} (h : encode l = encode l') : l = l' := by
  apply String.ofList_injective
  apply String.toByteArray_inj.mp
  rw [String.toByteArray_ofList, String.toByteArray_ofList]
  show (encode l).toByteArray = (encode l').toByteArray
  rw [h]

theorem encode_inj {l l' : List Char} : encode l = encode l' ↔ l = l' := ⟨encode_injective, fun h => h ▸ rfl⟩

/-! ## the writer and the loop -/

theorem write_eq (w : Writer) (data : Bytes) :
    w.write data = if w.pos + data.length ≤ w.total then .ok { w with written := w.written ++ data } else .err .exceededBuffer := by
  unfold Writer.write
  by_cases h : w.pos + data.length ≤ w.total
  · have h1 : ¬ (w.pos + data.length > w.total) := by omega
    simp [h, h1]
  · have h1 : w.pos + data.length > w.total := by omega
    simp [h, h1]

theorem fill_eq (s : List Char) : ∀ w : Writer, w.pos ≤ w.total →
    fill w s = if w.pos + utf8Len (normSpec s) ≤ w.total then .ok { w with written := w.written ++ encode (normSpec s) }
               else .err .exceededBuffer := by
  induction s with
  | nil =>
    intro w h
    simp [fill, utf8Len, h]
  | cons c s ih =>
    intro w hw
    cases hc : isSep c
    · rw [normSpec_cons_keep hc]
      simp only [fill, hc, Bool.false_eq_true, if_false]
      rw [write_eq]
      have hl : (String.utf8EncodeChar c.toLower).length = c.toLower.utf8Size := by simp
      by_cases h1 : w.pos + c.toLower.utf8Size ≤ w.total
      · simp only [hl, h1, if_true]
        show fill _ s = _
        rw [ih _ (by simpa [Writer.pos, hl] using h1)]
        simp only [Writer.pos, List.length_append, hl, utf8Len, List.map_cons, List.sum_cons, encode_cons, List.append_assoc]
        simp only [Nat.add_assoc]
      · have h2 : ¬ (w.pos + utf8Len (c.toLower :: normSpec s) ≤ w.total) := by
          simp only [utf8Len, List.map_cons, List.sum_cons]; omega
        simp only [hl, h1, h2, if_false]
        rfl
    · rw [normSpec_cons_sep hc]
      simp only [fill, hc, if_true]
      exact ih w hw

/-! ## the loop as written (iterator + `for`) is the fused loop -/

theorem fillIter_none {w : Writer} {cs : List Char} (h : NormalizedIter.next cs = none) : fillIter w cs = .ok w := by
  rw [fillIter]
  split
  · rfl
  · rename_i h'; rw [h] at h'; cases h'

theorem fillIter_some {w : Writer} {cs : List Char} {c : Char} {rest : List Char} (h : NormalizedIter.next cs = some (c, rest)) :
    fillIter w cs = (w.write (String.utf8EncodeChar c)).bind fun w' => fillIter w' rest := by
  rw [fillIter]
  split
  · rename_i h'; rw [h] at h'; cases h'
  · rename_i h'; rw [h] at h'; cases h'; rfl

theorem isSep_iff (c : Char) : isSep c = false ↔ (c ≠ '-' ∧ c ≠ '_' ∧ c ≠ ' ') := by
  simp [isSep, and_assoc]

/-- the fused loop of the model is the iterator-driven loop of the source -/
theorem fillIter_eq_fill : ∀ (cs : List Char) (w : Writer), fillIter w cs = fill w cs
  | [], w => by rw [fillIter_none rfl]; rfl
  | c :: rest, w => by
    cases hc : isSep c
    · have h := (isSep_iff c).mp hc
      have hn : NormalizedIter.next (c :: rest) = some (c.toLower, rest) := by
        simp only [NormalizedIter.next, if_pos h]
      rw [fillIter_some hn]
      simp only [fill, hc, Bool.false_eq_true, if_false]
      congr 1
      funext w'
      exact fillIter_eq_fill rest w'
    · have h : ¬ (c ≠ '-' ∧ c ≠ '_' ∧ c ≠ ' ') := by
        intro h'; rw [(isSep_iff c).mpr h'] at hc; cases hc
      have hn : NormalizedIter.next (c :: rest) = NormalizedIter.next rest := by
        simp only [NormalizedIter.next, if_neg h]
      have ih := fillIter_eq_fill rest w
      simp only [fill, hc, if_true]
      rw [← ih]
      cases hr : NormalizedIter.next rest with
      | none => rw [fillIter_none (hn.trans hr), fillIter_none hr]
      | some p => obtain ⟨c', r'⟩ := p; rw [fillIter_some (hn.trans hr), fillIter_some hr]

theorem normalizeAlgIter_eq (s : List Char) : normalizeAlgIter s = normalizeAlg s := by
  unfold normalizeAlgIter normalizeAlg
  rw [fillIter_eq_fill]

/-- `normalize_alg` against its specification: the normalised text if it fits in 64 bytes of UTF-8, else `ExceededBuffer` -/
theorem normalizeAlg_eq (s : List Char) :
    normalizeAlg s =
      if utf8Len (normSpec s) ≤ normCap then
        .ok { len := utf8Len (normSpec s), buf := encode (normSpec s) ++ List.replicate (normCap - utf8Len (normSpec s)) 0 }
      else .err .exceededBuffer := by
  unfold normalizeAlg
  rw [fill_eq s _ (by simp [Writer.pos])]
  by_cases h : utf8Len (normSpec s) ≤ normCap
  · simp [Writer.pos, h, Res.bind, encode_length]
  · simp [Writer.pos, h, Res.bind]

/-- the classification `from_str` performs on the normalised text -/
def classify (cs : List Char) : Option SignatureType :=
  if cs = "eddsa".toList then some .eddsa
  else if cs = "es256".toList then some .es256
  else if cs = "es256k".toList then some .es256k
  else if cs = "es384".toList then some .es384
  else none

theorem fromStr_eq (s : List Char) :
    SignatureType.fromStr s =
      if utf8Len (normSpec s) ≤ normCap then
        match classify (normSpec s) with
        | some t => .ok t
        | none => .err .unsupported
      else .err .exceededBuffer := by
  unfold SignatureType.fromStr
  rw [normalizeAlg_eq]
  by_cases h : utf8Len (normSpec s) ≤ normCap
  · have hlen : utf8Len (normSpec s) ≤ (encode (normSpec s) ++ List.replicate (normCap - utf8Len (normSpec s)) (0 : UInt8)).length := by
      simp [encode_length]
    have htake : (encode (normSpec s) ++ List.replicate (normCap - utf8Len (normSpec s)) (0 : UInt8)).take (utf8Len (normSpec s))
        = encode (normSpec s) := by
      rw [← encode_length]; simp
    simp only [h, if_true, Res.bind, NormalizedAlg.asRef, hlen, htake, encode_inj, classify]
    by_cases h1 : normSpec s = "eddsa".toList
    · simp [h1]
    · by_cases h2 : normSpec s = "es256".toList
      · simp [h2]
      · by_cases h3 : normSpec s = "es256k".toList
        · simp [h3]
        · by_cases h4 : normSpec s = "es384".toList
          · simp [h4]
          · simp only [if_neg h1, if_neg h2, if_neg h3, if_neg h4]
  · simp [h, Res.bind]

theorem classify_eq_some {cs : List Char} {t : SignatureType} : classify cs = some t ↔ cs = t.canonical := by
  constructor
  · intro h
    unfold classify at h
    split at h
    · cases h; assumption
    · split at h
      · cases h; assumption
      · split at h
        · cases h; assumption
        · split at h
          · cases h; assumption
          · cases h
  · intro h
    subst h
    cases t <;> decide

theorem canonical_fits (t : SignatureType) : utf8Len t.canonical ≤ normCap := by
  cases t <;> decide

/-! ## the parser: exact acceptance table -/

theorem fromStr_ok_iff (s : List Char) (t : SignatureType) :
    SignatureType.fromStr s = .ok t ↔ normSpec s = t.canonical := by
  rw [fromStr_eq]
  constructor
  · intro h
    split at h
    · split at h
      · rename_i t' ht'
        cases h
        exact classify_eq_some.mp ht'
      · cases h
    · cases h
  · intro h
    have hfit : utf8Len (normSpec s) ≤ normCap := h ▸ canonical_fits t
    have hc : classify (normSpec s) = some t := classify_eq_some.mpr h
    simp [hfit, hc]

theorem fromStr_exceeded_iff (s : List Char) :
    SignatureType.fromStr s = .err .exceededBuffer ↔ normCap < utf8Len (normSpec s) := by
  rw [fromStr_eq]
  constructor
  · intro h
    split at h
    · split at h <;> cases h
    · omega
  · intro h
    have : ¬ utf8Len (normSpec s) ≤ normCap := by omega
    simp [this]

theorem fromStr_unsupported_iff (s : List Char) :
    SignatureType.fromStr s = .err .unsupported ↔ utf8Len (normSpec s) ≤ normCap ∧ ∀ t : SignatureType, normSpec s ≠ t.canonical := by
  rw [fromStr_eq]
  constructor
  · intro h
    split at h
    · rename_i hfit
      refine ⟨hfit, ?_⟩
      split at h
      · cases h
      · rename_i hn
        intro t ht
        rw [classify_eq_some.mpr ht] at hn
        cases hn
    · cases h
  · intro ⟨hfit, hn⟩
    have hc : classify (normSpec s) = none := by
      cases hcl : classify (normSpec s) with
      | none => rfl
      | some t => exact absurd (classify_eq_some.mp hcl) (hn t)
    simp [hfit, hc]

/-- `from_str` never panics, and its only errors are `ExceededBuffer` and `Unsupported` -/
theorem fromStr_cases (s : List Char) :
    (∃ t, SignatureType.fromStr s = .ok t) ∨ SignatureType.fromStr s = .err .exceededBuffer ∨ SignatureType.fromStr s = .err .unsupported := by
  rw [fromStr_eq]
  split
  · split
    · exact .inl ⟨_, rfl⟩
    · exact .inr (.inr rfl)
  · exact .inr (.inl rfl)

/-- the result depends on the normalised text only: spellings that differ in case, `-`, `_`, space are interchangeable -/
theorem fromStr_congr {s s' : List Char} (h : normSpec s = normSpec s') : SignatureType.fromStr s = SignatureType.fromStr s' := by
  rw [fromStr_eq, fromStr_eq, h]

theorem normalize_idem (s : List Char) : normalizeAlg (normSpec s) = normalizeAlg s := by
  rw [normalizeAlg_eq, normalizeAlg_eq, normSpec_idem]

theorem normalize_no_panic (s : List Char) : (normalizeAlg s).isPanic = false := by
  rw [normalizeAlg_eq]; split <;> rfl

/-- the text the comparison sees is the UTF-8 of the specification -/
theorem normalize_asRef {s : List Char} {n : NormalizedAlg} (h : normalizeAlg s = .ok n) : n.asRef = .ok (encode (normSpec s)) := by
  rw [normalizeAlg_eq] at h
  split at h
  · cases h
    have hlen : utf8Len (normSpec s) ≤ (encode (normSpec s) ++ List.replicate (normCap - utf8Len (normSpec s)) (0 : UInt8)).length := by
      simp [encode_length]
    have htake : (encode (normSpec s) ++ List.replicate (normCap - utf8Len (normSpec s)) (0 : UInt8)).take (utf8Len (normSpec s))
        = encode (normSpec s) := by
      rw [← encode_length]; simp
    simp only [NormalizedAlg.asRef, hlen, htake, if_true]
  · cases h

theorem parseSigType_cases (t : Option (List Char)) :
    (∃ st, parseSigType t = .ok st) ∨ parseSigType t = .err .exceededBuffer ∨ parseSigType t = .err .unsupported := by
  cases t with
  | none => exact .inl ⟨none, rfl⟩
  | some s =>
    rcases fromStr_cases s with ⟨t, h⟩ | h | h
    · exact .inl ⟨some t, by simp [parseSigType, h, Res.bind]⟩
    · exact .inr (.inl (by simp [parseSigType, h, Res.bind]))
    · exact .inr (.inr (by simp [parseSigType, h, Res.bind]))

theorem parseSigType_some_ok_iff (s : List Char) (st : Option SignatureType) :
    parseSigType (some s) = .ok st ↔ ∃ t, st = some t ∧ normSpec s = t.canonical := by
  unfold parseSigType
  rcases fromStr_cases s with ⟨t, h⟩ | h | h
  · simp only [h, Res.bind]
    constructor
    · intro e; cases e; exact ⟨t, rfl, (fromStr_ok_iff s t).mp h⟩
    · rintro ⟨t', rfl, h'⟩
      have := (fromStr_ok_iff s t').mpr h'
      rw [h] at this; cases this; rfl
  · simp only [h, Res.bind]
    constructor
    · intro e; cases e
    · rintro ⟨t', _, h'⟩
      have := (fromStr_ok_iff s t').mpr h'
      rw [h] at this; cases this
  · simp only [h, Res.bind]
    constructor
    · intro e; cases e
    · rintro ⟨t', _, h'⟩
      have := (fromStr_ok_iff s t').mpr h'
      rw [h] at this; cases this

/-! ## closed forms of the two entry points -/

/-- the error a key without secret reports: `MissingSecretKey` ↦ Input for Ed25519, `Unsupported` for the ECDSA curves -/
def missingSecretKind : SigAlg → ErrKind
  | .ed25519 => .input
  | _ => .unsupported

def typeOk (a : SigAlg) (st : Option SignatureType) : Prop := st = none ∨ st = some a.native

instance (a : SigAlg) (st : Option SignatureType) : Decidable (typeOk a st) := by unfold typeOk; infer_instance

theorem anyWrite_eq (Sch : Schemes) (k : Key) (m : Bytes) (st : Option SignatureType) :
    anyWriteSignature Sch k m st =
      match k.alg.sigAlg? with
      | none => .err .unsupported
      | some a =>
        if typeOk a st then
          match k.secret with
          | some sk => .ok ((Sch.scheme a).sign sk m)
          | none => .err (if a = .ed25519 then .missingSecretKey else .unsupported)
        else .err .unsupported := by
  unfold anyWriteSignature
  cases h : k.alg.sigAlg? with
  | none => rfl
  | some a =>
    cases a <;> cases st with
    | none =>
      cases hs : k.secret <;>
        simp [ed25519WriteSignature, ecWriteSignature, ecSign, typeOk, hs, Schemes.scheme, Res.bind, SigScheme.sign_len]
    | some t =>
      cases t <;> cases hs : k.secret <;>
        simp [ed25519WriteSignature, ecWriteSignature, ecSign, typeOk, hs, Schemes.scheme, Res.bind, SigScheme.sign_len, SigAlg.native]

theorem anyVerify_eq (Sch : Schemes) (k : Key) (m sig : Bytes) (st : Option SignatureType) :
    anyVerifySignature Sch k m sig st =
      match k.alg.sigAlg? with
      | none => .err .unsupported
      | some a =>
        if typeOk a st then
          if sig.length = (Sch.scheme a).sigLen then
            if a = .ed25519 ∧ (Sch.scheme a).validPub k.pub = false then
              .panic "ed25519.rs: VerifyingKey::from_bytes(&self.public).unwrap()"
            else .ok ((Sch.scheme a).verify k.pub m sig)
          else .ok false
        else .err .unsupported := by
  unfold anyVerifySignature
  cases h : k.alg.sigAlg? with
  | none => rfl
  | some a =>
    cases a
    · -- ed25519
      simp only [Schemes.scheme, typeOk, SigAlg.native, ed25519VerifySignature, ed25519Verify, true_and]
      cases st with
      | none =>
        simp only [true_or, if_true]
        by_cases hl : sig.length = Sch.ed25519.sigLen
        · cases hv : Sch.ed25519.validPub k.pub <;> simp [hl]
        · simp [hl]
      | some t =>
        cases t
        · simp only [or_true, if_true]
          by_cases hl : sig.length = Sch.ed25519.sigLen
          · cases hv : Sch.ed25519.validPub k.pub <;> simp [hl]
          · simp [hl]
        all_goals simp
    all_goals
      simp only [Schemes.scheme, typeOk, SigAlg.native, ecVerifySignature, ecVerify, reduceCtorEq, false_and, if_false]

theorem signMessage_eq (Sch : Schemes) (k : Key) (m : Bytes) (t : Option (List Char)) :
    signMessage Sch k m t =
      match parseSigType t with
      | .ok st => (anyWriteSignature Sch k m st).mapErr CErr.toKind
      | .err e => .err e.toKind
      | .panic s => .panic s := by
  unfold signMessage
  cases parseSigType t <;> rfl

theorem verifySignature_eq (Sch : Schemes) (k : Key) (m sig : Bytes) (t : Option (List Char)) :
    verifySignature Sch k m sig t =
      match parseSigType t with
      | .ok st => (anyVerifySignature Sch k m sig st).mapErr CErr.toKind
      | .err e => .err e.toKind
      | .panic s => .panic s := by
  unfold verifySignature
  cases parseSigType t <;> rfl

/-! ## signing -/

/-- when, and with what, `sign_message` succeeds -/
theorem sign_ok_elim {Sch : Schemes} {k : Key} {m : Bytes} {t : Option (List Char)} {s : Bytes}
    (h : signMessage Sch k m t = .ok s) :
    ∃ a sk st, k.alg.sigAlg? = some a ∧ k.secret = some sk ∧ parseSigType t = .ok st ∧ typeOk a st ∧
      s = (Sch.scheme a).sign sk m := by
  rw [signMessage_eq] at h
  cases hp : parseSigType t with
  | err e => rw [hp] at h; cases h
  | panic x => rw [hp] at h; cases h
  | ok st =>
    rw [hp] at h
    simp only [anyWrite_eq] at h
    cases ha : k.alg.sigAlg? with
    | none => rw [ha] at h; cases h
    | some a =>
      rw [ha] at h
      by_cases hty : typeOk a st
      · simp only [hty, if_true] at h
        cases hs : k.secret with
        | none => rw [hs] at h; cases h
        | some sk =>
          rw [hs] at h
          cases h
          exact ⟨a, sk, st, rfl, rfl, rfl, hty, rfl⟩
      · simp only [hty, if_false] at h
        cases h

theorem sign_ok_intro {Sch : Schemes} {k : Key} {m : Bytes} {t : Option (List Char)} {a : SigAlg} {sk : Bytes}
    {st : Option SignatureType} (ha : k.alg.sigAlg? = some a) (hs : k.secret = some sk) (hp : parseSigType t = .ok st)
    (hty : typeOk a st) : signMessage Sch k m t = .ok ((Sch.scheme a).sign sk m) := by
  rw [signMessage_eq, hp]
  simp only [anyWrite_eq, ha, hty, if_true, hs]
  rfl

theorem sign_ok_iff (Sch : Schemes) (k : Key) (m : Bytes) (t : Option (List Char)) :
    (∃ s, signMessage Sch k m t = .ok s) ↔
      ∃ a sk st, k.alg.sigAlg? = some a ∧ k.secret = some sk ∧ parseSigType t = .ok st ∧ typeOk a st := by
  constructor
  · rintro ⟨s, h⟩
    obtain ⟨a, sk, st, h1, h2, h3, h4, _⟩ := sign_ok_elim h
    exact ⟨a, sk, st, h1, h2, h3, h4⟩
  · rintro ⟨a, sk, st, h1, h2, h3, h4⟩
    exact ⟨_, sign_ok_intro h1 h2 h3 h4⟩

theorem sign_length {Sch : Schemes} {k : Key} {m : Bytes} {t : Option (List Char)} {s : Bytes}
    (h : signMessage Sch k m t = .ok s) : ∃ a, k.alg.sigAlg? = some a ∧ s.length = (Sch.scheme a).sigLen := by
  obtain ⟨a, sk, st, h1, _, _, _, rfl⟩ := sign_ok_elim h
  exact ⟨a, h1, (Sch.scheme a).sign_len sk m⟩

theorem sign_no_panic (Sch : Schemes) (k : Key) (m : Bytes) (t : Option (List Char)) : (signMessage Sch k m t).isPanic = false := by
  rw [signMessage_eq]
  rcases parseSigType_cases t with ⟨st, hp⟩ | hp | hp <;> rw [hp]
  · simp only [anyWrite_eq]
    cases k.alg.sigAlg? with
    | none => rfl
    | some a =>
      by_cases hty : typeOk a st
      · simp only [hty, if_true]
        cases k.secret <;> rfl
      · simp only [hty, if_false]; rfl
  · rfl
  · rfl

/-- the result is a function of (algorithm, secret, message, parsed type): not of the public part, not of the spelling -/
theorem sign_depends_only_on {Sch : Schemes} {k k' : Key} {t t' : Option (List Char)} (m : Bytes)
    (ha : k.alg = k'.alg) (hs : k.secret = k'.secret) (ht : parseSigType t = parseSigType t') :
    signMessage Sch k m t = signMessage Sch k' m t' := by
  rw [signMessage_eq, signMessage_eq, ht]
  cases parseSigType t' with
  | ok st => simp only [anyWrite_eq, ha, hs]
  | err e => rfl
  | panic x => rfl

theorem parseSigType_congr {s s' : List Char} (h : normSpec s = normSpec s') : parseSigType (some s) = parseSigType (some s') := by
  simp only [parseSigType, fromStr_congr h]

/-- the default type and the spelled-out native type sign alike -/
theorem sign_default_eq_native {Sch : Schemes} {k : Key} {a : SigAlg} (m : Bytes) {s : List Char}
    (ha : k.alg.sigAlg? = some a) (hs : normSpec s = a.native.canonical) :
    signMessage Sch k m (some s) = signMessage Sch k m none := by
  have hp : parseSigType (some s) = .ok (some a.native) := (parseSigType_some_ok_iff s _).mpr ⟨_, rfl, hs⟩
  rw [signMessage_eq, signMessage_eq, hp]
  simp only [parseSigType, anyWrite_eq, ha, typeOk, or_true, true_or, if_true]

/-! ## error branches -/

theorem mismatched_type_errors {Sch : Schemes} {k : Key} {a : SigAlg} {t : Option (List Char)} {st : SignatureType} (m sig : Bytes)
    (ha : k.alg.sigAlg? = some a) (hp : parseSigType t = .ok (some st)) (hne : st ≠ a.native) :
    signMessage Sch k m t = .err .unsupported ∧ verifySignature Sch k m sig t = .err .unsupported := by
  have hty : ¬ typeOk a (some st) := by
    intro h; rcases h with h | h
    · cases h
    · cases h; exact hne rfl
  constructor
  · rw [signMessage_eq, hp]; simp only [anyWrite_eq, ha, hty, if_false]; rfl
  · rw [verifySignature_eq, hp]; simp only [anyVerify_eq, ha, hty, if_false]; rfl

theorem nonsigning_alg_errors {Sch : Schemes} {k : Key} (m sig : Bytes) (t : Option (List Char)) (ha : k.alg.sigAlg? = none) :
    (signMessage Sch k m t).isErr = true ∧ (verifySignature Sch k m sig t).isErr = true ∧
    ((∃ st, parseSigType t = .ok st) → signMessage Sch k m t = .err .unsupported ∧ verifySignature Sch k m sig t = .err .unsupported) := by
  rw [signMessage_eq, verifySignature_eq]
  rcases parseSigType_cases t with ⟨st, hp⟩ | hp | hp <;> rw [hp]
  · simp only [anyWrite_eq, anyVerify_eq, ha]
    exact ⟨rfl, rfl, fun _ => ⟨rfl, rfl⟩⟩
  · exact ⟨rfl, rfl, fun ⟨_, h⟩ => by cases h⟩
  · exact ⟨rfl, rfl, fun ⟨_, h⟩ => by cases h⟩

/-- the type string is judged before the key is looked at -/
theorem bad_type_errors {Sch : Schemes} (k : Key) (m sig : Bytes) {s : List Char} {e : CErr} (h : SignatureType.fromStr s = .err e) :
    signMessage Sch k m (some s) = .err e.toKind ∧ verifySignature Sch k m sig (some s) = .err e.toKind := by
  have hp : parseSigType (some s) = .err e := by simp [parseSigType, h, Res.bind]
  rw [signMessage_eq, verifySignature_eq, hp]
  exact ⟨rfl, rfl⟩

theorem public_only_sign_errors {Sch : Schemes} {k : Key} (m : Bytes) (t : Option (List Char)) (hs : k.secret = none) :
    (signMessage Sch k m t).isErr = true := by
  rw [signMessage_eq]
  rcases parseSigType_cases t with ⟨st, hp⟩ | hp | hp <;> rw [hp]
  · simp only [anyWrite_eq, hs]
    cases k.alg.sigAlg? with
    | none => rfl
    | some a => by_cases hty : typeOk a st <;> simp only [hty, if_true, if_false] <;> rfl
  · rfl
  · rfl

theorem public_only_sign_kind {Sch : Schemes} {k : Key} {a : SigAlg} {t : Option (List Char)} {st : Option SignatureType} (m : Bytes)
    (hs : k.secret = none) (ha : k.alg.sigAlg? = some a) (hp : parseSigType t = .ok st) (hty : typeOk a st) :
    signMessage Sch k m t = .err (missingSecretKind a) := by
  rw [signMessage_eq, hp]
  simp only [anyWrite_eq, hs, ha, hty, if_true]
  cases a <;> rfl

/-! ## verification -/

theorem verify_eq_of_ok {Sch : Schemes} {k : Key} {a : SigAlg} {t : Option (List Char)} {st : Option SignatureType} (m sig : Bytes)
    (ha : k.alg.sigAlg? = some a) (hp : parseSigType t = .ok st) (hty : typeOk a st)
    (hv : (Sch.scheme a).validPub k.pub = true) :
    verifySignature Sch k m sig t = .ok (if sig.length = (Sch.scheme a).sigLen then (Sch.scheme a).verify k.pub m sig else false) := by
  rw [verifySignature_eq, hp]
  simp only [anyVerify_eq, ha, hty, if_true, hv]
  by_cases hl : sig.length = (Sch.scheme a).sigLen <;> simp [hl, Res.mapErr]

theorem wrong_length_false {Sch : Schemes} {k : Key} {a : SigAlg} {t : Option (List Char)} {st : Option SignatureType} (m sig : Bytes)
    (ha : k.alg.sigAlg? = some a) (hp : parseSigType t = .ok st) (hty : typeOk a st)
    (hl : sig.length ≠ (Sch.scheme a).sigLen) : verifySignature Sch k m sig t = .ok false := by
  rw [verifySignature_eq, hp]
  simp only [anyVerify_eq, ha, hty, if_true, hl, if_false]
  rfl

theorem verify_own_signature {Sch : Schemes} {k k' : Key} {a : SigAlg} {m s : Bytes} {t t' : Option (List Char)}
    {st' : Option SignatureType}
    (hwf : k.WF Sch) (ha : k.alg.sigAlg? = some a) (halg : k'.alg = k.alg) (hpub : k'.pub = k.pub)
    (hp' : parseSigType t' = .ok st') (hty' : typeOk a st')
    (hs : signMessage Sch k m t = .ok s) : verifySignature Sch k' m s t' = .ok true := by
  obtain ⟨a', sk, st, h1, h2, _, _, rfl⟩ := sign_ok_elim hs
  rw [ha] at h1; cases h1
  have hw : (Sch.scheme a).validPub k.pub = true ∧ ∀ sk, k.secret = some sk → k.pub = (Sch.scheme a).pubOf sk := by
    have := hwf; unfold Key.WF at this; rw [ha] at this; exact this
  have ha' : k'.alg.sigAlg? = some a := by rw [halg]; exact ha
  rw [verify_eq_of_ok m _ ha' hp' hty' (by rw [hpub]; exact hw.1)]
  rw [hpub, hw.2 sk h2]
  simp [(Sch.scheme a).sign_len, (Sch.scheme a).verify_sign]

/-- the secret part of a key plays no role in verification -/
theorem verify_public_part_only (Sch : Schemes) (k : Key) (m sig : Bytes) (t : Option (List Char)) :
    verifySignature Sch k.toPublic m sig t = verifySignature Sch k m sig t := by
  rw [verifySignature_eq, verifySignature_eq]
  cases parseSigType t with
  | ok st => simp only [anyVerify_eq, Key.toPublic]
  | err e => rfl
  | panic x => rfl

theorem verify_no_panic {Sch : Schemes} {k : Key} (hwf : k.WF Sch) (m sig : Bytes) (t : Option (List Char)) :
    (verifySignature Sch k m sig t).isPanic = false := by
  rw [verifySignature_eq]
  rcases parseSigType_cases t with ⟨st, hp⟩ | hp | hp <;> rw [hp]
  · simp only [anyVerify_eq]
    cases ha : k.alg.sigAlg? with
    | none => rfl
    | some a =>
      have hw : (Sch.scheme a).validPub k.pub = true := by
        have := hwf; unfold Key.WF at this; rw [ha] at this; exact this.1
      by_cases hty : typeOk a st
      · simp only [hty, if_true, hw]
        by_cases hl : sig.length = (Sch.scheme a).sigLen <;> simp [hl, Res.mapErr, Res.isPanic]
      · simp only [hty, if_false]; rfl
  · rfl
  · rfl

theorem verify_total {Sch : Schemes} {k : Key} (hwf : k.WF Sch) (m sig : Bytes) (t : Option (List Char)) :
    verifySignature Sch k m sig t = .ok true ∨ verifySignature Sch k m sig t = .ok false ∨
      ∃ e, verifySignature Sch k m sig t = .err e := by
  have h := verify_no_panic hwf m sig t
  cases hr : verifySignature Sch k m sig t with
  | ok b => cases b <;> simp
  | err e => exact .inr (.inr ⟨e, rfl⟩)
  | panic x => rw [hr] at h; cases h

/-! ## the invariant -/

theorem wf_ofSecret (Sch : Schemes) (a : SigAlg) (alg : KeyAlg) (sk : Bytes) (h : alg.sigAlg? = some a) :
    (Key.ofSecret Sch a alg sk).WF Sch := by
  unfold Key.WF Key.ofSecret
  simp only [h]
  exact ⟨(Sch.scheme a).pub_valid sk, fun sk' e => by cases e; rfl⟩

theorem wf_ofPublic {Sch : Schemes} {a : SigAlg} {alg : KeyAlg} {pk : Bytes} {k : Key} (h : alg.sigAlg? = some a)
    (hk : Key.ofPublic Sch a alg pk = some k) : k.WF Sch := by
  unfold Key.ofPublic at hk
  split at hk
  · cases hk
    unfold Key.WF
    simp only [h]
    rename_i hv
    exact ⟨hv, fun sk e => by cases e⟩
  · cases hk

theorem wf_toPublic {Sch : Schemes} {k : Key} (h : k.WF Sch) : k.toPublic.WF Sch := by
  unfold Key.WF at h ⊢
  simp only [Key.toPublic]
  cases ha : k.alg.sigAlg? with
  | none => trivial
  | some a =>
    rw [ha] at h
    exact ⟨h.1, fun sk e => by cases e⟩

/-- without the invariant the `unwrap` in `Ed25519KeyPair::verify_signature` is reachable (in the model): the hypothesis of
    `verify_total` cannot be dropped -/
theorem verify_panics_on_undecodable_public :
    (verifySignature Toy.schemes { alg := .ed25519, secret := none, pub := [] } [] (List.replicate 64 0) none).isPanic = true := by
  decide

/-- the widths `SignatureType::signature_length` announces are the widths the schemes produce -/
def Schemes.Std (Sch : Schemes) : Prop := ∀ a : SigAlg, (Sch.scheme a).sigLen = a.native.signatureLength

theorem toy_std : Toy.schemes.Std := by intro a; cases a <;> rfl

theorem sign_length_std {Sch : Schemes} (hstd : Sch.Std) {k : Key} {m : Bytes} {t : Option (List Char)} {s : Bytes}
    (h : signMessage Sch k m t = .ok s) : ∃ a, k.alg.sigAlg? = some a ∧ s.length = a.native.signatureLength := by
  obtain ⟨a, ha, hl⟩ := sign_length h
  exact ⟨a, ha, by rw [hl, hstd a]⟩

/-! ## what the laws of a `SigScheme` do not give -/

/-- a scheme that satisfies every law of `SigScheme` and accepts every one-byte signature: correctness of a scheme says nothing
    about rejection (that is unforgeability, a computational property of the real curves) -/
def acceptAll : SigScheme where
  sigLen := 1
  pubOf := fun sk => sk
  validPub := fun _ => true
  sign := fun _ _ => [0]
  verify := fun _ _ _ => true
  sign_len := by intros; rfl
  pub_valid := by intros; rfl
  verify_sign := by intros; rfl

def acceptAllSchemes : Schemes := { ed25519 := acceptAll, k256 := acceptAll, p256 := acceptAll, p384 := acceptAll }

/-! ## second wave: the executable specifications of Ed25519 and ECDSA -/

end Askar.Sign

namespace Askar.Crypto.Ed25519

theorem natLE_length : ∀ len n, (natLE len n).length = len
  | 0, _ => rfl
  | len + 1, n => by simp [natLE, natLE_length len]

theorem leNat_natLE : ∀ len n, leNat (natLE len n) = n % 256 ^ len
  | 0, n => by simp [natLE, leNat, Nat.mod_one]
  | len + 1, n => by
    simp only [natLE, leNat, leNat_natLE len]
    have h : (UInt8.ofNat (n % 256)).toNat = n % 256 := by simp
    rw [h, Nat.pow_succ, Nat.mul_comm (256 ^ len) 256, Nat.mod_mul]

theorem L_lt : L < 256 ^ 32 := by decide
theorem twoL_lt : L + L < 256 ^ 32 := by decide
theorem L_pos : 0 < L := by decide

theorem encode_length (P : Point) : (encode P).length = 32 := by
  unfold encode
  simp [natLE_length]

/-- the two halves of a signature, in closed form -/
def sigR (sk msg : Bytes) : Bytes :=
  encode (Point.mul (leNat (sha512 ((expand sk).2 ++ msg)) % L) B)

def sigSOf (sk msg : Bytes) : Nat :=
  sigS (leNat (sha512 ((expand sk).2 ++ msg)) % L)
       (leNat (sha512 (sigR sk msg ++ publicKey sk ++ msg)) % L) (expand sk).1

theorem sign_eq (sk msg : Bytes) : sign sk msg = sigR sk msg ++ natLE 32 (sigSOf sk msg) := by
  rfl

theorem sigR_length (sk msg : Bytes) : (sigR sk msg).length = 32 := encode_length _

theorem sigSOf_lt (sk msg : Bytes) : sigSOf sk msg < L := by
  unfold sigSOf sigS
  exact Nat.mod_lt _ L_pos

theorem sign_length (sk msg : Bytes) : (sign sk msg).length = 64 := by
  rw [sign_eq]; simp [sigR_length, natLE_length]

theorem sign_drop (sk msg : Bytes) : (sign sk msg).drop 32 = natLE 32 (sigSOf sk msg) := by
  rw [sign_eq]
  have := sigR_length sk msg
  simp [this]

theorem sign_take (sk msg : Bytes) : (sign sk msg).take 32 = sigR sk msg := by
  rw [sign_eq]
  have := sigR_length sk msg
  simp [this]

theorem sign_S (sk msg : Bytes) : leNat ((sign sk msg).drop 32) = sigSOf sk msg := by
  rw [sign_drop, leNat_natLE]
  exact Nat.mod_eq_of_lt (Nat.lt_trans (sigSOf_lt sk msg) L_lt)

theorem noncanonical_S_rejected (pk msg sig : Bytes) (h : L ≤ leNat (sig.drop 32)) :
    verifyStrict pk msg sig = false ∧ verifyLoose pk msg sig = false ∧ verifyRfc pk msg sig = false := by
  refine ⟨?_, ?_, ?_⟩
  · unfold verifyStrict
    by_cases hl : sig.length ≠ 64
    · simp [hl]
    · simp [hl, h]
  · unfold verifyLoose
    by_cases hl : sig.length ≠ 64
    · simp [hl]
    · simp [hl, h]
  · unfold verifyRfc
    by_cases hl : sig.length ≠ 64
    · simp [hl]
    · simp [hl, h]

/-- the signature with S replaced by S + L -/
def plusL (sig : Bytes) : Bytes := sig.take 32 ++ natLE 32 (leNat (sig.drop 32) + L)

theorem plusL_S (sk msg : Bytes) : leNat ((plusL (sign sk msg)).drop 32) = sigSOf sk msg + L := by
  unfold plusL
  rw [sign_take, sign_S]
  have := sigR_length sk msg
  simp only [List.drop_append, this, Nat.sub_self, List.drop_zero]
  rw [List.drop_of_length_le (by omega), List.nil_append, leNat_natLE]
  apply Nat.mod_eq_of_lt
  have := sigSOf_lt sk msg
  have := twoL_lt
  omega

end Askar.Crypto.Ed25519

namespace Askar.Crypto.Ecdsa
open Askar Askar.Ec

theorem i2osp_length : ∀ len n, (i2osp len n).length = len
  | 0, _ => rfl
  | len + 1, n => by simp [i2osp, i2osp_length len]

theorem foldl_i2osp : ∀ len n acc,
    (i2osp len n).foldl (fun acc x => acc * 256 + x.toNat) acc = acc * 256 ^ len + n % 256 ^ len
  | 0, n, acc => by simp [i2osp, Nat.mod_one]
  | len + 1, n, acc => by
    simp only [i2osp, List.foldl_cons, foldl_i2osp len]
    have h : (UInt8.ofNat (n / 256 ^ len % 256)).toNat = n / 256 ^ len % 256 := by simp
    rw [h, Nat.pow_succ, Nat.mod_mul, Nat.add_mul, Nat.mul_assoc, Nat.mul_comm 256 (256 ^ len), Nat.mul_comm (n / 256 ^ len % 256)]
    omega

theorem os2ip_i2osp (len n : Nat) : os2ip (i2osp len n) = n % 256 ^ len := by
  unfold os2ip
  rw [foldl_i2osp]; simp

/-! the nonce -/

theorem nonceLoop_range (P : Params) : ∀ fuel K V k, nonceLoop P fuel K V = some k → 1 ≤ k ∧ k < P.q
  | 0, _, _, _, h => by simp [nonceLoop] at h
  | fuel + 1, K, V, k, h => by
    simp only [nonceLoop] at h
    split at h
    · rename_i hk
      cases h
      exact hk
    · exact nonceLoop_range P fuel _ _ k h

theorem generateK_range (P : Params) (reduce : Bool) (x : Nat) (h1 : Bytes) (k : Nat)
    (h : generateK P reduce x h1 = some k) : 1 ≤ k ∧ k < P.q := by
  unfold generateK at h
  exact nonceLoop_range P _ _ _ k h

/-! signatures -/

theorem signRS_lowS {Pt : Type} (O : Ops Pt) (d k z r s : Nat) (h : signRS O true d k z = some (r, s)) : s ≤ O.n / 2 := by
  unfold signRS at h
  split at h
  · cases h
  · dsimp only at h
    split at h
    · cases h
    · simp only [Option.some.injEq, Prod.mk.injEq, true_and] at h
      obtain ⟨_, hs⟩ := h
      split at hs <;> omega

theorem signRS_range {Pt : Type} (O : Ops Pt) (hn : 0 < O.n) (lowS : Bool) (d k z r s : Nat) (h : signRS O lowS d k z = some (r, s)) :
    1 ≤ r ∧ 1 ≤ s ∧ s < O.n := by
  unfold signRS at h
  split at h
  · cases h
  · dsimp only at h
    split at h
    · cases h
    · rename_i r' _ hz
      simp only [Option.some.injEq, Prod.mk.injEq] at h
      obtain ⟨hr, hs⟩ := h
      have hlt : O.inv k * (z + r' * d) % O.n < O.n := Nat.mod_lt _ hn
      subst hr
      split at hs <;> omega

theorem sign_width (S : Suite) (reduce : Bool) (sk msg sig : Bytes) (h : sign S reduce sk msg = some sig) :
    sig.length = 2 * S.curve.len := by
  unfold sign at h
  cases hrs : signRSBytes S reduce sk msg with
  | none => rw [hrs] at h; cases h
  | some rs =>
    rw [hrs] at h
    cases h
    simp [i2osp_length]; omega

theorem mod_add_congr {n a a' b b' : Nat} (h1 : a % n = a' % n) (h2 : b % n = b' % n) : (a + b) % n = (a' + b') % n := by
  rw [Nat.add_mod, h1, h2, ← Nat.add_mod]

theorem mod_mul_congr {n a a' b b' : Nat} (h1 : a % n = a' % n) (h2 : b % n = b' % n) : (a * b) % n = (a' * b') % n := by
  rw [Nat.mul_mod, h1, h2, ← Nat.mul_mod]

/-- k·s ≡ z + r·d when s ≡ k⁻¹(z + r·d) -/
theorem k_mul_s {Pt : Type} {O : Ops Pt} (hL : Laws O) {k e : Nat} (hk : k % O.n ≠ 0) :
    (k * (O.inv k * e % O.n)) % O.n = e % O.n := by
  have h1 : (k * (O.inv k * e % O.n)) % O.n = (k * (O.inv k * e)) % O.n := mod_mul_congr rfl (Nat.mod_mod _ _)
  have h2 : k * (O.inv k * e) = (O.inv k * k) * e := by
    rw [← Nat.mul_assoc, Nat.mul_comm k (O.inv k)]
  have h3 : ((O.inv k * k) * e) % O.n = (1 * e) % O.n :=
    mod_mul_congr (by rw [hL.inv_mul k hk, Nat.mod_eq_of_lt hL.n_pos]) rfl
  rw [h1, h2, h3, Nat.one_mul]

/-- u1 + u2·d ≡ w·(z + r·d) -/
theorem u_sum {n z r d w : Nat} : (z * w % n + r * w % n * d) % n = (w * (z + r * d)) % n := by
  have h1 : (z * w % n + r * w % n * d) % n = (z * w + r * w * d) % n :=
    mod_add_congr (Nat.mod_mod _ _) (mod_mul_congr (Nat.mod_mod _ _) rfl)
  rw [h1]
  congr 1
  rw [Nat.mul_add, Nat.mul_comm z w, Nat.mul_comm r w, Nat.mul_assoc]

/-- w·e ≡ k when k·s ≡ e and w·s ≡ 1 -/
theorem w_mul_e {n k s e w : Nat} (hn : 1 < n) (hks : (k * s) % n = e % n) (hws : (w * s) % n = 1) : (w * e) % n = k % n := by
  have h1 : (w * e) % n = (w * (k * s)) % n := mod_mul_congr rfl hks.symm
  have h2 : w * (k * s) = k * (w * s) := by rw [Nat.mul_left_comm]
  have h3 : (k * (w * s)) % n = (k * 1) % n := mod_mul_congr rfl (by rw [hws, Nat.mod_eq_of_lt hn])
  rw [h1, h2, h3, Nat.mul_one]

/-- a ≡ −k when a + k ≡ 0 -/
theorem neg_of_add {n a k : Nat} (hn : 0 < n) (h : (a + k) % n = 0) : a % n = (n - k % n) % n := by
  have ha : a % n < n := Nat.mod_lt _ hn
  have hk : k % n < n := Nat.mod_lt _ hn
  have h' : (a % n + k % n) % n = 0 := by rw [← Nat.add_mod]; exact h
  by_cases hlt : a % n + k % n < n
  · rw [Nat.mod_eq_of_lt hlt] at h'
    have h0 : a % n = 0 := by omega
    have hk0 : k % n = 0 := by omega
    rw [h0, hk0, Nat.sub_zero, Nat.mod_self]
  · have hge : n ≤ a % n + k % n := by omega
    rw [Nat.mod_eq_sub_mod hge, Nat.mod_eq_of_lt (by omega)] at h'
    have h1 : a % n = n - k % n := by omega
    have h2 : n - k % n < n := by omega
    rw [Nat.mod_eq_of_lt h2]; exact h1

/-- w·e ≡ −k when k·s0 ≡ e, s0 + s = n and w·s ≡ 1 -/
theorem w_mul_e_neg {n k s0 s e w : Nat} (hn : 1 < n) (hks : (k * s0) % n = e % n) (hsum : s0 + s = n) (hws : (w * s) % n = 1) :
    (w * e) % n = (n - k % n) % n := by
  apply neg_of_add (by omega)
  have h1 : (w * e + k) % n = (w * (k * s0) + k * (w * s)) % n :=
    mod_add_congr (mod_mul_congr rfl hks.symm) (by
      have : (k * (w * s)) % n = (k * 1) % n := mod_mul_congr rfl (by rw [hws, Nat.mod_eq_of_lt hn])
      rw [this, Nat.mul_one])
  have h2 : w * (k * s0) + k * (w * s) = (k * w) * n := by
    rw [← hsum, Nat.mul_add, Nat.mul_left_comm w k s0, Nat.mul_assoc, Nat.mul_assoc]
  rw [h1, h2, Nat.mul_mod_left]

theorem ecdsa_correct {Pt : Type} {O : Ops Pt} (hL : Laws O) (lowS : Bool) {d k z r s : Nat} (hk : k % O.n ≠ 0)
    (h : signRS O lowS d k z = some (r, s)) : verifyRS O lowS (O.mulBase d) z r s = true := by
  have hn := hL.n_pos
  unfold signRS at h
  split at h
  · cases h
  · rename_i r' hx
    dsimp only at h
    split at h
    · cases h
    · rename_i hz
      simp only [Option.some.injEq, Prod.mk.injEq] at h
      obtain ⟨hr, hs⟩ := h
      subst hr
      have hrlt : r' < O.n := hL.x_lt _ _ hx
      have hs0lt : O.inv k * (z + r' * d) % O.n < O.n := Nat.mod_lt _ (by omega)
      have hks := k_mul_s hL (e := z + r' * d) hk
      -- the range checks of the verifier pass
      have hrange : ¬ (r' = 0 ∨ r' ≥ O.n ∨ s = 0 ∨ s ≥ O.n) := by
        split at hs <;> omega
      have hhigh : ¬ (lowS = true ∧ s > O.n / 2) := by
        split at hs
        · omega
        · rename_i hc; rw [← hs]; exact hc
      unfold verifyRS
      rw [if_neg hrange, if_neg hhigh]
      dsimp only
      rw [hL.lincomb_base, ← hL.mulBase_mod, u_sum]
      have hsmod : s % O.n ≠ 0 := by rw [Nat.mod_eq_of_lt (by omega)]; omega
      have hws := hL.inv_mul s hsmod
      split at hs
      · -- s = n − s0: the verifier recomputes −k·G, which has the same x-coordinate
        rw [w_mul_e_neg hn hks (by omega) hws, hL.mulBase_mod, hL.neg_x, hx]
        simp
      · subst hs
        rw [w_mul_e hn hks hws, hL.mulBase_mod, hx]
        simp

theorem k256_n_pos : 0 < Ec.k256.n := by decide
theorem k256_half_lt : Ec.k256.n / 2 < 256 ^ 32 := by decide

/-- what `signRSBytes` returns comes out of `signRS` for a valid secret scalar and an in-range nonce -/
theorem signRSBytes_elim {S : Suite} {reduce : Bool} {sk m : Bytes} {r s : Nat} (h : signRSBytes S reduce sk m = some (r, s)) :
    ∃ d k, S.secretScalar sk = some d ∧ 1 ≤ k ∧ k < S.curve.n ∧
      signRS (ops S.curve) S.lowS d k (bits2int S.params (S.digest m) % S.curve.n) = some (r, s) := by
  unfold signRSBytes at h
  split at h
  · cases h
  · rename_i d hd
    dsimp only at h
    split at h
    · cases h
    · rename_i k hk
      have hr := generateK_range _ _ _ _ _ hk
      exact ⟨d, k, hd, hr.1, hr.2, h⟩

/-- low-S suites: 1 ≤ s ≤ ⌊n/2⌋ -/
theorem signRSBytes_lowS {S : Suite} (hlow : S.lowS = true) (hn : 0 < S.curve.n) {reduce : Bool} {sk m : Bytes} {r s : Nat}
    (h : signRSBytes S reduce sk m = some (r, s)) : 1 ≤ s ∧ s ≤ S.curve.n / 2 := by
  obtain ⟨d, k, _, _, _, hs⟩ := signRSBytes_elim h
  rw [hlow] at hs
  exact ⟨(signRS_range (ops S.curve) hn _ _ _ _ _ _ hs).2.1, signRS_lowS (ops S.curve) _ _ _ _ _ hs⟩

/-- the s half of the encoded signature is the number s, when it fits the width -/
theorem sign_s_half {S : Suite} {reduce : Bool} {sk m sig : Bytes} (h : sign S reduce sk m = some sig) :
    ∃ r s, signRSBytes S reduce sk m = some (r, s) ∧ os2ip (sig.drop S.curve.len) = s % 256 ^ S.curve.len := by
  unfold sign at h
  cases hrs : signRSBytes S reduce sk m with
  | none => rw [hrs] at h; cases h
  | some rs =>
    obtain ⟨r, s⟩ := rs
    rw [hrs] at h
    cases h
    refine ⟨r, s, rfl, ?_⟩
    have hl : (i2osp S.curve.len r).length = S.curve.len := i2osp_length _ _
    rw [List.drop_append_of_le_length (by omega), List.drop_of_length_le (by omega), List.nil_append, os2ip_i2osp]

/-! a group in which the laws hold (non-vacuity of `Laws`): Z/7 written additively, generator 1, "x-coordinate" of a ≠ 0 the smaller of a, 7 − a -/

def toyX (a : Nat) : Option Nat := if a % 7 = 0 then none else some (if a % 7 ≤ 3 then a % 7 else 7 - a % 7)

def toyOps : Ops Nat where
  n := 7
  mulBase := fun k => k % 7
  lincomb := fun u1 u2 q => (u1 + u2 * q) % 7
  xModN := toyX
  inv := fun a => (a % 7) ^ 5 % 7

theorem toy_inv : ∀ b : Fin 7, b.val ≠ 0 → ((b.val % 7) ^ 5 % 7 % 7 * (b.val % 7)) % 7 = 1 := by decide
theorem toy_neg : ∀ b : Fin 7, toyX ((7 - b.val % 7 % 7) % 7) = toyX (b.val % 7) := by decide

theorem toy_laws : Laws toyOps where
  n_pos := by decide
  inv_mul := by
    intro a ha
    show ((a % 7) ^ 5 % 7 * a) % 7 = 1
    rw [Nat.mul_mod]
    have ha' : a % 7 ≠ 0 := ha
    have h := toy_inv ⟨a % 7, Nat.mod_lt _ (by decide)⟩ (by simpa using ha')
    simpa using h
  mulBase_mod := by intro k; exact Nat.mod_mod _ _
  lincomb_base := by
    intro u1 u2 d
    show (u1 + u2 * (d % 7)) % 7 = (u1 + u2 * d) % 7
    exact mod_add_congr rfl (mod_mul_congr rfl (Nat.mod_mod _ _))
  neg_x := by
    intro k
    show toyX ((7 - k % 7) % 7) = toyX (k % 7)
    have h := toy_neg ⟨k % 7, Nat.mod_lt _ (by decide)⟩
    simpa using h
  x_lt := by
    intro pt x h
    show x < 7
    unfold toyOps toyX at h
    simp only at h
    split at h
    · cases h
    · cases h
      split <;> omega

end Askar.Crypto.Ecdsa

namespace Askar.Sign

/- OPEN (second wave of DESIGN.md section 4 / C13).  Done: `sign_matches_rfc` became the executable specifications
   `Crypto/Ed25519.lean` / `Crypto/Ecdsa.lean` (validated on the RFC vectors, compared with the library byte for byte on every
   generated operation); `ecdsa_correct` is proved over `Ecdsa.Ops` under `Ecdsa.Laws` (both the plain and the low-S form).
   Still open, nothing in Props depends on them:
   * ecdsa_laws_exec: `Ecdsa.Laws (Ecdsa.ops c)` for c = p256, p384, k256 — that the Jacobian formulas of `Ec.lean` realise a group of
     prime order n (associativity of the chord-tangent law, the exceptional cases of `addAffine`, primality of n for `invMod` by
     Fermat, `Nat.log2`-free bounds on the fuel 800).  Needs an elliptic-curve group-law development (Mathlib-free: long).
     `ecdsa_correct` is stated for every `Ops` with `Laws`; `toy_laws` shows the hypotheses are satisfiable.
   * ed25519_S_flip_rejected, strong form: with the same R, A, M a signature with CANONICAL S' ≠ S (both < L) is rejected by the strict
     verifier.  Needs: B has order exactly L in the Edwards group (so [S']B ≠ [S]B) and injectivity of `encode` on curve points.
     Proved instead (`noncanonical_S_rejected`, `plusL_S`): every S' ≥ L — in particular S' = S + L, the only other representative
     of S mod L that fits in 32 octets together with S + 2L.. — is rejected by the canonical-S check of all three verifiers.
   * ed25519_correct: verifyStrict (publicKey sk) m (sign sk m) = true.  Needs the Edwards group law ([S]B = R + [k]A), that
     `encode`/`decodeLenient` are mutually inverse on curve points, and that [a]B is not of small order.
   * nonce fuel: `generateK` examines at most `nonceFuel` = 100 candidates and is `none` beyond; that it is never `none` is a statement
     about HMAC-SHA-2 outputs (each candidate is out of range with probability < 2⁻³²), not provable. -/

end Askar.Sign
