/- Driver for `kind = "store"` cases: runs an operation sequence on the logical store model. -/
import Driver.Common
import AskarModel.Model.Store
import AskarModel.Model.Session
import AskarModel.Model.Fault
import AskarModel.Model.Like
import AskarModel.Model.WqlJson

open Lean Askar Askar.Wql Askar.Store

namespace Driver.Store

def parseTag (j : Json) : Tag :=
  match asArr j with
  | [p, n, v] => ⟨(p.getInt?.toOption.getD 0) != 0, asStr n, asStr v⟩
  | _ => default

def parseTags (j : Json) (k : String) : Option (List Tag) :=
  match getD? j k with
  | some (.arr a) => some (a.toList.map parseTag)
  | _ => none

def cmpOfName : String → Option CmpOp
  | "eq" => some .eq | "neq" => some .neq | "gt" => some .gt | "gte" => some .gte
  | "lt" => some .lt | "lte" => some .lte | "like" => some .like | _ => none

partial def parseFilter (j : Json) : Query String :=
  match j with
  | .obj kvs =>
    match kvs.toList with
    | [(k, v)] =>
      match k with
      | "and" => .and ((asArr v).map parseFilter)
      | "or" => .or ((asArr v).map parseFilter)
      | "not" => .not (parseFilter v)
      | "in" => match asArr v with
        | [n, vs] => .isIn (asStr n) ((asArr vs).map asStr)
        | _ => default
      | "exist" => .exist ((asArr v).map asStr)
      | _ => match cmpOfName k, asArr v with
        | some op, [n, x] => .cmp op (asStr n) (asStr x)
        | _, _ => default
    | _ => default
  | _ => default

/-- Line-protocol form of an ARBITRARY JSON value (C04, malformed / legacy filter texts), object
    members in SOURCE order with duplicates kept: null / booleans / strings / arrays as themselves,
    `{"num": "<literal>"}`, `{"obj": [[key, value], …]}`, and `{"deep": [shape, n, value]}` = the value
    wrapped n times (`"arr"`: `[v]`, `"not"`: `{"$not": v}`, `"or"` / `"and"`: `{"$or": [v]}`,
    any other shape s: `{s: v}`) — the case line itself must stay shallow. -/
partial def parseJv (j : Json) : J :=
  match j with
  | .null => .null
  | .bool b => .bool b
  | .str s => .str s
  | .num _ => .num 0
  | .arr a => .arr (a.toList.map parseJv)
  | .obj _ =>
    match j.getObjVal? "obj", j.getObjVal? "deep" with
    | .ok (.arr ms), _ => .obj (ms.toList.map fun m => match m with
        | .arr #[.str k, v] => (k, parseJv v)
        | _ => ("", .null))
    | _, .ok (.arr #[.str shape, n, v]) =>
      let wrap : J → J := match shape with
        | "arr" => fun x => .arr [x]
        | "not" => fun x => .obj [("$not", x)]
        | "or" => fun x => .obj [("$or", .arr [x])]
        | "and" => fun x => .obj [("$and", .arr [x])]
        | s => fun x => .obj [(s, x)]
      (List.range (n.getNat?.toOption.getD 0)).foldl (fun acc _ => wrap acc) (parseJv v)
    | _, _ => .num 0

/-- `"fjv": {"v": <value>}` — a text denoting that value; `{"raw": <text>}` without `"v"` — a text that does
    not start with a JSON value; `{"raw": <text>, "v": <value>, "trail": b}` — that text, which starts
    with that value, followed (b) by something other than white space -/
def textOf (f : Json) : TextParse :=
  match f.getObjVal? "v" with
  | .ok v => .value (parseJv v) (bool! f "trail")
  | .error _ => .malformed

/-- `serde_json::Value` → `Json` (only used on `to_value` results: objects of at most one member) -/
partial def jOfJ : J → Json
  | .null => .null
  | .bool b => .bool b
  | .num n => .num (JsonNumber.fromInt n)
  | .str s => .str s
  | .arr xs => .arr (xs.map jOfJ).toArray
  | .obj kvs => Json.mkObj (kvs.map fun kv => (kv.1, jOfJ kv.2))

/-- op `"parse"`: `TagFilter::from_str(text)`, then `to_string` of what was parsed (as a value), or the
    error kind together with the `Display` of its cause -/
def parseOut (j : Json) : Json :=
  match (getD? j "fjv").map (fun t => fromText (textOf t)) with
  | some (.ok q) => Json.mkObj [("ok", jOfJ (toValue q))]
  | some (.error e) => Json.mkObj [("err", .str e.kindName), ("msg", .str e.display)]
  | none => jerr "BadOp"

/-- `"fj": true` sends the filter through its JSON form, as the harness does on the real code
    (`TagFilter::to_string` then `TagFilter::from_str`): the filter used is what parses back. -/
def filterRoute (j : Json) (k : String) : Except String (Option (Query String)) :=
  -- `"fjv"`: the filter is given as a text (C04 malformed / legacy stream) and parsed by `from_str`
  if let some t := getD? j "fjv" then
    (match fromText (textOf t) with | .ok q => .ok (some q) | .error e => .error e.display) else
  match (getD? j k).map parseFilter with
  | none => .ok none
  | some q => if bool! j "fj" then (jsonRoute q).map some else .ok (some q)

def filterOpt (j : Json) (k : String) : Option (Query String) :=
  match filterRoute j k with
  | .ok f => f
  | .error _ => none

def tagLt (a b : Tag) : Bool :=
  -- canonical order used by both sides: (plain, name bytes, value bytes)
  if a.plain != b.plain then !a.plain && b.plain
  else if a.name != b.name then Bytes.lt (utf8 a.name) (utf8 b.name)
  else Bytes.lt (utf8 a.value) (utf8 b.value)

def insertSorted {α} (lt : α → α → Bool) (x : α) : List α → List α
  | [] => [x]
  | y :: ys => if lt y x then y :: insertSorted lt x ys else x :: y :: ys

def sortBy {α} (lt : α → α → Bool) (l : List α) : List α := l.foldr (insertSorted lt) []

def jtag (t : Tag) : Json := .arr #[jnat (if t.plain then 1 else 0), .str t.name, .str t.value]

def jentry (e : Entry) : Json :=
  Json.mkObj [("k", jnat e.kind), ("c", .str e.cat), ("n", .str e.name), ("v", jvalue e.value),
    ("t", .arr ((sortBy tagLt e.tags).map jtag).toArray)]

def entryLt (a b : Entry) : Bool :=
  if a.kind != b.kind then a.kind < b.kind
  else if a.cat != b.cat then Bytes.lt (utf8 a.cat) (utf8 b.cat)
  else Bytes.lt (utf8 a.name) (utf8 b.name)

def jentries (ordered : Bool) (es : List Entry) : Json :=
  .arr ((if ordered then es else sortBy entryLt es).map jentry).toArray

structure SessSt where
  profile : String
  txn : Bool
  sess : Option Sess := none
  deriving Inhabited

structure St where
  tx : TxStore
  h : Handle
  now : Int
  page : Nat
  sessions : List (Nat × SessSt) := []
  active : String

def St.db (st : St) : Db := st.tx.db

def St.getSess (st : St) (i : Nat) : Option SessSt := (st.sessions.find? (·.1 == i)).map (·.2)
def St.setSess (st : St) (i : Nat) (s : SessSt) : St :=
  { st with sessions := (i, s) :: st.sessions.filter (·.1 != i) }
def St.delSess (st : St) (i : Nat) : St := { st with sessions := st.sessions.filter (·.1 != i) }

/-- `make_active`: acquire, start the transaction (write lock) if transactional, resolve the key. -/
def activate (st : St) (i : Nat) : St × Except Err Sess :=
  match st.getSess i with
  | none => (st, .error .input)
  | some ss =>
    match ss.sess with
    | some s => (st, .ok s)
    | none =>
      if ss.txn && st.tx.lockedByOther i then (st, .error .backend) else
      -- a transactional session begins here (lazily, at its first call); the transaction stays open
      -- (and the write lock held) even if the profile lookup then fails, until the session ends
      let st := if ss.txn && st.tx.wtxn.isNone then { st with tx := { st.tx with wtxn := some (i, st.tx.db) } } else st
      match resolve (st.tx.view i) st.h ss.profile with
      | .ok (s, h) => ({ st with h := h }.setSess i { ss with sess := some s }, .ok s)
      | .error e => (st, .error e)

def faultOpt (j : Json) : Option FaultAt :=
  match getD? j "fault" with
  | none => none
  | some f =>
    match str! f "at" with
    | "tag" => some (.tag (nat! f "k"))
    | "tagdel" => some .tagdel
    | "item" => some .item
    | "itemupd" => some .itemupd
    | "itemdel" => some .itemdel
    | _ => none

def kindOpt (j : Json) : Option Kind := natOpt j "k"

def sessionlessScan (st : St) (j : Json) : St × Json :=
  let profile := (strOpt j "profile").getD st.active
  match resolve st.db st.h profile with
  | .error e => (st, jerr e.name)
  | .ok (s, h) =>
    let st := { st with h := h }
    let ord := bool! j "ord"
    let windowed := (intOpt j "off").isSome || (intOpt j "lim").isSome
    match (step sqliteLike st.page st.now s st.db (.scan (kindOpt j) (strOpt j "c") (filterOpt j "f")
        (intOpt j "off") (intOpt j "lim") (bool! j "desc"))).2 with
    | .err e => (st, jerr e.name)
    | .pages pages =>
      let sizes := Json.arr (pages.map (fun p => jnat p.length)).toArray
      if ord then (st, Json.mkObj [("pages", .arr (pages.map (jentries true)).toArray)])
      else if windowed then (st, Json.mkObj [("sizes", sizes)])
      else (st, Json.mkObj [("sizes", sizes), ("rows", jentries false pages.flatten)])
    | _ => (st, jerr "BadOp")

def stepOp (st : St) (j : Json) : St × Json :=
  if str! j "op" == "parse" then (st, parseOut j) else
  -- a filter that does not parse back: `from_str` fails with `err_map!("Error parsing tag query")` = Input
  if !(filterRoute j "f").toBool then (st, jerr Err.input.name) else
  let op := str! j "op"
  let i := nat! j "s"
  match op with
  | "session" => (st.setSess i { profile := (strOpt j "profile").getD st.active, txn := bool! j "txn" }, "ok")
  | "tick" => ({ st with now := st.now + int! j "ms" }, "ok")
  | "create_profile" =>
    if st.tx.wtxn.isSome then (st, jerr "Backend") else
    match createProfile st.db st.h (str! j "name") with
    | .ok (db, h) => ({ st with tx := { st.tx with db := db }, h := h }, Json.mkObj [("name", .str (str! j "name"))])
    | .error e => (st, jerr e.name)
  | "remove_profile" =>
    if st.tx.wtxn.isSome then (st, jerr "Backend") else
    let ((db, h), r) := removeProfile st.db st.h (str! j "name") evictOnRemove
    ({ st with tx := { st.tx with db := db }, h := h }, Json.mkObj [("removed", .bool r)])
  | "list_profiles" =>
    (st, .arr ((sortBy (fun a b => Bytes.lt (utf8 a) (utf8 b)) (st.db.profiles.map (·.name))).map Json.str).toArray)
  | "scan" => sessionlessScan st j
  | "commit" => ({ st with tx := (TxStore.step sqliteLike st.page st.now st.tx (.commit i)).1 }.delSess i, "ok")
  | "rollback" | "drop" => ({ st with tx := (TxStore.step sqliteLike st.page st.now st.tx (.rollback i)).1 }.delSess i, "ok")
  | _ =>
    match activate st i with
    | (st, .error e) => (st, jerr e.name)
    | (st, .ok s) =>
      let db := st.tx.view i
      let isTxn := (st.getSess i).map (·.txn) |>.getD false
      let k := nat! j "k"
      if op == "ping" then
        match ping db s with
        | .ok _ => (st, "ok")
        | .error e => (st, jerr e.name)
      else
      let mop : Option Op := match op with
        | "insert" => some (.insert k (str! j "c") (str! j "n") (value! j "v") (parseTags j "t") (intOpt j "e"))
        | "replace" => some (.replace k (str! j "c") (str! j "n") (value! j "v") (parseTags j "t") (intOpt j "e"))
        | "remove" => some (.remove k (str! j "c") (str! j "n"))
        | "remove_all" => some (.removeAll (kindOpt j) (strOpt j "c") (filterOpt j "f"))
        | "fetch" => some (.fetch k (str! j "c") (str! j "n"))
        | "count" => some (.count (kindOpt j) (strOpt j "c") (filterOpt j "f"))
        | "fetch_all" => some (.fetchAll (kindOpt j) (strOpt j "c") (filterOpt j "f") (intOpt j "lim") (bool! j "desc"))
        | _ => none
      match mop with
      | none => (st, jerr "BadOp")
      | some mop =>
        let (tx', out) :=
          match faultOpt j with
          | none => TxStore.step sqliteLike st.page st.now st.tx (.stmt i isTxn s mop)
          | some f =>
            -- injected statement fault (generated only for plain sessions while no transaction is open)
            let (db', o) := stepF sqliteLike st.page st.now (some f) s st.tx.db mop
            ({ st.tx with db := db' }, o)
        let st := { st with tx := tx' }
        match out with
        | .ok => (st, "ok")
        | .err e => (st, jerr e.name)
        | .entry none => (st, .null)
        | .entry (some e) => (st, jentry e)
        | .count n => (st, Json.mkObj [("n", jnat n)])
        | .pages _ => (st, jerr "BadOp")
        | .entries es =>
          let ord := bool! j "ord"
          if ord then (st, Json.mkObj [("rows", jentries true es)])
          else if (intOpt j "lim").isSome then (st, Json.mkObj [("count", jnat es.length)])
          else (st, Json.mkObj [("rows", jentries false es)])

def initSt (j : Json) : St :=
  let profile := (strOpt j "profile").getD "default"
  { tx := { db := { profiles := [⟨1, profile, 0⟩] } }, h := { cache := [(profile, 1, 0)], nextKey := 1 },
    now := int! j "now", page := (natOpt j "page").getD 32, active := profile }

def runOps (st0 : St) (ops : List Json) : St × Array Json :=
  ops.foldl (fun (acc : St × Array Json) op =>
    let (st', o) := stepOp acc.1 op
    (st', acc.2.push o)) (st0, #[])

def runCase (j : Json) : Json := .arr (runOps (initSt j) (arr! j "ops")).2

/-- ordered dump of one profile's published rows (all kinds), as the harness dumps a reopened store -/
def dumpProfile (st : St) (profile : String) : Json :=
  match st.tx.db.profiles.find? (·.name == profile) with
  | none => .null
  | some p => jentries true ((sortById (st.tx.db.items.filter (·.pid == p.id))).map toEntry')
where toEntry' (it : Item) : Entry := ⟨it.kind, it.cat, it.name, it.value, it.tags⟩

end Driver.Store
