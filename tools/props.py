"""Per-property configuration of the check runner."""

COMMON_TRUSTED = [
    "Lean 4.33.0 kernel; axioms accepted in property theorems: propext, Classical.choice, Quot.sound (audited from #print axioms on every run)",
    "hand-written Lean model's faithfulness to the Rust control flow: checked by the correspondence run of this check (bounded by generator quality; distribution below)",
    "tools/extract.py (regenerates Generated/*.lean from /repo), tools/runner.py, the Rust harness (generators, canonicalisers, reference oracle), serde_json / Lean.Data.Json",
]

SQLITE = "SQLite statement semantics of DESIGN.md 3.2 (rowid = max+1, unique index, cascade, DATETIME truncation, LIMIT, BLOB order, LIKE) — assumed in the model, validated against the bundled SQLite by this run"

PROPS = {
    "C01": {
        "gens": ["C01"],
        "extra_props": ["SqlSem"],
        "rule": "random call sequences (insert/replace/remove/remove_all/fetch/fetch_all/count/scan, both kinds, colliding + exotic alphabets, several sequential sessions); non-trivial = the sequence produced at least one Duplicate, one NotFound, one successful replace and one filtered read; distinct = hash of the sequence",
        "assumptions": [SQLITE, "AEAD correctness (decryptability) of the entry encryption; key separation between profile keys"],
        "trusted_base": [],
    },
    "C04": {
        "gens": ["C04"],
        "extra_engines": ["C04S"],
        "rule": "random in-domain filter trees (every operator, empty/singleton lists, repeated names, both kinds, exotic names/values) over random record sets with multi-valued tags, through count / fetch_all / scan(+offset/limit) / remove_all and the negated filter; non-trivial = case with >= 1 negation and >= 2 distinct operators whose counts are neither all 0 nor all = #records; distinct = hash of the case; plus 120 cases (thorough 2 400) of malformed / legacy filter TEXTS (legacy array form, null members, every parse-error arm of wql/query.rs, duplicate keys, nesting 125-5000 levels, type-swapped mutations of valid filters, non-JSON) through TagFilter::from_str / count / fetch_all, judged by an independent reading of the grammar: parses iff JSON, at most 127 deep and grammatical; every error is Input; an array text equals its $or twin on real data",
        "assumptions": [SQLITE, "tag-name and tag-value encryption injective (decryptability); no 12-byte HMAC prefix collision among the values in play (idealisation, hypothesis NoPrefixCollision)"],
        "trusted_base": [],
    },
    "C05": {
        "gens": ["C05"],
        "rule": "call-level schedules of one writing transaction with two plain sessions and (half of the cases) a competing transaction on a file-backed WAL store: own reads, foreign reads and scans between the writes, blocked foreign writes, every ending (commit / rollback / drop), then plain writes, the competing transaction's retry and a final dump; non-trivial = >= 2 successful writes inside the transaction and >= 1 foreign read between them; distinct = hash",
        "assumptions": [SQLITE, "SQLite WAL isolation: one write lock, readers see the last committed state (assumed by the abstract transactional store; validated by this run)"],
        "trusted_base": [],
    },
    "C06": {
        "gens": ["C06", "C06K"],
        "extra_engines": ["C06S"],
        "feature": "c06",
        "model_exe": "askar_model_c06",
        "rule": "(a) statement-fault enumeration on a file-backed store: every mutating call (insert/replace with 0..4 tags (thorough: 0..8), remove, remove_all with/without filter) x fault point (k-th tag insert for k = 0..max, tag delete, item insert, item update, item delete; injected as SQLite RAISE(ABORT) triggers through a second connection), each followed by a full ordered dump and further calls on the same session; non-trivial = at least one fault was actually reached in a multi-statement call and at least one faulted call went through unaffected; (b) SIGKILL campaign: a child process runs 6-20 calls (inserts/replaces with 20-60 tags, removes, remove_all) and acknowledges each; the parent kills it after a random number of acknowledgements plus 0-3 ms, reopens with the same key, and the dump must equal the reference state after the acknowledged prefix or one call more, and the store must accept insert/fetch/remove; non-trivial = killed before the end of the sequence; distinct = hash",
        "assumptions": [SQLITE, "a statement failure injected by a trigger is representative of a backend failure at that statement; statement-level atomicity of a single DELETE is SQLite's"],
        "trusted_base": [],
    },
    "C07": {
        "gens": ["C07"],
        "extra_props": ["SqlSem"],
        "extra_engines": ["C07H"],
        "rule": "interleaved histories over up to 4 profile names with colliding record identities, create/remove/re-create, sessions on missing profiles, per-profile scans; non-trivial = >= 2 profiles hold records and a profile is removed and another created afterwards; distinct = hash",
        "assumptions": [SQLITE, "profile keys are independent (a row encrypted under one key neither matches nor decrypts under another)"],
        "trusted_base": [],
    },
    "C16": {
        "gens": ["C16"],
        "rule": "record counts 0..3*PAGE_SIZE+2 concentrated at page multiples x (offset, limit, order, desc) over {none, -1, 0, 1, p-1, p, p+1, 2p, n, beyond, i64::MAX} x category/tag filter, after delete/re-insert histories, plus consecutive windows; non-trivial = at least one full page and one partial page observed and a non-empty proper window; distinct = hash",
        "assumptions": [SQLITE],
        "trusted_base": [],
    },
    "C17": {
        "gens": ["C17"],
        "extra_props": ["SqlSem"],
        "rule": "expiry offsets {none, -1h, -5s, 5s, 15s, 25s, 1d, ~1000y} x time moved in 10 s steps by rewriting stored timestamps (no read within 5 s of an expiry) x fetch/count/fetch_all/scan and follow-up insert/replace/remove/remove_all on the expired name; non-trivial = a record is read both before and after its expiry; distinct = hash",
        "assumptions": [SQLITE, "time is moved by rewriting items.expiry out of band, which is equivalent to the clock advancing by whole seconds"],
        "trusted_base": [],
    },
}


# per-property configuration files tools/propcfg/CXX.py: `CFG = {"gens": [...], "rule": ..., "assumptions": [...], "trusted_base": [...]}`
# and `def nontrivial(rec) -> bool` (rec = {"case":…, "impl":…, "model":…})
import importlib.util, os
_NT = {}
_d = os.path.join(os.path.dirname(os.path.abspath(__file__)), "propcfg")
for _f in sorted(os.listdir(_d)) if os.path.isdir(_d) else []:
    if _f.endswith(".py"):
        _spec = importlib.util.spec_from_file_location("propcfg_" + _f[:-3], os.path.join(_d, _f))
        _m = importlib.util.module_from_spec(_spec)
        _spec.loader.exec_module(_m)
        PROPS[_f[:-3]] = _m.CFG
        if hasattr(_m, "nontrivial"):
            _NT[_f[:-3]] = _m.nontrivial


def _outs(rec):
    o = rec["impl"].get("out")
    return o if isinstance(o, list) else []


def nontrivial(prop, rec):
    if prop in _NT:
        try:
            return bool(_NT[prop](rec))
        except Exception:
            return False
    feat = rec["impl"].get("feat") or {}
    ops = rec["case"].get("ops") or []
    outs = _outs(rec)
    if prop == "C01":
        repl_ok = any(op.get("op") == "replace" and o == "ok" for op, o in zip(ops, outs))
        return feat.get("err:Duplicate", 0) > 0 and feat.get("err:NotFound", 0) > 0 and repl_ok and feat.get("filtered", 0) > 0
    if prop == "C04":
        if rec["case"].get("kind") == "c04j":
            return feat.get("ref:filter", 0) > 0 and feat.get("ref:refused", 0) > 0 and feat.get("or-twin", 0) > 0
        txt = str(ops)
        counts = [o.get("n") for op, o in zip(ops, outs) if op.get("op") == "count" and isinstance(o, dict) and "n" in o]
        nrec = sum(1 for op in ops if op.get("op") == "insert")
        kinds = sum(1 for k in ["'eq'", "'neq'", "'in'", "'exist'", "'like'", "'gt'", "'gte'", "'lt'", "'lte'"] if k in txt)
        return "'not'" in txt and kinds >= 2 and any(0 < c < nrec for c in counts)
    if prop == "C05":
        w = 0; saw_foreign_read_between = False
        for op, o in zip(ops, outs):
            if op.get("op") in ("commit", "rollback", "drop") and op.get("s") == 0:
                break
            if op.get("s") == 0 and op.get("op") in ("insert", "replace", "remove", "remove_all") and (o == "ok" or (isinstance(o, dict) and "n" in o)):
                w += 1
            elif w >= 1 and op.get("op") in ("fetch", "count", "fetch_all", "scan") and op.get("s") != 0:
                saw_foreign_read_between = True
        return w >= 2 and saw_foreign_read_between
    if prop == "C06":
        if rec["case"].get("kind") == "c06":
            return feat.get("killed-mid-sequence", 0) > 0
        return feat.get("fault:reached", 0) > 0 and feat.get("fault:tag", 0) > feat.get("fault:reached", 0) - feat.get("fault:tagdel", 0) - feat.get("fault:item", 0) - feat.get("fault:itemupd", 0) - feat.get("fault:itemdel", 0)
    if prop == "C07":
        created = [i for i, op in enumerate(ops) if op.get("op") == "create_profile"]
        removed = [i for i, (op, o) in enumerate(zip(ops, outs)) if op.get("op") == "remove_profile" and isinstance(o, dict) and o.get("removed")]
        return bool(removed) and any(c > removed[0] for c in created) and feat.get("op:insert", 0) >= 2
    if prop == "C16":
        return feat.get("page:full", 0) > 0 and feat.get("page:partial", 0) > 0
    if prop == "C17":
        return feat.get("op:tick", 0) > 0 and feat.get("op:fetch", 0) + feat.get("op:fetch_all", 0) + feat.get("op:scan", 0) + feat.get("op:count", 0) >= 2
    return True
