/-
Helper lemmas and proofs for C15 (model: `Model/Ecdh.lean`; property theorems: `Props/C15.lean`).
-/
import AskarModel.Model.Ecdh

namespace Askar.Ecdh

open Askar.Bytes (be32)

/-! ### be32, length prefixes -/

@[simp] theorem be32_length (n : Nat) : (be32 n).length = 4 := rfl

theorem u8_ofNat_inj {a b : Nat} (ha : a < 256) (hb : b < 256) (h : UInt8.ofNat a = UInt8.ofNat b) : a = b := by
  have := congrArg UInt8.toNat h
  simp [UInt8.toNat_ofNat'] at this
  omega

theorem be32_inj {n m : Nat} (hn : n < 2 ^ 32) (hm : m < 2 ^ 32) (h : be32 n = be32 m) : n = m := by
  unfold be32 at h
  simp only [List.cons.injEq, and_true] at h
  obtain ⟨h0, h1, h2, h3⟩ := h
  have e0 := u8_ofNat_inj (Nat.mod_lt _ (by decide)) (Nat.mod_lt _ (by decide)) h0
  have e1 := u8_ofNat_inj (Nat.mod_lt _ (by decide)) (Nat.mod_lt _ (by decide)) h1
  have e2 := u8_ofNat_inj (Nat.mod_lt _ (by decide)) (Nat.mod_lt _ (by decide)) h2
  have e3 := u8_ofNat_inj (Nat.mod_lt _ (by decide)) (Nat.mod_lt _ (by decide)) h3
  omega

theorem be32_append_inj {n m : Nat} {r r' : Bytes} (hn : n < 2 ^ 32) (hm : m < 2 ^ 32)
    (h : be32 n ++ r = be32 m ++ r') : n = m ∧ r = r' := by
  have := List.append_inj h (by simp)
  exact ⟨be32_inj hn hm this.1, this.2⟩

theorem lp_append_inj {a a' r r' : Bytes} (ha : a.length < 2 ^ 32) (ha' : a'.length < 2 ^ 32)
    (h : lp a ++ r = lp a' ++ r') : a = a' ∧ r = r' := by
  unfold lp at h
  rw [List.append_assoc, List.append_assoc] at h
  obtain ⟨hl, hr⟩ := be32_append_inj ha ha' h
  exact List.append_inj hr hl

/-- the optional tag field of ECDH-1PU's SuppPubInfo as the code writes it -/
def tagPart (t : Bytes) : Bytes := if t.isEmpty then [] else lp t

theorem tagPart_inj {t t' : Bytes} (ht : t.length < 2 ^ 32) (ht' : t'.length < 2 ^ 32) (h : tagPart t = tagPart t') : t = t' := by
  unfold tagPart at h
  cases t with
  | nil =>
    cases t' with
    | nil => rfl
    | cons x xs => simp [lp, be32] at h
  | cons y ys =>
    cases t' with
    | nil => simp [lp, be32] at h
    | cons x xs =>
      simp only [List.isEmpty_cons, Bool.false_eq_true, if_false] at h
      have := lp_append_inj (r := []) (r' := []) ht ht' (by simpa using h)
      exact this.1

/-! ### normal forms of the hashed strings -/

theorem esInput_eq (z alg apu apv : Bytes) (n : Nat) :
    esInput z alg apu apv n = be32 1 ++ (z ++ (lp alg ++ (lp apu ++ (lp apv ++ be32 (n * 8))))) := by
  simp [esInput, KdfHash.new, KdfHash.startPass, KdfHash.update, KdfHash.hashParams, List.append_assoc]

theorem puInput_eq (ze zs alg apu apv pi : Bytes) :
    puInput ze zs alg apu apv pi = be32 1 ++ (ze ++ (zs ++ (lp alg ++ (lp apu ++ (lp apv ++ pi))))) := by
  simp [puInput, KdfHash.new, KdfHash.startPass, KdfHash.update, KdfHash.hashParams, List.append_assoc]

theorem esInput_injective {z z' alg alg' apu apu' apv apv' : Bytes} {n n' : Nat}
    (hz : z.length = z'.length)
    (h1 : alg.length < 2 ^ 32) (h1' : alg'.length < 2 ^ 32) (h2 : apu.length < 2 ^ 32) (h2' : apu'.length < 2 ^ 32)
    (h3 : apv.length < 2 ^ 32) (h3' : apv'.length < 2 ^ 32) (hn : n * 8 < 2 ^ 32) (hn' : n' * 8 < 2 ^ 32)
    (h : esInput z alg apu apv n = esInput z' alg' apu' apv' n') :
    z = z' ∧ alg = alg' ∧ apu = apu' ∧ apv = apv' ∧ n = n' := by
  rw [esInput_eq, esInput_eq] at h
  have h := (List.append_inj h rfl).2
  obtain ⟨e1, h⟩ := List.append_inj h hz
  obtain ⟨e2, h⟩ := lp_append_inj h1 h1' h
  obtain ⟨e3, h⟩ := lp_append_inj h2 h2' h
  obtain ⟨e4, h⟩ := lp_append_inj h3 h3' h
  have e5 := be32_inj hn hn' h
  exact ⟨e1, e2, e3, e4, by omega⟩

theorem puInput_injective {ze ze' zs zs' alg alg' apu apu' apv apv' tag tag' : Bytes} {n n' : Nat}
    (hze : ze.length = ze'.length) (hzs : zs.length = zs'.length)
    (h1 : alg.length < 2 ^ 32) (h1' : alg'.length < 2 ^ 32) (h2 : apu.length < 2 ^ 32) (h2' : apu'.length < 2 ^ 32)
    (h3 : apv.length < 2 ^ 32) (h3' : apv'.length < 2 ^ 32) (h4 : tag.length < 2 ^ 32) (h4' : tag'.length < 2 ^ 32)
    (hn : n * 8 < 2 ^ 32) (hn' : n' * 8 < 2 ^ 32)
    (h : puInput ze zs alg apu apv (be32 (n * 8) ++ tagPart tag) = puInput ze' zs' alg' apu' apv' (be32 (n' * 8) ++ tagPart tag')) :
    ze = ze' ∧ zs = zs' ∧ alg = alg' ∧ apu = apu' ∧ apv = apv' ∧ n = n' ∧ tag = tag' := by
  rw [puInput_eq, puInput_eq] at h
  have h := (List.append_inj h rfl).2
  obtain ⟨e0, h⟩ := List.append_inj h hze
  obtain ⟨e1, h⟩ := List.append_inj h hzs
  obtain ⟨e2, h⟩ := lp_append_inj h1 h1' h
  obtain ⟨e3, h⟩ := lp_append_inj h2 h2' h
  obtain ⟨e4, h⟩ := lp_append_inj h3 h3' h
  obtain ⟨e5, h⟩ := be32_append_inj hn hn' h
  exact ⟨e0, e1, e2, e3, e4, by omega, tagPart_inj h4 h4' h⟩

/-! ### the slice writer -/

theorem write_ok {w : SliceWriter} {d : Bytes} (hw : w.pos ≤ w.inner.length) (hfit : w.pos + d.length ≤ w.inner.length) :
    w.write d = .ok ⟨w.inner.take w.pos ++ d ++ w.inner.drop (w.pos + d.length), w.pos + d.length⟩ := by
  unfold SliceWriter.write
  simp only
  rw [if_neg (by omega), if_neg (by omega)]

theorem write_full {w : SliceWriter} {d : Bytes} (hfit : ¬ w.pos + d.length ≤ w.inner.length) :
    w.write d = .err .exceededBuffer := by
  unfold SliceWriter.write
  simp only
  rw [if_pos (by omega)]

/-- a write never panics, keeps the slice length, and extends the written prefix by exactly the data -/
theorem write_spec (w : SliceWriter) (d : Bytes) (_hw : w.pos ≤ w.inner.length) :
    w.write d = .err .exceededBuffer ∨
    ∃ w', w.write d = .ok w' ∧ w'.inner.length = w.inner.length ∧ w'.pos = w.pos + d.length ∧ w'.pos ≤ w'.inner.length ∧
      w'.inner.take w'.pos = w.inner.take w.pos ++ d := by
  by_cases hfit : w.pos + d.length ≤ w.inner.length
  · right
    refine ⟨_, write_ok _hw hfit, ?_, rfl, ?_, ?_⟩
    · simp; omega
    · simp; omega
    · simp only
      have hl : (List.take w.pos w.inner ++ d).length = w.pos + d.length := by simp; omega
      rw [List.take_append_of_le_length (by omega), List.take_of_length_le (by omega)]
  · left; exact write_full hfit

theorem write_ok' {w : SliceWriter} {d : Bytes} (hw : w.pos ≤ w.inner.length) (hfit : w.pos + d.length ≤ w.inner.length) :
    ∃ w', w.write d = .ok w' ∧ w'.inner.length = w.inner.length ∧ w'.pos = w.pos + d.length ∧
      w'.inner.take w'.pos = w.inner.take w.pos ++ d := by
  rcases write_spec w d hw with h | ⟨w', h1, h2, h3, _, h5⟩
  · rw [write_ok hw hfit] at h; cases h
  · exact ⟨w', h1, h2, h3, h5⟩

theorem asRef_ok {w : SliceWriter} (hw : w.pos ≤ w.inner.length) : w.asRef = .ok (w.inner.take w.pos) := by
  unfold SliceWriter.asRef; rw [if_neg (by omega)]

theorem tagPart_length (t : Bytes) : (tagPart t).length = if t.isEmpty then 0 else 4 + t.length := by
  unfold tagPart
  split <;> simp [lp]

/-- what `pub_info` holds, for EVERY buffer size, output length and tag: the code's result -/
theorem pubInfo1puCap_eq (cap n : Nat) (tag : Bytes) :
    pubInfo1puCap cap n tag =
      if 4 + (tagPart tag).length ≤ cap then .ok (be32 (n * 8) ++ tagPart tag) else .err .exceededBuffer := by
  unfold pubInfo1puCap
  have hn0 : (SliceWriter.new cap).inner.length = cap := by simp [SliceWriter.new]
  have hp0 : (SliceWriter.new cap).pos = 0 := rfl
  by_cases h4 : 4 ≤ cap
  · obtain ⟨w1, e1, l1, p1, t1⟩ := write_ok' (w := SliceWriter.new cap) (d := be32 (n * 8)) (by omega)
      (by rw [hn0, hp0]; simp; omega)
    rw [hp0] at p1 t1
    rw [hn0] at l1
    simp only [List.take_zero, List.nil_append, be32_length, Nat.zero_add] at p1 t1
    simp only [e1, Res.ok_bind]
    cases tag with
    | nil =>
      simp only [List.isEmpty_nil, if_true, Res.pure_eq, Res.ok_bind]
      rw [asRef_ok (by omega), t1, if_pos (show 4 + (tagPart ([] : Bytes)).length ≤ cap by simp [tagPart]; omega)]
      simp [tagPart]
    | cons x xs =>
      have htl : (tagPart (x :: xs)).length = 4 + (xs.length + 1) := by simp [tagPart, lp]
      simp only [List.isEmpty_cons, Bool.false_eq_true, if_false]
      by_cases h8 : 8 ≤ cap
      · obtain ⟨w2, e2, l2, p2, t2⟩ := write_ok' (w := w1) (d := be32 (x :: xs).length) (by omega)
          (by rw [p1, l1]; simp; omega)
        rw [t1] at t2
        rw [p1] at p2
        rw [l1] at l2
        simp only [be32_length] at p2
        simp only [e2, Res.ok_bind]
        by_cases hl : 8 + (x :: xs).length ≤ cap
        · obtain ⟨w3, e3, l3, p3, t3⟩ := write_ok' (w := w2) (d := x :: xs) (by omega) (by rw [p2, l2]; omega)
          rw [e3, if_pos (show 4 + (tagPart (x :: xs)).length ≤ cap by rw [htl]; simp at hl; omega)]
          simp only [Res.ok_bind]
          rw [asRef_ok (by rw [p3, l3, p2, l2]; omega), t3, t2]
          simp [tagPart, lp, List.append_assoc]
        · rw [write_full (by rw [p2, l2]; omega),
            if_neg (show ¬ 4 + (tagPart (x :: xs)).length ≤ cap by rw [htl]; simp at hl; omega)]
          rfl
      · rw [write_full (by rw [p1, l1]; simp; omega),
          if_neg (show ¬ 4 + (tagPart (x :: xs)).length ≤ cap by rw [htl]; omega)]
        rfl
  · have e1 : (SliceWriter.new cap).write (be32 (n * 8)) = .err .exceededBuffer :=
      write_full (w := SliceWriter.new cap) (d := be32 (n * 8)) (by rw [hn0, hp0]; simp; omega)
    simp only [e1, Res.err_bind]
    rw [if_neg (by omega)]

theorem pubInfo1puCap_ne_panic (cap n : Nat) (tag : Bytes) : pubInfo1puCap cap n tag ≠ .panic := by
  rw [pubInfo1puCap_eq]; split <;> simp

/-- the stack buffer is never overrun, whatever its size -/
theorem pubInfo1puCap_bounded {cap n : Nat} {tag b : Bytes} (h : pubInfo1puCap cap n tag = .ok b) : b.length ≤ cap := by
  rw [pubInfo1puCap_eq] at h
  split at h
  · rename_i hl
    injection h with h
    subst h
    simp; omega
  · cases h

/-! ### key exchange -/

theorem keyExchange_ne_panic (D : DhOps) (a b : Key) : keyExchange D a b ≠ .panic := by
  unfold keyExchange
  split
  · simp
  · split
    · split <;> simp
    · simp

theorem exchange_ne_panic (D : DhOps) (a b : Key) (r : Bool) : exchange D a b r ≠ .panic := by
  unfold exchange; split <;> exact keyExchange_ne_panic _ _ _

theorem keyExchange_full (D : DhOps) (c : Curve) (sk : Bytes) (other : Key) (h : other.ty = .dh c) :
    keyExchange D (Key.full D c sk) other = .ok (D.dh c sk other.pub) := by
  simp [keyExchange, Key.full, h]

theorem keyExchange_length (D : DhOps) (L : DhLaws D) {a b : Key} {z : Bytes} {c : Curve} (hc : a.ty = .dh c)
    (h : keyExchange D a b = .ok z) : z.length = L.zlen c := by
  unfold keyExchange at h
  split at h
  · cases h
  · rw [hc] at h
    simp only at h
    split at h
    · injection h with h; subst h; exact L.dh_len _ _ _
    · cases h

/-! ### derivations -/

theorem res_bind_congr {α β} {r : Res α} {f g : α → Res β} (h : ∀ a, f a = g a) : (r >>= f) = (r >>= g) := by
  cases r with
  | ok a => exact h a
  | err e => rfl
  | panic => rfl

theorem takeKey_ok {d : Bytes} {n : Nat} (h : n ≤ d.length) : takeKey d n = .ok (d.take n) := by
  unfold takeKey; rw [if_neg (by omega)]

theorem deriveEsBytes_eq (D : DhOps) (hash : Bytes → Bytes) (hlen : ∀ x, (hash x).length = 32) (eph rcp : Key)
    (alg apu apv : Bytes) (receive : Bool) (n : Nat) :
    deriveEsBytes D hash eph rcp alg apu apv receive n =
      if n > 32 then .err .unsupported
      else exchange D eph rcp receive >>= fun z =>
        .ok ((hash (esInput z alg apu apv n)).take n) := by
  unfold deriveEsBytes
  split
  · rfl
  · rename_i hn
    exact res_bind_congr fun z => takeKey_ok (by rw [hlen]; omega)

theorem derive1puBytesCap_eq (cap : Nat) (D : DhOps) (hash : Bytes → Bytes) (hlen : ∀ x, (hash x).length = 32)
    (eph snd rcp : Key) (alg apu apv tag : Bytes) (receive : Bool) (n : Nat) :
    derive1puBytesCap cap D hash eph snd rcp alg apu apv tag receive n =
      if n > 32 then .err .unsupported
      else if tag.length > 128 then .err .unsupported
      else exchange D eph rcp receive >>= fun ze =>
        exchange D snd rcp receive >>= fun zs =>
          if 4 + (tagPart tag).length ≤ cap then
            .ok ((hash (puInput ze zs alg apu apv (be32 (n * 8) ++ tagPart tag))).take n)
          else .err .exceededBuffer := by
  unfold derive1puBytesCap
  by_cases hn : n > 32
  · rw [if_pos hn, if_pos hn]
  · rw [if_neg hn, if_neg hn]
    by_cases ht : tag.length > 128
    · rw [if_pos ht, if_pos ht]
    · rw [if_neg ht, if_neg ht]
      refine res_bind_congr fun ze => res_bind_congr fun zs => ?_
      rw [pubInfo1puCap_eq]
      by_cases hl : 4 + (tagPart tag).length ≤ cap
      · simp only [if_pos hl, Res.ok_bind]
        exact takeKey_ok (by rw [hlen]; omega)
      · simp only [if_neg hl, Res.err_bind]

theorem res_bind_ne_panic {α β} {r : Res α} {f : α → Res β} (hr : r ≠ .panic) (hf : ∀ a, f a ≠ .panic) : (r >>= f) ≠ .panic := by
  cases r with
  | ok a => exact hf a
  | err e => simp
  | panic => exact absurd rfl hr

theorem deriveEsBytes_ne_panic (D : DhOps) (hash : Bytes → Bytes) (hlen : ∀ x, (hash x).length = 32) (eph rcp : Key)
    (alg apu apv : Bytes) (receive : Bool) (n : Nat) : deriveEsBytes D hash eph rcp alg apu apv receive n ≠ .panic := by
  rw [deriveEsBytes_eq D hash hlen]
  split
  · simp
  · apply res_bind_ne_panic
    · exact exchange_ne_panic _ _ _ _
    · intro a; simp

theorem derive1puBytesCap_ne_panic (cap : Nat) (D : DhOps) (hash : Bytes → Bytes) (hlen : ∀ x, (hash x).length = 32)
    (eph snd rcp : Key) (alg apu apv tag : Bytes) (receive : Bool) (n : Nat) :
    derive1puBytesCap cap D hash eph snd rcp alg apu apv tag receive n ≠ .panic := by
  rw [derive1puBytesCap_eq cap D hash hlen]
  split
  · simp
  · split
    · simp
    · apply res_bind_ne_panic
      · exact exchange_ne_panic _ _ _ _
      · intro ze
        apply res_bind_ne_panic
        · exact exchange_ne_panic _ _ _ _
        · intro zs; split <;> simp

/-! ### both sides agree -/

theorem exchange_full_public (D : DhOps) (c : Curve) (a r : Bytes) :
    exchange D (Key.full D c a) (Key.public D c r) false = .ok (D.dh c a (D.pub c r)) := by
  simp [exchange, keyExchange, Key.full, Key.public]

theorem exchange_public_full (D : DhOps) (c : Curve) (a r : Bytes) :
    exchange D (Key.public D c a) (Key.full D c r) true = .ok (D.dh c r (D.pub c a)) := by
  simp [exchange, keyExchange, Key.full, Key.public]

theorem exchange_agree (D : DhOps) (L : DhLaws D) (c : Curve) (a r : Bytes) (ha : L.valid c a) (hr : L.valid c r) :
    exchange D (Key.full D c a) (Key.public D c r) false = exchange D (Key.public D c a) (Key.full D c r) true := by
  rw [exchange_full_public, exchange_public_full, L.dh_comm c a r ha hr]

theorem es_agree (D : DhOps) (L : DhLaws D) (hash : Bytes → Bytes) (t : Target) (c : Curve) (e r : Bytes)
    (he : L.valid c e) (hr : L.valid c r) (alg apu apv : Bytes) :
    deriveKeyEcdhEs D hash t (Key.full D c e) (Key.public D c r) alg apu apv false =
      deriveKeyEcdhEs D hash t (Key.public D c e) (Key.full D c r) alg apu apv true := by
  unfold deriveKeyEcdhEs fromKeyDerivation
  cases t.keyLen with
  | none => rfl
  | some n =>
    show deriveEsBytes _ _ _ _ _ _ _ _ _ = deriveEsBytes _ _ _ _ _ _ _ _ _
    unfold deriveEsBytes
    rw [exchange_agree D L c e r he hr]

theorem pu_agree (cap : Nat) (D : DhOps) (L : DhLaws D) (hash : Bytes → Bytes) (t : Target) (c : Curve) (e s r : Bytes)
    (he : L.valid c e) (hs : L.valid c s) (hr : L.valid c r) (alg apu apv tag : Bytes) :
    deriveKeyEcdh1puCap cap D hash t (Key.full D c e) (Key.full D c s) (Key.public D c r) alg apu apv tag false =
      deriveKeyEcdh1puCap cap D hash t (Key.public D c e) (Key.public D c s) (Key.full D c r) alg apu apv tag true := by
  unfold deriveKeyEcdh1puCap fromKeyDerivation
  cases t.keyLen with
  | none => rfl
  | some n =>
    show derive1puBytesCap _ _ _ _ _ _ _ _ _ _ _ _ = derive1puBytesCap _ _ _ _ _ _ _ _ _ _ _ _
    unfold derive1puBytesCap
    rw [exchange_agree D L c e r he hr, exchange_agree D L c s r hs hr]

/-! ### the hashed string is the standards' OtherInfo layout -/

theorem esBytes_matches (D : DhOps) (hash : Bytes → Bytes) (hlen : ∀ x, (hash x).length = 32) (eph rcp : Key)
    (alg apu apv : Bytes) (receive : Bool) (n : Nat) (hn : n ≤ 32) (z : Bytes) (hz : exchange D eph rcp receive = .ok z) :
    deriveEsBytes D hash eph rcp alg apu apv receive n = .ok (Spec.esKey hash z alg apu apv n) := by
  rw [deriveEsBytes_eq D hash hlen, if_neg (by omega), hz]
  simp only [Res.ok_bind]
  rw [esInput_eq]
  simp [Spec.esKey, Spec.round, Spec.esOtherInfo, Spec.otherInfo, Spec.datalenData, lp, Nat.mul_comm, List.append_assoc]

theorem puBytes_matches (cap : Nat) (D : DhOps) (hash : Bytes → Bytes) (hlen : ∀ x, (hash x).length = 32) (eph snd rcp : Key)
    (alg apu apv tag : Bytes) (receive : Bool) (n : Nat) (hn : n ≤ 32) (ht : tag.length ≤ 128) (hcap : tag.length + 8 ≤ cap)
    (ze zs : Bytes) (hze : exchange D eph rcp receive = .ok ze) (hzs : exchange D snd rcp receive = .ok zs) :
    derive1puBytesCap cap D hash eph snd rcp alg apu apv tag receive n = .ok (Spec.puKey hash ze zs alg apu apv tag n) := by
  rw [derive1puBytesCap_eq cap D hash hlen, if_neg (by omega), if_neg (by omega), hze, hzs]
  simp only [Res.ok_bind]
  rw [if_pos (by rw [tagPart_length]; split <;> omega), puInput_eq]
  simp [Spec.puKey, Spec.round, Spec.puOtherInfo, Spec.otherInfo, Spec.datalenData, tagPart, lp, Nat.mul_comm, List.append_assoc]

/-- a non-empty tag that the explicit guard lets through but the buffer cannot hold -/
theorem puBytes_tag_exceeds_cap (cap : Nat) (D : DhOps) (hash : Bytes → Bytes) (hlen : ∀ x, (hash x).length = 32)
    (eph snd rcp : Key) (alg apu apv tag : Bytes) (receive : Bool) (n : Nat) (hn : n ≤ 32) (hne : tag ≠ [])
    (ht : cap < tag.length + 8) (ht' : tag.length ≤ 128)
    (ze zs : Bytes) (hze : exchange D eph rcp receive = .ok ze) (hzs : exchange D snd rcp receive = .ok zs) :
    derive1puBytesCap cap D hash eph snd rcp alg apu apv tag receive n = .err .exceededBuffer := by
  rw [derive1puBytesCap_eq cap D hash hlen, if_neg (by omega), if_neg (by omega), hze, hzs]
  simp only [Res.ok_bind]
  have : tag.isEmpty = false := by cases tag <;> simp_all
  rw [if_neg (by rw [tagPart_length, this]; simp; omega)]

theorem es_len_guard (D : DhOps) (hash : Bytes → Bytes) (eph rcp : Key) (alg apu apv : Bytes) (receive : Bool) (n : Nat)
    (hn : n > 32) : deriveEsBytes D hash eph rcp alg apu apv receive n = .err .unsupported := by
  unfold deriveEsBytes; rw [if_pos hn]

theorem pu_len_guard (cap : Nat) (D : DhOps) (hash : Bytes → Bytes) (eph snd rcp : Key) (alg apu apv tag : Bytes) (receive : Bool)
    (n : Nat) (hn : n > 32) : derive1puBytesCap cap D hash eph snd rcp alg apu apv tag receive n = .err .unsupported := by
  unfold derive1puBytesCap; rw [if_pos hn]

theorem pu_tag_guard (cap : Nat) (D : DhOps) (hash : Bytes → Bytes) (eph snd rcp : Key) (alg apu apv tag : Bytes) (receive : Bool)
    (n : Nat) (ht : tag.length > 128) : derive1puBytesCap cap D hash eph snd rcp alg apu apv tag receive n = .err .unsupported := by
  unfold derive1puBytesCap
  by_cases hn : n > 32
  · rw [if_pos hn]
  · rw [if_neg hn, if_pos ht]

/-! ### toy instances (non-vacuity) -/

def pad32 (x : Bytes) : Bytes := (x ++ List.replicate 32 0).take 32

theorem pad32_length (x : Bytes) : (pad32 x).length = 32 := by simp [pad32]

/-- public key = secret key, shared secret = XOR of the two (padded to 32 bytes) -/
def toyDh : DhOps where
  pub _ a := a
  dh _ a p := List.zipWith (· ^^^ ·) (pad32 a) (pad32 p)

def toyDhLaws : DhLaws toyDh where
  valid _ _ := True
  zlen _ := 32
  dh_len _ a p := by simp [toyDh, pad32_length]
  dh_comm _ a b _ _ := by
    simp only [toyDh]
    rw [List.zipWith_comm]
    congr 1
    funext x y
    exact UInt8.xor_comm y x

def toyHash (x : Bytes) : Bytes := pad32 x

/-- "cipher" = identity, tag = sixteen zero bytes, checked on opening -/
def toyBox : BoxOps where
  pub s := pad32 s
  beforenm _ _ := []
  sealBox _ _ m := (m, List.replicate 16 0)
  openBox _ _ c t := if t = List.replicate 16 0 then some c else none
  nonceHash _ := List.replicate 24 0

theorem toyBoxLaws : BoxLaws toyBox where
  pub_len s := pad32_length s
  ct_len _ _ _ := rfl
  tag_len _ _ _ := by simp [toyBox]
  open_seal _ _ _ := by simp [toyBox]
  beforenm_comm _ _ := rfl
  nonce_len _ := by simp [toyBox]

theorem toyBoxIdeal : BoxIdeal toyBox where
  auth k n c t m h := by
    simp only [toyBox] at h ⊢
    split at h
    · rename_i ht; injection h with h; subst h; rw [ht]
    · cases h

/-! ### crypto_box -/

/-- an X25519 key pair / its public half over the box operations -/
def xfull (B : BoxOps) (sk : Bytes) : Key := ⟨.dh .x25519, B.pub sk, some sk⟩
def xpub (B : BoxOps) (sk : Bytes) : Key := ⟨.dh .x25519, B.pub sk, none⟩

theorem cryptoBox_eq (B : BoxOps) (rp ss : Key) (sk : Bytes) (hs : ss.secret = some sk) (m nonce : Bytes)
    (hn : nonce.length = 24) :
    cryptoBox B rp ss m nonce =
      .ok ((B.sealBox (B.beforenm sk rp.pub) nonce m).2 ++ (B.sealBox (B.beforenm sk rp.pub) nonce m).1) := by
  simp [cryptoBox, secretKeyFrom, hs, nonceFrom, hn, Bind.bind, Res.bind]

theorem cryptoBoxOpen_eq (B : BoxOps) (rs sp : Key) (sk : Bytes) (hs : rs.secret = some sk) (b nonce : Bytes)
    (hn : nonce.length = 24) (hb : 16 ≤ b.length) :
    cryptoBoxOpen B rs sp b nonce =
      match B.openBox (B.beforenm sk sp.pub) nonce (b.drop 16) (b.take 16) with
      | none => .err .encryption
      | some m => .ok m := by
  simp only [cryptoBoxOpen, secretKeyFrom, hs, nonceFrom, hn, Bind.bind, Res.bind, if_true]
  rw [if_neg (show ¬ b.length < 16 by omega), if_neg (show ¬ 16 > b.length by omega)]
  split <;> simp_all

theorem cryptoBoxOpen_ne_panic (B : BoxOps) (rs sp : Key) (b nonce : Bytes) : cryptoBoxOpen B rs sp b nonce ≠ .panic := by
  unfold cryptoBoxOpen secretKeyFrom nonceFrom
  cases rs.secret with
  | none => simp [Bind.bind, Res.bind]
  | some sk =>
    by_cases hn : nonce.length = 24
    · simp only [hn, if_true, Bind.bind, Res.bind]
      by_cases hb : b.length < 16
      · simp [hb]
      · rw [if_neg hb, if_neg (by omega)]
        split <;> simp
    · simp [hn, Bind.bind, Res.bind]

theorem cryptoBoxOpen_short (B : BoxOps) (rs sp : Key) (b nonce : Bytes) (hb : b.length < 16) :
    ∃ e, cryptoBoxOpen B rs sp b nonce = .err e := by
  unfold cryptoBoxOpen secretKeyFrom nonceFrom
  cases rs.secret with
  | none => exact ⟨_, rfl⟩
  | some sk =>
    by_cases hn : nonce.length = 24
    · refine ⟨.encryption, ?_⟩
      simp only [hn, if_true, Bind.bind, Res.bind]
      rw [if_pos hb]
    · refine ⟨.invalidNonce, ?_⟩
      simp [hn, Bind.bind, Res.bind]

theorem box_roundtrip (B : BoxOps) (L : BoxLaws B) (r s m nonce : Bytes) (hn : nonce.length = 24) :
    ∃ b, envCryptoBox B (xpub B r) (xfull B s) m nonce = .ok b ∧ b.length = m.length + 16 ∧
      b = (B.sealBox (B.beforenm s (B.pub r)) nonce m).2 ++ (B.sealBox (B.beforenm s (B.pub r)) nonce m).1 ∧
      envCryptoBoxOpen B (xfull B r) (xpub B s) b nonce = .ok m := by
  refine ⟨_, ?_, ?_, rfl, ?_⟩
  · simp only [envCryptoBox, castX25519, xpub, xfull, if_true, Res.ok_bind]
    exact cryptoBox_eq B _ _ s rfl m nonce hn
  · simp [L.tag_len, L.ct_len]; omega
  · simp only [envCryptoBoxOpen, castX25519, xpub, xfull, if_true, Res.ok_bind]
    rw [cryptoBoxOpen_eq B _ _ r rfl _ nonce hn (by simp [L.tag_len])]
    have ht := L.tag_len (B.beforenm s (B.pub r)) nonce m
    rw [List.drop_left' ht, List.take_left' ht, L.beforenm_comm r s, L.open_seal]

theorem box_open_only_sealed (B : BoxOps) (I : BoxIdeal B) (rs sp : Key) (sk : Bytes) (hs : rs.secret = some sk)
    (b nonce m : Bytes) (h : cryptoBoxOpen B rs sp b nonce = .ok m) :
    16 ≤ b.length ∧ nonce.length = 24 ∧ B.sealBox (B.beforenm sk sp.pub) nonce m = (b.drop 16, b.take 16) := by
  by_cases hn : nonce.length = 24
  · by_cases hb : 16 ≤ b.length
    · rw [cryptoBoxOpen_eq B rs sp sk hs b nonce hn hb] at h
      refine ⟨hb, hn, ?_⟩
      split at h
      · cases h
      · rename_i m' hm
        injection h with h; subst h
        exact I.auth _ _ _ _ _ hm
    · obtain ⟨e, he⟩ := cryptoBoxOpen_short B rs sp b nonce (by omega)
      rw [he] at h; cases h
  · simp [cryptoBoxOpen, secretKeyFrom, hs, nonceFrom, hn, Bind.bind, Res.bind] at h

/-! ### sealed boxes -/

theorem cryptoBoxSealOpen_ne_panic (B : BoxOps) (rs : Key) (c : Bytes) : cryptoBoxSealOpen B rs c ≠ .panic := by
  unfold cryptoBoxSealOpen
  by_cases hc : c.length < 48
  · simp [hc]
  · have : ¬ 32 > c.length := by omega
    simp only [hc, this, if_false]
    split
    · simp
    · exact cryptoBoxOpen_ne_panic _ _ _ _ _

theorem cryptoBoxSealOpen_short (B : BoxOps) (rs : Key) (c : Bytes) (hc : c.length < 48) :
    cryptoBoxSealOpen B rs c = .err .encryption := by
  unfold cryptoBoxSealOpen
  rw [if_pos hc]

theorem seal_roundtrip (B : BoxOps) (L : BoxLaws B) (e r m : Bytes) :
    ∃ s, envCryptoBoxSeal B e (xpub B r) m = .ok s ∧ s.length = m.length + 48 ∧
      s = B.pub e ++ ((B.sealBox (B.beforenm e (B.pub r)) (sealNonce B (B.pub e) (B.pub r)) m).2 ++
                      (B.sealBox (B.beforenm e (B.pub r)) (sealNonce B (B.pub e) (B.pub r)) m).1) ∧
      envCryptoBoxSealOpen B (xfull B r) s = .ok m := by
  have hp := L.pub_len e
  have hnl : (sealNonce B (B.pub e) (B.pub r)).length = 24 := L.nonce_len _
  have ht := L.tag_len (B.beforenm e (B.pub r)) (sealNonce B (B.pub e) (B.pub r)) m
  have hc := L.ct_len (B.beforenm e (B.pub r)) (sealNonce B (B.pub e) (B.pub r)) m
  refine ⟨_, ?_, ?_, rfl, ?_⟩
  · simp only [envCryptoBoxSeal, castX25519, xpub, if_true, Res.ok_bind, cryptoBoxSeal]
    split
    · next h => simp [hp] at h; exact absurd h (by omega)
    · rw [List.drop_left' hp, List.take_left' hp]
      rw [cryptoBox_eq B _ _ e rfl m _ hnl]
      rfl
  · simp [hp, ht, hc]; omega
  · simp only [envCryptoBoxSealOpen, castX25519, xfull, if_true, Res.ok_bind, cryptoBoxSealOpen]
    rw [List.take_left' hp, List.drop_left' hp]
    split
    · next h => simp [hp, ht, hc] at h; exact absurd h (by omega)
    · split
      · next h => simp [hp, ht, hc] at h; exact absurd h (by omega)
      · split
        · next h => exact absurd hp h
        · rw [cryptoBoxOpen_eq B _ _ r rfl _ _ hnl (by simp [ht])]
          rw [List.drop_left' ht, List.take_left' ht]
          show (match B.openBox (B.beforenm r (B.pub e)) _ _ _ with | none => _ | some m => _) = _
          rw [L.beforenm_comm r e, L.open_seal]

end Askar.Ecdh
