/-
AES-GCM — executable SPECIFICATION written from NIST SP 800-38D (§6.3 multiplication, §6.4 GHASH,
§6.5 GCTR, §7.1/7.2 GCM-AE / GCM-AD), not from the Rust.  ORACLE for differential runs; validated
against the GCM specification's test cases (McGrew–Viega, the vectors SP 800-38D refers to) in
`selfTest` (THESE ARE TESTS).  Field elements are pairs of `UInt64` (hi = bits 0…63 of the block,
bit 0 being the most significant bit of byte 0, as in §6.3).
-/
import AskarModel.Crypto.Aes

namespace Askar.Crypto.Gcm

structure Blk where
  hi : UInt64
  lo : UInt64
  deriving BEq, Inhabited

def Blk.zero : Blk := ⟨0, 0⟩
@[inline] def Blk.xor (a b : Blk) : Blk := ⟨a.hi ^^^ b.hi, a.lo ^^^ b.lo⟩

/-- 16 bytes at offset `off` (missing bytes read as 0: the zero padding of §6.4/§7.1) -/
def Blk.load (b : ByteArray) (off : Nat) : Blk := Id.run do
  let mut hi : UInt64 := 0
  let mut lo : UInt64 := 0
  for i in [0:8] do
    hi := (hi <<< 8) ||| (if off + i < b.size then (b.get! (off + i)).toUInt64 else 0)
  for i in [8:16] do
    lo := (lo <<< 8) ||| (if off + i < b.size then (b.get! (off + i)).toUInt64 else 0)
  return ⟨hi, lo⟩

def Blk.store (x : Blk) : ByteArray := Id.run do
  let mut o := ByteArray.emptyWithCapacity 16
  for i in [0:8] do
    o := o.push (x.hi >>> (UInt64.ofNat (8 * (7 - i)))).toUInt8
  for i in [0:8] do
    o := o.push (x.lo >>> (UInt64.ofNat (8 * (7 - i)))).toUInt8
  return o

/-- §6.3 Algorithm 1: X · Y in GF(2^128), R = 11100001 ‖ 0^120 -/
def gfMul (x y : Blk) : Blk := Id.run do
  let mut z := Blk.zero
  let mut v := y
  for i in [0:128] do
    let bit : UInt64 :=
      if i < 64 then (x.hi >>> (UInt64.ofNat (63 - i))) &&& 1 else (x.lo >>> (UInt64.ofNat (127 - i))) &&& 1
    if bit == 1 then z := z.xor v
    let lsb := v.lo &&& 1
    v := ⟨v.hi >>> 1, (v.lo >>> 1) ||| (v.hi <<< 63)⟩
    if lsb == 1 then v := ⟨v.hi ^^^ 0xe100000000000000, v.lo⟩
  return z

/-- §6.4 Algorithm 2 over the blocks of `data` (zero padded to a whole block), continuing from `y` -/
def ghashUpdate (h : Blk) (y : Blk) (data : ByteArray) : Blk := Id.run do
  let mut acc := y
  for i in [0:(data.size + 15) / 16] do
    acc := gfMul (acc.xor (Blk.load data (16 * i))) h
  return acc

/-- §6.2 inc₃₂ -/
def inc32 (cb : ByteArray) : ByteArray := Id.run do
  let c := ((cb.get! 12).toNat * 16777216 + (cb.get! 13).toNat * 65536 + (cb.get! 14).toNat * 256 + (cb.get! 15).toNat + 1) % 4294967296
  let mut o := cb.extract 0 12
  for i in [0:4] do
    o := o.push (UInt8.ofNat (c / 2 ^ (8 * (3 - i)) % 256))
  return o

/-- §6.5 Algorithm 3: GCTR_K(ICB, X) -/
def gctr (ciph : ByteArray → ByteArray) (icb x : ByteArray) : ByteArray := Id.run do
  let mut cb := icb
  let mut out := ByteArray.emptyWithCapacity x.size
  for i in [0:(x.size + 15) / 16] do
    let ks := ciph cb
    for j in [0:16] do
      if 16 * i + j < x.size then out := out.push (x.get! (16 * i + j) ^^^ ks.get! j)
    cb := inc32 cb
  return out

def lenBlock (aadLen ctLen : Nat) : Blk := ⟨UInt64.ofNat (8 * aadLen), UInt64.ofNat (8 * ctLen)⟩

/-- §7.1 step 2: J₀ = IV ‖ 0³¹ ‖ 1 for 96-bit IVs, otherwise GHASH_H(IV ‖ 0^(s+64) ‖ [len(IV)]₆₄) -/
def j0 (h : Blk) (iv : ByteArray) : ByteArray :=
  if iv.size == 12 then ((iv.push 0).push 0).push 0 |>.push 1
  else (gfMul ((ghashUpdate h Blk.zero iv).xor ⟨0, UInt64.ofNat (8 * iv.size)⟩) h).store

def tagOf (ciph : ByteArray → ByteArray) (h : Blk) (j : ByteArray) (aad ct : ByteArray) : ByteArray :=
  let s := gfMul ((ghashUpdate h (ghashUpdate h Blk.zero aad) ct).xor (lenBlock aad.size ct.size)) h
  gctr ciph j s.store

/-- §7.1 Algorithm 4 GCM-AE_K(IV, P, A) with t = 128; returns (C, T) -/
def encryptWith (ciph : ByteArray → ByteArray) (iv aad pt : ByteArray) : ByteArray × ByteArray :=
  let h := Blk.load (ciph (List.replicate 16 (0 : UInt8)).toByteArray) 0
  let j := j0 h iv
  let c := gctr ciph (inc32 j) pt
  (c, tagOf ciph h j aad c)

/-- §7.2 Algorithm 5 GCM-AD_K(IV, C, A, T): FAIL (none) unless the recomputed tag equals T -/
def decryptWith (ciph : ByteArray → ByteArray) (iv aad ct tag : ByteArray) : Option ByteArray :=
  let h := Blk.load (ciph (List.replicate 16 (0 : UInt8)).toByteArray) 0
  let j := j0 h iv
  if (tagOf ciph h j aad ct).toList == tag.toList then some (gctr ciph (inc32 j) ct) else none

def aesGcmEncrypt (key iv aad pt : ByteArray) : ByteArray × ByteArray :=
  let w := Aes.expandKey key
  encryptWith (Aes.cipher w) iv aad pt

def aesGcmDecrypt (key iv aad ct tag : ByteArray) : Option ByteArray :=
  let w := Aes.expandKey key
  decryptWith (Aes.cipher w) iv aad ct tag

/-- §5.2.1.1: len(P) ≤ 2³⁹ − 256 bits, len(A) ≤ 2⁶⁴ − 1 bits -/
def maxPlainBytes : Nat := 2 ^ 36 - 32
def maxAadBytes : Nat := 2 ^ 61 - 1

/-- TEST: GCM specification test cases 1–4 (AES-128), 13–16 (AES-256), 6 (long IV) -/
def selfTest : Bool :=
  let h := Sha2.toHex
  let x := Aes.ofHexL
  let z16 := (List.replicate 16 (0 : UInt8)).toByteArray
  let z12 := (List.replicate 12 (0 : UInt8)).toByteArray
  let z32 := (List.replicate 32 (0 : UInt8)).toByteArray
  let k3 := x "feffe9928665731c6d6a8f9467308308"
  let k15 := x "feffe9928665731c6d6a8f9467308308feffe9928665731c6d6a8f9467308308"
  let iv3 := x "cafebabefacedbaddecaf888"
  let p3 := x "d9313225f88406e5a55909c5aff5269a86a7a9531534f7da2e4c303d8a318a721c3c0c95956809532fcf0e2449a6b525b16aedf5aa0de657ba637b391aafd255"
  let p4 := p3.extract 0 60
  let a4 := x "feedfacedeadbeeffeedfacedeadbeefabaddad2"
  let c3 := "42831ec2217774244b7221b784d0d49ce3aa212f2c02a4e035c17e2329aca12e21d514b25466931c7d8f6a5aac84aa051ba30b396a0aac973d58e091473f5985"
  let r1 := aesGcmEncrypt z16 z12 ByteArray.empty ByteArray.empty
  let r2 := aesGcmEncrypt z16 z12 ByteArray.empty z16
  let r3 := aesGcmEncrypt k3 iv3 ByteArray.empty p3
  let r4 := aesGcmEncrypt k3 iv3 a4 p4
  let r13 := aesGcmEncrypt z32 z12 ByteArray.empty ByteArray.empty
  let r14 := aesGcmEncrypt z32 z12 ByteArray.empty z16
  let r16 := aesGcmEncrypt k15 iv3 a4 p4
  let iv6 := x "9313225df88406e555909c5aff5269aa6a7a9538534f7da1e4c303d2a318a728c3c0c95156809539fcf0e2429a6b525416aedbf5a0de6a57a637b39b"
  let r6 := aesGcmEncrypt k3 iv6 a4 p4
  h r1.1 == "" && h r1.2 == "58e2fccefa7e3061367f1d57a4e7455a" &&
  h r2.1 == "0388dace60b6a392f328c2b971b2fe78" && h r2.2 == "ab6e47d42cec13bdf53a67b21257bddf" &&
  h r3.1 == c3 && h r3.2 == "4d5c2af327cd64a62cf35abd2ba6fab4" &&
  h r4.1 == (c3.take 120).toString && h r4.2 == "5bc94fbc3221a5db94fae95ae7121a47" &&
  h r13.2 == "530f8afbc74536b9a963b4f1c4cb738b" &&
  h r14.1 == "cea7403d4d606b6e074ec5d3baf39d18" && h r14.2 == "d0d1c8a799996bf0265b98b5d48ab919" &&
  h r16.2 == "76fc6ece0f4e1768cddf8853bb2d551b" &&
  h r6.2 == "619cc5aefffe0bfa462af43c1699d050" &&
  (aesGcmDecrypt k3 iv3 a4 r4.1 r4.2).map h == some (h p4) &&
  (aesGcmDecrypt k3 iv3 a4 r4.1 (r4.2.set! 0 0)).isNone &&
  (aesGcmDecrypt k3 iv3 ByteArray.empty r4.1 r4.2).isNone

end Askar.Crypto.Gcm
