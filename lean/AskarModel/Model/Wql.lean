/-
Model of askar-storage/src/wql/{query.rs,tags.rs,sql.rs} and of
`db_utils.rs::{encode_tag_filter, replace_arg_placeholders}`.

* `Query N`          — `AbstractQuery<N, String>` (wql/query.rs)
* `tagQuery`         — `tags.rs::tag_query` (the `~` split)
* `encode`           — `tags.rs::encode_tag_query` driving `sql.rs::TagSqlEncoder`
* `Clause`           — the emitted SQL, as a tree carrying the placeholder numbers the Rust prints
* `evalClause`       — the meaning SQLite gives that SQL for one candidate item row
* `holdsP` / `std`   — the *reference semantics* of the property text, written independently
-/
import AskarModel.Base.Bytes

namespace Askar.Wql

inductive CmpOp | eq | neq | gt | gte | lt | lte | like
  deriving DecidableEq, Repr, Inhabited

inductive ConjOp | and | or
  deriving DecidableEq, Repr, Inhabited

def ConjOp.negate : ConjOp → ConjOp
  | .and => .or
  | .or => .and

inductive TagName
  | enc (s : String)
  | plain (s : String)
  deriving DecidableEq, Repr, Inhabited

def TagName.isPlain : TagName → Bool
  | .enc _ => false
  | .plain _ => true

def TagName.str : TagName → String
  | .enc s => s
  | .plain s => s

/-- `AbstractQuery<N, String>` -/
inductive Query (N : Type) where
  | and (qs : List (Query N))
  | or (qs : List (Query N))
  | not (q : Query N)
  | cmp (op : CmpOp) (n : N) (v : String)
  | isIn (n : N) (vs : List String)
  | exist (ns : List N)
  deriving Repr, Inhabited

mutual
def Query.mapNames {N M : Type} (f : N → M) : Query N → Query M
  | .and qs => .and (mapNamesList f qs)
  | .or qs => .or (mapNamesList f qs)
  | .not q => .not (q.mapNames f)
  | .cmp op n v => .cmp op (f n) v
  | .isIn n vs => .isIn (f n) vs
  | .exist ns => .exist (ns.map f)
def mapNamesList {N M : Type} (f : N → M) : List (Query N) → List (Query M)
  | [] => []
  | q :: qs => q.mapNames f :: mapNamesList f qs
end

/-- `k.strip_prefix('~')` -/
def splitName (k : String) : TagName :=
  match k.toList with
  | '~' :: rest => .plain (String.ofList rest)
  | _ => .enc k

/-- `tags.rs::tag_query` -/
def tagQuery (q : Query String) : Query TagName := q.mapNames splitName

/-! ### Logical tags and the reference semantics -/

structure Tag where
  plain : Bool
  name : String
  value : String
  deriving DecidableEq, Repr, Inhabited

/-- Comparison of a stored value `x` against the filter's target `v`, on UTF-8 bytes
    (`like pat x` is SQLite's `x LIKE pat`, a parameter). -/
def cmpBytes (like : Bytes → Bytes → Bool) (op : CmpOp) (x v : Bytes) : Bool :=
  match op with
  | .eq => x == v
  | .neq => x != v
  | .gt => Bytes.lt v x
  | .gte => !Bytes.lt x v
  | .lt => Bytes.lt x v
  | .lte => !Bytes.lt v x
  | .like => like v x

def Tag.named (t : Tag) (n : TagName) : Bool := t.plain == n.isPlain && t.name == n.str

section Ref
variable (like : Bytes → Bytes → Bool)

/-- The atom of the reference semantics: "the record has a tag of that name and kind whose
    value satisfies the comparison". -/
def atomCmp (op : CmpOp) (n : TagName) (v : String) (tags : List Tag) : Bool :=
  tags.any fun t => t.named n && cmpBytes like op (utf8 t.value) (utf8 v)

def atomIn (n : TagName) (vs : List String) (tags : List Tag) : Bool :=
  tags.any fun t => t.named n && vs.contains t.value

def atomExist (n : TagName) (tags : List Tag) : Bool :=
  tags.any fun t => t.named n

mutual
/-- Plain Boolean reading: `$not` is complement, `$exist ns` = every name exists. -/
def std (tags : List Tag) : Query TagName → Bool
  | .and qs => stdAll tags qs
  | .or qs => stdAny tags qs
  | .not q => !std tags q
  | .cmp op n v => atomCmp like op n v tags
  | .isIn n vs => atomIn n vs tags
  | .exist ns => ns.all fun n => atomExist n tags
def stdAll (tags : List Tag) : List (Query TagName) → Bool
  | [] => true
  | q :: qs => std tags q && stdAll tags qs
def stdAny (tags : List Tag) : List (Query TagName) → Bool
  | [] => false
  | q :: qs => std tags q || stdAny tags qs
end

mutual
/-- Reference semantics with explicit polarity.  Identical to `std` except for the one pinned
    deviation: a multi-name `$exist` under negation is read per name ("none of them exists"),
    as fixed by the suite's `count_exist` test. -/
def holdsP (tags : List Tag) : Bool → Query TagName → Bool
  | neg, .and qs => if neg then holdsAny tags true qs else holdsAll tags false qs
  | neg, .or qs => if neg then holdsAll tags true qs else holdsAny tags false qs
  | neg, .not q => holdsP tags (!neg) q
  | neg, .cmp op n v => neg != atomCmp like op n v tags
  | neg, .isIn n vs => neg != atomIn n vs tags
  | neg, .exist ns => ns.all fun n => neg != atomExist n tags
def holdsAll (tags : List Tag) : Bool → List (Query TagName) → Bool
  | _, [] => true
  | neg, q :: qs => holdsP tags neg q && holdsAll tags neg qs
def holdsAny (tags : List Tag) : Bool → List (Query TagName) → Bool
  | _, [] => false
  | neg, q :: qs => holdsP tags neg q || holdsAny tags neg qs
end

/-- The reference meaning of a filter. -/
def holds (tags : List Tag) (q : Query TagName) : Bool := holdsP like tags false q

end Ref

/-! ### The SQL encoder -/

/-- What the encoder needs from the profile key (`encrypt_tag_name`, `encrypt_tag_value`). -/
structure TagCrypto where
  encName : String → Bytes
  encValue : String → Bytes

/-- A stored `items_tags` row (without ids). -/
structure EncTag where
  name : Bytes
  value : Bytes
  plain : Bool
  deriving DecidableEq, Repr

def TagCrypto.encTag (E : TagCrypto) (t : Tag) : EncTag :=
  { name := E.encName t.name, value := if t.plain then utf8 t.value else E.encValue t.value, plain := t.plain }

/-- `CompareOp::as_sql_str_for_prefix` -/
def CmpOp.prefixOp : CmpOp → Option CmpOp
  | .eq => some .eq
  | .neq => some .neq
  | .gt => some .gte
  | .gte => some .gte
  | .lt => some .lte
  | .lte => some .lte
  | .like => none

/-- How a placeholder is printed: `$N` (1-based, relative to the encoder's own arguments) or `$$`. -/
inductive Ph
  | num (n : Nat)
  | dd
  deriving DecidableEq, Repr

/-- Condition on `value` inside the sub-select.  Each argument reference carries the index
    (0-based, into the encoder's argument vector) it is meant to denote and how it is printed. -/
inductive Cond
  | none
  | op (o : CmpOp) (val : Nat) (pfx : Option (CmpOp × Nat))
  | inl (vals : List Nat)
  deriving Repr

inductive Clause
  /-- `i.id [NOT] IN (SELECT item_id FROM items_tags WHERE name = $a AND <cond> AND plaintext = p)`;
      `numbered` = placeholders printed as `$N` (op clause) rather than `$$` (in / exist clause). -/
  | sub (neg : Bool) (name : Nat) (c : Cond) (plain : Bool) (numbered : Bool)
  | conj (op : ConjOp) (cs : List Clause)
  | zero
  deriving Repr, Inhabited

/-- `TagSqlEncoder::encode_conj_clause` -/
def conjClause (op : ConjOp) (cs : List Clause) : Option Clause :=
  match cs with
  | [] => if op = .or then some .zero else none
  | _ => some (.conj op cs)

section Enc
variable (E : TagCrypto)

def encValueArg (plain : Bool) (v : String) : Bytes :=
  if plain then utf8 v else E.encValue v

/-- `encode_tag_op` + `TagSqlEncoder::encode_op_clause` -/
def encodeOp (op : CmpOp) (n : TagName) (v : String) (neg : Bool) (args : List Bytes) :
    Option Clause × List Bytes :=
  let plain := n.isPlain
  let encName := E.encName n.str
  let encVal := encValueArg E plain v
  let idx := args.length
  match plain, op.prefixOp with
  | false, some pop =>
    if encVal.length > 12 then
      (some (.sub neg idx (.op op (idx + 1) (some (pop, idx + 2))) plain true),
        args ++ [encName, encVal, encVal.take 12])
    else
      (some (.sub neg idx (.op op (idx + 1) Option.none) plain true), args ++ [encName, encVal])
  | _, _ => (some (.sub neg idx (.op op (idx + 1) Option.none) plain true), args ++ [encName, encVal])

/-- `encode_tag_in` + `encode_in_clause` -/
def encodeIn (n : TagName) (vs : List String) (neg : Bool) (args : List Bytes) :
    Option Clause × List Bytes :=
  let plain := n.isPlain
  let idx := args.length
  (some (.sub neg idx (.inl ((List.range vs.length).map (· + idx + 1))) plain false),
    args ++ E.encName n.str :: vs.map (encValueArg E plain))

/-- `encode_tag_exist` for one name + `encode_exist_clause` -/
def encodeExist1 (n : TagName) (neg : Bool) (args : List Bytes) : Clause × List Bytes :=
  (.sub neg args.length .none n.isPlain false, args ++ [E.encName n.str])

/-- the `n =>` branch loop of `encode_tag_exist` -/
def encodeExistList (neg : Bool) : List TagName → List Bytes → List Clause × List Bytes
  | [], args => ([], args)
  | n :: ns, args =>
    let (c, args1) := encodeExist1 E n neg args
    let (cs, args2) := encodeExistList neg ns args1
    (c :: cs, args2)

def encodeExist (ns : List TagName) (neg : Bool) (args : List Bytes) : Option Clause × List Bytes :=
  match ns with
  | [] => (none, args)
  | [n] => let (c, a) := encodeExist1 E n neg args; (some c, a)
  | _ => let (cs, a) := encodeExistList E neg ns args; (conjClause .and cs, a)

mutual
/-- `tags.rs::encode_tag_query` -/
def encode (neg : Bool) (args : List Bytes) : Query TagName → Option Clause × List Bytes
  | .and qs =>
    let (cs, a) := encodeList neg args qs
    (conjClause (if neg then ConjOp.and.negate else .and) cs, a)
  | .or qs =>
    let (cs, a) := encodeList neg args qs
    (conjClause (if neg then ConjOp.or.negate else .or) cs, a)
  | .not q => encode (!neg) args q
  | .cmp op n v => encodeOp E op n v neg args
  | .isIn n vs => encodeIn E n vs neg args
  | .exist ns => encodeExist E ns neg args
/-- the `flat_map(... .transpose())` of `encode_tag_conj`: children without a clause are dropped -/
def encodeList (neg : Bool) (args : List Bytes) : List (Query TagName) → List Clause × List Bytes
  | [] => ([], args)
  | q :: qs =>
    let (c, a1) := encode neg args q
    let (cs, a2) := encodeList neg a1 qs
    (match c with | some c => c :: cs | none => cs, a2)
end

/-- `TagQueryEncoder::encode_query` with a fresh encoder -/
def encodeQuery (q : Query TagName) : Option Clause × List Bytes := encode E false [] q

end Enc

/-! ### What SQLite computes for the emitted clause, for one candidate row -/

section Eval
variable (like : Bytes → Bytes → Bool)

def arg (args : List Bytes) (i : Nat) : Bytes := args.getD i []

def condHolds (args : List Bytes) (c : Cond) (value : Bytes) : Bool :=
  match c with
  | .none => true
  | .op o v pfx =>
    cmpBytes like o value (arg args v) &&
      (match pfx with
       | Option.none => true
       | some (po, k) => cmpBytes like po (value.take 12) (arg args k))
  | .inl vs => vs.any fun i => value == arg args i

mutual
def evalClause (args : List Bytes) (row : List EncTag) : Clause → Bool
  | .sub neg a c p _ =>
    neg != row.any fun t => t.name == arg args a && condHolds like args c t.value && t.plain == p
  | .conj .and cs => evalAll args row cs
  | .conj .or cs => evalAny args row cs
  | .zero => false
def evalAll (args : List Bytes) (row : List EncTag) : List Clause → Bool
  | [] => true
  | c :: cs => evalClause args row c && evalAll args row cs
def evalAny (args : List Bytes) (row : List EncTag) : List Clause → Bool
  | [] => false
  | c :: cs => evalClause args row c || evalAny args row cs
end

/-- A filter with no clause selects every row (`extend_query` appends nothing). -/
def evalFilter (f : Option Clause × List Bytes) (row : List EncTag) : Bool :=
  match f.1 with
  | none => true
  | some c => evalClause like f.2 row c

end Eval

/-! ### Domain predicates and hypotheses used by the property theorems -/

/-- What cryptography is assumed to give, part 1: encryption is decryptable, hence injective. -/
structure TagCrypto.Inj (E : TagCrypto) : Prop where
  name_inj : ∀ a b, E.encName a = E.encName b → a = b
  value_inj : ∀ a b, E.encValue a = E.encValue b → a = b

/-- Part 2 (idealisation): among the finitely many tag values in play, no two distinct values
    share their 12-byte searchable prefix (an HMAC-SHA-256 truncation in the real code).  Stated
    over a finite list, because no function has this property on all strings. -/
def TagCrypto.NoPrefixCollision (E : TagCrypto) (vals : List String) : Prop :=
  ∀ a ∈ vals, ∀ b ∈ vals, (E.encValue a).take 12 = (E.encValue b).take 12 → a = b

def CmpOp.equality : CmpOp → Bool
  | .eq => true
  | .neq => true
  | _ => false

mutual
/-- Non-root domain of C04: ordered comparison and LIKE only on plaintext names; no empty
    `$and` / `$or` / `$exist` list. -/
def Query.solid : Query TagName → Bool
  | .and qs => !qs.isEmpty && solidList qs
  | .or qs => !qs.isEmpty && solidList qs
  | .not q => q.solid
  | .cmp op n _ => n.isPlain || op.equality
  | .isIn _ _ => true
  | .exist ns => !ns.isEmpty
def solidList : List (Query TagName) → Bool
  | [] => true
  | q :: qs => q.solid && solidList qs
end

/-- The property's domain: `solid`, or an empty connective at the root. -/
def Query.inDomain : Query TagName → Bool
  | .and [] => true
  | .or [] => true
  | .exist [] => true
  | q => q.solid

def Query.InDomain (q : Query TagName) : Prop := q.inDomain = true
instance (q : Query TagName) : Decidable q.InDomain := inferInstanceAs (Decidable (_ = true))

mutual
/-- no `$exist` over more than one name -/
def Query.singleNameExist : Query TagName → Bool
  | .and qs => singleNameExistList qs
  | .or qs => singleNameExistList qs
  | .not q => q.singleNameExist
  | .cmp _ _ _ => true
  | .isIn _ _ => true
  | .exist ns => ns.length == 1
def singleNameExistList : List (Query TagName) → Bool
  | [] => true
  | q :: qs => q.singleNameExist && singleNameExistList qs
end

def Query.SingleNameExist (q : Query TagName) : Prop := q.singleNameExist = true
instance (q : Query TagName) : Decidable q.SingleNameExist := inferInstanceAs (Decidable (_ = true))

mutual
/-- every tag value mentioned by the filter -/
def Query.values : Query TagName → List String
  | .and qs => valuesList qs
  | .or qs => valuesList qs
  | .not q => q.values
  | .cmp _ _ v => [v]
  | .isIn _ vs => vs
  | .exist _ => []
def valuesList : List (Query TagName) → List String
  | [] => []
  | q :: qs => q.values ++ valuesList qs
end

def Cond.argRefs : Cond → List Nat
  | .none => []
  | .op _ v pfx => v :: (match pfx with | Option.none => [] | some (_, k) => [k])
  | .inl vs => vs

mutual
/-- argument indices in the order their placeholders appear in the rendered text -/
def Clause.argRefs : Clause → List Nat
  | .sub _ a c _ _ => a :: c.argRefs
  | .conj _ cs => argRefsList cs
  | .zero => []
def argRefsList : List Clause → List Nat
  | [] => []
  | c :: cs => c.argRefs ++ argRefsList cs
end

def Clause.Bounded (n : Nat) (c : Clause) : Prop := ∀ i ∈ c.argRefs, i < n

/-- A toy crypto used by the driver and for non-vacuity: names are tagged, values get a 12-byte
    checksum-derived prefix followed by the value itself (injective: the suffix is the value). -/
def toyPrefix (b : Bytes) : Bytes :=
  let h := b.foldl (fun (acc : Nat) x => (acc * 1099511628211 + x.toNat + 1) % 79228162514264337593543950336) 14695981039346656037
  (List.range 12).map fun i => UInt8.ofNat (h / 256 ^ i % 256)

def TagCrypto.toy : TagCrypto where
  encName s := 0x6e :: utf8 s
  encValue s := toyPrefix (utf8 s) ++ utf8 s

/-! ### Text: rendering and `replace_arg_placeholders`, on tokens -/

inductive Tok
  | text (s : String)
  | ph (p : Ph)
  deriving DecidableEq, Repr

def CmpOp.sql : CmpOp → String
  | .eq => "=" | .neq => "!=" | .gt => ">" | .gte => ">=" | .lt => "<" | .lte => "<=" | .like => "LIKE"

def ConjOp.sql : ConjOp → String
  | .and => " AND " | .or => " OR "

def phOf (numbered : Bool) (i : Nat) : Tok := .ph (if numbered then .num (i + 1) else .dd)

def renderCond (numbered : Bool) : Cond → List Tok
  | .none => []
  | .op o v pfx =>
    [.text (" AND value " ++ o.sql ++ " "), phOf numbered v] ++
      (match pfx with
       | Option.none => []
       | some (po, k) => [.text (" AND SUBSTR(value, 1, 12) " ++ po.sql ++ " "), phOf numbered k])
  | .inl vs =>
    [.text " AND value IN ("] ++
      ((vs.map fun i => [phOf numbered i]).intersperse [.text ", "]).flatten ++ [.text ")"]

mutual
def render : Clause → List Tok
  | .sub neg a c p numbered =>
    [.text ("i.id " ++ (if neg then "NOT IN" else "IN") ++ " (SELECT item_id FROM items_tags WHERE name = "),
      phOf numbered a] ++ renderCond numbered c ++
      [.text (" AND plaintext = " ++ (if p then "1" else "0") ++ ")")]
  | .conj op cs =>
    (if cs.length > 1 then [.text "("] else []) ++ renderList op cs ++
      (if cs.length > 1 then [.text ")"] else [])
  | .zero => [.text "0"]
def renderList (op : ConjOp) : List Clause → List Tok
  | [] => []
  | c :: cs => render c ++ (if cs.isEmpty then [] else [.text op.sql]) ++ renderList op cs
end

def Tok.str : Tok → String
  | .text s => s
  | .ph (.num n) => "$" ++ toString n
  | .ph .dd => "$$"

def toksString (ts : List Tok) : String := String.join (ts.map Tok.str)

/-- `replace_arg_placeholders` on tokens: `$$` takes the running index, `$N` takes
    `N + start - 1`; both advance the running index.  Result: final SQLite numbers. -/
def replaceToks (start : Nat) : Nat → List Tok → List (String ⊕ Nat)
  | _, [] => []
  | k, .text s :: ts => .inl s :: replaceToks start k ts
  | k, .ph .dd :: ts => .inr (start + k) :: replaceToks start (k + 1) ts
  | k, .ph (.num n) :: ts => .inr (n + start - 1) :: replaceToks start (k + 1) ts

def finalString (xs : List (String ⊕ Nat)) : String :=
  String.join (xs.map fun | .inl s => s | .inr n => "?" ++ toString n)

/-- `replace_arg_placeholders` on characters, exactly as written in db_utils.rs
    (`start` is the Rust `start_index`, an i64 ≥ 1 here). -/
partial def replaceChars (start : Nat) (index : Nat) (acc : List Char) : List Char → List Char
  | [] => acc.reverse
  | '$' :: '$' :: rest => replaceChars start (index + 1) ((("?" ++ toString index).toList.reverse) ++ acc) rest
  | '$' :: c :: rest =>
    if c.isDigit then
      let digits := (c :: rest).takeWhile Char.isDigit
      let rest' := (c :: rest).dropWhile Char.isDigit
      let n := (String.ofList digits).toNat!
      replaceChars start (index + 1) ((("?" ++ toString (n + start - 1)).toList.reverse) ++ acc) rest'
    else replaceChars start index ('$' :: acc) (c :: rest)
  | c :: rest => replaceChars start index (c :: acc) rest

def replaceArgPlaceholders (filter : String) (start : Nat) : String :=
  String.ofList (replaceChars start start [] filter.toList)

end Askar.Wql
