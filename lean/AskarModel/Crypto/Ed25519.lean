/-
Ed25519 (RFC 8032 §5.1, "Ed25519" = PureEdDSA, no context, no prehash) — executable SPECIFICATION written from the RFC
(not from the Rust) with unbounded naturals.  ORACLE for the C13 differential runs: the signature VALUE for every
(secret key, message) and the verification VERDICT for every (public key, message, 64-byte string).

Verification comes in three forms so that they can be told apart:
  * `verifyRfc`     RFC 8032 §5.1.7 as written: strict point decoding (§5.1.3), S < L, the COFACTORED equation [8][S]B = [8]R + [8][k]A;
  * `verifyLoose`   what `ed25519-dalek` 2.x `VerifyingKey::verify` does: S < L; A decoded leniently; the COFACTORLESS equation, checked by
                    re-encoding: enc([S]B − [k]A) = the 32 bytes of R as given (so every non-canonical R is rejected);
  * `verifyStrict`  what `ed25519-dalek` 2.x `VerifyingKey::verify_strict` does (the library's verifier): `verifyLoose` plus R must decode
                    (leniently) and neither R nor A may be of small order ([8]P = 0).
"Leniently" = `curve25519-dalek` 4.x `CompressedEdwardsY::decompress`: the 255-bit y is used modulo p (y ≥ p is not rejected) and the
sign bit of x = 0 is ignored; RFC 8032 §5.1.3 rejects both.  `VerifyingKey::from_bytes` is that lenient decoding, so it is what
decides whether public-key bytes are importable.

The constant d is computed from its definition −121665/121666; the base point from y = 4/5 and "x positive" (RFC 8032 §5.1);
both are compared with the RFC's printed decimals in `selfTest`, together with the §7.1 vectors TEST 1, 2, 3, 1024 and SHA(abc)
(THESE ARE TESTS).  Core Lean only.  Points are in extended homogeneous coordinates (§5.1.4).
-/
import AskarModel.Crypto.Sha2

namespace Askar.Crypto.Ed25519

abbrev Bytes := List UInt8

/-! ### integers and octet strings (§5.1.2: little-endian) -/

def leNat : Bytes → Nat
  | [] => 0
  | b :: bs => b.toNat + 256 * leNat bs

def natLE : Nat → Nat → Bytes
  | 0, _ => []
  | len + 1, n => UInt8.ofNat (n % 256) :: natLE len (n / 256)

/-! ### the field GF(2^255 − 19) -/

def p : Nat := 2 ^ 255 - 19

/-- order of the base point -/
def L : Nat := 2 ^ 252 + 27742317777372353535851937790883648493

/-- `b ^ e mod m`, square-and-multiply over the binary digits of `e` -/
def powMod (m b e : Nat) : Nat :=
  if e = 0 then 1 % m
  else
    let h := powMod m (b * b % m) (e / 2)
    if e % 2 = 1 then h * b % m else h
termination_by e
decreasing_by omega

def fsub (a b : Nat) : Nat := (a + p - b % p) % p
def finv (a : Nat) : Nat := powMod p (a % p) (p - 2)

/-- d = −121665/121666 (§5.1) -/
def d : Nat := fsub 0 121665 * finv 121666 % p

/-- a square root of −1: 2^((p−1)/4) (§5.1.3) -/
def sqrtM1 : Nat := powMod p 2 ((p - 1) / 4)

/-! ### points (§5.1.4): (X : Y : Z : T), x = X/Z, y = Y/Z, x·y = T/Z -/

structure Point where
  x : Nat
  y : Nat
  z : Nat
  t : Nat

def Point.zero : Point := ⟨0, 1, 1, 0⟩

/-- §5.1.4 addition (complete: valid for every pair of curve points, equal or not) -/
def Point.add (P Q : Point) : Point :=
  let a := fsub P.y P.x * fsub Q.y Q.x % p
  let b := (P.y + P.x) % p * ((Q.y + Q.x) % p) % p
  let c := P.t * 2 % p * d % p * Q.t % p
  let dd := P.z * 2 % p * Q.z % p
  let e := fsub b a
  let f := fsub dd c
  let g := (dd + c) % p
  let h := (b + a) % p
  ⟨e * f % p, g * h % p, f * g % p, e * h % p⟩

/-- §5.1.4 doubling -/
def Point.double (P : Point) : Point :=
  let a := P.x * P.x % p
  let b := P.y * P.y % p
  let c := 2 * (P.z * P.z % p) % p
  let h := (a + b) % p
  let xy := (P.x + P.y) % p
  let e := fsub h (xy * xy % p)
  let g := fsub a b
  let f := (c + g) % p
  ⟨e * f % p, g * h % p, f * g % p, e * h % p⟩

def Point.neg (P : Point) : Point := ⟨fsub 0 P.x, P.y, P.z, fsub 0 P.t⟩

/-- equality of the points represented (§6 `point_equal`): cross-multiplication -/
def Point.eq (P Q : Point) : Bool :=
  (P.x * Q.z % p == Q.x * P.z % p) && (P.y * Q.z % p == Q.y * P.z % p)

/-- `[s]P`, right-to-left double-and-add over the binary digits of `s` (§6 `point_mul`); `fuel` bounds the number of digits read -/
def mulAux : Nat → Nat → Point → Point → Point
  | 0, _, _, acc => acc
  | fuel + 1, s, P, acc =>
    if s = 0 then acc
    else mulAux fuel (s / 2) P.double (if s % 2 = 1 then acc.add P else acc)

/-- `[s]P` for `s < 2^512` (every scalar that occurs is below 2^256) -/
def Point.mul (s : Nat) (P : Point) : Point := mulAux 512 s P Point.zero

/-- `[s1]P1 + [s2]P2` reading the binary digits of both scalars together (Straus / Shamir): one doubling per digit position and one
    addition of P1, P2 or P12 = P1 + P2 where a digit is set.  Used by the verifiers (`selfTest` compares it with `Point.mul`). -/
def mul2Aux (P1 P2 P12 : Point) : Nat → Nat → Nat → Point
  | 0, _, _ => Point.zero
  | fuel + 1, s1, s2 =>
    if s1 = 0 ∧ s2 = 0 then Point.zero
    else
      let dd := (mul2Aux P1 P2 P12 fuel (s1 / 2) (s2 / 2)).double
      if s1 % 2 = 1 then (if s2 % 2 = 1 then dd.add P12 else dd.add P1)
      else (if s2 % 2 = 1 then dd.add P2 else dd)

def Point.mul2 (s1 : Nat) (P1 : Point) (s2 : Nat) (P2 : Point) : Point := mul2Aux P1 P2 (P1.add P2) 512 s1 s2

/-- [8]P = 0 (`is_small_order`) -/
def Point.smallOrder (P : Point) : Bool := (P.double.double.double).eq Point.zero

/-! ### encoding and decoding (§5.1.2, §5.1.3) -/

def Point.affine (P : Point) : Nat × Nat :=
  let zi := finv P.z
  (P.x * zi % p, P.y * zi % p)

/-- §5.1.2: 255 bits of y, little-endian, and the least significant bit of x in the top bit -/
def encode (P : Point) : Bytes :=
  let (x, y) := P.affine
  natLE 32 (y + 2 ^ 255 * (x % 2))

/-- x with x² = u/v for u = y² − 1, v = d y² + 1, by §5.1.3 step 2–3: the candidate x = u v³ (u v⁷)^((p−5)/8); if v x² = −u
    multiply by √−1; `none` when u/v is not a square -/
def recoverX (y : Nat) : Option Nat :=
  let u := fsub (y * y % p) 1
  let v := (d * (y * y % p) + 1) % p
  let v3 := v * v % p * v % p
  let v7 := v3 * v3 % p * v % p
  let x := u * v3 % p * powMod p (u * v7 % p) ((p - 5) / 8) % p
  let vxx := v * (x * x % p) % p
  if vxx == u then some x
  else if vxx == fsub 0 u then some (x * sqrtM1 % p)
  else none

/-- §5.1.3: `none` for y ≥ p, for a non-square, and for x = 0 with the sign bit set -/
def decodeRfc (b : Bytes) : Option Point :=
  if b.length ≠ 32 then none
  else
    let n := leNat b
    let y := n % 2 ^ 255
    let sign := n / 2 ^ 255
    if y ≥ p then none
    else match recoverX y with
      | none => none
      | some x =>
        if x = 0 ∧ sign = 1 then none
        else
          let x := if x % 2 = sign then x else p - x
          some ⟨x, y, 1, x * y % p⟩

/-- `curve25519-dalek` `CompressedEdwardsY::decompress`: y is taken modulo p; the root with even x is negated when the sign bit is set
    (so x = 0 with the sign bit set is accepted) -/
def decodeLenient (b : Bytes) : Option Point :=
  if b.length ≠ 32 then none
  else
    let n := leNat b
    let y := n % 2 ^ 255 % p
    let sign := n / 2 ^ 255
    match recoverX y with
    | none => none
    | some x =>
      let x := if x % 2 = 0 then x else p - x
      let x := if sign = 1 then fsub 0 x else x
      some ⟨x, y, 1, x * y % p⟩

/-- the base point: y = 4/5, x "positive" (even) -/
def B : Point :=
  let y := 4 * finv 5 % p
  match recoverX y with
  | some x => let x := if x % 2 = 0 then x else p - x; ⟨x, y, 1, x * y % p⟩
  | none => Point.zero

/-! ### keys and signatures (§5.1.5, §5.1.6) -/

def sha512 (m : Bytes) : Bytes := Sha2.sha512L m

/-- §5.1.5 step 2: clear the lowest three bits of the first octet and the highest bit of the last, set the second highest -/
def clamp (h : Bytes) : Nat :=
  let n := leNat (h.take 32)
  let n := n - n % 8
  n % 2 ^ 254 + 2 ^ 254

/-- the secret scalar `a` and the `prefix` of a 32-byte secret key -/
def expand (sk : Bytes) : Nat × Bytes :=
  let h := sha512 sk
  (clamp h, h.drop 32)

def publicKey (sk : Bytes) : Bytes := encode (Point.mul (expand sk).1 B)

/-- the scalar half S of the signature (§5.1.6 step 5), from the secret scalar, the two hashes -/
def sigS (r k a : Nat) : Nat := (r + k * a) % L

/-- §5.1.6: r = H(prefix ‖ M), R = [r]B, k = H(R ‖ A ‖ M), S = (r + k·a) mod L; the signature is R ‖ S.
    A function of (sk, M) only: there is no nonce or randomness input. -/
def sign (sk msg : Bytes) : Bytes :=
  let (a, pre) := expand sk
  let A := encode (Point.mul a B)
  let r := leNat (sha512 (pre ++ msg)) % L
  let R := encode (Point.mul r B)
  let k := leNat (sha512 (R ++ A ++ msg)) % L
  R ++ natLE 32 (sigS r k a)

/-! ### verification -/

/-- §5.1.7 as written -/
def verifyRfc (pk msg sig : Bytes) : Bool :=
  if sig.length ≠ 64 then false
  else
    let Rb := sig.take 32
    let S := leNat (sig.drop 32)
    if S ≥ L then false
    else match decodeRfc pk, decodeRfc Rb with
      | some A, some R =>
        let k := leNat (sha512 (Rb ++ pk ++ msg)) % L
        let lhs := (Point.mul S B).double.double.double
        let rhs := (R.add (Point.mul k A)).double.double.double
        lhs.eq rhs
      | _, _ => false

/-- `ed25519-dalek` `recompute_R`: enc([S]B − [k]A), k = H(R ‖ A ‖ M) over the bytes as given -/
def recomputeR (A : Point) (pk msg Rb : Bytes) (S : Nat) : Bytes :=
  let k := leNat (sha512 (Rb ++ pk ++ msg)) % L
  encode (Point.mul2 S B k A.neg)

/-- `ed25519-dalek` 2.x `VerifyingKey::verify` (cofactorless, no small-order checks); `false` also when `pk` does not decode -/
def verifyLoose (pk msg sig : Bytes) : Bool :=
  if sig.length ≠ 64 then false
  else
    let Rb := sig.take 32
    let S := leNat (sig.drop 32)
    if S ≥ L then false                       -- `InternalSignature::try_from` → `check_scalar` (canonical S)
    else match decodeLenient pk with
      | none => false
      | some A => recomputeR A pk msg Rb S == Rb

/-- `ed25519-dalek` 2.x `VerifyingKey::verify_strict` — the verifier the library uses; `false` also when `pk` does not decode -/
def verifyStrict (pk msg sig : Bytes) : Bool :=
  if sig.length ≠ 64 then false
  else
    let Rb := sig.take 32
    let S := leNat (sig.drop 32)
    if S ≥ L then false                       -- `InternalSignature::try_from` → `check_scalar` (canonical S)
    else match decodeLenient pk, decodeLenient Rb with
      | some A, some R =>
        if R.smallOrder || A.smallOrder then false
        else recomputeR A pk msg Rb S == Rb
      | _, _ => false

/-- `VerifyingKey::from_bytes` succeeds -/
def validPublic (pk : Bytes) : Bool := (decodeLenient pk).isSome

/-! ### tests (RFC 8032 §7.1) -/

def hexDigit (n : Nat) : Char := if n < 10 then Char.ofNat (48 + n) else Char.ofNat (87 + n)
def toHex (b : Bytes) : String := String.ofList (b.flatMap fun x => [hexDigit (x.toNat / 16), hexDigit (x.toNat % 16)])
def hv (c : Char) : Nat := if c.toNat ≥ 97 then c.toNat - 87 else c.toNat - 48
def ofHex (s : String) : Bytes :=
  let rec go : List Char → Bytes
    | a :: b :: r => UInt8.ofNat (hv a * 16 + hv b) :: go r
    | _ => []
  go s.toList

/-- one §7.1 vector: public key, signature, all three verifiers accept, every verifier rejects the signature with one bit of S, of R,
    of the message changed and with S + L -/
def checkVector (sk pk msg sig : String) : Bool :=
  let skb := ofHex sk; let pkb := ofHex pk; let m := ofHex msg; let sg := ofHex sig
  let flip (b : Bytes) (i : Nat) : Bytes := b.mapIdx fun j x => if j = i then x ^^^ 1 else x
  let sPlusL := sg.take 32 ++ natLE 32 (leNat (sg.drop 32) + L)
  toHex (publicKey skb) == pk && toHex (sign skb m) == sig &&
  verifyStrict pkb m sg && verifyLoose pkb m sg && verifyRfc pkb m sg &&
  !verifyStrict pkb m (flip sg 40) && !verifyStrict pkb m (flip sg 3) && !verifyStrict pkb (m ++ [0]) sg &&
  !verifyLoose pkb m (flip sg 40) && !verifyRfc pkb m (flip sg 40) &&
  !verifyStrict pkb m sPlusL && !verifyLoose pkb m sPlusL && !verifyRfc pkb m sPlusL

/-- the 1023-byte message of §7.1 "TEST 1024" -/
def msg1024 : String :=
  "08b8b2b733424243760fe426a4b54908632110a66c2f6591eabd3345e3e4eb98fa6e264bf09efe12ee50f8f54e9f77b1e355f6c50544e23fb1433ddf73be84d8" ++
  "79de7c0046dc4996d9e773f4bc9efe5738829adb26c81b37c93a1b270b20329d658675fc6ea534e0810a4432826bf58c941efb65d57a338bbd2e26640f89ffbc" ++
  "1a858efcb8550ee3a5e1998bd177e93a7363c344fe6b199ee5d02e82d522c4feba15452f80288a821a579116ec6dad2b3b310da903401aa62100ab5d1a36553e" ++
  "06203b33890cc9b832f79ef80560ccb9a39ce767967ed628c6ad573cb116dbefefd75499da96bd68a8a97b928a8bbc103b6621fcde2beca1231d206be6cd9ec7" ++
  "aff6f6c94fcd7204ed3455c68c83f4a41da4af2b74ef5c53f1d8ac70bdcb7ed185ce81bd84359d44254d95629e9855a94a7c1958d1f8ada5d0532ed8a5aa3fb2" ++
  "d17ba70eb6248e594e1a2297acbbb39d502f1a8c6eb6f1ce22b3de1a1f40cc24554119a831a9aad6079cad88425de6bde1a9187ebb6092cf67bf2b13fd65f270" ++
  "88d78b7e883c8759d2c4f5c65adb7553878ad575f9fad878e80a0c9ba63bcbcc2732e69485bbc9c90bfbd62481d9089beccf80cfe2df16a2cf65bd92dd597b07" ++
  "07e0917af48bbb75fed413d238f5555a7a569d80c3414a8d0859dc65a46128bab27af87a71314f318c782b23ebfe808b82b0ce26401d2e22f04d83d1255dc51a" ++
  "ddd3b75a2b1ae0784504df543af8969be3ea7082ff7fc9888c144da2af58429ec96031dbcad3dad9af0dcbaaaf268cb8fcffead94f3c7ca495e056a9b47acdb7" ++
  "51fb73e666c6c655ade8297297d07ad1ba5e43f1bca32301651339e22904cc8c42f58c30c04aafdb038dda0847dd988dcda6f3bfd15c4b4c4525004aa06eeff8" ++
  "ca61783aacec57fb3d1f92b0fe2fd1a85f6724517b65e614ad6808d6f6ee34dff7310fdc82aebfd904b01e1dc54b2927094b2db68d6f903b68401adebf5a7e08" ++
  "d78ff4ef5d63653a65040cf9bfd4aca7984a74d37145986780fc0b16ac451649de6188a7dbdf191f64b5fc5e2ab47b57f7f7276cd419c17a3ca8e1b939ae49e4" ++
  "88acba6b965610b5480109c8b17b80e1b7b750dfc7598d5d5011fd2dcc5600a32ef5b52a1ecc820e308aa342721aac0943bf6686b64b2579376504ccc493d97e" ++
  "6aed3fb0f9cd71a43dd497f01f17c0e2cb3797aa2a2f256656168e6c496afc5fb93246f6b1116398a346f1a641f3b041e989f7914f90cc2c7fff357876e506b5" ++
  "0d334ba77c225bc307ba537152f3f1610e4eafe595f6d9d90d11faa933a15ef1369546868a7f3a45a96768d40fd9d03412c091c6315cf4fde7cb68606937380d" ++
  "b2eaaa707b4c4185c32eddcdd306705e4dc1ffc872eeee475a64dfac86aba41c0618983f8741c5ef68d3a101e8a3b8cac60c905c15fc910840b94c00a0b9d0"

/-- TEST: the curve constants as printed in the RFC; §7.1 TEST 1, 2, 3, 1024, SHA(abc); the decoding and small-order rules;
    a signature the cofactorless non-strict verifier accepts and the strict one rejects -/
def selfTest : Bool :=
  d == 37095705934669439343138083508754565189542113879843219016388785533085940283555 &&
  sqrtM1 == 19681161376707505956807079304988542015446066515923890162744021073123829784752 &&
  B.x == 15112221349535400772501151409588531511454012693041857206046113283949847762202 &&
  B.y == 46316835694926478169428394003475163141307993866256225615783033603165251855960 &&
  (Point.mul L B).eq Point.zero && !(Point.mul (L - 1) B).eq Point.zero && !B.smallOrder &&
  toHex (encode B) == "5866666666666666666666666666666666666666666666666666666666666666" &&
  -- the joint double-and-add agrees with two separate multiplications
  [(0, 0), (1, 0), (0, 1), (5, 9), (L - 1, 2 ^ 252 + 12345), (2 ^ 255 - 3, L + 77)].all (fun (a, b) =>
    let Q := Point.mul 987654321 B
    (Point.mul2 a B b Q).eq ((Point.mul a B).add (Point.mul b Q))) &&
  checkVector "9d61b19deffd5a60ba844af492ec2cc44449c5697b326919703bac031cae7f60"
    "d75a980182b10ab7d54bfed3c964073a0ee172f3daa62325af021a68f707511a" ""
    "e5564300c360ac729086e2cc806e828a84877f1eb8e5d974d873e065224901555fb8821590a33bacc61e39701cf9b46bd25bf5f0595bbe24655141438e7a100b" &&
  checkVector "4ccd089b28ff96da9db6c346ec114e0f5b8a319f35aba624da8cf6ed4fb8a6fb"
    "3d4017c3e843895a92b70aa74d1b7ebc9c982ccf2ec4968cc0cd55f12af4660c" "72"
    "92a009a9f0d4cab8720e820b5f642540a2b27b5416503f8fb3762223ebdb69da085ac1e43e15996e458f3613d0f11d8c387b2eaeb4302aeeb00d291612bb0c00" &&
  checkVector "c5aa8df43f9f837bedb7442f31dcb7b166d38535076f094b85ce3a2e0b4458f7"
    "fc51cd8e6218a1a38da47ed00230f0580816ed13ba3303ac5deb911548908025" "af82"
    "6291d657deec24024827e69c3abe01a30ce548a284743a445e3680d7db5ac3ac18ff9b538d16f290ae67f760984dc6594a7c15e9716ed28dc027beceea1ec40a" &&
  checkVector "f5e5767cf153319517630f226876b86c8160cc583bc013744c6bf255f5cc0ee5"
    "278117fc144c72340f67d0f2316e8386ceffbf2b2428c9c51fef7c597f1d426e" msg1024
    "0aab4c900501b3e24d7cdf4663326a3a87df5e4843b2cbdb67cbf6e460fec350aa5371b1508f9f4528ecea23c436d94b5e8fcd4f681e30a6ac00a9704a188a03" &&
  checkVector "833fe62409237b9d62ec77587520911e9a759cec1d19755b7da901b96dca3d42"
    "ec172b93ad5e563bf4932c70e1245034c35467ef2efd4d64ebf819683467e2bf"
    "ddaf35a193617abacc417349ae20413112e6fa4e89a97ea20a9eeee64b55d39a2192992a274fc1a836ba3c23a3feebbd454d4423643ce80e2a9ac94fa54ca49f"
    "dc2a4459e7369633a52b1bf277839a00201009a3efbf3ecb69bea2186c26b58909351fc9ac90b3ecfdfbc7c66431e0303dca179c138ac17ad9bef1177331a704" &&
  -- decoding: y = p (non-canonical 0) and the identity with the sign bit set decode leniently, not by the RFC rule; y = 2 is off the curve
  (decodeLenient (natLE 32 p)).isSome && (decodeRfc (natLE 32 p)).isNone &&
  (decodeLenient (natLE 32 (1 + 2 ^ 255))).isSome && (decodeRfc (natLE 32 (1 + 2 ^ 255))).isNone &&
  (decodeLenient (natLE 32 2)).isNone && (decodeRfc (natLE 32 2)).isNone &&
  -- the eight small-order points are small, by their encodings
  ["0100000000000000000000000000000000000000000000000000000000000000", toHex (natLE 32 (p - 1)),
   "0000000000000000000000000000000000000000000000000000000000000000", "0000000000000000000000000000000000000000000000000000000000000080",
   "26e8958fc2b227b045c3f489f2ef98f0d5dfac05d3c63339b13802886d53fc05", "26e8958fc2b227b045c3f489f2ef98f0d5dfac05d3c63339b13802886d53fc85",
   "c7176a703d4dd84fba3c0b760d10670f2a2053fa2c39ccc64ec7fd7792ac037a", "c7176a703d4dd84fba3c0b760d10670f2a2053fa2c39ccc64ec7fd7792ac03fa"].all
    (fun h => match decodeRfc (ofHex h) with | some P => P.smallOrder | none => false) &&
  -- A = identity, R = identity, S = 0: accepted for every message by the cofactorless non-strict verifier and by the RFC's, not by the strict one
  (let one := natLE 32 1
   verifyLoose one [1, 2, 3] (one ++ natLE 32 0) && verifyRfc one [1, 2, 3] (one ++ natLE 32 0) && !verifyStrict one [1, 2, 3] (one ++ natLE 32 0))

end Askar.Crypto.Ed25519
