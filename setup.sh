#!/bin/sh
# Builds the framework from files on disk only (offline): the Lean project (models, theorems, drivers)
# and the Rust harness (against /repo's working tree).  Every check rebuilds what it needs anyway;
# this warms the caches so that the first check is not slow.
set -e
cd "$(dirname "$0")"
export CARGO_NET_OFFLINE=true
python3 tools/extract.py >/dev/null
(cd lean && lake build askar_model_store askar_model_c06 askar_model_c10 AskarModel.Props.C10 AskarModel.Props.C01 AskarModel.Props.C04 AskarModel.Props.C05 AskarModel.Props.C06 AskarModel.Props.C07 AskarModel.Props.C16 AskarModel.Props.C17)
(cd harness && cargo build --offline --no-default-features --features c06,c10)
