/-
C14 — model of key export / import (askar-crypto: jwk/parts.rs, jwk/encode.rs, jwk/mod.rs, alg/any.rs,
alg/{ed25519,x25519,p256,p384,k256,bls,chacha20}.rs, alg/aes/mod.rs) on the tree in /repo.

Layers
* `b64encode` / `b64decode`: strict unpadded base64url (what `base64::URL_SAFE_NO_PAD` computes: no padding accepted,
  trailing bits must be zero, length ≡ 1 (mod 4) rejected) and `decodeBase64` = `OptAttr::decode_base64` with its
  `max_input` bound.
* token level: `visit` = `JwkMapVisitor::visit_map` over a member list, following serde-json-core's `MapAccess`
  protocol (a value that is not consumed makes the following `next_key` fail).
* byte level: `parseJwk` = `serde_json_core::from_str::<JwkParts>` (the subset of the deserializer that is reachable:
  borrowed strings without escape processing, the `key_ops` sequence, `IgnoredAny`).  This is what the driver runs.
* keys: `fromSecretBytes`, `fromPublicBytes`, `fromJwkParts`, `fromJwkAny`, `encodeJwk`, per algorithm, with every length
  check in front of a fixed-size conversion; Rust conversions that panic are `Res.panic`.
Curve arithmetic is a parameter (`Prims`).

`Cfg` records the two places where the pinned tree is known to be defective (D3, D4); `Cfg.current` is what /repo does now.
-/
import AskarModel.Base.Bytes
import AskarModel.Generated.Flags

namespace Askar.Jwk

/-! ## outcomes -/

/-- `askar_crypto::ErrorKind` values that occur on these paths -/
inductive Err
  | invalid | invalidKeyData | unsupported | missingSecretKey | unexpected
  deriving DecidableEq, Repr, Inhabited

def Err.name : Err → String
  | .invalid => "Invalid"
  | .invalidKeyData => "InvalidKeyData"
  | .unsupported => "Unsupported"
  | .missingSecretKey => "MissingSecretKey"
  | .unexpected => "Unexpected"

/-- result of a library call: a value, an `Err`, or a Rust panic (with the site) -/
inductive Res (α : Type)
  | ok (a : α)
  | err (e : Err)
  | panic (site : String)
  deriving Repr

namespace Res
def bind {α β} (r : Res α) (f : α → Res β) : Res β :=
  match r with
  | .ok a => f a
  | .err e => .err e
  | .panic s => .panic s

instance : Monad Res where
  pure := .ok
  bind := Res.bind

def isPanic {α} : Res α → Bool
  | .panic _ => true
  | _ => false

def isOk {α} : Res α → Bool
  | .ok _ => true
  | _ => false

@[simp] theorem bind_ok {α β} (a : α) (f : α → Res β) : (Res.ok a >>= f) = f a := rfl
@[simp] theorem bind_err {α β} (e : Err) (f : α → Res β) : (Res.err e >>= f) = .err e := rfl
@[simp] theorem bind_panic {α β} (s : String) (f : α → Res β) : (Res.panic s >>= f) = .panic s := rfl
end Res

/-- configuration = which of the two known defects the code has -/
structure Cfg where
  /-- `visit_map` consumes the value of an unknown member (`next_value::<IgnoredAny>()`); false = D4 -/
  consumeUnknown : Bool
  /-- p256/p384/k256 `from_secret_bytes` checks the length before converting to a `GenericArray`; false = D3 -/
  ecLenCheck : Bool
  deriving DecidableEq, Repr

def Cfg.pinned : Cfg := { consumeUnknown := false, ecLenCheck := false }
def Cfg.fixed : Cfg := { consumeUnknown := true, ecLenCheck := true }
/-- what /repo does NOW: read from the source by tools/extract.py (Generated/Flags.lean) -/
def Cfg.current : Cfg :=
  { consumeUnknown := Askar.Generated.Flags.jwkConsumesUnknown, ecLenCheck := Askar.Generated.Flags.ecSecretLenCheck }

/-! ## base64url, strict, unpadded -/

/-- alphabet: value → character code -/
def symN (n : Nat) : Nat :=
  if n < 26 then 65 + n else if n < 52 then 71 + n else if n < 62 then n - 4 else if n = 62 then 45 else 95

/-- alphabet: character code → value -/
def valN (c : Nat) : Option Nat :=
  if 65 ≤ c ∧ c ≤ 90 then some (c - 65)
  else if 97 ≤ c ∧ c ≤ 122 then some (c - 71)
  else if 48 ≤ c ∧ c ≤ 57 then some (c + 4)
  else if c = 45 then some 62
  else if c = 95 then some 63
  else none

def sym (n : Nat) : UInt8 := UInt8.ofNat (symN n)
def val (c : UInt8) : Option Nat := valN c.toNat

def b64encode : Bytes → Bytes
  | a :: b :: c :: rest =>
    sym (a.toNat / 4) :: sym (a.toNat % 4 * 16 + b.toNat / 16) :: sym (b.toNat % 16 * 4 + c.toNat / 64)
      :: sym (c.toNat % 64) :: b64encode rest
  | [a, b] => [sym (a.toNat / 4), sym (a.toNat % 4 * 16 + b.toNat / 16), sym (b.toNat % 16 * 4)]
  | [a] => [sym (a.toNat / 4), sym (a.toNat % 4 * 16)]
  | [] => []

/-- strict decoding: every character in the alphabet (so no `=`), no dangling single character,
    unused trailing bits zero -/
def b64decode : Bytes → Option Bytes
  | [] => some []
  | [_] => none
  | [c0, c1] =>
    match val c0, val c1 with
    | some v0, some v1 => if v1 % 16 = 0 then some [UInt8.ofNat (v0 * 4 + v1 / 16)] else none
    | _, _ => none
  | [c0, c1, c2] =>
    match val c0, val c1, val c2 with
    | some v0, some v1, some v2 =>
      if v2 % 4 = 0 then some [UInt8.ofNat (v0 * 4 + v1 / 16), UInt8.ofNat (v1 % 16 * 16 + v2 / 4)] else none
    | _, _, _ => none
  | c0 :: c1 :: c2 :: c3 :: rest =>
    match val c0, val c1, val c2, val c3, b64decode rest with
    | some v0, some v1, some v2, some v3, some r =>
      some (UInt8.ofNat (v0 * 4 + v1 / 16) :: UInt8.ofNat (v1 % 16 * 16 + v2 / 4) :: UInt8.ofNat (v2 % 4 * 64 + v3) :: r)
    | _, _, _, _, _ => none

/-- `OptAttr::decode_base64(&self, output: &mut [u8; n])`: the decoded bytes (their count is the returned `usize`) -/
def decodeBase64 (attr : Option Bytes) (n : Nat) : Res Bytes :=
  match attr with
  | none => .err .invalid                                   -- "Empty attribute"
  | some s =>
    if s.length > (n * 4 + 2) / 3 then .err .invalid        -- "Base64 length exceeds max"
    else match b64decode s with
      | none => .err .invalid                               -- "Base64 decoding error"
      | some b => .ok b

/-- the idiom `if attr.decode_base64(arr)? != arr.len() { Err(InvalidKeyData) }` -/
def decodeExact (attr : Option Bytes) (n : Nat) : Res Bytes :=
  match decodeBase64 attr n with
  | .ok b => if b.length ≠ n then .err .invalidKeyData else .ok b
  | .err e => .err e
  | .panic s => .panic s

/-! ## parsed JWK -/

/-- `JwkParts` (`keyOps` = the `KeyOpsSet` bit set) -/
structure Parts where
  kty : Bytes
  kid : Option Bytes := none
  alg : Option Bytes := none
  crv : Option Bytes := none
  x : Option Bytes := none
  y : Option Bytes := none
  d : Option Bytes := none
  k : Option Bytes := none
  keyOps : Option Nat := none
  deriving DecidableEq, Repr

/-- the visitor's local variables -/
structure Acc where
  kty : Option Bytes := none
  kid : Option Bytes := none
  alg : Option Bytes := none
  crv : Option Bytes := none
  x : Option Bytes := none
  y : Option Bytes := none
  d : Option Bytes := none
  k : Option Bytes := none
  keyOps : Option Nat := none
  deriving DecidableEq, Repr

def Acc.finish (a : Acc) : Option Parts :=
  match a.kty with
  | some kty => some { kty := kty, kid := a.kid, alg := a.alg, crv := a.crv, x := a.x, y := a.y, d := a.d, k := a.k, keyOps := a.keyOps }
  | none => none

/-- bytes of an ASCII string constant (kernel-reducible, unlike `String.toUTF8`) -/
def sb (s : String) : Bytes := s.toList.map fun c => UInt8.ofNat c.toNat

/-- `KeyOps::try_from_str` as a bit -/
def opBit (s : Bytes) : Option Nat :=
  if s = sb "encrypt" then some 1 else if s = sb "decrypt" then some 2 else if s = sb "sign" then some 4
  else if s = sb "verify" then some 8 else if s = sb "wrapKey" then some 16 else if s = sb "unwrapKey" then some 32
  else if s = sb "deriveKey" then some 64 else if s = sb "deriveBits" then some 128 else none

/-- `"use"` values -/
def useOps (s : Bytes) : Nat :=
  if s = sb "enc" then 1 ||| 2 ||| 16 ||| 32 else if s = sb "sig" then 4 ||| 8 else 0

/-- `KeyOpsVisitor::visit_seq` over the element strings -/
def opsOf : List Bytes → Nat → Option Nat
  | [], acc => some acc
  | s :: rest, acc =>
    match opBit s with
    | some b => if acc &&& b ≠ 0 then none else opsOf rest (acc ||| b)
    | none => opsOf rest acc

/-! ## token level: the member visitor -/

/-- a member value as far as the visitor can tell values apart -/
inductive JVal
  | str (s : Bytes)
  | strArr (xs : List Bytes)        -- an array all of whose elements are strings
  | num | bool | null | arr | obj   -- anything else (an array with a non-string element is `arr`)
  deriving DecidableEq, Repr

inductive Field | kty | kid | alg | crv | x | y | d | k | use | keyOps
  deriving DecidableEq, Repr

def fieldOf (key : Bytes) : Option Field :=
  if key = sb "kty" then some .kty else if key = sb "kid" then some .kid else if key = sb "alg" then some .alg
  else if key = sb "crv" then some .crv else if key = sb "x" then some .x else if key = sb "y" then some .y
  else if key = sb "d" then some .d else if key = sb "k" then some .k else if key = sb "use" then some .use
  else if key = sb "key_ops" then some .keyOps else none

def Acc.setUse (a : Acc) (s : Bytes) : Acc :=
  let ops := useOps s
  if ops ≠ 0 then { a with keyOps := some (a.keyOps.getD 0 ||| ops) } else a

/-- one turn of the `while let Some(key) = access.next_key()?` loop.  `none` = the deserializer reports an error
    (wrong value type; or, when the value of an unknown member is left unconsumed, the error raised by the
    following `next_key`, which finds `:` where it expects `,` or `}`) -/
def visitStep (cfg : Cfg) (a : Acc) (m : Bytes × JVal) : Option Acc :=
  match fieldOf m.1, m.2 with
  | some .kty, .str s => some { a with kty := some s }
  | some .kid, .str s => some { a with kid := some s }
  | some .alg, .str s => some { a with alg := some s }
  | some .crv, .str s => some { a with crv := some s }
  | some .x, .str s => some { a with x := some s }
  | some .y, .str s => some { a with y := some s }
  | some .d, .str s => some { a with d := some s }
  | some .k, .str s => some { a with k := some s }
  | some .use, .str s => some (a.setUse s)
  | some .keyOps, .strArr xs => (opsOf xs 0).map fun o => { a with keyOps := some o }
  | some _, _ => none
  | none, _ => if cfg.consumeUnknown then some a else none

def visitFrom (cfg : Cfg) (a : Acc) : List (Bytes × JVal) → Option Acc
  | [] => some a
  | m :: ms => match visitStep cfg a m with
    | some a' => visitFrom cfg a' ms
    | none => none

/-- `JwkMapVisitor::visit_map` over the members of a well-formed object -/
def visit (cfg : Cfg) (ms : List (Bytes × JVal)) : Option Parts :=
  match visitFrom cfg {} ms with
  | some a => a.finish
  | none => none

/-! ## byte level: `serde_json_core::from_str::<JwkParts>` -/

def isWs (c : UInt8) : Bool := c = 32 || c = 10 || c = 9 || c = 13

/-- `parse_whitespace` -/
def skipWs : Bytes → Bytes
  | [] => []
  | c :: rest => if isWs c then skipWs rest else c :: rest

/-- `parse_str` after the opening quote (`odd` = an odd number of backslashes immediately precedes); no escape
    processing: the raw bytes between the quotes are the string.  Returns the string and the input after the closing quote. -/
def strBody : Bytes → Bool → Bytes → Option (Bytes × Bytes)
  | [], _, _ => none
  | c :: rest, odd, acc =>
    if c = 34 then (if odd then strBody rest false (c :: acc) else some (acc.reverse, rest))
    else if c = 92 then strBody rest (!odd) (c :: acc)
    else strBody rest false (c :: acc)

/-- `deserialize_str` -/
def deStr (inp : Bytes) : Option (Bytes × Bytes) :=
  match skipWs inp with
  | c :: rest => if c = 34 then strBody rest false [] else none
  | [] => none

/-- `parse_object_colon` -/
def colon (inp : Bytes) : Option Bytes :=
  match skipWs inp with
  | c :: rest => if c = 58 then some rest else none
  | [] => none

/-- `SeqAccess::next_element_seed` up to the point where the element is deserialised:
    `none` = error, `some none` = end of sequence (input left at `]`), `some (some (inp', first'))` = element starts at `inp'` -/
def seqNext (inp : Bytes) (first : Bool) : Option (Option (Bytes × Bool)) :=
  match skipWs inp with
  | [] => none
  | c :: rest =>
    if c = 93 then some none
    else if c = 44 then
      match skipWs rest with
      | [] => none
      | p :: r => if p = 93 then none else some (some (p :: r, first))
    else if first then some (some (c :: rest, false))
    else none

/-- `KeyOpsVisitor::visit_seq`; returns the set and the input at the closing `]` -/
def keyOpsLoop : Nat → Bytes → Bool → Nat → Option (Nat × Bytes)
  | 0, _, _, _ => none
  | fuel + 1, inp, first, ops =>
    match seqNext inp first with
    | none => none
    | some none => some (ops, skipWs inp)
    | some (some (inp', first')) =>
      match deStr inp' with
      | none => none
      | some (s, rest) =>
        match opBit s with
        | some b => if ops &&& b ≠ 0 then none else keyOpsLoop fuel rest first' (ops ||| b)
        | none => keyOpsLoop fuel rest first' ops

/-- `deserialize_seq(KeyOpsVisitor)` including `end_seq` -/
def deKeyOps (inp : Bytes) : Option (Nat × Bytes) :=
  match skipWs inp with
  | c :: rest =>
    if c = 91 then
      match keyOpsLoop (rest.length + 2) rest true 0 with
      | some (ops, r) => match r with
        | c' :: r' => if c' = 93 then some (ops, r') else none
        | [] => none
      | none => none
    else none
  | [] => none

/-- the "chomp until a delimiter" branch of `deserialize_ignored_any` -/
def chomp : Bytes → Option Bytes
  | [] => none
  | c :: rest => if c = 44 || c = 125 || c = 93 then some (c :: rest) else chomp rest

/-- `MapAccess::next_key_seed` up to the point where the key is deserialised:
    `none` = error, `some none` = end of map (input left at `}`), `some (some inp')` = key string starts at `inp'`.
    After a successful call `first` is false. -/
def mapNext (inp : Bytes) (first : Bool) : Option (Option Bytes) :=
  match skipWs inp with
  | [] => none
  | c :: rest =>
    if c = 125 then some none
    else
      let peek : Option Bytes :=
        if c = 44 && !first then (match skipWs rest with | [] => none | r => some r)
        else if first then some (c :: rest) else none
      match peek with
      | some (p :: r) => if p = 34 then some (some (p :: r)) else none
      | _ => none

mutual
/-- `deserialize_ignored_any` -/
def ignoredAny : Nat → Bytes → Option Bytes
  | 0, _ => none
  | fuel + 1, inp =>
    match skipWs inp with
    | [] => none
    | c :: rest =>
      if c = 34 then (strBody rest false []).map (·.2)
      else if c = 91 then
        match ignoredSeq fuel rest true with
        | some (c' :: r') => if c' = 93 then some r' else none
        | _ => none
      else if c = 123 then
        match ignoredMap fuel rest true with
        | some (c' :: r') => if c' = 125 then some r' else none
        | _ => none
      else if c = 44 || c = 125 || c = 93 then none
      else chomp (c :: rest)
/-- `IgnoredAny::visit_seq`; returns the input at the closing `]` -/
def ignoredSeq : Nat → Bytes → Bool → Option Bytes
  | 0, _, _ => none
  | fuel + 1, inp, first =>
    match seqNext inp first with
    | none => none
    | some none => some (skipWs inp)
    | some (some (inp', first')) =>
      match ignoredAny fuel inp' with
      | some rest => ignoredSeq fuel rest first'
      | none => none
/-- `IgnoredAny::visit_map`; returns the input at the closing `}` -/
def ignoredMap : Nat → Bytes → Bool → Option Bytes
  | 0, _, _ => none
  | fuel + 1, inp, first =>
    match mapNext inp first with
    | none => none
    | some none => some (skipWs inp)
    | some (some inp') =>
      match deStr inp' with
      | none => none
      | some (_, rest) =>
        match colon rest with
        | none => none
        | some rest' =>
          match ignoredAny fuel rest' with
          | some rest'' => ignoredMap fuel rest'' false
          | none => none
end

/-- `next_value::<&str>()` -/
def valueStr (inp : Bytes) : Option (Bytes × Bytes) :=
  match colon inp with
  | some r => deStr r
  | none => none

/-- the `while let Some(key) = access.next_key::<&str>()?` loop of `visit_map`; returns the variables and the input at `}` -/
def mapLoop (cfg : Cfg) : Nat → Bytes → Bool → Acc → Option (Acc × Bytes)
  | 0, _, _, _ => none
  | fuel + 1, inp, first, a =>
    match mapNext inp first with
    | none => none
    | some none => some (a, skipWs inp)
    | some (some inp') =>
      match deStr inp' with
      | none => none
      | some (key, rest) =>
        match fieldOf key with
        | some .use =>
          (match valueStr rest with
           | some (s, r) => mapLoop cfg fuel r false (a.setUse s)
           | none => none)
        | some .keyOps =>
          (match colon rest with
           | some r => (match deKeyOps r with
             | some (ops, r') => mapLoop cfg fuel r' false { a with keyOps := some ops }
             | none => none)
           | none => none)
        | some f =>
          (match valueStr rest with
           | some (s, r) =>
             let a' : Acc := match f with
               | .kty => { a with kty := some s } | .kid => { a with kid := some s } | .alg => { a with alg := some s }
               | .crv => { a with crv := some s } | .x => { a with x := some s } | .y => { a with y := some s }
               | .d => { a with d := some s } | .k => { a with k := some s } | _ => a
             mapLoop cfg fuel r false a'
           | none => none)
        | none =>
          if cfg.consumeUnknown then
            (match colon rest with
             | some r => (match ignoredAny (r.length + 2) r with
               | some r' => mapLoop cfg fuel r' false a
               | none => none)
             | none => none)
          else mapLoop cfg fuel rest false a       -- value NOT consumed (D4)

/-- `JwkParts::try_from_str`: `deserialize_map`, `visit_map`, `end_map`, `Deserializer::end` -/
def parseJwk (cfg : Cfg) (inp : Bytes) : Option Parts :=
  match skipWs inp with
  | c :: rest =>
    if c = 123 then
      match mapLoop cfg (rest.length + 2) rest true {} with
      | some (a, r) =>
        match a.finish, r with
        | some p, c' :: r' => if c' = 125 ∧ skipWs r' = [] then some p else none
        | _, _ => none
      | none => none
    else none
  | [] => none

/-! ## keys -/

inductive Alg
  | a128gcm | a256gcm | a128cbcHs256 | a256cbcHs512 | a128kw | a256kw
  | blsG1 | blsG2 | blsG1G2 | c20p | xc20p | ed25519 | x25519 | k256 | p256 | p384
  deriving DecidableEq, Repr, Inhabited

def Alg.all : List Alg :=
  [.a128gcm, .a256gcm, .a128cbcHs256, .a256cbcHs512, .a128kw, .a256kw, .blsG1, .blsG2, .blsG1G2, .c20p, .xc20p,
   .ed25519, .x25519, .k256, .p256, .p384]

/-- `KeyAlg::as_str` -/
def Alg.name : Alg → String
  | .a128gcm => "a128gcm" | .a256gcm => "a256gcm" | .a128cbcHs256 => "a128cbchs256" | .a256cbcHs512 => "a256cbchs512"
  | .a128kw => "a128kw" | .a256kw => "a256kw" | .blsG1 => "bls12381g1" | .blsG2 => "bls12381g2" | .blsG1G2 => "bls12381g1g2"
  | .c20p => "c20p" | .xc20p => "xc20p" | .ed25519 => "ed25519" | .x25519 => "x25519" | .k256 => "k256" | .p256 => "p256"
  | .p384 => "p384"

def Alg.isSymmetric : Alg → Bool
  | .a128gcm | .a256gcm | .a128cbcHs256 | .a256cbcHs512 | .a128kw | .a256kw | .c20p | .xc20p => true
  | _ => false

def Alg.isEc : Alg → Bool
  | .k256 | .p256 | .p384 => true
  | _ => false

def Alg.isBls : Alg → Bool
  | .blsG1 | .blsG2 | .blsG1G2 => true
  | _ => false

/-- length of the secret key bytes -/
def Alg.secretLen : Alg → Nat
  | .a128gcm | .a128kw => 16
  | .a256cbcHs512 => 64
  | .p384 => 48
  | _ => 32

/-- length of the stored public key: `x‖y` for the three Weierstrass curves, the encoded key otherwise, 0 for symmetric keys -/
def Alg.pubLen : Alg → Nat
  | .ed25519 | .x25519 => 32
  | .k256 | .p256 => 64
  | .p384 => 96
  | .blsG1 => 48 | .blsG2 => 96 | .blsG1G2 => 144
  | _ => 0

/-- `T::JWK_ALG` of the symmetric key types -/
def Alg.jwkAlg : Alg → String
  | .a128gcm => "A128GCM" | .a256gcm => "A256GCM" | .a128cbcHs256 => "A128CBC-HS256" | .a256cbcHs512 => "A256CBC-HS512"
  | .a128kw => "A128KW" | .a256kw => "A256KW" | .c20p => "C20P" | .xc20p => "XC20P" | _ => ""

/-- `JWK_CURVE` -/
def Alg.jwkCrv : Alg → String
  | .ed25519 => "Ed25519" | .x25519 => "X25519" | .k256 => "secp256k1" | .p256 => "P-256" | .p384 => "P-384"
  | .blsG1 => "BLS12381_G1" | .blsG2 => "BLS12381_G2" | .blsG1G2 => "BLS12381_G1G2" | _ => ""

/-- `JWK_KEY_TYPE` -/
def Alg.jwkKty (a : Alg) : String :=
  if a.isSymmetric then "oct" else if a.isEc then "EC" else "OKP"

/-- a key: algorithm, secret bytes if any, public key (`x‖y` for EC, the encoded public key for the other
    asymmetric algorithms, empty for symmetric keys) -/
structure Key where
  alg : Alg
  secret : Option Bytes
  pub : Bytes
  deriving DecidableEq, Repr

/-- third-party curve operations (p256 / p384 / k256 / curve25519-dalek / ed25519-dalek / bls12_381 crates) -/
structure Prims where
  /-- public key of a secret of the right length; `none` = the crate rejects the scalar (zero or ≥ order for the
      Weierstrass curves, ≥ r for BLS; never for Ed25519 / X25519) -/
  pubOf : Alg → Bytes → Option Bytes
  /-- EC: `PublicKey::from_encoded_point(from_affine_coordinates(x, y))`: `some (x‖y)` iff the point is on the curve -/
  fromAffine : Alg → Bytes → Bytes → Option Bytes
  /-- EC: `PublicKey::from_sec1_bytes` on input of any length → `x‖y`;
      Ed25519: `VerifyingKey::from_bytes` on 32 bytes; BLS G1/G2: `from_compressed` on 48/96 bytes → the canonical encoding -/
  decodePub : Alg → Bytes → Option Bytes

/-- SEC1 compressed form of `x‖y` (`to_encoded_point(true)`) -/
def compress (n : Nat) (xy : Bytes) : Bytes :=
  let y := xy.drop n
  (if (y.getLast?.getD 0) % 2 = 1 then (3 : UInt8) else 2) :: xy.take n

/-- `KeySecretBytes::from_secret_bytes` per algorithm -/
def fromSecretBytes (cfg : Cfg) (P : Prims) (alg : Alg) (b : Bytes) : Res Key :=
  if alg.isSymmetric then
    if b.length ≠ alg.secretLen then .err .invalidKeyData else .ok { alg := alg, secret := some b, pub := [] }
  else if alg.isEc then
    -- `if let Ok(key) = key.try_into()`: the conversion found is `From<&[u8]> for &GenericArray`, which asserts the length
    if b.length ≠ alg.secretLen then
      (if cfg.ecLenCheck then .err .invalidKeyData else .panic "GenericArray::from_slice (from_secret_bytes)")
    else match P.pubOf alg b with
      | some p => .ok { alg := alg, secret := some b, pub := p }
      | none => .err .invalidKeyData
  else
    if b.length ≠ alg.secretLen then .err .invalidKeyData
    else match P.pubOf alg b with
      | some p => .ok { alg := alg, secret := some b, pub := p }
      | none => .err .invalidKeyData

/-- `BlsPublicKeyType::from_public_bytes` / `KeyPublicBytes::from_public_bytes` -/
def decodePublic (P : Prims) (alg : Alg) (b : Bytes) : Res Bytes :=
  match alg with
  | .ed25519 =>
    if b.length ≠ 32 then .err .invalidKeyData
    else match P.decodePub .ed25519 b with | some p => .ok p | none => .err .invalidKeyData
  | .x25519 => if b.length ≠ 32 then .err .invalidKeyData else .ok b
  | .blsG1 =>
    if b.length ≠ 48 then .err .invalidKeyData
    else match P.decodePub .blsG1 b with | some p => .ok p | none => .err .invalidKeyData
  | .blsG2 =>
    if b.length ≠ 96 then .err .invalidKeyData
    else match P.decodePub .blsG2 b with | some p => .ok p | none => .err .invalidKeyData
  | .blsG1G2 =>
    if b.length ≠ 144 then .err .invalidKeyData
    else match P.decodePub .blsG1 (b.take 48), P.decodePub .blsG2 (b.drop 48) with
      | some p1, some p2 => .ok (p1 ++ p2)
      | _, _ => .err .invalidKeyData
  | .k256 | .p256 | .p384 =>
    match P.decodePub alg b with | some p => .ok p | none => .err .invalidKeyData
  | _ => .err .unsupported                                   -- "Unsupported algorithm for public key import"

def fromPublicBytes (P : Prims) (alg : Alg) (b : Bytes) : Res Key :=
  match decodePublic P alg b with
  | .ok p => .ok { alg := alg, secret := none, pub := p }
  | .err e => .err e
  | .panic s => .panic s

/-- `ToSecretBytes::to_secret_bytes` -/
def toSecretBytes (k : Key) : Res Bytes :=
  match k.secret with
  | some s => .ok s
  | none => .err .missingSecretKey

/-- `ToPublicBytes::to_public_bytes` -/
def toPublicBytes (k : Key) : Res Bytes :=
  if k.alg.isSymmetric then .err .unsupported
  else if k.alg.isEc then .ok (compress k.alg.secretLen k.pub)
  else .ok k.pub

inductive Mode | publicKey | secretKey | thumbprint
  deriving DecidableEq, Repr

/-- `Pk::get_jwk_curve(enc.alg())` / `Pk::with_bytes(.., enc.alg(), ..)` for BLS keys -/
def blsView (k : Key) (algParam : Option Alg) : String × Bytes :=
  if k.alg = .blsG1G2 ∧ algParam = some .blsG1 then (Alg.blsG1.jwkCrv, k.pub.take 48)
  else if k.alg = .blsG1G2 ∧ algParam = some .blsG2 then (Alg.blsG2.jwkCrv, k.pub.drop 48)
  else (k.alg.jwkCrv, k.pub)

/-- a JWK member as the encoder writes it: name and (string) value -/
abbrev Member := String × Bytes

/-- `ToJwk::encode_jwk` per algorithm: the members in the order written -/
def encodeJwk (k : Key) (mode : Mode) (algParam : Option Alg) : Res (List Member) :=
  if k.alg.isSymmetric then
    if mode = .publicKey then .err .unsupported              -- "Cannot export as a public key"
    else
      .ok ((if mode = .thumbprint then [] else [("alg", sb k.alg.jwkAlg)])
        ++ [("k", b64encode (k.secret.getD [])), ("kty", sb "oct")])
  else
    let dpart : List Member :=
      if mode = .secretKey then (match k.secret with | some s => [("d", b64encode s)] | none => []) else []
    if k.alg.isEc then
      let n := k.alg.secretLen
      .ok ([("crv", sb k.alg.jwkCrv), ("kty", sb "EC"), ("x", b64encode (k.pub.take n)), ("y", b64encode (k.pub.drop n))] ++ dpart)
    else if k.alg.isBls then
      let v := blsView k algParam
      .ok ([("crv", sb v.1), ("kty", sb "OKP"), ("x", b64encode v.2)] ++ dpart)
    else
      .ok ([("crv", sb k.alg.jwkCrv), ("kty", sb "OKP"), ("x", b64encode k.pub)] ++ dpart)

/-- `JwkBufferEncoder`: `{"name":"value",…}`, nothing when no member was written -/
def renderMembers : List Member → Bytes
  | [] => []
  | ms => sb "{" ++ (List.intercalate (sb ",") (ms.map fun m => sb "\"" ++ sb m.1 ++ sb "\":\"" ++ m.2 ++ sb "\"")) ++ sb "}"

def toJwk (k : Key) (mode : Mode) (algParam : Option Alg) : Res Bytes :=
  match encodeJwk k mode algParam with
  | .ok ms => .ok (renderMembers ms)
  | .err e => .err e
  | .panic s => .panic s

/-- `check_public_bytes` -/
def checkPublic (k : Key) (pk : Bytes) : Res Key :=
  if k.pub = pk then .ok k else .err .invalidKeyData

/-- `FromJwk::from_jwk_parts` for the type that `from_jwk_any` selected -/
def fromJwkParts (cfg : Cfg) (P : Prims) (alg : Alg) (j : Parts) : Res Key :=
  if alg.isEc then
    if j.kty ≠ sb "EC" then .err .invalidKeyData
    else if j.crv ≠ some (sb alg.jwkCrv) then .err .invalidKeyData
    else do
      let n := alg.secretLen
      let x ← decodeExact j.x n
      let y ← decodeExact j.y n
      match P.fromAffine alg x y with
      | none => .err .invalidKeyData
      | some pk =>
        if j.d.isSome then do
          let d ← decodeExact j.d n
          let kp ← fromSecretBytes cfg P alg d
          if kp.pub ≠ pk then .err .invalidKeyData else .ok kp
        else .ok { alg := alg, secret := none, pub := pk }
  else if alg.isBls then
    if j.kty ≠ sb "OKP" ∧ j.kty ≠ sb "EC" then .err .invalidKeyData
    else if j.crv ≠ some (sb alg.jwkCrv) then .err .invalidKeyData
    else do
      let x ← decodeExact j.x alg.pubLen
      if j.d.isSome then do
        let d ← decodeExact j.d 32
        let kp ← fromSecretBytes cfg P alg d
        checkPublic kp x
      else fromPublicBytes P alg x
  else if alg = .ed25519 ∨ alg = .x25519 then
    if j.kty ≠ sb "OKP" then .err .invalidKeyData
    else if j.crv ≠ some (sb alg.jwkCrv) then .err .invalidKeyData
    else do
      let x ← decodeExact j.x 32
      if j.d.isSome then do
        let d ← decodeExact j.d 32
        let kp ← fromSecretBytes cfg P alg d
        checkPublic kp x
      else fromPublicBytes P alg x
  else .err .unsupported

/-- the `(kty, crv)` dispatch of `from_jwk_any` (there is no `oct` branch: D15) -/
def selectAlg (j : Parts) : Option Alg :=
  let crv := j.crv.getD []
  let okp := j.kty = sb "OKP"
  let ec := j.kty = sb "EC"
  if okp ∧ crv = sb "Ed25519" then some .ed25519
  else if okp ∧ crv = sb "X25519" then some .x25519
  else if (okp ∨ ec) ∧ crv = sb "BLS12381_G1" then some .blsG1
  else if (okp ∨ ec) ∧ crv = sb "BLS12381_G2" then some .blsG2
  else if (okp ∨ ec) ∧ crv = sb "BLS12381_G1G2" then some .blsG1G2
  else if ec ∧ crv = sb "secp256k1" then some .k256
  else if ec ∧ crv = sb "P-256" then some .p256
  else if ec ∧ crv = sb "P-384" then some .p384
  else none

def fromJwkAny (cfg : Cfg) (P : Prims) (j : Parts) : Res Key :=
  match selectAlg j with
  | some alg => fromJwkParts cfg P alg j
  | none => .err .unsupported                                -- "Unsupported JWK for key import"

/-- `FromJwk::from_jwk(&str)` -/
def fromJwk (cfg : Cfg) (P : Prims) (text : Bytes) : Res Key :=
  match parseJwk cfg text with
  | some j => fromJwkAny cfg P j
  | none => .err .invalid                                    -- "Error parsing JWK"

/-- import through the token-level visitor (used by the theorems) -/
def fromMembers (cfg : Cfg) (P : Prims) (ms : List (Bytes × JVal)) : Res Key :=
  match visit cfg ms with
  | some j => fromJwkAny cfg P j
  | none => .err .invalid

/-- RFC 7638: the required members per key type, in lexicographic order -/
def rfc7638Members (kty : String) : List String :=
  if kty = "EC" then ["crv", "kty", "x", "y"]
  else if kty = "OKP" then ["crv", "kty", "x"]        -- RFC 8037 §2
  else if kty = "oct" then ["k", "kty"]
  else []

/-! ## `JwkBufferEncoder` with `key_ops` / `kid` (jwk/encode.rs `finalize`, jwk/ops.rs)

`finalize` appends `"key_ops":` + the elements + `]` and then `"kid":"…"` (through `add_str`: the raw bytes, nothing is
escaped) to the members `encode_jwk` wrote, and closes the object when anything was written.  On the tree in /repo the opening
`[` of the `key_ops` array is never written; `bracket` is that one byte (false = /repo today, true = repaired). -/

/-- does `finalize` write the opening `[` of `key_ops`?  What /repo does NOW (constant until tools/extract.py generates it:
    true iff `finalize` in askar-crypto/src/jwk/encode.rs contains `buffer_write(b"[")` or `b"[\""`). -/
def keyOpsBracketCurrent : Bool := Askar.Generated.Flags.jwkKeyOpsOpenBracket

/-- `OPS` with `KeyOps::as_str`: bit and name, in the order `KeyOpsIter` yields them -/
def opTable : List (Nat × String) :=
  [(1, "encrypt"), (2, "decrypt"), (4, "sign"), (8, "verify"), (16, "wrapKey"), (32, "unwrapKey"), (64, "deriveKey"),
   (128, "deriveBits")]

/-- `(&KeyOpsSet).into_iter()` as names -/
def opsNames (ops : Nat) : List Bytes := (opTable.filter fun p => ops &&& p.1 ≠ 0).map fun p => sb p.2

/-- `"s"` -/
def quoted (s : Bytes) : Bytes := 34 :: (s ++ [34])

/-- the elements after the first: `,"name"` each -/
def opsTail : List Bytes → Bytes
  | [] => []
  | n :: ns => 44 :: (quoted n ++ opsTail ns)

/-- the elements as `finalize` writes them: `"a"` then `,"b"` … -/
def opsElems : List Bytes → Bytes
  | [] => []
  | n :: ns => quoted n ++ opsTail ns

/-- the value text written for `key_ops`: (`[` in the repaired variant only,) the elements, `]` -/
def opsText (bracket : Bool) (ops : Nat) : Bytes :=
  (if bracket then [91] else []) ++ (opsElems (opsNames ops) ++ [93])

/-- one attribute as written: `"name":` + value text -/
def attrText (name : Bytes) (value : Bytes) : Bytes := quoted name ++ 58 :: value

/-- the attributes in the order written: the members of `encode_jwk`, then `key_ops`, then `kid` -/
def attrTexts (bracket : Bool) (ms : List Member) (ops : Option Nat) (kid : Option Bytes) : List Bytes :=
  ms.map (fun m => attrText (sb m.1) (quoted m.2))
    ++ (match ops with | some o => [attrText (sb "key_ops") (opsText bracket o)] | none => [])
    ++ (match kid with | some k => [attrText (sb "kid") (quoted k)] | none => [])

/-- attributes after the first: `,attr` each -/
def attrsTail : List Bytes → Bytes
  | [] => []
  | t :: ts => 44 :: (t ++ attrsTail ts)

/-- the whole buffer after `finalize`: nothing at all when no attribute was written (`empty` still true) -/
def renderAttrs : List Bytes → Bytes
  | [] => []
  | t :: ts => 123 :: (t ++ (attrsTail ts ++ [125]))

def renderJwk (bracket : Bool) (ms : List Member) (ops : Option Nat) (kid : Option Bytes) : Bytes :=
  renderAttrs (attrTexts bracket ms ops kid)

/-- `JwkBufferEncoder::new(buf, mode).alg(a).key_ops(ops).kid(kid)`, `key.encode_jwk(&mut enc)?`, `enc.finalize()?` -/
def toJwkWith (bracket : Bool) (k : Key) (mode : Mode) (algParam : Option Alg) (ops : Option Nat) (kid : Option Bytes) :
    Res Bytes :=
  match encodeJwk k mode algParam with
  | .ok ms => .ok (renderJwk bracket ms ops kid)
  | .err e => .err e
  | .panic s => .panic s

/-! ## keypair bytes (`KeypairBytes` of Ed25519 / X25519 / K-256 / P-256 / P-384) -/

/-- the types that implement `KeypairBytes` -/
def Alg.hasKeypairBytes : Alg → Bool
  | .ed25519 | .x25519 | .k256 | .p256 | .p384 => true
  | _ => false

/-- length of `to_public_bytes`: the compressed SEC1 form for the Weierstrass curves -/
def Alg.pubBytesLen (a : Alg) : Nat := if a.isEc then a.secretLen + 1 else a.pubLen

/-- `KeypairBytes::from_keypair_bytes`: length check, `from_secret_bytes(&kp[..n])` (EC: every error mapped to InvalidKeyData),
    `check_public_bytes(&kp[n..])` = comparison with `to_public_bytes` of the derived key.  Both slices are in bounds after the
    length check.  `Unsupported` stands for "the type has no such impl" (a compile-time fact in Rust). -/
def fromKeypairBytes (cfg : Cfg) (P : Prims) (alg : Alg) (b : Bytes) : Res Key :=
  if alg.hasKeypairBytes = false then .err .unsupported
  else if b.length ≠ alg.secretLen + alg.pubBytesLen then .err .invalidKeyData
  else match fromSecretBytes cfg P alg (b.take alg.secretLen) with
    | .ok k =>
      (match toPublicBytes k with
       | .ok pb => if pb = b.drop alg.secretLen then .ok k else .err .invalidKeyData
       | .err e => .err e
       | .panic s => .panic s)
    | .err e => if alg.isEc then .err .invalidKeyData else .err e
    | .panic s => .panic s

/-- `KeypairBytes::to_keypair_bytes`: secret ‖ public, MissingSecretKey for a public-only key -/
def toKeypairBytes (k : Key) : Res Bytes :=
  if k.alg.hasKeypairBytes = false then .err .unsupported
  else match k.secret with
    | none => .err .missingSecretKey
    | some s =>
      match toPublicBytes k with
      | .ok pb => .ok (s ++ pb)
      | .err e => .err e
      | .panic s => .panic s

/-! ## key conversion (`convert_key_any`, `Ed25519KeyPair::to_x25519_keypair`, `From<&BlsKeyPair<G1G2>>`) -/

/-- third-party operations of the Ed25519 → X25519 conversion -/
structure ConvPrims where
  /-- `sha2::Sha512::digest` (64 bytes) -/
  sha512 : Bytes → Bytes
  /-- `CompressedEdwardsY(b).decompress()` followed by `.to_montgomery().to_bytes()`; `none` = `decompress` fails -/
  edToMontgomery : Bytes → Option Bytes

/-- `curve25519_dalek::scalar::clamp_integer` on 32 bytes: `b[0] &= 248; b[31] &= 127; b[31] |= 64` -/
def clampBytes (h : Bytes) : Bytes :=
  h.mapIdx fun i x => if i = 0 then x &&& 248 else if i = 31 then (x &&& 127) ||| 64 else x

/-- `Ed25519KeyPair::to_x25519_keypair`: with a secret, the clamped first half of SHA-512(secret) and its X25519 public key;
    without, `decompress().unwrap()` of the stored public bytes — a panic when they do not decompress -/
def toX25519 (P : Prims) (C : ConvPrims) (k : Key) : Res Key :=
  match k.secret with
  | some s =>
    let xs := clampBytes ((C.sha512 s).take 32)
    .ok { alg := .x25519, secret := some xs, pub := (P.pubOf .x25519 xs).getD [] }
  | none =>
    match C.edToMontgomery k.pub with
    | some u => .ok { alg := .x25519, secret := none, pub := u }
    | none => .panic "CompressedEdwardsY::decompress().unwrap() (to_x25519_keypair)"

/-- `convert_key_any` -/
def convertKey (P : Prims) (C : ConvPrims) (k : Key) (to : Alg) : Res Key :=
  if k.alg = .blsG1G2 ∧ to = .blsG1 then .ok { alg := .blsG1, secret := k.secret, pub := k.pub.take 48 }
  else if k.alg = .blsG1G2 ∧ to = .blsG2 then .ok { alg := .blsG2, secret := k.secret, pub := k.pub.drop 48 }
  else if k.alg = .ed25519 ∧ to = .x25519 then toX25519 P C k
  else .err .unsupported                                     -- "Unsupported key conversion operation"

/-! ## the concrete key types' own `from_jwk`, and the length accessors -/

/-- `<K as FromJwk>::from_jwk(text)` of a CONCRETE key type `K` (the 8 asymmetric types implement it; for the symmetric algorithms
    `fromJwkParts` answers `Unsupported`, which stands for "no such impl"): `JwkParts::try_from_str`, then `K::from_jwk_parts` —
    no `(kty, crv)` dispatch in front, so the type's own "Unsupported key type / algorithm" arms decide -/
def fromJwkTyped (cfg : Cfg) (P : Prims) (alg : Alg) (text : Bytes) : Res Key :=
  match parseJwk cfg text with
  | some j => fromJwkParts cfg P alg j
  | none => .err .invalid

/-- what a concrete type accepts as `kty` -/
def Alg.ktyOk (alg : Alg) (kty : Bytes) : Bool :=
  if alg.isEc then kty = sb "EC" else if alg.isBls then (kty = sb "OKP" || kty = sb "EC") else kty = sb "OKP"

/-- `ToPublicBytes::public_bytes_length` (`PublicKeySize::USIZE`; `key_to_public` refuses symmetric keys) -/
def publicBytesLen (k : Key) : Res Nat :=
  if k.alg.isSymmetric then .err .unsupported else .ok k.alg.pubBytesLen

/-- `ToSecretBytes::secret_bytes_length` (`KeySize::USIZE`, whether or not the key holds a secret) -/
def secretBytesLen (k : Key) : Res Nat := .ok k.alg.secretLen

end Askar.Jwk
