/-
SHA-256 / SHA-384 / SHA-512 — executable SPECIFICATION written from FIPS 180-4 (not from the Rust).

Used as an ORACLE by the differential runs (C12 and others).  The round constants and initial hash
values are *computed* the way the standard defines them (fractional parts of cube / square roots of
the first primes, FIPS 180-4 §4.2.2, §4.2.3, §5.3.3–5.3.5) instead of being copied as tables, and
the result is validated against the standard's published digests in `selfTest` (THESE ARE TESTS).
Core Lean only; `ByteArray`/`UInt32`/`UInt64` for speed, `List UInt8` bridges at the end.
-/
namespace Askar.Crypto.Sha2

/-! ### constants, from their definition -/

def isPrime (n : Nat) : Bool := n ≥ 2 && (List.range n).all fun d => d < 2 || n % d != 0

/-- the first 80 primes (2 … 409) -/
def primes80 : Array Nat := ((List.range 410).filter isPrime).toArray

/-- ⌊n^(1/3)⌋ by bisection; exact for n < 2^240 -/
def icbrt (n : Nat) : Nat := Id.run do
  let mut lo := 0
  let mut hi := 2 ^ 80
  for _ in [0:81] do
    let mid := (lo + hi) / 2
    if mid * mid * mid ≤ n then lo := mid else hi := mid
  return lo

/-- first 32 bits of the fractional part of the cube root of the i-th prime, i < 64 (§4.2.2) -/
def k256 : Array UInt32 := (primes80.extract 0 64).map fun p => UInt32.ofNat (icbrt (p * 2 ^ 96) % 2 ^ 32)
/-- first 64 bits of the fractional part of the cube root of the i-th prime, i < 80 (§4.2.3) -/
def k512 : Array UInt64 := primes80.map fun p => UInt64.ofNat (icbrt (p * 2 ^ 192) % 2 ^ 64)
/-- §5.3.3: first 32 bits of the fractional parts of the square roots of the first 8 primes -/
def h256 : Array UInt32 := (primes80.extract 0 8).map fun p => UInt32.ofNat (Nat.sqrt (p * 2 ^ 64) % 2 ^ 32)
/-- §5.3.5: first 64 bits of the fractional parts of the square roots of the first 8 primes -/
def h512 : Array UInt64 := (primes80.extract 0 8).map fun p => UInt64.ofNat (Nat.sqrt (p * 2 ^ 128) % 2 ^ 64)
/-- §5.3.4: the same for the 9th … 16th primes -/
def h384 : Array UInt64 := (primes80.extract 8 16).map fun p => UInt64.ofNat (Nat.sqrt (p * 2 ^ 128) % 2 ^ 64)

/-! ### SHA-256 (§6.2) -/

@[inline] def rotr32 (x : UInt32) (n : UInt32) : UInt32 := (x >>> n) ||| (x <<< (32 - n))

@[inline] def be32At (b : ByteArray) (i : Nat) : UInt32 :=
  ((b.get! i).toUInt32 <<< 24) ||| ((b.get! (i + 1)).toUInt32 <<< 16) |||
  ((b.get! (i + 2)).toUInt32 <<< 8) ||| (b.get! (i + 3)).toUInt32

def pushBe32 (b : ByteArray) (x : UInt32) : ByteArray :=
  (((b.push (x >>> 24).toUInt8).push (x >>> 16).toUInt8).push (x >>> 8).toUInt8).push x.toUInt8

def compress256 (h : Array UInt32) (m : ByteArray) (off : Nat) : Array UInt32 := Id.run do
  let mut w : Array UInt32 := Array.mkEmpty 64
  for t in [0:16] do
    w := w.push (be32At m (off + 4 * t))
  for t in [16:64] do
    let x := w[t - 15]!
    let y := w[t - 2]!
    let s0 := rotr32 x 7 ^^^ rotr32 x 18 ^^^ (x >>> 3)
    let s1 := rotr32 y 17 ^^^ rotr32 y 19 ^^^ (y >>> 10)
    w := w.push (s1 + w[t - 7]! + s0 + w[t - 16]!)
  let mut a := h[0]!; let mut b := h[1]!; let mut c := h[2]!; let mut d := h[3]!
  let mut e := h[4]!; let mut f := h[5]!; let mut g := h[6]!; let mut hh := h[7]!
  for t in [0:64] do
    let S1 := rotr32 e 6 ^^^ rotr32 e 11 ^^^ rotr32 e 25
    let ch := (e &&& f) ^^^ ((~~~ e) &&& g)
    let t1 := hh + S1 + ch + k256[t]! + w[t]!
    let S0 := rotr32 a 2 ^^^ rotr32 a 13 ^^^ rotr32 a 22
    let maj := (a &&& b) ^^^ (a &&& c) ^^^ (b &&& c)
    let t2 := S0 + maj
    hh := g; g := f; f := e; e := d + t1; d := c; c := b; b := a; a := t1 + t2
  return #[h[0]! + a, h[1]! + b, h[2]! + c, h[3]! + d, h[4]! + e, h[5]! + f, h[6]! + g, h[7]! + hh]

/-- §5.1.1: message ‖ 1 ‖ 0^k ‖ ℓ (64-bit big-endian bit length), a multiple of 64 bytes -/
def pad256 (m : ByteArray) : ByteArray := Id.run do
  let mut b := m.push 0x80
  let z := (64 - (m.size + 1 + 8) % 64) % 64
  for _ in [0:z] do
    b := b.push 0
  let bits := m.size * 8
  for i in [0:8] do
    b := b.push (UInt8.ofNat (bits / 2 ^ (8 * (7 - i)) % 256))
  return b

def sha256 (m : ByteArray) : ByteArray := Id.run do
  let p := pad256 m
  let mut h := h256
  for i in [0:p.size / 64] do
    h := compress256 h p (64 * i)
  let mut out := ByteArray.emptyWithCapacity 32
  for x in h do
    out := pushBe32 out x
  return out

/-! ### SHA-512 / SHA-384 (§6.4, §6.5) -/

@[inline] def rotr64 (x : UInt64) (n : UInt64) : UInt64 := (x >>> n) ||| (x <<< (64 - n))

@[inline] def be64At (b : ByteArray) (i : Nat) : UInt64 :=
  ((be32At b i).toUInt64 <<< 32) ||| (be32At b (i + 4)).toUInt64

def pushBe64 (b : ByteArray) (x : UInt64) : ByteArray :=
  pushBe32 (pushBe32 b (x >>> 32).toUInt32) x.toUInt32

def compress512 (h : Array UInt64) (m : ByteArray) (off : Nat) : Array UInt64 := Id.run do
  let mut w : Array UInt64 := Array.mkEmpty 80
  for t in [0:16] do
    w := w.push (be64At m (off + 8 * t))
  for t in [16:80] do
    let x := w[t - 15]!
    let y := w[t - 2]!
    let s0 := rotr64 x 1 ^^^ rotr64 x 8 ^^^ (x >>> 7)
    let s1 := rotr64 y 19 ^^^ rotr64 y 61 ^^^ (y >>> 6)
    w := w.push (s1 + w[t - 7]! + s0 + w[t - 16]!)
  let mut a := h[0]!; let mut b := h[1]!; let mut c := h[2]!; let mut d := h[3]!
  let mut e := h[4]!; let mut f := h[5]!; let mut g := h[6]!; let mut hh := h[7]!
  for t in [0:80] do
    let S1 := rotr64 e 14 ^^^ rotr64 e 18 ^^^ rotr64 e 41
    let ch := (e &&& f) ^^^ ((~~~ e) &&& g)
    let t1 := hh + S1 + ch + k512[t]! + w[t]!
    let S0 := rotr64 a 28 ^^^ rotr64 a 34 ^^^ rotr64 a 39
    let maj := (a &&& b) ^^^ (a &&& c) ^^^ (b &&& c)
    let t2 := S0 + maj
    hh := g; g := f; f := e; e := d + t1; d := c; c := b; b := a; a := t1 + t2
  return #[h[0]! + a, h[1]! + b, h[2]! + c, h[3]! + d, h[4]! + e, h[5]! + f, h[6]! + g, h[7]! + hh]

/-- §5.1.2: message ‖ 1 ‖ 0^k ‖ ℓ (128-bit big-endian bit length), a multiple of 128 bytes -/
def pad512 (m : ByteArray) : ByteArray := Id.run do
  let mut b := m.push 0x80
  let z := (128 - (m.size + 1 + 16) % 128) % 128
  for _ in [0:z] do
    b := b.push 0
  let bits := m.size * 8
  for i in [0:16] do
    b := b.push (UInt8.ofNat (bits / 2 ^ (8 * (15 - i)) % 256))
  return b

def sha512With (iv : Array UInt64) (outWords : Nat) (m : ByteArray) : ByteArray := Id.run do
  let p := pad512 m
  let mut h := iv
  for i in [0:p.size / 128] do
    h := compress512 h p (128 * i)
  let mut out := ByteArray.emptyWithCapacity 64
  for i in [0:outWords] do
    out := pushBe64 out h[i]!
  return out

def sha512 (m : ByteArray) : ByteArray := sha512With h512 8 m
def sha384 (m : ByteArray) : ByteArray := sha512With h384 6 m

/-! ### `List UInt8` bridges -/
def sha256L (m : List UInt8) : List UInt8 := (sha256 m.toByteArray).toList
def sha384L (m : List UInt8) : List UInt8 := (sha384 m.toByteArray).toList
def sha512L (m : List UInt8) : List UInt8 := (sha512 m.toByteArray).toList

/-! ### tests against the standard's vectors (FIPS 180-4 / NIST example values) -/

def hexDigit (n : Nat) : Char := if n < 10 then Char.ofNat (48 + n) else Char.ofNat (87 + n)
def toHex (b : ByteArray) : String :=
  String.ofList (b.toList.flatMap fun x => [hexDigit (x.toNat / 16), hexDigit (x.toNat % 16)])

def abc : ByteArray := "abc".toUTF8
def twoBlock : ByteArray := "abcdbcdecdefdefgefghfghighijhijkijkljklmklmnlmnomnopnopq".toUTF8
def millionA : ByteArray := Id.run do
  let mut b := ByteArray.emptyWithCapacity 1000000
  for _ in [0:1000000] do
    b := b.push 0x61
  return b

/-- TEST: NIST example digests; also the first and last round constants as printed in the standard -/
def selfTest : Bool :=
  k256[0]! == 0x428a2f98 && k256[63]! == 0xc67178f2 && h256[0]! == 0x6a09e667 &&
  k512[0]! == 0x428a2f98d728ae22 && k512[79]! == 0x6c44198c4a475817 &&
  h512[0]! == 0x6a09e667f3bcc908 && h384[0]! == 0xcbbb9d5dc1059ed8 &&
  toHex (sha256 abc) == "ba7816bf8f01cfea414140de5dae2223b00361a396177a9cb410ff61f20015ad" &&
  toHex (sha256 ByteArray.empty) == "e3b0c44298fc1c149afbf4c8996fb92427ae41e4649b934ca495991b7852b855" &&
  toHex (sha256 twoBlock) == "248d6a61d20638b8e5c026930c3e6039a33ce45964ff2167f6ecedd419db06c1" &&
  toHex (sha512 abc) == "ddaf35a193617abacc417349ae20413112e6fa4e89a97ea20a9eeee64b55d39a2192992a274fc1a836ba3c23a3feebbd454d4423643ce80e2a9ac94fa54ca49f" &&
  toHex (sha512 ByteArray.empty) == "cf83e1357eefb8bdf1542850d66d8007d620e4050b5715dc83f4a921d36ce9ce47d0d13c5d85f2b0ff8318d2877eec2f63b931bd47417a81a538327af927da3e" &&
  toHex (sha384 abc) == "cb00753f45a35e8bb5a03d699ac65007272c32ab0eded1631a8b605a43ff5bed8086072ba1e7cc2358baeca134c825a7" &&
  toHex (sha384 ByteArray.empty) == "38b060a751ac96384cd9327eb1b1e36a21fdb71114be07434c0cc7bf63f6e1da274edebfe76f65fbd51ad2f14898b95b"

/-- TEST (slow, run only by the thorough self test): one million 'a' -/
def selfTestLong : Bool :=
  toHex (sha256 millionA) == "cdc76e5c9914fb9281a1c7e284d73e67f1809a48a497200e046d39ccc7112cd0"

end Askar.Crypto.Sha2
