/-
NaCl / libsodium `crypto_box` building blocks — executable SPECIFICATION written from the Salsa20 specification
(Bernstein, "Salsa20 specification"; "Extending the Salsa20 nonce"), "Cryptography in NaCl" §7–§10, RFC 7693 (BLAKE2b)
and libsodium's documented `crypto_box_seal` construction — not from the Rust.  ORACLE for the C15 differential runs;
validated in `selfTest` against "Cryptography in NaCl" §10 (crypto_box test), RFC 7693 Appendix A and the libsodium
vector of askar's own unit test (THESE ARE TESTS).  Core Lean only.
-/
import AskarModel.Crypto.Sha2
import AskarModel.Crypto.Poly1305
import AskarModel.Crypto.X25519

namespace Askar.Crypto.NaclBox

/-! ### Salsa20 core -/

@[inline] def rotl32 (x : UInt32) (n : UInt32) : UInt32 := (x <<< n) ||| (x >>> (32 - n))

def quarter (s : Array UInt32) (a b c d : Nat) : Array UInt32 :=
  let s := s.set! b (s[b]! ^^^ rotl32 (s[a]! + s[d]!) 7)
  let s := s.set! c (s[c]! ^^^ rotl32 (s[b]! + s[a]!) 9)
  let s := s.set! d (s[d]! ^^^ rotl32 (s[c]! + s[b]!) 13)
  s.set! a (s[a]! ^^^ rotl32 (s[d]! + s[c]!) 18)

/-- columnround then rowround -/
def doubleRound (s : Array UInt32) : Array UInt32 :=
  let s := quarter s 0 4 8 12
  let s := quarter s 5 9 13 1
  let s := quarter s 10 14 2 6
  let s := quarter s 15 3 7 11
  let s := quarter s 0 1 2 3
  let s := quarter s 5 6 7 4
  let s := quarter s 10 11 8 9
  quarter s 15 12 13 14

def rounds20 (s : Array UInt32) : Array UInt32 := (List.range 10).foldl (fun s _ => doubleRound s) s

def leWord (b : List UInt8) (i : Nat) : UInt32 :=
  (b.getD i 0).toUInt32 ||| ((b.getD (i + 1) 0).toUInt32 <<< 8) ||| ((b.getD (i + 2) 0).toUInt32 <<< 16) |||
    ((b.getD (i + 3) 0).toUInt32 <<< 24)

def wordLE (w : UInt32) : List UInt8 := [w.toUInt8, (w >>> 8).toUInt8, (w >>> 16).toUInt8, (w >>> 24).toUInt8]

/-- "expand 32-byte k" -/
def sigma : Array UInt32 := #[0x61707865, 0x3320646e, 0x79622d32, 0x6b206574]

/-- the 16-word input block: constants on the diagonal, key words 1–4 and 11–14, `inp` (16 bytes) in words 6–9 -/
def initState (key inp : List UInt8) : Array UInt32 :=
  #[sigma[0]!, leWord key 0, leWord key 4, leWord key 8, leWord key 12, sigma[1]!,
    leWord inp 0, leWord inp 4, leWord inp 8, leWord inp 12, sigma[2]!,
    leWord key 16, leWord key 20, leWord key 24, leWord key 28, sigma[3]!]

/-- Salsa20 block function: 20 rounds, feed-forward addition -/
def salsa20Block (key inp : List UInt8) : List UInt8 :=
  let s0 := initState key inp
  let s := rounds20 s0
  (List.range 16).flatMap fun i => wordLE (s[i]! + s0[i]!)

/-- HSalsa20: 20 rounds, no feed-forward, output words 0,5,10,15,6,7,8,9 -/
def hsalsa20 (key inp : List UInt8) : List UInt8 :=
  let s := rounds20 (initState key inp)
  [0, 5, 10, 15, 6, 7, 8, 9].flatMap fun i => wordLE (s[i]!)

def le64 (n : Nat) : List UInt8 := (List.range 8).map fun i => UInt8.ofNat (n / 256 ^ i % 256)

/-- `len` bytes of Salsa20 key stream for an 8-byte nonce, block counter from 0 -/
def salsa20Stream (key nonce8 : List UInt8) (len : Nat) : List UInt8 :=
  ((List.range ((len + 63) / 64)).flatMap fun i => salsa20Block key (nonce8 ++ le64 i)).take len

/-- XSalsa20 key stream for a 24-byte nonce -/
def xsalsa20Stream (key nonce24 : List UInt8) (len : Nat) : List UInt8 :=
  salsa20Stream (hsalsa20 key (nonce24.take 16)) (nonce24.drop 16) len

def xorBytes (a b : List UInt8) : List UInt8 := List.zipWith (· ^^^ ·) a b

/-- crypto_secretbox_xsalsa20poly1305, detached: (ciphertext, tag).  The first 32 key-stream bytes are the Poly1305 key. -/
def secretboxSeal (key nonce24 msg : List UInt8) : List UInt8 × List UInt8 :=
  let ks := xsalsa20Stream key nonce24 (32 + msg.length)
  let ct := xorBytes msg (ks.drop 32)
  (ct, (Poly1305.mac (ks.take 32).toByteArray ct.toByteArray).toList)

def secretboxOpen (key nonce24 ct tag : List UInt8) : Option (List UInt8) :=
  let ks := xsalsa20Stream key nonce24 (32 + ct.length)
  if (Poly1305.mac (ks.take 32).toByteArray ct.toByteArray).toList = tag then some (xorBytes ct (ks.drop 32)) else none

/-- crypto_box_beforenm: k = HSalsa20(X25519(sk, pk), 0¹⁶) -/
def boxKey (sk pk : List UInt8) : List UInt8 := hsalsa20 (X25519.x25519 sk pk) (List.replicate 16 0)

/-! ### BLAKE2b (RFC 7693), unkeyed -/

def sigmaB : Array (Array Nat) := #[
  #[0, 1, 2, 3, 4, 5, 6, 7, 8, 9, 10, 11, 12, 13, 14, 15],
  #[14, 10, 4, 8, 9, 15, 13, 6, 1, 12, 0, 2, 11, 7, 5, 3],
  #[11, 8, 12, 0, 5, 2, 15, 13, 10, 14, 3, 6, 7, 1, 9, 4],
  #[7, 9, 3, 1, 13, 12, 11, 14, 2, 6, 5, 10, 4, 0, 15, 8],
  #[9, 0, 5, 7, 2, 4, 10, 15, 14, 1, 11, 12, 6, 8, 3, 13],
  #[2, 12, 6, 10, 0, 11, 8, 3, 4, 13, 7, 5, 15, 14, 1, 9],
  #[12, 5, 1, 15, 14, 13, 4, 10, 0, 7, 6, 3, 9, 2, 8, 11],
  #[13, 11, 7, 14, 12, 1, 3, 9, 5, 0, 15, 4, 8, 6, 2, 10],
  #[6, 15, 14, 9, 11, 3, 0, 8, 12, 2, 13, 7, 1, 4, 10, 5],
  #[10, 2, 8, 4, 7, 6, 1, 5, 15, 11, 9, 14, 3, 12, 13, 0]]

@[inline] def rotr64 (x : UInt64) (n : UInt64) : UInt64 := (x >>> n) ||| (x <<< (64 - n))

/-- §3.1 mixing function G -/
def gB (v : Array UInt64) (a b c d : Nat) (x y : UInt64) : Array UInt64 :=
  let v := v.set! a (v[a]! + v[b]! + x)
  let v := v.set! d (rotr64 (v[d]! ^^^ v[a]!) 32)
  let v := v.set! c (v[c]! + v[d]!)
  let v := v.set! b (rotr64 (v[b]! ^^^ v[c]!) 24)
  let v := v.set! a (v[a]! + v[b]! + y)
  let v := v.set! d (rotr64 (v[d]! ^^^ v[a]!) 16)
  let v := v.set! c (v[c]! + v[d]!)
  v.set! b (rotr64 (v[b]! ^^^ v[c]!) 63)

def leWord64 (b : List UInt8) (i : Nat) : UInt64 :=
  (List.range 8).foldl (fun acc k => acc ||| ((b.getD (i + k) 0).toUInt64 <<< (UInt64.ofNat (8 * k)))) 0

/-- §3.2 compression function F; `t` = bytes hashed so far (< 2^64 here), `last` = final block -/
def compressB (h : Array UInt64) (block : List UInt8) (t : Nat) (last : Bool) : Array UInt64 :=
  let m : Array UInt64 := ((List.range 16).map fun i => leWord64 block (8 * i)).toArray
  let v : Array UInt64 := h ++ Sha2.h512
  let v := v.set! 12 (v[12]! ^^^ UInt64.ofNat (t % 2 ^ 64))
  let v := v.set! 13 (v[13]! ^^^ UInt64.ofNat (t / 2 ^ 64))
  let v := if last then v.set! 14 (v[14]! ^^^ 0xffffffffffffffff) else v
  let v := (List.range 12).foldl (fun v r =>
    let s := sigmaB[r % 10]!
    let v := gB v 0 4 8 12 m[s[0]!]! m[s[1]!]!
    let v := gB v 1 5 9 13 m[s[2]!]! m[s[3]!]!
    let v := gB v 2 6 10 14 m[s[4]!]! m[s[5]!]!
    let v := gB v 3 7 11 15 m[s[6]!]! m[s[7]!]!
    let v := gB v 0 5 10 15 m[s[8]!]! m[s[9]!]!
    let v := gB v 1 6 11 12 m[s[10]!]! m[s[11]!]!
    let v := gB v 2 7 8 13 m[s[12]!]! m[s[13]!]!
    gB v 3 4 9 14 m[s[14]!]! m[s[15]!]!) v
  ((List.range 8).map fun i => h[i]! ^^^ v[i]! ^^^ v[i + 8]!).toArray

/-- §3.3 BLAKE2b with `outLen` ≤ 64 output bytes and no key (IV = the SHA-512 initial hash value) -/
def blake2b (outLen : Nat) (msg : List UInt8) : List UInt8 :=
  let h0 : Array UInt64 := Sha2.h512.set! 0 (Sha2.h512[0]! ^^^ UInt64.ofNat (0x01010000 + outLen))
  let nBlocks := if msg.length = 0 then 1 else (msg.length + 127) / 128
  let h := (List.range nBlocks).foldl (fun h i =>
    let blk := (msg.drop (128 * i)).take 128
    let last := i + 1 = nBlocks
    compressB h (blk ++ List.replicate (128 - blk.length) 0) (if last then msg.length else 128 * (i + 1)) last) h0
  ((List.range 8).flatMap fun i => (List.range 8).map fun k => (h[i]! >>> UInt64.ofNat (8 * k)).toUInt8).take outLen

/-- libsodium `crypto_box_seal` nonce: BLAKE2b-24(epk ‖ rpk) -/
def sealNonce (epk rpk : List UInt8) : List UInt8 := blake2b 24 (epk ++ rpk)

/-! ### tests -/

/-- TEST: "Cryptography in NaCl" §10 / libsodium `box` test (first 16 ciphertext bytes = tag), RFC 7693 App. A
    (BLAKE2b-512 "abc"), and the libsodium-produced vector of askar's `crypto_box_round_trip_expected` -/
def selfTest : Bool :=
  let x := X25519.ofHex
  let h := X25519.toHex
  let alicesk := x "77076d0a7318a57d3c16c17251b26645df4c2f87ebc0992ab177fba51db92c2a"
  let bobpk := x "de9edb7d7b7dc1b4d35b61c2ece435373f8343c85b78674dadfc7e146f882b4f"
  let k := boxKey alicesk bobpk
  h k == "1b27556473e985d462cd51197a9a46c76009549eac6474f206c4ee0844f68389" &&
  h (blake2b 64 "abc".toUTF8.toList) ==
    "ba80a53f981c4d0d6a2797b69f12f6e94c212f14685ac4b74b12bb6fdbffa2d17d87c5392aab792dc252d5de4533cc9518d38aa8dbf1925ab92386edd4009923" &&
  (let sk := x "a8bdb9830f8790d242f66e04b11cc2a14c752a7b63c073f3c68e9adb151cc854"
   let pk := x "07d0b594683bdb6af5f4eacb1a392687d580a58db196a752dca316dedb7d251c"
   let (ct, tag) := secretboxSeal (boxKey sk pk) "012345678912012345678912".toUTF8.toList "hello there".toUTF8.toList
   h (tag ++ ct) == "848dc97d373f7aa2223b57780c60f7731cc8721d567baa8f2b5583")

end Askar.Crypto.NaclBox
