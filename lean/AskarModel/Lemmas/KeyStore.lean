/- Helper lemmas for Props/C11.lean. -/
import AskarModel.Model.KeyStore
import AskarModel.Lemmas.Wql
import AskarModel.Lemmas.Store
import AskarModel.Lemmas.Refine

namespace Askar.KeyStore.Lemmas
open Askar.Wql Askar.Store Askar.KeyStore

/-! ### The `user:` prefix -/

theorem addUser_toList (k : String) : (addUser k).toList = 'u' :: 's' :: 'e' :: 'r' :: ':' :: k.toList := by
  simp [addUser]

theorem stripUser_addUser (k : String) : stripUser (addUser k) = some k := by
  simp [stripUser, addUser_toList]

theorem addUser_inj {a b : String} (h : addUser a = addUser b) : a = b := by
  have := congrArg stripUser h
  simpa [stripUser_addUser] using this

theorem stripUser_eq_some {n m : String} (h : stripUser n = some m) : n = addUser m := by
  unfold stripUser at h
  split at h
  · rename_i rest heq
    injection h with h; subst h
    apply String.toList_inj.mp
    rw [addUser_toList, heq]; simp
  · cases h

theorem alg_toList : "alg".toList = ['a', 'l', 'g'] := by decide
theorem thumb_toList : "thumb".toList = ['t', 'h', 'u', 'm', 'b'] := by decide

theorem stripUser_alg : stripUser "alg" = none := by simp [stripUser, alg_toList]
theorem stripUser_thumb : stripUser "thumb" = none := by simp [stripUser, thumb_toList]

theorem addUser_ne_alg (k : String) : addUser k ≠ "alg" := by
  intro h
  have := congrArg stripUser h
  rw [stripUser_addUser, stripUser_alg] at this; cases this

theorem addUser_ne_thumb (k : String) : addUser k ≠ "thumb" := by
  intro h
  have := congrArg stripUser h
  rw [stripUser_addUser, stripUser_thumb] at this; cases this

theorem alg_ne_thumb : ("alg" : String) ≠ "thumb" := by decide

theorem userTag_strip (t : Tag) : { userTag t with name := t.name } = t := by
  cases t; rfl

/-! ### `liftTags` on what the key API writes -/

theorem liftTags_user_append (us : List Tag) (rest : List Tag) :
    liftTags (us.map userTag ++ rest) =
      ((liftTags rest).1, (liftTags rest).2.1, us ++ (liftTags rest).2.2) := by
  induction us with
  | nil => simp
  | cons u us ih =>
    simp only [List.map_cons, List.cons_append, liftTags, ih]
    have : stripUser (userTag u).name = some u.name := by simp [userTag, stripUser_addUser]
    rw [this]
    simp only [List.cons_append]
    congr 3

theorem liftTags_thumb_append (ths : List String) (rest : List Tag) :
    liftTags (ths.map thumbTag ++ rest) =
      ((liftTags rest).1, ths ++ (liftTags rest).2.1, (liftTags rest).2.2) := by
  induction ths with
  | nil => simp
  | cons t ths ih =>
    simp only [List.map_cons, List.cons_append, liftTags, ih, thumbTag, stripUser_thumb]
    simp [alg_ne_thumb.symm]

def algOpt (a : String) : Option String := if a.isEmpty then none else some a

theorem liftTags_keyTags (a : String) (ths : List String) (us : List Tag) :
    liftTags (keyTags a ths us) = (algOpt a, ths, us) := by
  unfold keyTags algTags algOpt
  have h2 : liftTags (ths.map thumbTag ++ us.map userTag) = (none, ths, us) := by
    rw [liftTags_thumb_append]
    have := liftTags_user_append us []
    simp only [List.append_nil] at this
    simp [this, liftTags]
  split
  · simpa [List.append_assoc] using h2
  · simp only [List.cons_append, List.nil_append, List.append_assoc, liftTags, stripUser_alg, h2]
    simp

/-- system tags kept by `update_key` lift to the same algorithm and thumbprints, and no user tag -/
theorem liftTags_filter_system (ts : List Tag) :
    liftTags (ts.filter isSystemTag) = ((liftTags ts).1, (liftTags ts).2.1, []) := by
  induction ts with
  | nil => rfl
  | cons t ts ih =>
    cases h : stripUser t.name with
    | some n =>
      have : isSystemTag t = false := by simp [isSystemTag, h]
      simp [List.filter_cons, this, ih, liftTags, h]
    | none =>
      have : isSystemTag t = true := by simp [isSystemTag, h]
      simp only [List.filter_cons, this, if_true, liftTags, h, ih]
      split
      · rfl
      · split <;> rfl

/-! ### fetch after insert -/

theorem find_append_new (l : List Item) (row : Item) (P : Item → Bool)
    (hno : ∀ it ∈ l, P it = false) (hrow : P row = true) : (l ++ [row]).find? P = some row := by
  induction l with
  | nil => simp [hrow]
  | cons x l ih =>
    have hx := hno x (by simp)
    simp only [List.cons_append, List.find?_cons, hx]
    exact ih (fun it hit => hno it (by simp [hit]))

theorem doFetch_after_doInsert {db db' : Db} {now : Int} {s : Sess} {k : Kind} {c n : String} {v : Bytes} {t : Option (List Tag)}
    (h : doInsert db now s k c n v t none = .ok db') :
    doFetch db' now s k c n = some ⟨k, c, n, v, t.getD []⟩ := by
  rw [Askar.Store.Lemmas.doInsert_none] at h
  split at h
  · cases h
  · rename_i hany
    injection h with h; subst h
    simp only [doFetch]
    rw [find_append_new]
    · intro it hit
      have : it.sameIdent s.pid s.key k c n = false := by
        cases hh : it.sameIdent s.pid s.key k c n
        · rfl
        · exact absurd (List.any_eq_true.mpr ⟨it, hit, hh⟩) hany
      simp [this]
    · simp [Item.sameIdent, live]

theorem fromEntry_written (C : Cbor) (hC : C.Lawful) (name : String) (p : KeyParams) (a : String) (ths : List String) (us : List Tag) :
    fromEntry C ⟨kmsKind, cryptoKey, name, C.enc p, keyTags a ths us⟩
      = .ok ⟨name, p, algOpt a, sortStrs ths, sortTags us⟩ := by
  simp [fromEntry, hC p, liftTags_keyTags]

theorem fetch_key_after_insert {K : Type} (C : Cbor) (hC : C.Lawful) (O : KeyOps K) (db db' : Db) (now : Int) (s : Sess)
    (name : String) (k : K) («meta» : Option String) (ref : Option KeyRef) (tags : Option (List Tag))
    (h : insertKey C O db now s name k «meta» ref tags none = .ok db') :
    ∃ data ths, O.encode k = .ok data ∧ O.thumbs k = .ok ths ∧
      fetchKey C db' now s name =
        .ok (some ⟨name, ⟨«meta», ref, some data⟩, algOpt (O.alg k), sortStrs ths, sortTags (tags.getD [])⟩) := by
  unfold insertKey at h
  split at h
  · cases h
  · rename_i data hdata
    split at h
    · cases h
    · rename_i ths hths
      refine ⟨data, ths, hdata, hths, ?_⟩
      simp only [fetchKey, doFetch_after_doInsert h, Option.getD_some]
      rw [fromEntry_written C hC]

/-- the loaded key is the inserted key whenever `from_jwk_any` can dispatch its algorithm -/
theorem load_after_insert {K : Type} (sym : Bool) (O : KeyOps K) (hO : O.Lawful sym) (k : K) (data : Bytes)
    (hdata : O.encode k = .ok data) (himp : jwkImportable sym (O.alg k) = true)
    (name : String) («meta» : Option String) (ref : Option KeyRef) (href : ref ≠ some .mobileSecureElement)
    (alg : Option String) (ths : List String) (tags : List Tag) :
    loadLocalKey O ⟨name, ⟨«meta», ref, some data⟩, alg, ths, tags⟩ = .ok k := by
  unfold loadLocalKey
  simp only
  cases ref with
  | none => exact hO.decode_encode k data hdata himp
  | some r =>
    cases r with
    | mobileSecureElement => exact absurd rfl href
    | any s => exact hO.decode_encode k data hdata himp

/-! ### update -/

/-- the unique index `(profile_id, kind, category, name)` on the stored columns (`Inv.unique`) -/
def UniqueIdent (db : Db) : Prop :=
  db.items.Pairwise fun a b => ¬(a.pid = b.pid ∧ a.key = b.key ∧ a.kind = b.kind ∧ a.cat = b.cat ∧ a.name = b.name)

theorem find_map_replace_unique (l : List Item) (pid key : Nat) (k : Kind) (c n : String) (now : Int)
    (v : Bytes) (tg : List Tag) (it : Item)
    (hU : l.Pairwise fun a b => ¬(a.pid = b.pid ∧ a.key = b.key ∧ a.kind = b.kind ∧ a.cat = b.cat ∧ a.name = b.name))
    (hf : l.find? (fun x => x.sameIdent pid key k c n && live now x) = some it) :
    (l.map fun x => if x.sameIdent pid key k c n then { x with value := v, tags := tg, expiry := none } else x).find?
        (fun x => x.sameIdent pid key k c n && live now x)
      = some { it with value := v, tags := tg, expiry := none } := by
  induction l with
  | nil => simp at hf
  | cons x l ih =>
    simp only [List.pairwise_cons] at hU
    simp only [List.find?_cons] at hf
    simp only [List.map_cons, List.find?_cons]
    cases hs : x.sameIdent pid key k c n
    · simp only [hs, Bool.false_and, Bool.false_eq_true, if_false] at hf ⊢
      exact ih hU.2 hf
    · simp only [hs, Bool.true_and, if_true] at hf ⊢
      have hsame : ({ x with value := v, tags := tg, expiry := none } : Item).sameIdent pid key k c n = true := by
        simpa [Item.sameIdent] using hs
      have hlive : live now ({ x with value := v, tags := tg, expiry := none } : Item) = true := by simp [live]
      simp only [hsame, hlive, Bool.and_self]
      cases hl : live now x
      · -- x expired: the found row is further down and collides with x
        simp only [hl] at hf
        have hmem := List.mem_of_find?_eq_some hf
        have hp := List.find?_some hf
        simp only [Bool.and_eq_true] at hp
        have h1 := (Askar.Store.Lemmas.sameIdent_iff x pid key k c n).mp hs
        have h2 := (Askar.Store.Lemmas.sameIdent_iff it pid key k c n).mp hp.1
        exact absurd ⟨h1.1.trans h2.1.symm, h1.2.1.trans h2.2.1.symm, h1.2.2.1.trans h2.2.2.1.symm,
          h1.2.2.2.1.trans h2.2.2.2.1.symm, h1.2.2.2.2.trans h2.2.2.2.2.symm⟩ (hU.1 it hmem)
      · simp only [hl] at hf
        injection hf with hf; subst hf; rfl

theorem update_key_preserves (C : Cbor) (hC : C.Lawful) (db db' : Db) (now : Int) (s : Sess) (name : String)
    («meta» : Option String) (tags : Option (List Tag)) (e : KeyEntry)
    (hU : UniqueIdent db)
    (h0 : fetchKey C db now s name = .ok (some e))
    (h : updateKey C db now s name «meta» tags none = .ok db') :
    fetchKey C db' now s name =
      .ok (some { e with params := { e.params with «meta» := «meta» }, tags := sortTags (tags.getD []) }) := by
  unfold fetchKey at h0
  unfold updateKey at h
  cases hf : doFetch db now s kmsKind cryptoKey name with
  | none => simp [hf] at h0
  | some row =>
    simp only [hf] at h0 h
    cases hd : C.dec row.value with
    | none => simp [fromEntry, hd] at h0
    | some p =>
      simp only [hd] at h
      have he : e = ⟨row.name, p, (liftTags row.tags).1, sortStrs (liftTags row.tags).2.1, sortTags (liftTags row.tags).2.2⟩ := by
        simp [fromEntry, hd] at h0; exact h0.symm
      -- the row found
      simp only [doFetch] at hf
      cases hfind : db.items.find? (fun it => it.sameIdent s.pid s.key kmsKind cryptoKey name && live now it) with
      | none => simp [hfind] at hf
      | some it =>
        simp only [hfind] at hf
        injection hf with hf
        rw [Askar.Store.Lemmas.doReplace_none] at h
        split at h
        · injection h with h; subst h
          have hp := List.find?_some hfind
          simp only [Bool.and_eq_true] at hp
          have hid := (Askar.Store.Lemmas.sameIdent_iff it _ _ _ _ _).mp hp.1
          simp only [fetchKey, doFetch]
          rw [find_map_replace_unique db.items s.pid s.key kmsKind cryptoKey name now _ _ it hU hfind]
          have hl : C.dec (C.enc { p with «meta» := «meta» }) = some { p with «meta» := «meta» } := hC _
          simp only [fromEntry, Option.getD_some, liftTags_user_append, liftTags_filter_system, List.append_nil]
          subst hf
          simp [he, hid.2.2.2.2, hl]
        · cases h

/-! ### The filter handed to the backend by `fetch_all_keys`, against the reference semantics -/

/-- two tag names select, for every predicate on the value, the same thing in two tag lists -/
def NameRel (tags utags : List Tag) (a b : TagName) : Prop :=
  ∀ P : String → Bool, (tags.any fun t => t.named a && P t.value) = (utags.any fun t => t.named b && P t.value)

section Rename
variable (like : Bytes → Bytes → Bool) {N : Type} (tags utags : List Tag) (g h : N → TagName) (good : N → Bool)
  (hrel : ∀ n, good n = true → NameRel tags utags (g n) (h n))
include hrel

theorem holdsP_rename (q : Query N) : allNames good q = true →
    ∀ neg, holdsP like tags neg (q.mapNames g) = holdsP like utags neg (q.mapNames h) := by
  have lists : ∀ qs : List (Query N),
      (∀ q ∈ qs, allNames good q = true → ∀ neg, holdsP like tags neg (q.mapNames g) = holdsP like utags neg (q.mapNames h)) →
      allNamesList good qs = true → ∀ neg,
        holdsAll like tags neg (mapNamesList g qs) = holdsAll like utags neg (mapNamesList h qs) ∧
        holdsAny like tags neg (mapNamesList g qs) = holdsAny like utags neg (mapNamesList h qs) := by
    intro qs
    induction qs with
    | nil => intro _ _ neg; simp [mapNamesList, holdsAll, holdsAny]
    | cons q qs ih =>
      intro hq hall neg
      simp only [allNamesList, Bool.and_eq_true] at hall
      have h1 := hq q (by simp) hall.1 neg
      have h2 := ih (fun q' hq' => hq q' (by simp [hq'])) hall.2 neg
      simp only [mapNamesList, holdsAll, holdsAny, h1, h2.1, h2.2, and_self]
  induction q using Askar.Wql.Lemmas.Query.induct' with
  | and qs ih =>
    intro hall neg
    simp only [allNames] at hall
    have := lists qs ih hall
    simp only [Query.mapNames, holdsP]
    split
    · exact (this true).2
    · exact (this false).1
  | or qs ih =>
    intro hall neg
    simp only [allNames] at hall
    have := lists qs ih hall
    simp only [Query.mapNames, holdsP]
    split
    · exact (this true).1
    · exact (this false).2
  | not q ih =>
    intro hall neg
    simp only [allNames] at hall
    simp only [Query.mapNames, holdsP]
    exact ih hall _
  | cmp op n v =>
    intro hall neg
    simp only [allNames] at hall
    simp only [Query.mapNames, holdsP, atomCmp]
    rw [hrel n hall (fun x => cmpBytes like op (utf8 x) (utf8 v))]
  | isIn n vs =>
    intro hall neg
    simp only [allNames] at hall
    simp only [Query.mapNames, holdsP, atomIn]
    rw [hrel n hall (fun x => vs.contains x)]
  | exist ns =>
    intro hall neg
    simp only [allNames] at hall
    simp only [Query.mapNames, holdsP]
    induction ns with
    | nil => rfl
    | cons n ns ih =>
      simp only [List.all_cons, Bool.and_eq_true] at hall
      have := hrel n hall.1 (fun _ => true)
      simp only [Bool.and_true] at this
      simp only [List.map_cons, List.all_cons, atomExist, this]
      congr 1
      exact ih hall.2

end Rename

theorem mapNames_comp {N M L : Type} (g : N → M) (k : M → L) (q : Query N) :
    (q.mapNames g).mapNames k = q.mapNames (k ∘ g) := by
  have lists : ∀ qs : List (Query N), (∀ q ∈ qs, (q.mapNames g).mapNames k = q.mapNames (k ∘ g)) →
      mapNamesList k (mapNamesList g qs) = mapNamesList (k ∘ g) qs := by
    intro qs
    induction qs with
    | nil => intro _; rfl
    | cons q qs ih =>
      intro hq
      simp only [mapNamesList, hq q (by simp), ih (fun q' hq' => hq q' (by simp [hq']))]
  induction q using Askar.Wql.Lemmas.Query.induct' with
  | and qs ih => simp only [Query.mapNames, lists qs ih]
  | or qs ih => simp only [Query.mapNames, lists qs ih]
  | not q ih => simp only [Query.mapNames, ih]
  | cmp op n v => simp only [Query.mapNames, Function.comp]
  | isIn n vs => simp only [Query.mapNames, Function.comp]
  | exist ns => simp only [Query.mapNames, List.map_map]

/-- the tags stored under `user:<m>` are exactly the entry's user tags named `m`, kind by kind -/
theorem any_lift (tags : List Tag) (pl : Bool) (m : String) (P : String → Bool) :
    (tags.any fun t => (t.plain == pl && t.name == addUser m) && P t.value)
      = ((liftTags tags).2.2.any fun t => (t.plain == pl && t.name == m) && P t.value) := by
  induction tags with
  | nil => rfl
  | cons t ts ih =>
    simp only [List.any_cons, ih, liftTags]
    cases hs : stripUser t.name with
    | some n =>
      have hn := stripUser_eq_some hs
      have : (t.name == addUser m) = (n == m) := by
        rw [hn, Bool.eq_iff_iff]; simp only [beq_iff_eq]
        exact ⟨addUser_inj, fun h => h ▸ rfl⟩
      simp [this]
    | none =>
      have : (t.name == addUser m) = false := by
        rw [beq_eq_false_iff_ne]; intro h; rw [h, stripUser_addUser] at hs; cases hs
      simp only [this, Bool.and_false, Bool.false_and, Bool.false_or]
      split
      · rfl
      · split <;> rfl

/-- which filter names `fetch_all_keys` maps correctly -/
def goodName (fixed : Bool) (n : String) : Bool := fixed || encName n

theorem splitName_addUser (k : String) : splitName (addUser k) = .enc (addUser k) := by
  simp [splitName, addUser_toList]

/-- what the name mapping of `fetch_all_keys` followed by the `~` split does to a good name -/
theorem split_map (fixed : Bool) (n : String) (hg : goodName fixed n = true) :
    (∃ m, splitName (mapFilterName fixed n) = .enc (addUser m) ∧ splitName n = .enc m) ∨
    (∃ m, splitName (mapFilterName fixed n) = .plain (addUser m) ∧ splitName n = .plain m) := by
  cases hl : n.toList with
  | nil =>
    have h1 : splitName n = .enc n := by simp [splitName, hl]
    have h2 : mapFilterName fixed n = addUser n := by unfold mapFilterName; rw [hl]; simp
    exact .inl ⟨n, by rw [h2, splitName_addUser], h1⟩
  | cons c rest =>
    by_cases hc : c = '~'
    · subst hc
      have hfix : fixed = true := by
        cases fixed with
        | true => rfl
        | false => simp [goodName, encName, hl] at hg
      subst hfix
      have h1 : splitName n = .plain (String.ofList rest) := by simp [splitName, hl]
      have h0 : mapFilterName true n = String.ofList ('~' :: 'u' :: 's' :: 'e' :: 'r' :: ':' :: rest) := by
        unfold mapFilterName; rw [hl]; simp
      have h2 : splitName (String.ofList ('~' :: 'u' :: 's' :: 'e' :: 'r' :: ':' :: rest)) = .plain (addUser (String.ofList rest)) := by
        simp [splitName, addUser]
      exact .inr ⟨String.ofList rest, by rw [h0, h2], h1⟩
    · have h1 : splitName n = .enc n := by
        unfold splitName; rw [hl]; split
        · rename_i r heq; injection heq with heq _; exact absurd heq hc
        · rfl
      have h2 : mapFilterName fixed n = addUser n := by
        unfold mapFilterName; rw [hl]
        split
        · split
          · rename_i r heq; injection heq with heq _; exact absurd heq hc
          · rfl
        · rfl
      exact .inl ⟨n, by rw [h2, splitName_addUser], h1⟩

theorem nameRel_user (fixed : Bool) (tags : List Tag) (n : String) (hg : goodName fixed n = true) :
    NameRel tags (liftTags tags).2.2 (splitName (mapFilterName fixed n)) (splitName n) := by
  intro P
  rcases split_map fixed n hg with ⟨m, h1, h2⟩ | ⟨m, h1, h2⟩
  · rw [h1, h2]; exact any_lift tags false m P
  · rw [h1, h2]; exact any_lift tags true m P

theorem plain_preserved (fixed : Bool) (n : String) (hg : goodName fixed n = true) :
    (splitName (mapFilterName fixed n)).isPlain = (splitName n).isPlain := by
  rcases split_map fixed n hg with ⟨m, h1, h2⟩ | ⟨m, h1, h2⟩ <;> rw [h1, h2] <;> rfl

theorem allNames_true {N : Type} (p : N → Bool) (hp : ∀ n, p n = true) (q : Query N) : allNames p q = true := by
  induction q using Askar.Wql.Lemmas.Query.induct' with
  | and qs ih =>
    simp only [allNames]
    induction qs with
    | nil => rfl
    | cons q qs ih2 => simp only [allNamesList, ih q (by simp), ih2 (fun q' hq' => ih q' (by simp [hq'])), Bool.and_self]
  | or qs ih =>
    simp only [allNames]
    induction qs with
    | nil => rfl
    | cons q qs ih2 => simp only [allNamesList, ih q (by simp), ih2 (fun q' hq' => ih q' (by simp [hq'])), Bool.and_self]
  | not q ih => simpa only [allNames] using ih
  | cmp op n v => simp only [allNames, hp]
  | isIn n vs => simp only [allNames, hp]
  | exist ns => simp [allNames, hp]

theorem allNames_mono {N : Type} (p p' : N → Bool) (hp : ∀ n, p n = true → p' n = true) (q : Query N) :
    allNames p q = true → allNames p' q = true := by
  induction q using Askar.Wql.Lemmas.Query.induct' with
  | and qs ih =>
    simp only [allNames]
    induction qs with
    | nil => intro _; rfl
    | cons q qs ih2 =>
      simp only [allNamesList, Bool.and_eq_true]
      exact fun h => ⟨ih q (by simp) h.1, ih2 (fun q' hq' => ih q' (by simp [hq'])) h.2⟩
  | or qs ih =>
    simp only [allNames]
    induction qs with
    | nil => intro _; rfl
    | cons q qs ih2 =>
      simp only [allNamesList, Bool.and_eq_true]
      exact fun h => ⟨ih q (by simp) h.1, ih2 (fun q' hq' => ih q' (by simp [hq'])) h.2⟩
  | not q ih => simpa only [allNames] using ih
  | cmp op n v => simpa only [allNames] using hp n
  | isIn n vs => simpa only [allNames] using hp n
  | exist ns =>
    simp only [allNames, List.all_eq_true]
    exact fun h n hn => hp n (h n hn)

/-- renaming that keeps every name's kind keeps a filter inside the domain of C04 -/
theorem solid_rename {N : Type} (g h : N → TagName) (good : N → Bool)
    (hp : ∀ n, good n = true → (g n).isPlain = (h n).isPlain) (q : Query N) :
    allNames good q = true → (q.mapNames g).solid = (q.mapNames h).solid := by
  have lists : ∀ qs : List (Query N),
      (∀ q ∈ qs, allNames good q = true → (q.mapNames g).solid = (q.mapNames h).solid) →
      allNamesList good qs = true →
        solidList (mapNamesList g qs) = solidList (mapNamesList h qs) ∧
        (mapNamesList g qs).isEmpty = (mapNamesList h qs).isEmpty := by
    intro qs
    induction qs with
    | nil => intro _ _; exact ⟨rfl, rfl⟩
    | cons q qs ih =>
      intro hq hall
      simp only [allNamesList, Bool.and_eq_true] at hall
      have h1 := hq q (by simp) hall.1
      have h2 := ih (fun q' hq' => hq q' (by simp [hq'])) hall.2
      simp only [mapNamesList, solidList, h1, h2.1, List.isEmpty_cons, and_self]
  induction q using Askar.Wql.Lemmas.Query.induct' with
  | and qs ih =>
    intro hall
    simp only [allNames] at hall
    have := lists qs ih hall
    simp only [Query.mapNames, Query.solid, this.1, this.2]
  | or qs ih =>
    intro hall
    simp only [allNames] at hall
    have := lists qs ih hall
    simp only [Query.mapNames, Query.solid, this.1, this.2]
  | not q ih =>
    intro hall
    simp only [allNames] at hall
    simp only [Query.mapNames, Query.solid]
    exact ih hall
  | cmp op n v =>
    intro hall
    simp only [allNames] at hall
    simp only [Query.mapNames, Query.solid, hp n hall]
  | isIn n vs => intro _; rfl
  | exist ns => intro _; simp only [Query.mapNames, Query.solid, List.isEmpty_map]

theorem lift_alg_some (tags : List Tag) (x : String) (h : (liftTags tags).1 = some x) :
    ∃ t ∈ tags, t.name = "alg" ∧ t.value = x := by
  induction tags with
  | nil => simp [liftTags] at h
  | cons t ts ih =>
    simp only [liftTags] at h
    split at h
    · obtain ⟨t', ht', h'⟩ := ih h; exact ⟨t', by simp [ht'], h'⟩
    · split at h
      · rename_i hname
        simp only [beq_iff_eq] at hname
        cases hr : (liftTags ts).1 with
        | some y =>
          simp only [hr] at h
          obtain ⟨t', ht', h'⟩ := ih (by rw [hr]; exact h); exact ⟨t', by simp [ht'], h'⟩
        | none =>
          simp only [hr] at h
          injection h with h
          exact ⟨t, by simp, hname, h⟩
      · split at h
        · obtain ⟨t', ht', h'⟩ := ih h; exact ⟨t', by simp [ht'], h'⟩
        · obtain ⟨t', ht', h'⟩ := ih h; exact ⟨t', by simp [ht'], h'⟩

theorem alg_atom (tags : List Tag) (hw : SysTagsWF tags) (a : String) :
    (tags.any fun t => (t.plain == false && t.name == "alg") && (t.value == a)) = ((liftTags tags).1 == some a) := by
  induction tags with
  | nil => simp [liftTags]
  | cons t ts ih =>
    have hw' : SysTagsWF ts := ⟨fun x hx => hw.algEnc x (by simp [hx]), fun x hx => hw.thumbEnc x (by simp [hx]),
      fun x hx y hy => hw.oneAlg x (by simp [hx]) y (by simp [hy])⟩
    have ih := ih hw'
    simp only [List.any_cons, ih, liftTags]
    by_cases hn : t.name = "alg"
    · have hs : stripUser t.name = none := by rw [hn]; exact stripUser_alg
      have hp : t.plain = false := hw.algEnc t (by simp) hn
      simp only [hn, stripUser_alg, hp, beq_self_eq_true, Bool.and_self, Bool.true_and, if_true]
      cases hr : (liftTags ts).1 with
      | some x =>
        obtain ⟨t', ht', hn', hv'⟩ := lift_alg_some ts x hr
        have : t.value = x := by rw [← hv']; exact hw.oneAlg t (by simp) t' (by simp [ht']) hn hn'
        simp [this]
      | none => simp
    · have hb : (t.name == "alg") = false := by simpa using hn
      simp only [hb, Bool.and_false, Bool.false_and, Bool.false_or]
      split
      · rfl
      · simp only [Bool.false_eq_true, if_false]; split <;> rfl

theorem thumb_atom (tags : List Tag) (hw : SysTagsWF tags) (x : String) :
    (tags.any fun t => (t.plain == false && t.name == "thumb") && (t.value == x)) = (liftTags tags).2.1.contains x := by
  induction tags with
  | nil => simp [liftTags]
  | cons t ts ih =>
    have hw' : SysTagsWF ts := ⟨fun x hx => hw.algEnc x (by simp [hx]), fun x hx => hw.thumbEnc x (by simp [hx]),
      fun x hx y hy => hw.oneAlg x (by simp [hx]) y (by simp [hy])⟩
    have ih := ih hw'
    simp only [List.any_cons, ih, liftTags]
    by_cases hn : t.name = "thumb"
    · have hs : stripUser t.name = none := by rw [hn]; exact stripUser_thumb
      have hp : t.plain = false := hw.thumbEnc t (by simp) hn
      have hna : (("thumb" : String) == "alg") = false := by decide
      simp only [hn, stripUser_thumb, hp, hna, beq_self_eq_true, Bool.and_self, Bool.true_and, if_true, Bool.false_eq_true, if_false,
        List.contains_cons]
      rw [Bool.beq_comm]
    · have hb : (t.name == "thumb") = false := by simpa using hn
      simp only [hb, Bool.and_false, Bool.false_and, Bool.false_or]
      split
      · rfl
      · split
        · rfl
        · simp only [Bool.false_eq_true, if_false]

theorem holds_eq_atom (like : Bytes → Bytes → Bool) (tags : List Tag) (name a : String) (hn : splitName name = .enc name) :
    holds like tags (tagQuery (.cmp .eq name a))
      = tags.any fun t => (t.plain == false && t.name == name) && (t.value == a) := by
  simp only [tagQuery, Query.mapNames, hn, holds, holdsP, atomCmp, Tag.named, TagName.isPlain, TagName.str, cmpBytes,
    Askar.Wql.Lemmas.utf8_beq, Bool.false_bne]

theorem splitName_alg : splitName "alg" = .enc "alg" := by simp [splitName, alg_toList]
theorem splitName_thumb : splitName "thumb" = .enc "thumb" := by simp [splitName, thumb_toList]

/-- the meaning of the filter `fetch_all_keys` builds, on the stored tags of one well-formed row, in terms of what
    `from_entry` makes of that row -/
theorem keyFilter_holds (like : Bytes → Bytes → Bool) (fixed : Bool) (alg thumb : Option String) (f : Option (Query String))
    (tags : List Tag) (hw : SysTagsWF tags) (hgood : ∀ q, f = some q → allNames (goodName fixed) q = true) :
    (match keyFilter fixed alg thumb f with | none => true | some q => holds like tags (tagQuery q))
      = ((match alg with | some a => (liftTags tags).1 == some a | none => true) &&
         (match thumb with | some t => (liftTags tags).2.1.contains t | none => true) &&
         (match f with | some q => holds like (liftTags tags).2.2 (tagQuery q) | none => true)) := by
  have hA : ∀ a, holds like tags (tagQuery (.cmp .eq "alg" a)) = ((liftTags tags).1 == some a) := fun a => by
    rw [holds_eq_atom like tags "alg" a splitName_alg, alg_atom tags hw]
  have hT : ∀ t, holds like tags (tagQuery (.cmp .eq "thumb" t)) = (liftTags tags).2.1.contains t := fun t => by
    rw [holds_eq_atom like tags "thumb" t splitName_thumb, thumb_atom tags hw]
  have hF : ∀ q, f = some q → holds like tags (tagQuery (q.mapNames (mapFilterName fixed)))
      = holds like (liftTags tags).2.2 (tagQuery q) := fun q hq => by
    unfold tagQuery holds
    rw [mapNames_comp]
    exact holdsP_rename like tags (liftTags tags).2.2 (splitName ∘ mapFilterName fixed) splitName (goodName fixed)
      (fun n hn => nameRel_user fixed tags n hn) q (hgood q hq) false
  have hand1 : ∀ q, holds like tags (tagQuery (.and [q])) = holds like tags (tagQuery q) := fun q => by
    simp [tagQuery, Query.mapNames, mapNamesList, holds, holdsP, holdsAll]
  have hand2 : ∀ q r, holds like tags (tagQuery (.and [q, r])) = (holds like tags (tagQuery q) && holds like tags (tagQuery r)) := fun q r => by
    simp [tagQuery, Query.mapNames, mapNamesList, holds, holdsP, holdsAll]
  have hand3 : ∀ q r u, holds like tags (tagQuery (.and [q, r, u])) =
      (holds like tags (tagQuery q) && holds like tags (tagQuery r) && holds like tags (tagQuery u)) := fun q r u => by
    simp [tagQuery, Query.mapNames, mapNamesList, holds, holdsP, holdsAll, Bool.and_assoc]
  cases f with
  | none =>
    cases alg <;> cases thumb <;> simp [keyFilter, hand1, hand2, hA, hT]
  | some q =>
    have hq := hF q rfl
    cases alg <;> cases thumb <;> simp [keyFilter, hand1, hand2, hand3, hA, hT, hq]
    all_goals (first | rfl | ac_rfl | (simp only [Bool.and_comm, Bool.and_assoc, Bool.and_left_comm]))

/-! ### sorting does not change what a filter sees -/

theorem any_insertSorted {α} (le : α → α → Bool) (x : α) (l : List α) (P : α → Bool) :
    (insertSorted le x l).any P = (P x || l.any P) := by
  induction l with
  | nil => simp [insertSorted]
  | cons y ys ih =>
    simp only [insertSorted]
    split
    · simp
    · simp only [List.any_cons, ih]
      cases P x <;> cases P y <;> simp

theorem any_sortBy {α} (le : α → α → Bool) (l : List α) (P : α → Bool) : (sortBy le l).any P = l.any P := by
  induction l with
  | nil => rfl
  | cons x l ih =>
    have : sortBy le (x :: l) = insertSorted le x (sortBy le l) := rfl
    rw [this, any_insertSorted, ih, List.any_cons]

theorem holds_sortTags (like : Bytes → Bytes → Bool) (us : List Tag) (q : Query String) :
    holds like (sortTags us) (tagQuery q) = holds like us (tagQuery q) := by
  unfold holds tagQuery
  exact holdsP_rename like (sortTags us) us splitName splitName (fun _ => true)
    (fun n _ P => any_sortBy tagLe us _) q (allNames_true _ (fun _ => rfl) q) false

theorem contains_sortStrs (l : List String) (x : String) : (sortStrs l).contains x = l.contains x := by
  simp only [List.contains_eq_any_beq, sortStrs, any_sortBy]

/-! ### `fetch_all_keys` returns exactly the reference set -/

/-- what `from_entry` makes of a stored row whose value decodes -/
def entryOf (C : Cbor) (it : Item) : KeyEntry :=
  ⟨it.name, (C.dec it.value).getD default, (liftTags it.tags).1, sortStrs (liftTags it.tags).2.1, sortTags (liftTags it.tags).2.2⟩

theorem fromEntry_entryOf (C : Cbor) (it : Item) (h : ∃ p, C.dec it.value = some p) :
    fromEntry C (toEntry it) = .ok (entryOf C it) := by
  obtain ⟨p, hp⟩ := h
  simp [fromEntry, toEntry, entryOf, hp]

theorem fromEntries_ok (C : Cbor) (l : List Item) (h : ∀ it ∈ l, ∃ p, C.dec it.value = some p) :
    fromEntries C (l.map toEntry) = .ok (l.map (entryOf C)) := by
  induction l with
  | nil => rfl
  | cons x l ih =>
    simp only [List.map_cons, fromEntries, fromEntry_entryOf C x (h x (by simp)), ih (fun it hit => h it (by simp [hit]))]

theorem filterMap_eq_map_of {α β} (f : α → Option β) (g : α → β) (l : List α) (h : ∀ x ∈ l, f x = some (g x)) :
    l.filterMap f = l.map g := by
  induction l with
  | nil => rfl
  | cons x l ih =>
    simp only [List.filterMap_cons, h x (by simp), List.map_cons, ih (fun y hy => h y (by simp [hy]))]

/-- "the encoder of C04 is exact for this filter on these rows" (supplied by `Wql.encode_correct`) -/
def FilterExact (like : Bytes → Bytes → Bool) (F : Option (Query String)) (db : Db) : Prop :=
  ∀ it ∈ db.items, matchTags like F it.tags = (match F with | none => true | some q => holds like it.tags (tagQuery q))

theorem row_exact (like : Bytes → Bytes → Bool) (C : Cbor) (fixed : Bool) (alg thumb : Option String) (f : Option (Query String))
    (it : Item) (hw : SysTagsWF it.tags) (hgood : ∀ q, f = some q → allNames (goodName fixed) q = true)
    (hx : matchTags like (keyFilter fixed alg thumb f) it.tags =
      (match keyFilter fixed alg thumb f with | none => true | some q => holds like it.tags (tagQuery q))) :
    matchFilter like (keyFilter fixed alg thumb f) it = refMatch like alg thumb f (entryOf C it) := by
  unfold matchFilter
  rw [hx, keyFilter_holds like fixed alg thumb f it.tags hw hgood]
  unfold refMatch entryOf
  simp only
  congr 1
  · congr 1
    cases thumb with
    | none => rfl
    | some t => simp only [contains_sortStrs]
  · cases f with
    | none => rfl
    | some q => simp only [holds_sortTags]

theorem fetch_all_keys_exact_gen (like : Bytes → Bytes → Bool) (C : Cbor) (fixed : Bool) (db : Db) (now : Int) (s : Sess)
    (alg thumb : Option String) (f : Option (Query String)) (lim : Option Int)
    (hS : Sorted db) (hW : KeysWF C s db)
    (hgood : ∀ q, f = some q → allNames (goodName fixed) q = true)
    (hX : FilterExact like (keyFilter fixed alg thumb f) db) :
    fetchAllKeys C like fixed db now s alg thumb f lim
      = .ok (window none lim ((keyEntries C db now s).filter (refMatch like alg thumb f))) := by
  let Q : Item → Bool := fun it => it.inScope s.pid s.key (some kmsKind) (some cryptoKey) && live now it
  have hQ : ∀ it ∈ db.items, Q it = true → SysTagsWF it.tags ∧ ∃ p, C.dec it.value = some p := by
    intro it hit hq
    simp only [Q, Item.inScope, Bool.and_eq_true, beq_iff_eq] at hq
    exact hW it hit hq.1.1.1 hq.1.1.2 hq.1.2.2
  -- the reference list
  have hkeys : keyEntries C db now s = (db.items.filter Q).map (entryOf C) := by
    unfold keyEntries
    apply filterMap_eq_map_of
    intro it hit
    simp only [List.mem_filter] at hit
    rw [fromEntry_entryOf C it (hQ it hit.1 hit.2).2]
  -- the rows selected
  have hsel : selectRows like db now s.pid s.key (some kmsKind) (some cryptoKey) (keyFilter fixed alg thumb f) none lim false
      = window none lim ((db.items.filter Q).filter fun it => refMatch like alg thumb f (entryOf C it)) := by
    unfold selectRows
    simp only [Bool.false_eq_true, if_false]
    rw [sortById_of_sorted _ (sorted_filter _ _ hS)]
    congr 1
    rw [List.filter_filter]
    apply List.filter_congr
    intro it hit
    cases hq : Q it with
    | false =>
      simp only [Q] at hq
      simp [hq]
    | true =>
      have hq' := hq
      simp only [Q] at hq'
      rw [hq']
      simp only [Bool.true_and, Bool.and_true]
      exact row_exact like C fixed alg thumb f it (hQ it hit hq).1 hgood (hX it hit)
  unfold fetchAllKeys doFetchAll
  rw [hsel]
  have hkey : ∀ it ∈ window none lim ((db.items.filter Q).filter fun it => refMatch like alg thumb f (entryOf C it)), it.key = s.key := by
    intro it hit
    have := Askar.Store.Lemmas.mem_of_mem_window _ _ _ _ hit
    simp only [List.mem_filter, Q, Item.inScope, Bool.and_eq_true, beq_iff_eq] at this
    exact this.1.2.1.2.1
  rw [Askar.Store.Lemmas.decryptRows_ok _ _ hkey]
  simp only
  rw [fromEntries_ok C _ (by
    intro it hit
    have := Askar.Store.Lemmas.mem_of_mem_window _ _ _ _ hit
    simp only [List.mem_filter] at this
    exact (hQ it this.1.1 this.1.2).2)]
  rw [hkeys, ← Askar.Store.Lemmas.window_map, List.filter_map]
  rfl

/-! ### Bridge to C04 (`Wql.encode_correct`) -/

theorem filterExact_of_c04 (like : Bytes → Bytes → Bool) (F : Option (Query String)) (db : Db)
    (hD : ∀ q, F = some q → (tagQuery q).InDomain)
    (hP : ∀ q, F = some q → ∀ it ∈ db.items, TagCrypto.toy.NoPrefixCollision ((tagQuery q).values ++ it.tags.map (·.value))) :
    FilterExact like F db := by
  intro it hit
  cases F with
  | none => rfl
  | some q =>
    simp only [matchTags]
    exact Askar.Wql.Lemmas.encode_correct like TagCrypto.toy Askar.Wql.Lemmas.toy_inj (tagQuery q) (hD q rfl) it.tags (hP q rfl it hit)

theorem solid_eq_atom (name a : String) (hn : splitName name = .enc name) : (tagQuery (.cmp .eq name a)).solid = true := by
  simp [tagQuery, Query.mapNames, hn, Query.solid, CmpOp.equality]

def keyParts (fixed : Bool) (alg thumb : Option String) (f : Option (Query String)) : List (Query String) :=
  (match f with | some q => [q.mapNames (mapFilterName fixed)] | none => []) ++
  (match alg with | some a => [Query.cmp .eq "alg" a] | none => []) ++
  (match thumb with | some t => [Query.cmp .eq "thumb" t] | none => [])

theorem keyFilter_eq (fixed : Bool) (alg thumb : Option String) (f : Option (Query String)) :
    keyFilter fixed alg thumb f =
      if (keyParts fixed alg thumb f).isEmpty then none else some (.and (keyParts fixed alg thumb f)) := rfl

theorem inDomain_and (qs : List (Query String)) (hne : qs ≠ []) (h : ∀ q ∈ qs, (tagQuery q).solid = true) :
    (tagQuery (.and qs)).InDomain := by
  have hl : solidList (mapNamesList splitName qs) = true := by
    induction qs with
    | nil => rfl
    | cons q qs ih =>
      simp only [mapNamesList, solidList, Bool.and_eq_true]
      refine ⟨h q (by simp), ?_⟩
      cases qs with
      | nil => rfl
      | cons q' qs' => exact ih (by simp) (fun x hx => h x (by simp [hx]))
  cases qs with
  | nil => exact absurd rfl hne
  | cons q qs =>
    simp only [mapNamesList] at hl
    simp [Query.InDomain, tagQuery, Query.mapNames, mapNamesList, Query.inDomain, Query.solid, hl]

/-- the combined filter is in C04's domain when the caller's filter is (non-root form) and its names are good -/
theorem keyFilter_inDomain (fixed : Bool) (alg thumb : Option String) (f : Option (Query String))
    (hf : ∀ q, f = some q → (tagQuery q).solid = true ∧ allNames (goodName fixed) q = true) :
    ∀ Q, keyFilter fixed alg thumb f = some Q → (tagQuery Q).InDomain := by
  have hA : ∀ a, (tagQuery (.cmp .eq "alg" a)).solid = true := fun a => solid_eq_atom "alg" a splitName_alg
  have hT : ∀ t, (tagQuery (.cmp .eq "thumb" t)).solid = true := fun t => solid_eq_atom "thumb" t splitName_thumb
  have hF : ∀ q, f = some q → (tagQuery (q.mapNames (mapFilterName fixed))).solid = true := fun q hq => by
    unfold tagQuery
    rw [mapNames_comp, solid_rename (splitName ∘ mapFilterName fixed) splitName (goodName fixed)
      (fun n hn => plain_preserved fixed n hn) q (hf q hq).2]
    exact (hf q hq).1
  intro Q hQ
  rw [keyFilter_eq] at hQ
  by_cases he : (keyParts fixed alg thumb f).isEmpty = true
  · simp [he] at hQ
  · simp only [he, Bool.false_eq_true, if_false] at hQ
    injection hQ with hQ; subst hQ
    apply inDomain_and
    · intro h; rw [h] at he; exact he rfl
    · intro q hq
      simp only [keyParts, List.mem_append] at hq
      rcases hq with (hq | hq) | hq
      · cases f with
        | none => cases hq
        | some q' => simp only [List.mem_singleton] at hq; subst hq; exact hF q' rfl
      · cases alg with
        | none => cases hq
        | some a => simp only [List.mem_singleton] at hq; subst hq; exact hA a
      · cases thumb with
        | none => cases hq
        | some t => simp only [List.mem_singleton] at hq; subst hq; exact hT t

/-- The statement of the property for `fetch_all_keys`, for a given name mapping (`fixed`):
    on every reachable store (sorted ids, key rows written by the key API), for every filter of C04's domain
    (non-root form) and under C04's idealisation, the call returns exactly the first `lim` of the keys
    whose algorithm, thumbprints and USER tags match by the reference semantics. -/
def FetchAllKeysExact (fixed : Bool) : Prop :=
  ∀ (like : Bytes → Bytes → Bool) (C : Cbor) (db : Db) (now : Int) (s : Sess)
    (alg thumb : Option String) (f : Option (Query String)) (lim : Option Int),
    Sorted db → KeysWF C s db →
    (∀ q, f = some q → (tagQuery q).solid = true) →
    (∀ Q, keyFilter fixed alg thumb f = some Q → ∀ it ∈ db.items,
        TagCrypto.toy.NoPrefixCollision ((tagQuery Q).values ++ it.tags.map (·.value))) →
    fetchAllKeys C like fixed db now s alg thumb f lim
      = .ok (window none lim ((keyEntries C db now s).filter (refMatch like alg thumb f)))

/-- exactness for every filter whose names are good for the mapping in force -/
theorem fetch_all_keys_exact_good (fixed : Bool) (like : Bytes → Bytes → Bool) (C : Cbor) (db : Db) (now : Int) (s : Sess)
    (alg thumb : Option String) (f : Option (Query String)) (lim : Option Int)
    (hS : Sorted db) (hW : KeysWF C s db)
    (hf : ∀ q, f = some q → (tagQuery q).solid = true ∧ allNames (goodName fixed) q = true)
    (hP : ∀ Q, keyFilter fixed alg thumb f = some Q → ∀ it ∈ db.items,
        TagCrypto.toy.NoPrefixCollision ((tagQuery Q).values ++ it.tags.map (·.value))) :
    fetchAllKeys C like fixed db now s alg thumb f lim
      = .ok (window none lim ((keyEntries C db now s).filter (refMatch like alg thumb f))) :=
  fetch_all_keys_exact_gen like C fixed db now s alg thumb f lim hS hW (fun q hq => (hf q hq).2)
    (filterExact_of_c04 like _ db (keyFilter_inDomain fixed alg thumb f hf) hP)

theorem fetch_all_keys_exact_fixed : FetchAllKeysExact true := by
  intro like C db now s alg thumb f lim hS hW hf hP
  exact fetch_all_keys_exact_good true like C db now s alg thumb f lim hS hW
    (fun q hq => ⟨hf q hq, allNames_true _ (fun _ => rfl) q⟩) hP

/-! #### the witness against the current name mapping (defect D6) -/

def wC : Cbor := ⟨fun _ => [], fun _ => some ⟨none, none, none⟩⟩
def wRow : Item :=
  { id := 1, pid := 1, key := 0, kind := kmsKind, cat := cryptoKey, name := "k", value := [],
    tags := [userTag ⟨true, "t", "v"⟩], expiry := none }
def wDb : Db := { items := [wRow] }
def wS : Sess := ⟨1, 0⟩
def wF : Query String := .cmp .eq "~t" "v"

theorem tilde_t_toList : "~t".toList = ['~', 't'] := by decide
theorem ofList_t : String.ofList ['t'] = "t" := by decide

theorem w_wf : KeysWF wC wS wDb := by
  intro it hit _ _ _
  simp only [wDb, List.mem_singleton] at hit
  subst hit
  refine ⟨⟨?_, ?_, ?_⟩, ⟨_, rfl⟩⟩
  · intro t ht hn; simp only [wRow, List.mem_singleton] at ht; subst ht; exact absurd hn (addUser_ne_alg _)
  · intro t ht hn; simp only [wRow, List.mem_singleton] at ht; subst ht; exact absurd hn (addUser_ne_thumb _)
  · intro t1 h1 t2 h2 _ _
    simp only [wRow, List.mem_singleton] at h1 h2; rw [h1, h2]

theorem w_lhs (like : Bytes → Bytes → Bool) : fetchAllKeys wC like false wDb 0 wS none none (some wF) none = .ok [] := by
  have hQ : keyFilter false none none (some wF) = some (.and [.cmp .eq (addUser "~t") "v"]) := by
    simp [keyFilter, wF, Query.mapNames, mapFilterName]
  have hX : FilterExact like (keyFilter false none none (some wF)) wDb := by
    apply filterExact_of_c04
    · intro q hq
      rw [hQ] at hq; injection hq with hq; subst hq
      simp [Query.InDomain, tagQuery, Query.mapNames, mapNamesList, splitName_addUser, Query.inDomain, Query.solid, solidList,
        CmpOp.equality]
    · intro q hq it hit a ha b hb _
      rw [hQ] at hq; injection hq with hq; subst hq
      simp only [wDb, List.mem_singleton] at hit; subst hit
      simp [tagQuery, Query.mapNames, mapNamesList, Query.values, valuesList, wRow, userTag] at ha hb
      rw [ha, hb]
  have hm : matchFilter like (keyFilter false none none (some wF)) wRow = false := by
    unfold matchFilter
    rw [hX wRow (by simp [wDb]), hQ]
    have : holds like wRow.tags (tagQuery (.and [.cmp .eq (addUser "~t") "v"]))
        = holds like wRow.tags (tagQuery (.cmp .eq (addUser "~t") "v")) := by
      simp [tagQuery, Query.mapNames, mapNamesList, holds, holdsP, holdsAll]
    simp only [this]
    rw [holds_eq_atom like _ _ _ (splitName_addUser _)]
    simp [wRow, userTag]
  simp [fetchAllKeys, doFetchAll, selectRows, wDb, hm, window, sortById, decryptRows, fromEntries]

theorem w_rhs (like : Bytes → Bytes → Bool) :
    (keyEntries wC wDb 0 wS).filter (refMatch like none none (some wF)) ≠ [] := by
  have hl : liftTags wRow.tags = (none, [], [⟨true, "t", "v"⟩]) := by
    have := liftTags_user_append [⟨true, "t", "v"⟩] []
    simpa [wRow, liftTags] using this
  have hk : keyEntries wC wDb 0 wS = [entryOf wC wRow] := by
    simp [keyEntries, wDb, wRow, wS, Item.inScope, live, fromEntry, toEntry, entryOf, wC]
  have hs : splitName "~t" = .plain "t" := by simp [splitName, tilde_t_toList, ofList_t]
  have hm : refMatch like none none (some wF) (entryOf wC wRow) = true := by
    simp only [refMatch, entryOf, hl, wF, Bool.true_and]
    simp [sortTags, sortBy, insertSorted, tagQuery, Query.mapNames, hs, holds, holdsP, atomCmp, Tag.named, TagName.isPlain,
      TagName.str, cmpBytes]
  rw [hk]
  simp [hm]

theorem fetch_all_keys_exact_false : ¬ FetchAllKeysExact false := by
  intro h
  have := h (fun _ _ => false) wC wDb 0 wS none none (some wF) none
    (by simp [Sorted, wDb]) w_wf
    (by intro q hq; injection hq with hq; subst hq
        simp [wF, tagQuery, Query.mapNames, Query.solid, CmpOp.equality])
    (by
      intro Q hQ it hit a ha b hb _
      have hQ' : keyFilter false none none (some wF) = some (.and [.cmp .eq (addUser "~t") "v"]) := by
        simp [keyFilter, wF, Query.mapNames, mapFilterName]
      rw [hQ'] at hQ; injection hQ with hQ; subst hQ
      simp only [wDb, List.mem_singleton] at hit; subst hit
      simp [tagQuery, Query.mapNames, mapNamesList, Query.values, valuesList, wRow, userTag] at ha hb
      rw [ha, hb])
  rw [w_lhs] at this
  injection this with this
  have hne := w_rhs (fun _ _ => false)
  simp only [window] at this
  exact hne this.symm

theorem fetch_all_keys_exact_iff_fix (fixed : Bool) : FetchAllKeysExact fixed ↔ fixed = true := by
  cases fixed with
  | true => exact ⟨fun _ => rfl, fun _ => fetch_all_keys_exact_fixed⟩
  | false => exact ⟨fun h => absurd h fetch_all_keys_exact_false, fun h => by cases h⟩

/-! ### Invariants along call sequences -/

theorem sysTagsWF_keyTags (a : String) (ths : List String) (us : List Tag) : SysTagsWF (keyTags a ths us) := by
  have hmem : ∀ t ∈ keyTags a ths us, (t = ⟨false, "alg", a⟩) ∨ (∃ x, t = thumbTag x) ∨ (∃ u, t = userTag u) := by
    intro t ht
    simp only [keyTags, algTags, List.mem_append, List.mem_map] at ht
    rcases ht with (ht | ⟨x, _, hx⟩) | ⟨u, _, hu⟩
    · split at ht
      · cases ht
      · simp only [List.mem_singleton] at ht; exact .inl ht
    · exact .inr (.inl ⟨x, hx.symm⟩)
    · exact .inr (.inr ⟨u, hu.symm⟩)
  refine ⟨?_, ?_, ?_⟩
  · intro t ht hn
    rcases hmem t ht with h | ⟨x, h⟩ | ⟨u, h⟩
    · rw [h]
    · rw [h]; rfl
    · rw [h] at hn; exact absurd hn (addUser_ne_alg _)
  · intro t ht hn
    rcases hmem t ht with h | ⟨x, h⟩ | ⟨u, h⟩
    · rw [h]
    · rw [h]; rfl
    · rw [h] at hn; exact absurd hn (addUser_ne_thumb _)
  · intro t1 h1 t2 h2 n1 n2
    have key : ∀ t ∈ keyTags a ths us, t.name = "alg" → t.value = a := by
      intro t ht hn
      rcases hmem t ht with h | ⟨x, h⟩ | ⟨u, h⟩
      · rw [h]
      · rw [h] at hn; exact absurd hn.symm alg_ne_thumb
      · rw [h] at hn; exact absurd hn (addUser_ne_alg _)
    rw [key t1 h1 n1, key t2 h2 n2]

theorem sysTagsWF_update (us : List Tag) (ts : List Tag) (hw : SysTagsWF ts) :
    SysTagsWF (us.map userTag ++ ts.filter isSystemTag) := by
  have hmem : ∀ t ∈ us.map userTag ++ ts.filter isSystemTag, (∃ u, t = userTag u) ∨ t ∈ ts := by
    intro t ht
    simp only [List.mem_append, List.mem_map, List.mem_filter] at ht
    rcases ht with ⟨u, _, hu⟩ | ht
    · exact .inl ⟨u, hu.symm⟩
    · exact .inr ht.1
  refine ⟨?_, ?_, ?_⟩
  · intro t ht hn
    rcases hmem t ht with ⟨u, h⟩ | h
    · rw [h] at hn; exact absurd hn (addUser_ne_alg _)
    · exact hw.algEnc t h hn
  · intro t ht hn
    rcases hmem t ht with ⟨u, h⟩ | h
    · rw [h] at hn; exact absurd hn (addUser_ne_thumb _)
    · exact hw.thumbEnc t h hn
  · intro t1 h1 t2 h2 n1 n2
    rcases hmem t1 h1 with ⟨u, h⟩ | h1'
    · rw [h] at n1; exact absurd n1 (addUser_ne_alg _)
    · rcases hmem t2 h2 with ⟨u, h⟩ | h2'
      · rw [h] at n2; exact absurd n2 (addUser_ne_alg _)
      · exact hw.oneAlg t1 h1' t2 h2' n1 n2

theorem doInsert_ok_row {db : Db} {now : Int} {s : Sess} {k : Kind} {c n : String} {v : Bytes} {t : Option (List Tag)} {e : Option Int} {db' : Db}
    (h : doInsert db now s k c n v t e = .ok db') :
    db.items.any (·.sameIdent s.pid s.key k c n) = false ∧
    ∃ exp, db' = { db with items := db.items ++
      [({ id := nextId (db.items.map (·.id)), pid := s.pid, key := s.key, kind := k, cat := c, name := n,
          value := v, tags := t.getD [], expiry := exp } : Item)] } := by
  simp only [doInsert] at h
  split at h
  · cases h
  · split at h
    · cases h
    · rename_i hany
      injection h with h
      exact ⟨by simpa using hany, _, h.symm⟩

/-- what reachable stores satisfy, as far as the key API is concerned -/
structure KeyInv (C : Cbor) (s : Sess) (db : Db) : Prop where
  sorted : Sorted db
  unique : UniqueIdent db
  wf : KeysWF C s db

theorem keyInv_insert (C : Cbor) (hC : C.Lawful) (s : Sess) {db db' : Db} {now : Int} {k : Kind} {c n : String} {v : Bytes}
    {t : Option (List Tag)} {e : Option Int}
    (hI : KeyInv C s db) (h : doInsert db now s k c n v t e = .ok db')
    (hrow : k = kmsKind → c = cryptoKey → SysTagsWF (t.getD []) ∧ ∃ p, C.dec v = some p) : KeyInv C s db' := by
  obtain ⟨hany, exp, hdb⟩ := doInsert_ok_row h
  have hS : Sorted db' := by
    have := step_sorted (fun _ _ => false) 1 now s db (.insert k c n v t e) hI.sorted
    simpa only [step, h] using this
  subst hdb
  refine ⟨hS, ?_, ?_⟩
  · unfold UniqueIdent
    refine List.pairwise_append.mpr ⟨hI.unique, List.pairwise_singleton _ _, ?_⟩
    intro a ha b hb
    simp only [List.mem_singleton] at hb; subst hb
    intro hh
    have : a.sameIdent s.pid s.key k c n = true := by
      rw [Askar.Store.Lemmas.sameIdent_iff]; exact hh
    rw [List.any_eq_false] at hany
    exact hany a ha this
  · intro it hit hp hk hc
    simp only [List.mem_append, List.mem_singleton] at hit
    rcases hit with hit | hit
    · exact hI.wf it hit hp hk hc
    · subst hit; exact hrow hk hc

theorem keyInv_remove (C : Cbor) (s : Sess) {db db' : Db} {k : Kind} {c n : String}
    (hI : KeyInv C s db) (h : doRemove db s k c n = .ok db') : KeyInv C s db' := by
  have hitems := (doRemove_ok h).1
  refine ⟨?_, ?_, ?_⟩
  · unfold Sorted; rw [hitems]; exact sorted_filter _ _ hI.sorted
  · unfold UniqueIdent; rw [hitems]; exact hI.unique.sublist List.filter_sublist
  · intro it hit; rw [hitems] at hit; exact hI.wf it (List.mem_filter.mp hit).1

theorem keyInv_replace (C : Cbor) (s : Sess) {db db' : Db} {now : Int} {k : Kind} {c n : String} {v : Bytes}
    {t : Option (List Tag)} {e : Option Int}
    (hI : KeyInv C s db) (h : doReplace db now s k c n v t e = .ok db')
    (hrow : k = kmsKind → c = cryptoKey → SysTagsWF (t.getD []) ∧ ∃ p, C.dec v = some p) : KeyInv C s db' := by
  obtain ⟨exp, hdb⟩ := Askar.Store.Lemmas.doReplace_ok' h
  have hids := doReplace_ok h
  refine ⟨?_, ?_, ?_⟩
  · unfold Sorted; rw [hids.1]; exact hI.sorted
  · subst hdb
    unfold UniqueIdent
    simp only [List.pairwise_map]
    refine hI.unique.imp ?_
    intro a b hab
    split <;> split <;> exact hab
  · subst hdb
    intro it hit hp hk hc
    simp only [List.mem_map] at hit
    obtain ⟨x, hx, hit⟩ := hit
    split at hit
    · rename_i hs
      have hid := (Askar.Store.Lemmas.sameIdent_iff x _ _ _ _ _).mp hs
      subst hit
      exact hrow (hid.2.2.1.symm.trans hk) (hid.2.2.2.1.symm.trans hc)
    · subst hit; exact hI.wf x hx hp hk hc

theorem keyInv_stepKey {K : Type} (C : Cbor) (hC : C.Lawful) (O : KeyOps K) (like : Bytes → Bytes → Bool) (fixed : Bool)
    (now : Int) (s : Sess) (db : Db) (op : KeyOp K) (hI : KeyInv C s db) :
    KeyInv C s (stepKey C O like fixed now s db op).1 := by
  cases op with
  | insertKey n k m r t e =>
    simp only [stepKey]
    split
    · rename_i db' h
      unfold insertKey at h
      split at h
      · cases h
      · split at h
        · cases h
        · exact keyInv_insert C hC s hI h (fun _ _ => ⟨sysTagsWF_keyTags _ _ _, ⟨_, hC _⟩⟩)
    · exact hI
  | updateKey n m t e =>
    simp only [stepKey]
    split
    · rename_i db' h
      unfold updateKey at h
      split at h
      · cases h
      · rename_i row hrow
        split at h
        · cases h
        · -- the fetched row is a well-formed key row
          simp only [doFetch] at hrow
          split at hrow
          · cases hrow
          · rename_i it hfind
            injection hrow with hrow
            have hp := List.find?_some hfind
            simp only [Bool.and_eq_true] at hp
            have hid := (Askar.Store.Lemmas.sameIdent_iff it _ _ _ _ _).mp hp.1
            have hw := (hI.wf it (List.mem_of_find?_eq_some hfind) hid.1 hid.2.2.1 hid.2.2.2.1).1
            refine keyInv_replace C s hI h (fun _ _ => ⟨?_, ⟨_, hC _⟩⟩)
            subst hrow
            exact sysTagsWF_update _ _ hw
    · exact hI
  | removeKey n =>
    simp only [stepKey]
    split
    · rename_i db' h; exact keyInv_remove C s hI h
    · exact hI
  | fetchKey n => simp only [stepKey]; split <;> exact hI
  | fetchAllKeys a t f lim => simp only [stepKey]; split <;> exact hI

/-- induction over call sequences: every store reached through the key API satisfies the invariant -/
theorem keyInv_runKeys {K : Type} (C : Cbor) (hC : C.Lawful) (O : KeyOps K) (like : Bytes → Bytes → Bool) (fixed : Bool)
    (now : Int) (s : Sess) (ops : List (KeyOp K)) (db : Db) (hI : KeyInv C s db) :
    KeyInv C s (runKeys C O like fixed now s db ops).1 := by
  induction ops generalizing db with
  | nil => exact hI
  | cons op ops ih => simp only [runKeys]; exact ih _ (keyInv_stepKey C hC O like fixed now s db op hI)

theorem keyInv_empty (C : Cbor) (s : Sess) (profiles : List Profile) : KeyInv C s { items := [], profiles := profiles } :=
  ⟨by simp [Sorted], by simp [UniqueIdent], by intro it hit; cases hit⟩

/-! ### D15: a symmetric key never loads back while `from_jwk_any` has no `oct` branch -/

theorem no_symmetric_load {K : Type} (O : KeyOps K) (hO : O.Lawful false) (k : K) (hsym : isSymmetric (O.alg k) = true)
    (e : KeyEntry) (href : e.params.ref ≠ some .mobileSecureElement) : loadLocalKey O e ≠ .ok k := by
  intro h
  unfold loadLocalKey at h
  split at h
  · cases h
  · split at h
    · rename_i hr; exact href hr
    · have := hO.no_oct rfl _ _ h
      rw [hsym] at this; cases this

/-! ### Instances satisfying the hypotheses (non-vacuity) -/

namespace Toy

def encNat (n : Nat) : Bytes := List.replicate n 1 ++ [0]

def decNat : Bytes → Option (Nat × Bytes)
  | [] => none
  | b :: r => if b = 0 then some (0, r) else if b = 1 then (decNat r).map fun (n, r') => (n + 1, r') else none

theorem decNat_encNat (n : Nat) (r : Bytes) : decNat (encNat n ++ r) = some (n, r) := by
  induction n with
  | zero => simp [encNat, decNat]
  | succ n ih =>
    have : encNat (n + 1) ++ r = 1 :: (encNat n ++ r) := by simp [encNat, List.replicate_succ]
    rw [this, decNat]; simp [ih]

def encBytes (b : Bytes) : Bytes := encNat b.length ++ b

def decBytes (x : Bytes) : Option (Bytes × Bytes) :=
  match decNat x with
  | none => none
  | some (n, r) => if n ≤ r.length then some (r.take n, r.drop n) else none

theorem decBytes_encBytes (b r : Bytes) : decBytes (encBytes b ++ r) = some (b, r) := by
  simp [decBytes, encBytes, List.append_assoc, decNat_encNat]

def encStr (s : String) : Bytes := encBytes (utf8 s)

open Classical in
noncomputable def decStr (x : Bytes) : Option (String × Bytes) :=
  match decBytes x with
  | none => none
  | some (b, r) => if h : ∃ s, utf8 s = b then some (choose h, r) else none

theorem decStr_encStr (s : String) (r : Bytes) : decStr (encStr s ++ r) = some (s, r) := by
  have h : ∃ s', utf8 s' = utf8 s := ⟨s, rfl⟩
  simp only [decStr, encStr, decBytes_encBytes, h, dite_true]
  rw [Askar.Wql.Lemmas.utf8_inj (Classical.choose_spec h)]

def encRef : Option KeyRef → Bytes
  | none => [0]
  | some .mobileSecureElement => [1]
  | some (.any s) => 2 :: encStr s

noncomputable def decRef : Bytes → Option (Option KeyRef × Bytes)
  | [] => none
  | b :: r =>
    if b = 0 then some (none, r) else if b = 1 then some (some .mobileSecureElement, r)
    else if b = 2 then (decStr r).map fun (s, r') => (some (.any s), r') else none

theorem decRef_encRef (x : Option KeyRef) (r : Bytes) : decRef (encRef x ++ r) = some (x, r) := by
  cases x with
  | none => simp [encRef, decRef]
  | some k =>
    cases k with
    | mobileSecureElement => simp [encRef, decRef]
    | any s => simp [encRef, decRef, decStr_encStr]

def enc (p : KeyParams) : Bytes :=
  (match p.meta with | none => [0] | some m => 1 :: encStr m) ++ encRef p.ref ++
  (match p.data with | none => [0] | some d => 1 :: encBytes d)

noncomputable def dec (x : Bytes) : Option KeyParams :=
  let m : Option (Option String × Bytes) := match x with
    | [] => none
    | b :: r => if b = 0 then some (none, r) else if b = 1 then (decStr r).map fun (s, r') => (some s, r') else none
  match m with
  | none => none
  | some (mt, r1) =>
    match decRef r1 with
    | none => none
    | some (rf, r2) =>
      match r2 with
      | [] => none
      | b :: r =>
        if b = 0 then (if r = [] then some ⟨mt, rf, none⟩ else none)
        else if b = 1 then (match decBytes r with | some (d, []) => some ⟨mt, rf, some d⟩ | _ => none)
        else none

/-- a codec with the round-trip law exists -/
noncomputable def cbor : Cbor := ⟨enc, dec⟩

theorem cbor_lawful : cbor.Lawful := by
  intro p
  obtain ⟨m, rf, d⟩ := p
  cases m with
  | none =>
    cases d with
    | none => simp [cbor, enc, dec, decRef_encRef]
    | some d =>
      have := decBytes_encBytes d []
      simp only [List.append_nil] at this
      simp [cbor, enc, dec, decRef_encRef, this]
  | some m =>
    cases d with
    | none => simp [cbor, enc, dec, List.append_assoc, decStr_encStr, decRef_encRef]
    | some d =>
      have := decBytes_encBytes d []
      simp only [List.append_nil] at this
      simp [cbor, enc, dec, List.append_assoc, decStr_encStr, decRef_encRef, this]

/-- toy key material: `true` is an AES-128-GCM key, `false` an Ed25519 key; import has no `oct` branch -/
def keyOps : KeyOps Bool where
  alg k := if k then "a128gcm" else "ed25519"
  thumbs k := .ok [if k then "T1" else "T0"]
  encode k := .ok [if k then 1 else 0]
  decode b := if b = [0] then .ok false else .error .unsupported
  fromId _ _ := .error .unsupported
  asStr _ := none

theorem keyOps_lawful : keyOps.Lawful false := by
  refine ⟨?_, ?_⟩
  · intro k b hb himp
    cases k with
    | true => simp [keyOps, jwkImportable, isSymmetric, symmetricAlgs] at himp
    | false => simp only [keyOps] at hb; injection hb with hb; subst hb; rfl
  · intro _ b k h
    cases k with
    | true => simp only [keyOps] at h; split at h <;> cases h
    | false => decide

end Toy

/-- "every inserted key loads back": for a given import capability `sym` -/
def LoadAfterInsert (sym : Bool) : Prop :=
  ∀ (K : Type) (O : KeyOps K), O.Lawful sym → ∀ (k : K) (data : Bytes), O.encode k = .ok data →
    ∀ (name : String) («meta» : Option String) (alg : Option String) (ths : List String) (tags : List Tag),
      loadLocalKey O ⟨name, ⟨«meta», none, some data⟩, alg, ths, tags⟩ = .ok k

theorem load_after_insert_false : ¬ LoadAfterInsert false := by
  intro h
  have := h Bool Toy.keyOps Toy.keyOps_lawful true [1] rfl "k" none none [] []
  exact no_symmetric_load Toy.keyOps Toy.keyOps_lawful true (by decide) _ (by simp) this

theorem load_after_insert_true : LoadAfterInsert true := by
  intro K O hO k data hd name m alg ths tags
  exact load_after_insert true O hO k data hd (by simp [jwkImportable]) name m none (by simp) alg ths tags

end Askar.KeyStore.Lemmas
