import Driver.C12
def main : IO Unit := Driver.mainLoop fun _ j => Driver.C12.runCase j
