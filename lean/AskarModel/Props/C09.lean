/-
C09 — the on-disk format matches docs/storage.md and stays readable across versions.
ONLY property theorems and non-vacuity examples live here; helper lemmas are in Lemmas/StorageScheme.lean, the
independent implementation of the document in Model/StorageScheme.lean, the codecs in Crypto/{Cbor,Base58}.lean.

The theorems are ABOUT THE SPECIFICATION: they make it a sound oracle (what it writes it reads back, byte layouts are
the documented ones, the codecs are inverse to each other, the value-key input frames category and name without
ambiguity).  That the LIBRARY agrees with this specification is not a theorem but translation-validation style evidence
collected by every run of the check (harness/src/c09.rs): the spec decrypts every row of stores the library writes and
reproduces every deterministic field bit for bit, the library opens and searches stores the spec writes, and the
golden stores of the pinned release open with the current code and with the spec.

Theorems hold for EVERY lawful instance of the two primitives (`Prims.Lawful`: the AEAD opens what it sealed, its
output is 16 bytes longer than its input, HMAC-SHA-256 yields 32 bytes) and for contents of every length.
-/
import AskarModel.Model.StorageScheme
import AskarModel.Lemmas.StorageScheme
import AskarModel.Generated.Storage

namespace Askar.StorageScheme
open Askar.Crypto

/-- Searchable encryption: decrypting `nonce ‖ ct ‖ tag` gives the plaintext back, every plaintext length. -/
theorem searchable_roundtrip (P : Prims) (hP : P.Lawful) (encKey hmacKey m : Bytes) :
    decryptField P encKey (encryptSearchable P encKey hmacKey m) = some m :=
  Lemmas.StorageScheme.searchable_roundtrip hP encKey hmacKey m

/-- Searchable encryption is a FUNCTION of (keys, plaintext) with the documented layout: the first 12 bytes are
    `HMAC-SHA-256(hmac key, plaintext)[..12]`, the total length is 12 + |m| + 16 — so equal plaintexts give equal
    column values (what makes them searchable) — and different plaintexts give different column values. -/
theorem searchable_deterministic (P : Prims) (hP : P.Lawful) (encKey hmacKey m₁ m₂ : Bytes) :
    (encryptSearchable P encKey hmacKey m₁ = encryptSearchable P encKey hmacKey m₂ ↔ m₁ = m₂) ∧
    (encryptSearchable P encKey hmacKey m₁).take nonceLen = (P.hmac hmacKey m₁).take nonceLen ∧
    (encryptSearchable P encKey hmacKey m₁).length = nonceLen + m₁.length + tagLen :=
  ⟨⟨Lemmas.StorageScheme.searchable_injective hP encKey hmacKey m₁ m₂, fun h => by rw [h]⟩,
   Lemmas.StorageScheme.searchable_layout hP encKey hmacKey m₁⟩

/-- Item value: `random nonce ‖ ct ‖ tag` under the key derived from (category, name) decrypts to the value, and the
    stored bytes start with the nonce and are 28 bytes longer than the value. -/
theorem value_roundtrip (P : Prims) (hP : P.Lawful) (itemHmacKey category name nonce value : Bytes)
    (hn : nonce.length = nonceLen) :
    decryptValue P itemHmacKey category name (encryptValue P itemHmacKey category name nonce value) = some value ∧
    (encryptValue P itemHmacKey category name nonce value).take nonceLen = nonce ∧
    (encryptValue P itemHmacKey category name nonce value).length = nonceLen + value.length + tagLen :=
  ⟨Lemmas.StorageScheme.value_roundtrip hP itemHmacKey category name nonce value hn,
   Lemmas.StorageScheme.value_layout hP itemHmacKey category name nonce value hn⟩

/-- A whole record (category, name, value, any number of tags of both kinds, kind, expiry) written by the spec is read
    back by the spec unchanged. -/
theorem record_roundtrip (P : Prims) (hP : P.Lawful) (k : ProfileKey) (id pid : Int) (nonce : Bytes) (r : Rec)
    (hn : nonce.length = nonceLen) :
    decryptRec P k (encryptRec P k id pid nonce r).1 (encryptRec P k id pid nonce r).2 = some r :=
  Lemmas.StorageScheme.record_roundtrip hP k id pid nonce r hn

/-- A plaintext tag's value is stored as is; its name — like every tag name — is searchable-encrypted. -/
theorem plaintext_tag_stored_as_is (P : Prims) (k : ProfileKey) (id : Int) (name value : Bytes) :
    (encryptTag P k id ⟨true, name, value⟩).value = value ∧
    (encryptTag P k id ⟨true, name, value⟩).name = encryptSearchable P k.tnk k.thk name := ⟨rfl, rfl⟩

/-- The CBOR form of a profile key decodes to the same six keys. -/
theorem profileKey_cbor_roundtrip (k : ProfileKey) (h : k.WF) : ProfileKey.ofCbor k.toCbor = some k :=
  Lemmas.StorageScheme.profileKey_cbor_roundtrip k h

/-- The profile key survives wrapping under the store key — and under "no key" (method `none`). -/
theorem profileKey_wrap_roundtrip (P : Prims) (hP : P.Lawful) (storeKey : Option Bytes) (nonce : Bytes) (k : ProfileKey)
    (hn : nonce.length = nonceLen) (hk : k.WF) :
    unwrapProfileKey P storeKey (wrapProfileKey P storeKey nonce k) = some k :=
  Lemmas.StorageScheme.wrap_roundtrip hP storeKey nonce k hn hk

/-- CBOR subset: decoding inverts encoding for every map whose lengths fit the 8-byte argument, whatever follows. -/
theorem cbor_roundtrip (m : Cbor.Map) (rest : Bytes) (h : Cbor.Fits m) :
    Cbor.decodeMap (Cbor.encodeMap m ++ rest) = some (m, rest) :=
  Lemmas.StorageScheme.Cbor.decodeMap_encodeMap m rest h

/-- The CBOR decoder is total and never reads past its input: on EVERY byte string it either rejects or returns a map
    together with a remainder that is strictly shorter than the input (it is defined by structural recursion — no fuel,
    no `partial` — and every announced length is checked against the remaining input before it is used). -/
theorem cbor_decode_total (b : Bytes) :
    Cbor.decodeMap b = none ∨ ∃ m rest, Cbor.decodeMap b = some (m, rest) ∧ rest.length < b.length := by
  cases h : Cbor.decodeMap b with
  | none => exact Or.inl rfl
  | some p => exact Or.inr ⟨p.1, p.2, rfl, Lemmas.StorageScheme.Cbor.decodeMap_total h⟩

/-- The value-key input `be32|c| ‖ c ‖ be32|n| ‖ n` determines (category, name) — categories below 2³² bytes. -/
theorem valueKeyInput_injective (c₁ n₁ c₂ n₂ : Bytes) (h1 : c₁.length < 2 ^ 32) (h2 : c₂.length < 2 ^ 32)
    (h : valueKeyInput c₁ n₁ = valueKeyInput c₂ n₂) : c₁ = c₂ ∧ n₁ = n₂ :=
  Lemmas.StorageScheme.valueKeyInput_injective h1 h2 h

/-- The bound is necessary: the 32-bit length prefix wraps at 2³² bytes (so does the `as u32` cast of the code). -/
theorem valueKeyInput_bound_necessary :
    ∃ c₁ n₁ c₂ n₂ : Bytes, (c₁, n₁) ≠ (c₂, n₂) ∧ valueKeyInput c₁ n₁ = valueKeyInput c₂ n₂ :=
  Lemmas.StorageScheme.valueKeyInput_collision_unbounded

/-- Store key reference: `parse (toUri r) = r` for `raw`, `none` and `kdf:argon2i:13:<int|mod>?salt=<32 hex>`. -/
theorem keyref_uri_roundtrip (r : KeyRef) (h : Lemmas.StorageScheme.KeyRefWF r) : KeyRef.parse r.toUri = some r :=
  Lemmas.StorageScheme.keyref_uri_roundtrip r h

/-- Base58 (raw pass keys): decoding inverts encoding for every byte string, leading zero bytes included. -/
theorem base58_roundtrip (b : Bytes) : Base58.decode (Base58.encode b) = some b :=
  Lemmas.StorageScheme.Base58.decode_encode b

/-- The constants extracted from the CURRENT source (`Generated/Storage.lean`, rewritten by every run) are the ones of
    the specification: Argon2i parameter sets (libsodium interactive / moderate, version 0x13), salt length, level and
    prefix strings, CBOR member names in order with `ver = "1"`, the three config rows, version "1", the columns of the
    four tables. -/
theorem generated_constants_match_doc :
    Generated.Storage.paramsInteractive
        = (Level.interactive.params.variant, "V0x13", Level.interactive.params.memKiB, Level.interactive.params.passes) ∧
    Generated.Storage.paramsModerate
        = (Level.moderate.params.variant, "V0x13", Level.moderate.params.memKiB, Level.moderate.params.passes) ∧
    Level.interactive.params.version = 0x13 ∧ Level.moderate.params.version = 0x13 ∧
    Generated.Storage.saltLen = saltLen ∧
    (Generated.Storage.prefixKdf ++ ":" ++ Generated.Storage.methodArgon2i ++ ":").toList ++ "13:".toList = kdfPrefix ∧
    Generated.Storage.levelInteractive.toList = "13:".toList ++ Level.interactive.str ∧
    Generated.Storage.levelModerate.toList = "13:".toList ++ Level.moderate.str ∧
    Generated.Storage.prefixRaw.toList = rawChars ∧ Generated.Storage.prefixNone.toList = noneChars ∧
    (∀ k : ProfileKey, k.toMap.map (·.1) = (Generated.Storage.cborTag :: Generated.Storage.cborFields).map ascii) ∧
    (∀ k : ProfileKey, k.toMap.head? = some (ascii Generated.Storage.cborTag, .text (ascii Generated.Storage.cborTagValue))) ∧
    (∀ d r, (configRows d r).map (·.1) = Generated.Storage.configRows) ∧
    Generated.Storage.configVersion = schemaVersion ∧
    Generated.Storage.schema = schema := by
  refine ⟨by decide, by decide, by decide, by decide, by decide, by decide, by decide, by decide, by decide, by decide,
    fun _ => by simp only [ProfileKey.toMap, List.map_cons, List.map_nil]; decide,
    fun _ => by simp only [ProfileKey.toMap, List.head?_cons]; decide,
    fun _ _ => by simp only [configRows, List.map_cons, List.map_nil]; decide, by decide, by decide⟩

/-! ### Non-vacuity: the hypotheses are satisfiable -/

/-- a lawful instance of the primitives exists -/
example : Prims.toy.Lawful where
  dec_enc := by
    intro k n m
    simp only [Prims.toy, List.length_append, List.length_replicate]
    have h : ¬ (m.length + tagLen < tagLen) := by omega
    simp only [h, if_false, Nat.add_sub_cancel]
    rw [List.take_left' rfl]
  enc_len := by intro k n m; simp [Prims.toy]
  hmac_len := by
    intro k m
    simp only [Prims.toy, List.length_append, List.length_replicate, List.length_take]
    omega

/-- a well-formed profile key, a 12-byte nonce, a well-formed derived-key reference exist -/
example : (⟨List.replicate 32 1, List.replicate 32 2, List.replicate 32 3, List.replicate 32 4, List.replicate 32 5,
            List.replicate 32 6⟩ : ProfileKey).WF := ⟨rfl, rfl, rfl, rfl, rfl, rfl⟩
example : (List.replicate 12 (7 : UInt8)).length = nonceLen := by decide
example : Lemmas.StorageScheme.KeyRefWF (.argon2i .moderate (List.replicate 16 0xa5)) := by
  simp [Lemmas.StorageScheme.KeyRefWF, saltLen]
example : KeyRef.toUri (.argon2i .moderate [0xa5, 0x53, 0xcf, 0xb9, 0xc5, 0x58, 0xb5, 0xc1, 0x1c, 0x78, 0xef, 0xcf, 0xa0, 0x6f, 0x3e, 0x29])
    = "kdf:argon2i:13:mod?salt=a553cfb9c558b5c11c78efcfa06f3e29" := by decide   -- the document's own example
example : Cbor.Fits [([0x61], .bytes [1, 2, 3])] := by
  refine ⟨by decide, ?_⟩
  intro e he
  simp only [List.mem_cons, List.mem_nil_iff, or_false] at he
  subst he
  exact ⟨by decide, by simp [Cbor.Val.Fits]⟩

end Askar.StorageScheme
