/-
  C07 — second engine "C07H": profile isolation when SEVERAL store handles work on one database.

  Every handle has its own key cache `name ↦ (profile row id, profile key)`.  Removing a profile evicts the name from the cache of
  the handle that removes it and from no other; `resolve_profile_key` trusts a cache hit; SQLite hands the id of a removed
  profile out again when it was the largest.  A handle whose cache is behind the database therefore works with a stale
  `(id, key)` pair.  This file states, for ALL databases / caches / records,

  * where exactly a call through any `(id, key)` pair lands (`stale_handle_write_lands_in_pid`, `session_calls_confined_to_pid`)
    and what it can read (`stale_handle_cannot_decrypt_foreign_rows`, `stale_handle_reads_nothing_foreign`: under key
    separation nothing foreign is ever DECRYPTED or MATCHED) — and what the key does NOT protect (`count_unfiltered_ignores_key`,
    `remove_all_unfiltered_ignores_key`);
  * the named mechanism "ping → NotFound" exactly (`ping_detects_removed_profile`) and its blind spot
    (`stale_entry_opens_when_id_in_use`, `scan_skips_ping`);
  * the property-level statements `SessionSeesNamedProfile`, `RemovedProfileCannotBeOpened`: PROVED for the repaired variant
    (`validate = true`, proposals/C07H-validate-cached-profile.diff) and for a handle whose cache agrees with the database
    (`…_of_fresh_cache`; own removals and creations keep it so: `own_calls_keep_cache_fresh`), REFUTED for today's code by
    witnesses that are runs of the model from a freshly provisioned store (`…_current_refuted`);
  * `HeldSessionIsolated` (a session kept open across the removal of its profile): refuted in BOTH variants.
-/
import AskarModel.Lemmas.TwoHandles

namespace Askar.TwoHandles

/-! ## 1. Row ids: unused when handed out, handed out again after a removal -/

theorem new_row_id_unused (db : Db) : db.hasId db.newRowId = false := newRowId_not_present db

/-- create `n`, remove `n` (through any handles): the next profile — whatever its name — gets the id `n` had, and a newer key -/
theorem rowid_reused_after_removal (h g : Handle) (db : Db) (n : String) (hn : db.rowByName n = none) :
    (createProfile h db n).2.1.rowByName n = some ⟨db.newRowId, n, db.nextKey⟩ ∧
    (removeProfile g (createProfile h db n).2.1 n).2.1.newRowId = db.newRowId ∧
    db.nextKey < (removeProfile g (createProfile h db n).2.1 n).2.1.nextKey :=
  rowid_reused h g db n hn

/-! ## 2. Where a call through an `(id, key)` pair lands — stale or not -/

/-- **the exact statement**: an acknowledged insert adds ONE row, owned by the row id of the pair and encrypted under the key of
    the pair; the profile that grows is whichever row has that id NOW, under whatever name -/
theorem stale_handle_write_lands_in_pid (s : Sess) (db db' : Db) (r : Rec) (h : insert s db r = .ok db') :
    db'.profiles = db.profiles ∧ db'.items = db.items ++ [⟨s.pid, s.key, r⟩] ∧
    ∀ row, rowsOf db' row = rowsOf db row ++ (if row.id = s.pid then [⟨s.pid, s.key, r⟩] else []) :=
  insert_lands s db db' r h

/-- it is acknowledged exactly when the id is in use and no row of that id WRITTEN UNDER THE SAME KEY has the identity -/
theorem stale_handle_write_acknowledged_iff (s : Sess) (db : Db) (r : Rec) :
    (∃ db', insert s db r = .ok db') ↔ (db.items.any (hits s r.cat r.name) = false ∧ db.hasId s.pid = true) := by
  constructor
  · rintro ⟨db', h⟩; exact ⟨((insert_ok_iff s db db' r).mp h).1, ((insert_ok_iff s db db' r).mp h).2.1⟩
  · rintro ⟨h1, h2⟩; exact ⟨_, (insert_ok_iff s db _ r).mpr ⟨h1, h2, rfl⟩⟩

/-- no id in use: nothing is written (FOREIGN KEY failure) -/
theorem write_through_unused_id_fails (s : Sess) (db : Db) (r : Rec) (h : db.hasId s.pid = false) :
    insert s db r = .error .backend ∨ insert s db r = .error .duplicate := by
  unfold insert
  cases db.items.any (hits s r.cat r.name) <;> simp [h]

/-- every mutating call of a session leaves the profile table and every row of every OTHER id untouched -/
theorem session_calls_confined_to_pid (s : Sess) (db : Db) :
    (∀ r db', insert s db r = .ok db' → db'.profiles = db.profiles ∧ others s.pid db'.items = others s.pid db.items) ∧
    (∀ r db', replace s db r = .ok db' → db'.profiles = db.profiles ∧ others s.pid db'.items = others s.pid db.items) ∧
    (∀ c n db', remove s db c n = .ok db' → db'.profiles = db.profiles ∧ others s.pid db'.items = others s.pid db.items) ∧
    (∀ cat, (removeAll s db cat).1.profiles = db.profiles ∧ others s.pid (removeAll s db cat).1.items = others s.pid db.items) :=
  calls_confined s db

/-! ## 3. What can be read through an `(id, key)` pair -/

/-- everything a session returns was written under the session's own key, in the session's own id -/
theorem stale_handle_cannot_decrypt_foreign_rows (s : Sess) (db : Db) :
    (∀ c n r, fetch s db c n = some r → ∃ it ∈ db.items, it.pid = s.pid ∧ it.key = s.key ∧ it.data = r) ∧
    (∀ cat rs, fetchAll s db cat = .ok rs → ∀ r ∈ rs, ∃ it ∈ db.items, it.pid = s.pid ∧ it.key = s.key ∧ it.data = r) :=
  reads_own_key s db

/-- under key freshness (no row of the id was written under the pair's key — the id now belongs to a profile with a newer key):
    no record is visible, matched, replaced or removed by identity; an unfiltered listing is empty or fails with Encryption -/
theorem stale_handle_reads_nothing_foreign (s : Sess) (db : Db)
    (hk : ∀ it ∈ db.items, it.pid = s.pid → it.key ≠ s.key) :
    (∀ c n, fetch s db c n = none) ∧ (∀ c, fetchAll s db (some c) = .ok []) ∧ (∀ c, count s db (some c) = 0) ∧
    (∀ r, replace s db r = .error .notFound) ∧ (∀ c n, remove s db c n = .error .notFound) ∧
    (∀ c, removeAll s db (some c) = (db, 0)) ∧
    (fetchAll s db none = .ok [] ∨ fetchAll s db none = .error .encryption) :=
  reads_nothing_foreign s db hk

/-- what the key does NOT protect: an unfiltered count counts every row of the id, whoever wrote it … -/
theorem count_unfiltered_ignores_key (s : Sess) (db : Db) :
    count s db none = (db.items.filter fun it => decide (it.pid = s.pid)).length := by
  simp [count, inScope_none_fun]

/-- … and an unfiltered remove_all removes every row of the id, whoever wrote it -/
theorem remove_all_unfiltered_ignores_key (s : Sess) (db : Db) :
    (removeAll s db none).1.items = others s.pid db.items ∧
    (removeAll s db none).2 = (db.items.filter fun it => decide (it.pid = s.pid)).length := by
  simp [removeAll, count, inScope_none_fun, others]

/-! ## 4. Key freshness: a key drawn by `create_profile` is new for the database and for every cache -/

theorem created_key_is_fresh (h g : Handle) (db : Db) (n : String) (hn : db.rowByName n = none)
    (hdb : db.KeysBelow) (hg : g.KeysBelow db.nextKey) (hh : h.KeysBelow db.nextKey) :
    (createProfile h db n).2.1.rowByName n = some ⟨db.newRowId, n, db.nextKey⟩ ∧
    (∀ e ∈ g.cache, e.key ≠ db.nextKey) ∧ (∀ it ∈ db.items, it.key ≠ db.nextKey) ∧ (∀ r ∈ db.profiles, r.key ≠ db.nextKey) ∧
    (createProfile h db n).2.1.KeysBelow ∧ g.KeysBelow (createProfile h db n).2.1.nextKey ∧
    (createProfile h db n).1.KeysBelow (createProfile h db n).2.1.nextKey :=
  have k := created_key_fresh h g db n hn hdb hg
  ⟨k.1, k.2.1, k.2.2.1, k.2.2.2.1, k.2.2.2.2.1, k.2.2.2.2.2.1, createProfile_handle_keysBelow h db n hh⟩

/-- the invariant is kept by every other call -/
theorem keys_below_preserved (v : Bool) (h : Handle) (db : Db) (hdb : db.KeysBelow) (hh : h.KeysBelow db.nextKey) :
    (∀ n, (removeProfile h db n).2.1.KeysBelow ∧ (removeProfile h db n).1.KeysBelow (removeProfile h db n).2.1.nextKey) ∧
    (∀ n, (resolve v h db n).1.KeysBelow db.nextKey ∧ ∀ s, (resolve v h db n).2 = .ok s → s.key < db.nextKey) ∧
    (∀ s r db', s.key < db.nextKey → insert s db r = .ok db' → db'.KeysBelow ∧ db'.nextKey = db.nextKey) ∧
    (∀ s r db', replace s db r = .ok db' → db'.KeysBelow ∧ db'.nextKey = db.nextKey) ∧
    (∀ s c n db', remove s db c n = .ok db' → db'.KeysBelow ∧ db'.nextKey = db.nextKey) ∧
    (∀ s cat, (removeAll s db cat).1.KeysBelow ∧ (removeAll s db cat).1.nextKey = db.nextKey) :=
  keysBelow_preserved v h db hdb hh

/-! ## 5. resolve + ping as they are -/

/-- **the named mechanism**: a cached entry whose id is no longer in use → NotFound "Session profile has been removed";
    the handle is unchanged (the stale entry STAYS) and nothing is written (the call returns no database) -/
theorem ping_detects_removed_profile (h : Handle) (db : Db) (n : String) (e : CacheEntry)
    (hc : cacheGet h.cache n = some e) (hid : db.hasId e.pid = false) :
    openSession false h db (some n) = (h, .error .notFound) := by
  simp [openSession, resolve, hc, ping, hid]

/-- its blind spot: the ping asks for the ID.  A cached entry whose id is in use again opens a session on `(old id, old key)`,
    whether or not a profile of that name exists and whatever the id belongs to now -/
theorem stale_entry_opens_when_id_in_use (h : Handle) (db : Db) (n : String) (e : CacheEntry)
    (hc : cacheGet h.cache n = some e) (hid : db.hasId e.pid = true) :
    openSession false h db (some n) = (h, .ok ⟨e.pid, e.key⟩) := by
  simp [openSession, resolve, hc, ping, hid]

/-- `Store::scan` does not ping at all: with a cached entry it never answers NotFound -/
theorem scan_skips_ping (h : Handle) (db : Db) (n : String) (e : CacheEntry) (cat : Option String)
    (hc : cacheGet h.cache n = some e) :
    scan false h db (some n) cat = (h, fetchAll ⟨e.pid, e.key⟩ db cat) := by
  simp [scan, resolve, hc]

/-! ## 6. The property-level statements -/

/-- a session opened on a NAME works on the row the database holds under that name now, with that row's key -/
def SessionSeesNamedProfile (v : Bool) : Prop :=
  ∀ (h : Handle) (db : Db) (p : Option String) (h' : Handle) (s : Sess), openSession v h db p = (h', .ok s) →
    db.rowByName (p.getD h.active) = some ⟨s.pid, p.getD h.active, s.key⟩

/-- a name without a row can be neither opened nor scanned, through any handle -/
def RemovedProfileCannotBeOpened (v : Bool) : Prop :=
  ∀ (h : Handle) (db : Db) (p : Option String), db.rowByName (p.getD h.active) = none →
    (openSession v h db p).2 = .error .notFound ∧ ∀ cat, (scan v h db p cat).2 = .error .notFound

/-- a store scan reads the row the database holds under the name now -/
def ScanSeesNamedProfile (v : Bool) : Prop :=
  ∀ (h : Handle) (db : Db) (p : Option String) (cat : Option String) (row : ProfRow),
    db.rowByName (p.getD h.active) = some row → (scan v h db p cat).2 = fetchAll ⟨row.id, row.key⟩ db cat

theorem session_sees_named_profile_repaired : SessionSeesNamedProfile true := sees_named_repaired
theorem removed_profile_cannot_be_opened_repaired : RemovedProfileCannotBeOpened true := removed_not_opened_repaired
theorem scan_sees_named_profile_repaired : ScanSeesNamedProfile true := scan_sees_named_repaired

/-- consequences for the repaired variant: the unfiltered count is the named profile's row count, an acknowledged write is a row
    of the named profile under the named profile's key -/
theorem repaired_session_counts_and_writes_named_profile (h h' : Handle) (db : Db) (p : Option String) (s : Sess)
    (ho : openSession true h db p = (h', .ok s)) :
    ∃ row, db.rowByName (p.getD h.active) = some row ∧ count s db none = (rowsOf db row).length ∧
      (removeAll s db none).1.items = others row.id db.items ∧
      ∀ r db', insert s db r = .ok db' → db'.items = db.items ++ [⟨row.id, row.key, r⟩] := by
  have hs := sees_named_repaired h db p h' s ho
  refine ⟨_, hs, ?_, ?_, ?_⟩
  · simp [count, inScope_none_fun, rowsOf]
  · exact (remove_all_unfiltered_ignores_key s db).1
  · intro r db' hi; exact (insert_lands s db db' r hi).2.1

/-- today's code, for a handle whose cache agrees with the database (the single-handle situation) -/
theorem session_sees_named_profile_of_fresh_cache (h h' : Handle) (db : Db) (p : Option String) (s : Sess)
    (hf : CacheFresh h db) (ho : openSession false h db p = (h', .ok s)) :
    db.rowByName (p.getD h.active) = some ⟨s.pid, p.getD h.active, s.key⟩ :=
  sees_named_of_fresh h h' db p s hf ho

theorem removed_profile_cannot_be_opened_of_fresh_cache (h : Handle) (db : Db) (p : Option String)
    (hf : CacheFresh h db) (hn : db.rowByName (p.getD h.active) = none) :
    (openSession false h db p).2 = .error .notFound ∧ ∀ cat, (scan false h db p cat).2 = .error .notFound :=
  removed_not_opened_of_fresh h db p hf hn

/-- a handle's OWN profile calls and lookups keep its cache in agreement with the database (unique names) … -/
theorem own_calls_keep_cache_fresh (v : Bool) (h : Handle) (db : Db) (hf : CacheFresh h db) (n : String) :
    CacheFresh (createProfile h db n).1 (createProfile h db n).2.1 ∧
    CacheFresh (removeProfile h db n).1 (removeProfile h db n).2.1 ∧
    CacheFresh (resolve v h db n).1 db :=
  own_calls_fresh v h db hf n

/-! ### … another handle's removal does not: the witnesses (runs of the model from a freshly provisioned store) -/

namespace Witness
def A0 : Handle := ⟨"p0", [⟨"p0", 1, 0⟩]⟩
def B0 : Handle := ⟨"p0", [⟨"p0", 1, 0⟩]⟩
def db0 : Db := Db.provisioned "p0"
/-- A creates p1 (id 2, key 1) and caches it; A writes one record -/
def A1 : Handle := (createProfile A0 db0 "p1").1
def db1 : Db := (createProfile A0 db0 "p1").2.1
/-- B removes p1 and creates p2: p2 gets id 2 again, key 2; B writes two records into p2 -/
def db2 : Db := (removeProfile B0 db1 "p1").2.1
def B2 : Handle := (createProfile (removeProfile B0 db1 "p1").1 db2 "p2").1
def db3 : Db := (createProfile (removeProfile B0 db1 "p1").1 db2 "p2").2.1
def r1 : Rec := ⟨"c1", "n1", "aa", []⟩
def r2 : Rec := ⟨"c1", "n2", "bb", []⟩
def db4 : Db := { db3 with items := [⟨2, 2, r1⟩, ⟨2, 2, r2⟩] }
/-- the pair A still holds for "p1" -/
def stale : Sess := ⟨2, 1⟩
end Witness

open Witness in
/-- the witness state is what the calls produce: B's session on p2 is `(2, 2)`, its two inserts give `db4` -/
example : openSession false B2 db3 (some "p2") = (B2, .ok ⟨2, 2⟩) ∧
    (insert ⟨2, 2⟩ db3 r1 >>= fun d => insert ⟨2, 2⟩ d r2) = .ok db4 := by decide

open Witness in
/-- **refuted on today's code**: p1 has been removed, yet A opens it — on p2's id -/
theorem removed_profile_cannot_be_opened_current_refuted : ¬ RemovedProfileCannotBeOpened false := by
  intro hp
  have := (hp A1 db4 (some "p1") (by decide)).1
  revert this; decide

open Witness in
theorem session_sees_named_profile_current_refuted : ¬ SessionSeesNamedProfile false := by
  intro hp
  have := hp A1 db4 (some "p1") A1 stale (by decide)
  revert this; decide

open Witness in
/-- a re-created profile with another id is invisible to the stale handle's scan (empty instead of its records) -/
theorem scan_sees_named_profile_current_refuted : ¬ ScanSeesNamedProfile false := by
  intro hp
  -- B re-creates p1 as well (id 3, key 3) and writes r1 into it: A's scan of p1 still reads id 2 under key 1
  have := hp A1 { (createProfile B2 db3 "p1").2.1 with items := [⟨3, 3, r1⟩] } (some "p1") (some "c1") ⟨3, "p1", 3⟩ (by decide)
  revert this; decide

open Witness in
/-- what A does to p2 through the session it opened on the removed name p1: it COUNTS p2's records, REMOVES them with an
    unfiltered remove_all, and its insert LANDS in p2 under p1's old key — after which p2 is unreadable for its owner -/
theorem stale_session_acts_on_foreign_profile :
    openSession false A1 db4 (some "p1") = (A1, .ok stale) ∧ db4.rowByName "p1" = none ∧
    db4.rowByName "p2" = some ⟨2, "p2", 2⟩ ∧
    count stale db4 none = 2 ∧
    (removeAll stale db4 none).2 = 2 ∧ contentOf (removeAll stale db4 none).1 "p2" = some (.ok []) ∧
    insert stale db4 r1 = .ok { db4 with items := db4.items ++ [⟨2, 1, r1⟩] } ∧
    contentOf { db4 with items := db4.items ++ [⟨2, 1, r1⟩] } "p2" = some (.error .encryption) ∧
    -- while nothing of p2 can be read or addressed by identity (section 3)
    fetch stale db4 "c1" "n1" = none ∧ fetchAll stale db4 none = .error .encryption ∧ count stale db4 (some "c1") = 0 := by
  decide

/-- either way the verdict on the current tree is decided by the switch read from the source -/
theorem session_sees_named_profile_status :
    (validateCurrent = true ∧ SessionSeesNamedProfile validateCurrent ∧ RemovedProfileCannotBeOpened validateCurrent) ∨
    (validateCurrent = false ∧ ¬ SessionSeesNamedProfile validateCurrent ∧ ¬ RemovedProfileCannotBeOpened validateCurrent) := by
  cases hv : validateCurrent with
  | true => exact Or.inl ⟨rfl, sees_named_repaired, removed_not_opened_repaired⟩
  | false => exact Or.inr ⟨rfl, session_sees_named_profile_current_refuted, removed_profile_cannot_be_opened_current_refuted⟩

/-! ## 7. Sessions kept open across the removal of their profile -/

/-- a session opened on `n` before `n` was removed writes nothing afterwards -/
def HeldSessionIsolated (v : Bool) : Prop :=
  ∀ (h g h' : Handle) (db : Db) (n m : String) (s : Sess) (r : Rec) (db' : Db), openSession v h db (some n) = (h', .ok s) →
    insert s (createProfile (removeProfile g db n).1 (removeProfile g db n).2.1 m).2.1 r ≠ .ok db'

open Witness in
/-- FALSE in both variants (the session keeps its pair; validation happens when a session is opened): A opens p1, B removes p1
    and creates p2 on the same id, A's insert is acknowledged and lands in p2 -/
theorem held_session_not_isolated (v : Bool) : ¬ HeldSessionIsolated v := by
  intro hp
  have := hp A1 B0 (openSession v A1 db1 (some "p1")).1 db1 "p1" "p2" stale r1 { db3 with items := [⟨2, 1, r1⟩] }
    (by cases v <;> decide)
  revert this; decide

/-- what does hold for a held session: between the removal and the reuse of the id every write fails, and at any time it is
    confined to its row id (`session_calls_confined_to_pid`) and reads nothing foreign (`stale_handle_reads_nothing_foreign`) -/
theorem held_session_partial (g : Handle) (db : Db) (n : String) (row : ProfRow) (s : Sess) (r : Rec)
    (hrow : db.rowByName n = some row) (hs : s.pid = row.id) (huniq : ∀ q ∈ db.profiles, q.id = row.id → q.name = n) :
    (removeProfile g db n).2.1.hasId s.pid = false ∧
    (insert s (removeProfile g db n).2.1 r = .error .backend ∨ insert s (removeProfile g db n).2.1 r = .error .duplicate) ∧
    count s (removeProfile g db n).2.1 none = 0 :=
  held_partial g db n row s r hrow hs huniq

/-! ## Non-vacuity -/

example : (Db.provisioned "p0").KeysBelow ∧ Witness.A0.KeysBelow (Db.provisioned "p0").nextKey := by
  refine ⟨⟨?_, ?_⟩, ?_⟩ <;> intro x hx <;> simp [Db.provisioned, Witness.A0] at hx <;> simp [hx, Db.provisioned]
example : CacheFresh Witness.A0 Witness.db0 := by intro e he; simp [Witness.A0] at he; subst he; decide
example : ¬ CacheFresh Witness.A1 Witness.db4 := by intro h; have := h ⟨"p1", 2, 1⟩ (by decide); revert this; decide
example : ∃ h' s, openSession true Witness.A1 Witness.db1 (some "p1") = (h', .ok s) := ⟨_, _, rfl⟩
example : (Db.provisioned "p0").rowByName "p1" = none := by decide
example : ∃ e, cacheGet Witness.A1.cache "p1" = some e ∧ Witness.db2.hasId e.pid = false := ⟨⟨"p1", 2, 1⟩, by decide⟩
example : ∃ e, cacheGet Witness.A1.cache "p1" = some e ∧ Witness.db4.hasId e.pid = true := ⟨⟨"p1", 2, 1⟩, by decide⟩
example : ∀ it ∈ Witness.db4.items, it.pid = Witness.stale.pid → it.key ≠ Witness.stale.key := by decide

end Askar.TwoHandles
