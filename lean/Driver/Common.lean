/- JSON helpers for the line-protocol driver. -/
import Lean.Data.Json
import AskarModel.Base.Bytes

open Lean

namespace Driver

def getD? (j : Json) (k : String) : Option Json :=
  match j.getObjVal? k with
  | .ok .null => none
  | .ok v => some v
  | .error _ => none

def str! (j : Json) (k : String) : String :=
  match j.getObjVal? k with
  | .ok (.str s) => s
  | _ => ""

def strOpt (j : Json) (k : String) : Option String :=
  match getD? j k with
  | some (.str s) => some s
  | _ => none

def int! (j : Json) (k : String) : Int :=
  match j.getObjVal? k with
  | .ok v => (v.getInt?).toOption.getD 0
  | _ => 0

def intOpt (j : Json) (k : String) : Option Int :=
  match getD? j k with
  | some v => v.getInt?.toOption
  | none => none

def nat! (j : Json) (k : String) : Nat := (int! j k).toNat

def natOpt (j : Json) (k : String) : Option Nat := (intOpt j k).map Int.toNat

def bool! (j : Json) (k : String) : Bool :=
  match j.getObjVal? k with
  | .ok (.bool b) => b
  | _ => false

def arr! (j : Json) (k : String) : List Json :=
  match j.getObjVal? k with
  | .ok (.arr a) => a.toList
  | _ => []

def asArr (j : Json) : List Json :=
  match j with
  | .arr a => a.toList
  | _ => []

def asStr (j : Json) : String :=
  match j with
  | .str s => s
  | _ => ""

def hex! (j : Json) (k : String) : Askar.Bytes := (Askar.Bytes.ofHex (str! j k)).getD []

def jhex (b : Askar.Bytes) : Json := .str (Askar.Bytes.toHex b)

def hex16 (n : Nat) : String :=
  String.ofList ((List.range 16).reverse.map fun i => Askar.Bytes.hexDigit (n / 16 ^ i % 16))

/-- values longer than 512 bytes are compared by length and FNV-1a-64 digest -/
def jvalue (b : Askar.Bytes) : Json :=
  if b.length ≤ 512 then jhex b
  else
    let h := b.foldl (fun (h : Nat) x => ((h ^^^ x.toNat) * 0x100000001b3) % 18446744073709551616) 0xcbf29ce484222325
    .str ("len:" ++ toString b.length ++ ":fnv:" ++ hex16 h)

/-- value spec: hex string, or {"fill","len","salt"} = bytes (fill + i*salt) mod 256 -/
def value! (j : Json) (k : String) : Askar.Bytes :=
  match j.getObjVal? k with
  | .ok (.str s) => (Askar.Bytes.ofHex s).getD []
  | .ok v =>
    let fill := nat! v "fill"; let salt := nat! v "salt"; let len := nat! v "len"
    (List.range len).map fun i => UInt8.ofNat ((fill + i * salt) % 256)
  | _ => []

def jerr (name : String) : Json := Json.mkObj [("err", .str name)]

def jnat (n : Nat) : Json := .num (JsonNumber.fromNat n)
def jint (n : Int) : Json := .num (JsonNumber.fromInt n)


/-- one JSON case per input line -> one JSON result per output line -/
def runLine (handler : String → Json → Json) (line : String) : String :=
  match Json.parse line with
  | .error e => (Json.mkObj [("id", .null), ("err", .str ("parse: " ++ e))]).compress
  | .ok j =>
    let id := (j.getObjVal? "id").toOption.getD .null
    (Json.mkObj [("id", id), ("out", handler (str! j "kind") j)]).compress

partial def loop (handler : String → Json → Json) (h : IO.FS.Stream) (out : IO.FS.Stream) : IO Unit := do
  let line ← h.getLine
  if line.isEmpty then return ()
  let l := line.trimAscii.toString
  if !l.isEmpty then out.putStrLn (runLine handler l)
  loop handler h out

def mainLoop (handler : String → Json → Json) : IO Unit := do
  let out ← IO.getStdout
  loop handler (← IO.getStdin) out
  out.flush

end Driver
