/-
Base definitions shared by all models: byte strings, hex, UTF-8, bytewise order.
Core Lean only (no Mathlib) so that the driver links as a `lean_exe`.
-/
namespace Askar

abbrev Bytes := List UInt8

namespace Bytes

def hexDigit (n : Nat) : Char :=
  if n < 10 then Char.ofNat (48 + n) else Char.ofNat (87 + n)

/-- lower-case hex, two digits per byte -/
def toHex (b : Bytes) : String :=
  String.ofList (b.flatMap fun x => [hexDigit (x.toNat / 16), hexDigit (x.toNat % 16)])

def hexVal (c : Char) : Option Nat :=
  if '0' ≤ c ∧ c ≤ '9' then some (c.toNat - 48)
  else if 'a' ≤ c ∧ c ≤ 'f' then some (c.toNat - 87)
  else if 'A' ≤ c ∧ c ≤ 'F' then some (c.toNat - 55)
  else none

def ofHexChars : List Char → Option Bytes
  | [] => some []
  | [_] => none
  | a :: b :: rest =>
    match hexVal a, hexVal b, ofHexChars rest with
    | some x, some y, some r => some (UInt8.ofNat (x * 16 + y) :: r)
    | _, _, _ => none

def ofHex (s : String) : Option Bytes := ofHexChars s.toList

/-- bytewise lexicographic strict order (what SQLite's BLOB comparison / memcmp computes) -/
def lt : Bytes → Bytes → Bool
  | [], [] => false
  | [], _ :: _ => true
  | _ :: _, [] => false
  | a :: as, b :: bs => if a < b then true else if b < a then false else lt as bs

def le (a b : Bytes) : Bool := !lt b a

def be32 (n : Nat) : Bytes :=
  [UInt8.ofNat (n / 16777216 % 256), UInt8.ofNat (n / 65536 % 256), UInt8.ofNat (n / 256 % 256), UInt8.ofNat (n % 256)]

def be64 (n : Nat) : Bytes := be32 (n / 4294967296 % 4294967296) ++ be32 (n % 4294967296)

end Bytes

/-- UTF-8 bytes of a string -/
def utf8 (s : String) : Bytes := s.toUTF8.toList

end Askar
