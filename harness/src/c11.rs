//! C11: stored keys come back intact and are found by algorithm, thumbprint and tags (DESIGN.md section 4, C11).
//!
//! Case kinds
//!   c11      {"keys": [key…], "txn": bool, "ops": [op…]}    key API only (+ Item-kind rows in category `cryptokey`)
//!   c11:raw  the same plus Kms rows written behind the key API (odd tags, foreign CBOR); the oracle only
//!            judges what the property determines there
//! key  = {"alg", "how": "seed"|"seed_empty"|"secret"|"public"|"bls_keygen", "mat": hex,            (recipe, read by the executor)
//!         "thumbs": […], "jwk": hex|{"err"}, "sec": hex|{"err"}, "pub": hex|{"err"}}   (observables, read by the model)
//! op   = insert_key {n, key, meta, ref, t, e} | update_key {n, meta, t, e} | remove_key {n} | fetch_key {n}
//!      | fetch_all_keys {alg, thumb, f, lim} | item_fetch {n} | raw_insert {k, n, v, t} | dump
//!      | from_seed {alg, seed, method}      `LocalKey::from_seed` alone: {"sec": hex} | {"err": kind}   (kind c11:seed, gap row 20)
//!   c11:seed  one algorithm per case: keys seeded with 0 / 31 / 32 / 33 / 64-byte seeds under the default, the empty and the
//!            `bls_keygen` method are stored, fetched, loaded, filtered; `from_seed` with unknown methods and short BLS seeds
//! Every call runs in its own session (a transaction that is committed when "txn" is set).
use crate::canon::{filter_from_json, jvalue, kind_of, ref_holds, sorted_tags, tags_from_json, Rec, Tag};
use crate::gen_store::{LIKE_PATTERNS, TAG_VALUES};
use crate::rng::Rng;
use crate::store_case::{cleanup, now_ms, provision};
use aries_askar::entry::{EntryOperation, TagFilter};
use aries_askar::kms::{KeyAlg, KeyEntry, KeyReference, LocalKey};
use aries_askar::{ErrorKind, Store};
use askar_storage::backend::{Backend, BackendSession, OrderBy};
use askar_storage::future::block_on;
use serde_json::{json, Value};
use std::collections::{BTreeMap, BTreeSet};
use std::str::FromStr;

pub const ALGS: &[&str] = &[
    "a128gcm", "a256gcm", "a128cbchs256", "a256cbchs512", "a128kw", "a256kw", "bls12381g1", "bls12381g2", "bls12381g1g2",
    "c20p", "xc20p", "ed25519", "x25519", "k256", "p256", "p384",
];
const SYMMETRIC: &[&str] = &["a128gcm", "a256gcm", "a128cbchs256", "a256cbchs512", "a128kw", "a256kw", "c20p", "xc20p"];

const KEY_NAMES: &[&str] = &["k1", "k2", "k3", "k4", "", "ключ\u{0}", "user:k", "~k"];
/// user tag names: plain ones, names that look like the system tags, names that already carry the prefix, `~` names
const UTAG_NAMES: &[&str] = &["a", "b", "n", "t", "alg", "thumb", "user:a", "user:", "~a", "~", "", "ü", "a\u{0}b", "$exist", "user:alg"];
/// names used (as plaintext names `~x`) in ordered comparisons and LIKE; no ENCRYPTED tag is ever named `~x` for these
const ORD_NAMES: &[&str] = &["n", "t", "b", "ü"];
const METAS: &[Option<&str>] = &[None, Some(""), Some("meta"), Some("m\u{e9}t\u{e0}-\u{1F511}\u{0}x"), Some("{\"json\": true}")];

fn err_name(k: ErrorKind) -> &'static str {
    match k {
        ErrorKind::Backend => "Backend",
        ErrorKind::Busy => "Busy",
        ErrorKind::Custom => "Custom",
        ErrorKind::Duplicate => "Duplicate",
        ErrorKind::Encryption => "Encryption",
        ErrorKind::Input => "Input",
        ErrorKind::NotFound => "NotFound",
        ErrorKind::Unexpected => "Unexpected",
        ErrorKind::Unsupported => "Unsupported",
    }
}

thread_local! { static DIAG: std::cell::RefCell<Vec<String>> = std::cell::RefCell::new(vec![]); }

fn jerr(e: &aries_askar::Error) -> Value {
    DIAG.with(|d| d.borrow_mut().push(format!("{}", e).chars().take(160).collect()));
    json!({"err": err_name(e.kind())})
}

fn hex_or_err<T: AsRef<[u8]>>(r: Result<T, aries_askar::Error>) -> Value {
    match r { Ok(b) => json!(hex::encode(b.as_ref())), Err(e) => json!({"err": err_name(e.kind())}) }
}

// ---------------------------------------------------------------------------------------------------------------------
// keys

fn secret_len(alg: &str) -> usize {
    match alg { "a128gcm" | "a128kw" => 16, "a256cbchs512" => 64, "p384" => 48, _ => 32 }
}

fn make_key(k: &Value) -> Result<LocalKey, aries_askar::Error> {
    let alg = KeyAlg::from_str(k["alg"].as_str().unwrap_or("")).map_err(aries_askar::Error::from)?;
    let mat = hex::decode(k["mat"].as_str().unwrap_or("")).unwrap_or_default();
    match k["how"].as_str().unwrap_or("") {
        "seed" => LocalKey::from_seed(alg, &mat, None),
        "seed_empty" => LocalKey::from_seed(alg, &mat, Some("")),
        "bls_keygen" => LocalKey::from_seed(alg, &mat, Some("bls_keygen")),
        "secret" => LocalKey::from_secret_bytes(alg, &mat),
        "public" => LocalKey::from_public_bytes(alg, &mat),
        _ => Err(aries_askar::Error::from(ErrorKind::Input)),
    }
}

/// what the model is told about a key (its `KeyOps` instance is a table of these)
fn observables(key: &LocalKey) -> Value {
    json!({
        "thumbs": key.to_jwk_thumbprints().unwrap_or_default(),
        "jwk": hex_or_err(key.to_jwk_secret()),
        "sec": hex_or_err(key.to_secret_bytes()),
        "pub": hex_or_err(key.to_public_bytes()),
    })
}

fn gen_key(r: &mut Rng, alg: &str) -> Value {
    let sym = SYMMETRIC.contains(&alg);
    let bls = alg.starts_with("bls");
    for _ in 0..8 {
        let how = match r.below(8) { 0 | 1 | 2 => "secret", 3 if !sym => "public", 4 if bls => "bls_keygen", _ => "seed" };
        let mut k = match how {
            "secret" => json!({"alg": alg, "how": "secret", "mat": hex::encode(r.bytes(secret_len(alg)))}),
            "public" => {
                let full = json!({"alg": alg, "how": "seed", "mat": hex::encode(r.bytes(32))});
                match make_key(&full).and_then(|f| f.to_public_bytes()) {
                    Ok(p) => json!({"alg": alg, "how": "public", "mat": hex::encode(p.as_ref())}),
                    Err(_) => continue,
                }
            }
            h => json!({"alg": alg, "how": h, "mat": hex::encode(r.bytes(32))}),
        };
        if let Ok(key) = make_key(&k) {
            let o = observables(&key);
            for (f, v) in o.as_object().unwrap() { k[f] = v.clone(); }
            return k;
        }
    }
    panic!("cannot generate a key for {}", alg)
}

// ---------------------------------------------------------------------------------------------------------------------
// generators

fn utag(r: &mut Rng) -> Value {
    let plain = r.chance(2, 5);
    let mut name = *r.pick(UTAG_NAMES);
    // keep ciphertext order out of the comparison: no encrypted tag named `~x` for a name x used in ordered filters
    if !plain && name.starts_with('~') && ORD_NAMES.contains(&&name[1..]) { name = "~a"; }
    json!([if plain { 1 } else { 0 }, name, *r.pick(TAG_VALUES)])
}

fn utags(r: &mut Rng) -> Value {
    if r.chance(1, 8) { return Value::Null; }
    let n = match r.below(6) { 0 => 0, 1 => 1, 2 => 2, 3 => 3, 4 => 5, _ => 7 };
    let mut v: Vec<Value> = (0..n).map(|_| utag(r)).collect();
    if n > 1 && r.chance(1, 4) { let d = v[0].clone(); v.push(d); }
    Value::Array(v)
}

fn fname(r: &mut Rng, want_plain: Option<bool>) -> String {
    let plain = want_plain.unwrap_or_else(|| r.chance(1, 2));
    let n = *r.pick(UTAG_NAMES);
    if plain { format!("~{}", n) } else { n.to_string() }
}

/// in-domain user-tag filter: ordered comparison / LIKE only on plaintext names, no nested empty lists
fn filter(r: &mut Rng, depth: usize) -> Value {
    if depth == 0 || r.chance(2, 5) {
        match r.below(10) {
            0 | 1 | 2 => json!({"eq": [fname(r, None), *r.pick(TAG_VALUES)]}),
            3 => json!({"neq": [fname(r, None), *r.pick(TAG_VALUES)]}),
            4 => { let op = *r.pick(&["gt", "gte", "lt", "lte"]); json!({op: [format!("~{}", r.pick(ORD_NAMES)), *r.pick(TAG_VALUES)]}) }
            5 => json!({"like": [format!("~{}", r.pick(ORD_NAMES)), *r.pick(LIKE_PATTERNS)]}),
            6 | 7 => {
                let n = match r.below(5) { 0 => 0, 1 => 1, _ => 1 + r.below(4) };
                let vs: Vec<&str> = (0..n).map(|_| *r.pick(TAG_VALUES)).collect();
                json!({"in": [fname(r, None), vs]})
            }
            _ => {
                let n = match r.below(4) { 0 | 1 => 1, 2 => 2, _ => 3 };
                let ns: Vec<String> = (0..n).map(|_| fname(r, None)).collect();
                json!({"exist": ns})
            }
        }
    } else {
        match r.below(3) {
            0 => json!({"not": filter(r, depth - 1)}),
            k => {
                let n = 1 + r.below(3);
                let qs: Vec<Value> = (0..n).map(|_| filter(r, depth - 1)).collect();
                json!({ if k == 1 { "and" } else { "or" }: qs })
            }
        }
    }
}

/// a filter aimed at one of the tags that were actually written (so that matches happen)
fn aimed_filter(r: &mut Rng, written: &[Value]) -> Option<Value> {
    if written.is_empty() { return None; }
    let t = r.pick(written);
    let plain = t[0].as_i64().unwrap_or(0) != 0;
    let name = format!("{}{}", if plain { "~" } else { "" }, t[1].as_str().unwrap_or(""));
    Some(match r.below(4) {
        0 | 1 => json!({"eq": [name, t[2]]}),
        2 => json!({"exist": [name]}),
        _ => json!({"in": [name, [t[2], "zz"]]}),
    })
}

fn gen_ref(r: &mut Rng) -> Value {
    match r.below(12) { 0 => json!("mse"), 1 => json!({"any": "hsm-\u{1F512}"}), 2 => json!({"any": ""}), _ => Value::Null }
}

fn gen_meta(r: &mut Rng) -> Value {
    match r.below(9) {
        0 => { let n = *r.pick(&[23usize, 24, 255, 256, 300]); json!("m".repeat(n)) }
        _ => match r.pick(METAS) { Some(s) => json!(s), None => Value::Null },
    }
}

fn gen_expiry(r: &mut Rng, allow_past: bool) -> Value {
    match r.below(20) { 0 | 1 => json!(86_400_000i64), 2 if allow_past => json!(-3_600_000i64), _ => Value::Null }
}

fn gen_case(r: &mut Rng, id: u64, thorough: bool, raw: bool) -> Value {
    // key table: the algorithm of the case's turn is always present, so that all 16 are covered by any 16 consecutive cases
    let nkeys = 2 + r.below(3);
    let mut keys = vec![gen_key(r, ALGS[(id as usize) % ALGS.len()])];
    for _ in 1..nkeys {
        let alg = if r.chance(1, 3) { keys[0]["alg"].as_str().unwrap().to_string() } else { r.pick(ALGS).to_string() };
        keys.push(gen_key(r, &alg));
    }
    let names = &KEY_NAMES[..if r.chance(1, 4) { KEY_NAMES.len() } else { 4 }];
    let nops = if thorough { 12 + r.below(30) } else { 10 + r.below(16) };
    let mut ops = vec![];
    let mut written: Vec<Value> = vec![];
    let mut thumbs: Vec<String> = vec![];
    for k in &keys { for t in k["thumbs"].as_array().unwrap() { thumbs.push(t.as_str().unwrap().to_string()); } }
    let note = |w: &mut Vec<Value>, t: &Value| { if let Some(a) = t.as_array() { w.extend(a.iter().cloned()); } };
    // names already used by an insert: reads, updates and removals mostly aim at them
    let mut used: Vec<&str> = vec![];
    let aim = |r: &mut Rng, used: &Vec<&'static str>, names: &[&'static str]| -> &'static str { if !used.is_empty() && r.chance(3, 4) { *r.pick(used) } else { *r.pick(names) } };
    for i in 0..nops {
        let front = i < 3;
        let pick = if front { 0 } else { r.below(20) };
        let op = match pick {
            0..=3 => {
                let t = utags(r);
                note(&mut written, &t);
                let nm = *r.pick(names);
                used.push(nm);
                json!({"op": "insert_key", "n": nm, "key": r.below(keys.len()), "meta": gen_meta(r), "ref": gen_ref(r), "t": t, "e": gen_expiry(r, false)})
            }
            4..=6 => {
                let t = utags(r);
                note(&mut written, &t);
                json!({"op": "update_key", "n": aim(r, &used, names), "meta": gen_meta(r), "t": t, "e": gen_expiry(r, true)})
            }
            7 | 8 => json!({"op": "remove_key", "n": aim(r, &used, names)}),
            9..=11 => json!({"op": "fetch_key", "n": aim(r, &used, names)}),
            12 if raw => {
                // a Kms row written behind the key API
                let data = match r.below(4) { 0 => Value::Null, 1 => json!(hex::encode(b"junk")), _ => keys[r.below(keys.len())]["jwk"].clone() };
                let data = if data.is_string() { data } else { Value::Null };
                let v = match r.below(6) {
                    0 => json!(""), 1 => json!("ff"), 2 => json!("00"),
                    _ => json!(hex::encode(cbor_params(gen_meta(r).as_str(), &gen_ref(r), data.as_str().map(|h| hex::decode(h).unwrap()).as_deref()))),
                };
                let mut t: Vec<Value> = utags(r).as_array().cloned().unwrap_or_default();
                for _ in 0..r.below(4) {
                    t.push(match r.below(6) {
                        0 => json!([0, "alg", *r.pick(ALGS)]),
                        1 => json!([1, "alg", *r.pick(ALGS)]),
                        2 => json!([0, "thumb", r.pick(&thumbs)]),
                        3 => json!([1, "thumb", "plain-thumb"]),
                        4 => json!([0, "user:a", *r.pick(TAG_VALUES)]),
                        _ => json!([r.below(2), "other", "x"]),
                    });
                }
                json!({"op": "raw_insert", "k": 1, "n": *r.pick(names), "v": v, "t": t})
            }
            12 | 13 => json!({"op": "raw_insert", "k": 2, "n": *r.pick(names), "v": "6974656d", "t": [[0, "alg", *r.pick(ALGS)], [0, "user:a", "1"]]}),
            14 => json!({"op": "item_fetch", "n": *r.pick(names)}),
            15 => json!({"op": "dump"}),
            _ => {
                let alg = match r.below(5) { 0 | 1 => json!(keys[r.below(keys.len())]["alg"]), 2 => json!(*r.pick(ALGS)), 3 if r.chance(1, 4) => json!("aes128gcm"), _ => Value::Null };
                let thumb = match r.below(6) { 0 | 1 => json!(r.pick(&thumbs)), 2 if r.chance(1, 3) => json!("nonexistent"), _ => Value::Null };
                let f = match r.below(10) {
                    0 | 1 | 2 => Value::Null,
                    3 | 4 | 5 => aimed_filter(r, &written).unwrap_or(Value::Null),
                    6 => match r.below(3) { 0 => json!({"and": []}), 1 => json!({"or": []}), _ => json!({"exist": []}) },
                    _ => filter(r, 2),
                };
                // (with rows written behind the API, WHICH rows a limit keeps decides whether the call fails: no limit there)
                let lim = if raw { Value::Null } else { match r.below(8) { 0 => json!(0), 1 => json!(1), 2 => json!(2), 3 if r.chance(1, 3) => json!(-1), _ => Value::Null } };
                json!({"op": "fetch_all_keys", "alg": alg, "thumb": thumb, "f": f, "lim": lim})
            }
        };
        ops.push(op);
    }
    ops.push(json!({"op": "fetch_all_keys", "alg": null, "thumb": null, "f": null, "lim": null}));
    ops.push(json!({"op": "dump"}));
    json!({"kind": if raw { "c11:raw" } else { "c11" }, "id": id, "txn": r.chance(1, 3), "file": false, "keys": keys, "ops": ops})
}

/// the two defects of section 5 as directed cases (they also arise at random)
fn directed(id: u64, r: &mut Rng) -> Vec<Value> {
    let ed = gen_key(r, "ed25519");
    let aes = gen_key(r, "a128gcm");
    vec![
        json!({"kind": "c11", "id": id, "txn": false, "file": false, "keys": [ed], "ops": [
            {"op": "insert_key", "n": "k1", "key": 0, "meta": null, "ref": null, "t": [[1, "t", "v"], [0, "e", "w"]], "e": null},
            {"op": "fetch_all_keys", "alg": null, "thumb": null, "f": {"eq": ["e", "w"]}, "lim": null},
            {"op": "fetch_all_keys", "alg": null, "thumb": null, "f": {"eq": ["~t", "v"]}, "lim": null},
            {"op": "fetch_all_keys", "alg": null, "thumb": null, "f": {"not": {"exist": ["~t"]}}, "lim": null},
        ]}),
        json!({"kind": "c11", "id": id + 1, "txn": false, "file": false, "keys": [aes], "ops": [
            {"op": "insert_key", "n": "k1", "key": 0, "meta": "m", "ref": null, "t": null, "e": null},
            {"op": "fetch_key", "n": "k1"},
        ]}),
    ]
}

/// gap row 20: seeded keys of every seed length and method, stored and read back; `from_seed` alone on the refusing inputs
fn gen_seed_case(r: &mut Rng, id: u64, idx: usize) -> Value {
    let alg = ALGS[idx % ALGS.len()];
    let base = r.bytes(64);
    let recipes: Vec<(&str, Vec<u8>)> = vec![
        ("seed", vec![]), ("seed", base[..31].to_vec()), ("seed", base[..32].to_vec()), ("seed", base[..33].to_vec()), ("seed", base.clone()),
        ("seed_empty", base[..32].to_vec()), ("bls_keygen", base[..32].to_vec()), ("bls_keygen", base.clone()),
    ];
    let mut keys = vec![];
    for (how, mat) in &recipes {
        let mut k = json!({"alg": alg, "how": how, "mat": hex::encode(mat)});
        let key = make_key(&k).expect("seeded key");
        let o = observables(&key);
        for (f, v) in o.as_object().unwrap() { k[f] = v.clone(); }
        keys.push(k);
    }
    let method = |how: &str| -> Value { match how { "seed" => Value::Null, "seed_empty" => json!(""), _ => json!("bls_keygen") } };
    let mut ops = vec![];
    for (i, _) in recipes.iter().enumerate() {
        ops.push(json!({"op": "insert_key", "n": format!("s{}", i), "key": i, "meta": if i % 2 == 0 { Value::Null } else { json!(format!("seeded {}", i)) }, "ref": null,
                        "t": if i == 2 { json!([[0, "a", "1"]]) } else { Value::Null }, "e": null}));
        ops.push(json!({"op": "fetch_key", "n": format!("s{}", i)}));
    }
    for (how, mat) in &recipes { ops.push(json!({"op": "from_seed", "alg": alg, "seed": hex::encode(mat), "method": method(how)})); }
    // refused: unknown methods (any seed), bls_keygen with fewer than 32 bytes
    for m in ["BLS_KEYGEN", "bls-keygen", "bls_keygen ", "random", "\u{0}"] { ops.push(json!({"op": "from_seed", "alg": alg, "seed": hex::encode(&base[..32]), "method": m})); }
    ops.push(json!({"op": "from_seed", "alg": alg, "seed": "", "method": "bogus"}));
    for n in [0usize, 1, 31] { ops.push(json!({"op": "from_seed", "alg": alg, "seed": hex::encode(&base[..n]), "method": "bls_keygen"})); }
    ops.push(json!({"op": "update_key", "n": "s1", "meta": "updated", "t": [[1, "n", "5"]], "e": null}));
    ops.push(json!({"op": "fetch_key", "n": "s1"}));
    ops.push(json!({"op": "remove_key", "n": "s0"}));
    ops.push(json!({"op": "fetch_all_keys", "alg": alg, "thumb": null, "f": null, "lim": null}));
    // the 32-, 33- and 64-byte seeds (and the empty method) are one key: one thumbprint finds all four entries
    ops.push(json!({"op": "fetch_all_keys", "alg": null, "thumb": keys[2]["thumbs"][0], "f": null, "lim": null}));
    ops.push(json!({"op": "fetch_all_keys", "alg": null, "thumb": keys[7]["thumbs"][0], "f": null, "lim": null}));
    ops.push(json!({"op": "dump"}));
    json!({"kind": "c11:seed", "id": id, "txn": idx % 3 == 0, "file": false, "keys": keys, "ops": ops})
}

pub fn gen(r: &mut Rng, thorough: bool, count: Option<usize>) -> Vec<Value> {
    let n = count.unwrap_or(if thorough { 12000 } else { 480 });
    let mut out = vec![];
    let mut rr = r.fork();
    out.extend(directed(0, &mut rr));
    for i in 2..n.max(2) as u64 {
        let mut rr = r.fork();
        let raw = i % 5 == 4;
        out.push(gen_case(&mut rr, i, thorough, raw));
    }
    out.truncate(n.max(1));
    // gap kind last (ids after the others, which keep theirs)
    let mut rs = r.fork();
    for i in 0..(n / 30).max(1) { let mut rr = rs.fork(); out.push(gen_seed_case(&mut rr, (n + i) as u64, i)); }
    out
}

// ---------------------------------------------------------------------------------------------------------------------
// independent encodings used by the oracle

fn cbor_head(major: u8, n: usize, out: &mut Vec<u8>) {
    let m = major << 5;
    if n < 24 { out.push(m | n as u8); }
    else if n < 0x100 { out.push(m | 24); out.push(n as u8); }
    else if n < 0x10000 { out.push(m | 25); out.extend_from_slice(&(n as u16).to_be_bytes()); }
    else if n < 0x1_0000_0000 { out.push(m | 26); out.extend_from_slice(&(n as u32).to_be_bytes()); }
    else { out.push(m | 27); out.extend_from_slice(&(n as u64).to_be_bytes()); }
}
fn cbor_text(s: &str, out: &mut Vec<u8>) { cbor_head(3, s.len(), out); out.extend_from_slice(s.as_bytes()); }

/// RFC 8949 encoding of `KeyParams` as docs/storage.md describes it: a map with the text keys `meta`, `ref`, `data`
/// (absent when None); `ref` is the text `MobileSecureElement` or the map {"Any": text}; `data` is a byte string
pub fn cbor_params(meta: Option<&str>, rf: &Value, data: Option<&[u8]>) -> Vec<u8> {
    let mut out = vec![];
    let n = meta.is_some() as usize + (!rf.is_null()) as usize + data.is_some() as usize;
    cbor_head(5, n, &mut out);
    if let Some(m) = meta { cbor_text("meta", &mut out); cbor_text(m, &mut out); }
    if !rf.is_null() {
        cbor_text("ref", &mut out);
        if rf == "mse" { cbor_text("MobileSecureElement", &mut out); }
        else { cbor_head(5, 1, &mut out); cbor_text("Any", &mut out); cbor_text(rf["any"].as_str().unwrap_or(""), &mut out); }
    }
    if let Some(d) = data { cbor_text("data", &mut out); cbor_head(2, d.len(), &mut out); out.extend_from_slice(d); }
    out
}

fn key_ref(v: &Value) -> Option<KeyReference> {
    if v.is_null() { None }
    else if v == "mse" { Some(KeyReference::MobileSecureElement) }
    else { Some(KeyReference::Any(v["any"].as_str().unwrap_or("").to_string())) }
}

fn filter_has_plain_name(f: &Value) -> bool {
    match f {
        Value::Object(o) => o.iter().any(|(k, x)| match k.as_str() {
            "and" | "or" => x.as_array().map_or(false, |a| a.iter().any(filter_has_plain_name)),
            "not" => filter_has_plain_name(x),
            "exist" => x.as_array().map_or(false, |a| a.iter().any(|n| n.as_str().map_or(false, |s| s.starts_with('~')))),
            _ => x[0].as_str().map_or(false, |s| s.starts_with('~')),
        }),
        _ => false,
    }
}

// ---------------------------------------------------------------------------------------------------------------------
// reference oracle: a map name -> what was stored, as the property text describes it

#[derive(Clone)]
struct RefKey { key: usize, meta: Option<String>, rf: Value, tags: Vec<Tag>, expiry: Option<i128>, seq: u64 }

struct Oracle {
    keys: BTreeMap<String, RefKey>,
    raw_kms: BTreeSet<String>, // names of Kms rows written behind the API (the property says nothing about them)
    now: i128,
    seq: u64,
}

impl Oracle {
    fn live(&self, k: &RefKey) -> bool { k.expiry.map_or(true, |e| e.div_euclid(1000) > self.now.div_euclid(1000)) }
}

fn entry_json(e: &KeyEntry) -> Value {
    let tags: Vec<Value> = e.tags_as_slice().iter().map(|t| Tag::from_entry_tag(t).to_json()).collect();
    let load = match e.load_local_key() {
        Ok(k) => json!({"alg": k.algorithm().as_str(), "sec": hex_or_err(k.to_secret_bytes()), "pub": hex_or_err(k.to_public_bytes()),
                        "thumbs": k.to_jwk_thumbprints().unwrap_or_default()}),
        Err(e) => jerr(&e),
    };
    json!({"n": e.name(), "alg": e.algorithm(), "meta": e.metadata(), "local": e.is_local(), "t": tags, "load": load})
}

/// what the property says a stored key must look like when read back
fn expected_entry(name: &str, k: &RefKey, key: &LocalKey) -> Value {
    json!({"n": name, "alg": key.algorithm().as_str(), "meta": k.meta, "local": k.rf.is_null(),
           "t": sorted_tags(&k.tags).iter().map(Tag::to_json).collect::<Vec<_>>(),
           "load": {"alg": key.algorithm().as_str(), "sec": hex_or_err(key.to_secret_bytes()), "pub": hex_or_err(key.to_public_bytes()),
                    "thumbs": key.to_jwk_thumbprints().unwrap_or_default()}})
}

/// compare an observed entry with the expected one; returns oracle failures
fn judge_entry(op: &str, i: usize, exp: &Value, got: &Value, alg: &str, judge_load: bool, out: &mut Vec<Value>) {
    for f in ["n", "alg", "meta", "local"] {
        if exp[f] != got[f] { out.push(json!({"sig": format!("{}:entry-{}-differs", op, f), "i": i, "expected": exp[f], "got": got[f]})); }
    }
    // user tags: same multiset (the order of the returned list is not part of the property)
    let norm = |v: &Value| { let mut t = tags_from_json(v).unwrap_or_default(); t.sort(); t };
    if norm(&exp["t"]) != norm(&got["t"]) { out.push(json!({"sig": format!("{}:entry-tags-differ", op), "i": i, "expected": exp["t"], "got": got["t"]})); }
    if judge_load {
        if let Some(e) = got["load"].get("err") {
            let class = if SYMMETRIC.contains(&alg) { "symmetric-key-load" } else { "key-load" };
            out.push(json!({"sig": format!("{}:{}:ok->err:{}", op, class, e.as_str().unwrap_or("?")), "i": i, "alg": alg}));
        } else if exp["load"] != got["load"] {
            out.push(json!({"sig": format!("{}:loaded-key-differs", op), "i": i, "alg": alg, "expected": exp["load"], "got": got["load"]}));
        }
    }
    // a key with an external reference: the property does not say what loading it yields
}

pub fn exec(case: &Value, tag: &str) -> Value {
    let raw_case = case["kind"].as_str() == Some("c11:raw");
    let txn = case["txn"].as_bool().unwrap_or(false);
    let keys_json = case["keys"].as_array().cloned().unwrap_or_default();
    let mut feat: BTreeMap<String, u64> = BTreeMap::new();
    let mut oracle_fail: Vec<Value> = vec![];
    let keys: Vec<LocalKey> = keys_json.iter().map(|k| make_key(k).expect("key recipe")).collect();
    for (k, j) in keys.iter().zip(keys_json.iter()) {
        *feat.entry(format!("alg:{}", j["alg"].as_str().unwrap_or("?"))).or_insert(0) += 1;
        *feat.entry(format!("how:{}", j["how"].as_str().unwrap_or("?"))).or_insert(0) += 1;
        // the observables the model was given are those of the key the executor uses
        let o = observables(k);
        for f in ["thumbs", "jwk", "sec", "pub"] { if o[f] != j[f] { oracle_fail.push(json!({"sig": format!("key-table:{}-not-reproducible", f), "alg": j["alg"]})); } }
        let want = if j["alg"] == "bls12381g1g2" { 2 } else { 1 };
        if o["thumbs"].as_array().map_or(0, |a| a.len()) != want { oracle_fail.push(json!({"sig": "thumbprints:wrong-count", "alg": j["alg"]})); }
        // the INDEXED thumbprints, judged without `to_jwk_thumbprints`: a key is found under its own RFC 7638 thumbprint; a BLS
        // G1G2 key under the thumbprints of its G1 and of its G2 key (the single-algorithm thumbprint function, per view)
        let views: Vec<Option<KeyAlg>> = if j["alg"] == "bls12381g1g2" {
            vec![Some(KeyAlg::Bls12_381(aries_askar::crypto::alg::BlsCurves::G1)), Some(KeyAlg::Bls12_381(aries_askar::crypto::alg::BlsCurves::G2))]
        } else { vec![None] };
        let want_thumbs: Vec<Value> = views.into_iter().filter_map(|a| k.to_jwk_thumbprint(a).ok()).map(Value::String).collect();
        if !want_thumbs.is_empty() && o["thumbs"].as_array() != Some(&want_thumbs) {
            oracle_fail.push(json!({"sig": format!("thumbprints:indexed-set-differs-from-per-view-thumbprints:{}", j["alg"].as_str().unwrap_or("?")), "want": want_thumbs, "got": o["thumbs"]}));
        }
    }
    let (backend, path) = provision(case["file"].as_bool().unwrap_or(false), "default", "", tag);
    let store = Store::from(backend.clone());
    let now = now_ms();
    let mut o = Oracle { keys: BTreeMap::new(), raw_kms: BTreeSet::new(), now: now as i128, seq: 0 };
    let ops = case["ops"].as_array().cloned().unwrap_or_default();
    let mut outs = vec![];
    block_on(async {
        for (i, op) in ops.iter().enumerate() {
            let name = op["op"].as_str().unwrap_or("");
            *feat.entry(format!("op:{}", name)).or_insert(0) += 1;
            let n = op["n"].as_str().unwrap_or("").to_string();
            let tags_j = tags_from_json(&op["t"]);
            let etags = tags_j.as_ref().map(|ts| ts.iter().map(Tag::to_entry_tag).collect::<Vec<_>>());
            let meta = op["meta"].as_str();
            let e = op["e"].as_i64();
            let got: Value = match name {
                "raw_insert" => {
                    let mut s = backend.session(None, false).expect("session");
                    let v = hex::decode(op["v"].as_str().unwrap_or("")).unwrap_or_default();
                    let r = s.update(kind_of(op["k"].as_i64().unwrap_or(2)), EntryOperation::Insert, "cryptokey", &n, Some(&v), etags.as_deref(), None).await;
                    let r = match r { Ok(()) => json!("ok"), Err(e) => crate::canon::jerr(&e) };
                    s.close(true).await.ok();
                    r
                }
                "from_seed" => {
                    let seed = hex::decode(op["seed"].as_str().unwrap_or("")).unwrap_or_default();
                    match KeyAlg::from_str(op["alg"].as_str().unwrap_or("")) {
                        Err(_) => json!({"err": "BadOp"}),
                        Ok(alg) => match LocalKey::from_seed(alg, &seed, op["method"].as_str()) {
                            Ok(k) => json!({"sec": hex_or_err(k.to_secret_bytes())}),
                            Err(e) => jerr(&e),
                        },
                    }
                }
                "dump" => {
                    let mut all = vec![];
                    let mut err = None;
                    match backend.scan(None, None, None, None, None, None, Some(OrderBy::Id), false).await {
                        Ok(mut scan) => loop {
                            match scan.fetch_next().await {
                                Ok(Some(rows)) => all.extend(rows.iter().map(Rec::from_entry)),
                                Ok(None) => break,
                                Err(e) => { err = Some(crate::canon::jerr(&e)); break; }
                            }
                        },
                        Err(e) => err = Some(crate::canon::jerr(&e)),
                    }
                    match err { Some(e) => e, None => Value::Array(all.iter().map(Rec::to_json).collect()) }
                }
                _ => {
                    let sess = if txn { store.transaction(None).await } else { store.session(None).await };
                    match sess {
                        Err(e) => jerr(&e),
                        Ok(mut s) => {
                            let r = match name {
                                "insert_key" => match s.insert_key(&n, &keys[op["key"].as_u64().unwrap_or(0) as usize], meta, key_ref(&op["ref"]), etags.as_deref(), e).await {
                                    Ok(()) => json!("ok"), Err(e) => jerr(&e) },
                                "update_key" => match s.update_key(&n, meta, etags.as_deref(), e).await { Ok(()) => json!("ok"), Err(e) => jerr(&e) },
                                "remove_key" => match s.remove_key(&n).await { Ok(()) => json!("ok"), Err(e) => jerr(&e) },
                                "fetch_key" => match s.fetch_key(&n, false).await { Ok(None) => Value::Null, Ok(Some(k)) => entry_json(&k), Err(e) => jerr(&e) },
                                "item_fetch" => match s.fetch("cryptokey", &n, false).await {
                                    Ok(None) => Value::Null, Ok(Some(en)) => Rec::from_entry(&en).to_json(), Err(e) => jerr(&e) },
                                "fetch_all_keys" => {
                                    let f: Option<TagFilter> = op.get("f").filter(|f| !f.is_null()).and_then(filter_from_json);
                                    match s.fetch_all_keys(op["alg"].as_str(), op["thumb"].as_str(), f, op["lim"].as_i64(), false).await {
                                        Ok(rows) => {
                                            let mut es: Vec<Value> = rows.iter().map(entry_json).collect();
                                            es.sort_by(|a, b| a["n"].as_str().unwrap_or("").as_bytes().cmp(b["n"].as_str().unwrap_or("").as_bytes()));
                                            json!({"rows": es})
                                        }
                                        Err(e) => jerr(&e),
                                    }
                                }
                                _ => json!({"err": "BadOp"}),
                            };
                            if txn { s.commit().await.ok(); } else { drop(s); }
                            r
                        }
                    }
                }
            };
            if let Some(e) = got.get("err") { *feat.entry(format!("err:{}", e.as_str().unwrap_or("?"))).or_insert(0) += 1; }
            // which rows a LIMIT without ORDER BY keeps is unspecified: the correspondence compares their number only
            let limited = name == "fetch_all_keys" && op["lim"].as_i64().map_or(false, |l| l >= 0) && got.get("rows").is_some();
            let emitted = if limited { json!({"count": got["rows"].as_array().map_or(0, |a| a.len())}) } else { got.clone() };

            // ---- the property's verdict on this call ----
            let now_i = o.now;
            let shadow = o.keys.get(&n).map_or(false, |k| !o.live(k));
            let rawname = o.raw_kms.contains(&n);
            let short = |v: &Value| -> String { if let Some(e) = v.get("err") { format!("err:{}", e.as_str().unwrap_or("?")) } else if v.is_null() { "none".into() } else if v == "ok" { "ok".into() } else { "data".into() } };
            match name {
                "raw_insert" => { if op["k"].as_i64() == Some(1) && got == "ok" { o.raw_kms.insert(n.clone()); } }
                "from_seed" => {
                    let m = op["method"].as_str();
                    let slen = op["seed"].as_str().map_or(0, |h| h.len() / 2);
                    let class = match m { None | Some("") => "det", Some("bls_keygen") => "bls_keygen", _ => "unknown" };
                    let exp = match class { "unknown" => "err:Unsupported", "bls_keygen" if slen < 32 => "err:Input", _ => "data" };
                    if short(&got) != exp { oracle_fail.push(json!({"sig": format!("from_seed:{}:{}->{}", class, exp, short(&got)), "i": i, "alg": op["alg"]})); }
                    // the same recipe as a key of the table: the same key
                    let how = match class { "det" if m.is_none() => "seed", "det" => "seed_empty", "bls_keygen" => "bls_keygen", _ => "-" };
                    for kj in keys_json.iter().filter(|kj| kj["alg"] == op["alg"] && kj["how"] == how && kj["mat"] == op["seed"]) {
                        if got["sec"] != kj["sec"] { oracle_fail.push(json!({"sig": "from_seed:not-deterministic", "i": i, "alg": op["alg"]})); }
                    }
                    // OBSERVATION, outside the property statement (C11 does not say that distinct seeds give distinct keys): a default-method
                    // seed is cut to 32 bytes / zero-padded by `RandomDet::new`, so different seeds of the table can be one key
                    if class == "det" && got.get("sec").is_some() {
                        for kj in keys_json.iter().filter(|kj| kj["alg"] == op["alg"] && (kj["how"] == "seed" || kj["how"] == "seed_empty") && kj["mat"] != op["seed"] && kj["sec"] == got["sec"]) {
                            let (la, lb) = (kj["mat"].as_str().map_or(0, |h| h.len() / 2), slen);
                            let c = if la >= 32 && lb >= 32 { "bytes-beyond-32-ignored" } else { "zero-padded" };
                            *feat.entry(format!("obs:from_seed:seed-collision:{}", c)).or_insert(0) += 1;
                            DIAG.with(|d| { let mut d = d.borrow_mut(); if d.len() < 8 { d.push(format!("obs from_seed:seed-collision:{} alg={} seed_a={} seed_b={}", c, op["alg"], kj["mat"], op["seed"])); } });
                        }
                    }
                }
                "insert_key" if !shadow && !rawname => {
                    let present = o.keys.contains_key(&n);
                    let exp = if present { json!({"err": "Duplicate"}) } else { json!("ok") };
                    if exp != got { oracle_fail.push(json!({"sig": format!("insert_key:{}->{}", short(&exp), short(&got)), "i": i, "alg": keys_json[op["key"].as_u64().unwrap_or(0) as usize]["alg"]})); }
                    if got == "ok" {
                        o.seq += 1;
                        o.keys.insert(n.clone(), RefKey { key: op["key"].as_u64().unwrap_or(0) as usize, meta: meta.map(|s| s.to_string()), rf: op["ref"].clone(),
                            tags: tags_j.clone().unwrap_or_default(), expiry: e.map(|ms| now_i + ms as i128), seq: o.seq });
                    }
                }
                "update_key" if !shadow && !rawname => {
                    let exp = if o.keys.contains_key(&n) { json!("ok") } else { json!({"err": "NotFound"}) };
                    if exp != got { oracle_fail.push(json!({"sig": format!("update_key:{}->{}", short(&exp), short(&got)), "i": i})); }
                    if got == "ok" {
                        let now = o.now;
                        if let Some(k) = o.keys.get_mut(&n) { k.meta = meta.map(|s| s.to_string()); k.tags = tags_j.clone().unwrap_or_default(); k.expiry = e.map(|ms| now + ms as i128); }
                    }
                }
                "remove_key" if !shadow && !rawname => {
                    let exp = if o.keys.contains_key(&n) { json!("ok") } else { json!({"err": "NotFound"}) };
                    if exp != got { oracle_fail.push(json!({"sig": format!("remove_key:{}->{}", short(&exp), short(&got)), "i": i})); }
                    if got == "ok" { o.keys.remove(&n); }
                }
                "insert_key" | "update_key" | "remove_key" => {
                    // expired shadow (C17's subject) or a row written behind the API: follow the implementation
                    *feat.entry("oracle-undetermined".into()).or_insert(0) += 1;
                    if got == "ok" {
                        match name {
                            "remove_key" => { o.keys.remove(&n); o.raw_kms.remove(&n); }
                            "insert_key" => { o.seq += 1; o.keys.insert(n.clone(), RefKey { key: op["key"].as_u64().unwrap_or(0) as usize, meta: meta.map(|s| s.to_string()), rf: op["ref"].clone(),
                                tags: tags_j.clone().unwrap_or_default(), expiry: e.map(|ms| now_i + ms as i128), seq: o.seq }); }
                            _ => {}
                        }
                    }
                }
                "fetch_key" if !rawname => {
                    match o.keys.get(&n).filter(|k| o.live(k)) {
                        None => if !got.is_null() { oracle_fail.push(json!({"sig": format!("fetch_key:none->{}", short(&got)), "i": i})); },
                        Some(k) => {
                            if got.is_null() || got.get("err").is_some() { oracle_fail.push(json!({"sig": format!("fetch_key:data->{}", short(&got)), "i": i})); }
                            else { judge_entry("fetch_key", i, &expected_entry(&n, k, &keys[k.key]), &got, keys_json[k.key]["alg"].as_str().unwrap_or(""), k.rf != "mse", &mut oracle_fail); }
                        }
                    }
                }
                "item_fetch" => {
                    // keys are not visible as ordinary records (kind separation) — unless an Item row of that name was written
                    if let Some(k) = got.get("k") { if k != &json!(2) { oracle_fail.push(json!({"sig": "item_fetch:returns-kms-row", "i": i})); } }
                }
                "fetch_all_keys" if !(raw_case && !o.raw_kms.is_empty()) => {
                    let f = op.get("f").filter(|f| !f.is_null());
                    let mut want: Vec<(&String, &RefKey)> = o.keys.iter().filter(|(_, k)| o.live(k)
                        && op["alg"].as_str().map_or(true, |a| keys_json[k.key]["alg"] == a)
                        && op["thumb"].as_str().map_or(true, |t| keys_json[k.key]["thumbs"].as_array().map_or(false, |a| a.iter().any(|x| x == t)))
                        && f.map_or(true, |f| ref_holds(f, &k.tags, false))).collect();
                    want.sort_by_key(|(_, k)| k.seq);
                    let ctx = if f.map_or(false, filter_has_plain_name) { "plaintext-user-tag-filter" } else if f.is_some() { "encrypted-user-tag-filter" } else { "no-tag-filter" };
                    if f.is_some() { *feat.entry(format!("filter:{}", ctx)).or_insert(0) += 1; }
                    match got["rows"].as_array() {
                        None => oracle_fail.push(json!({"sig": format!("fetch_all_keys:{}:data->{}", ctx, short(&got)), "i": i})),
                        Some(rows) => {
                            let got_names: BTreeSet<String> = rows.iter().map(|r| r["n"].as_str().unwrap_or("").to_string()).collect();
                            let want_names: BTreeSet<String> = want.iter().map(|(n, _)| (*n).clone()).collect();
                            let lim = op["lim"].as_i64().filter(|l| *l >= 0);
                            let ok = match lim {
                                None => got_names == want_names && rows.len() == want.len(),
                                Some(l) => got_names.is_subset(&want_names) && rows.len() == want.len().min(l as usize) && got_names.len() == rows.len(),
                            };
                            if !want.is_empty() { *feat.entry("fetch_all:nonempty".into()).or_insert(0) += 1; }
                            if !want.is_empty() && want.len() < o.keys.len() { *feat.entry("fetch_all:proper-subset".into()).or_insert(0) += 1; }
                            if !ok {
                                let dir = if got_names.is_subset(&want_names) { "missing" } else if want_names.is_subset(&got_names) { "extra" } else { "different" };
                                oracle_fail.push(json!({"sig": format!("fetch_all_keys:{}:{}", ctx, dir), "i": i, "want": want_names, "got": got_names, "f": f}));
                            }
                            for r in rows {
                                let nm = r["n"].as_str().unwrap_or("").to_string();
                                if let Some(k) = o.keys.get(&nm) { judge_entry("fetch_all_keys", i, &expected_entry(&nm, k, &keys[k.key]), r, keys_json[k.key]["alg"].as_str().unwrap_or(""), k.rf != "mse", &mut oracle_fail); }
                            }
                        }
                    }
                }
                "dump" => {
                    // the stored form of every live key: kind Kms, category cryptokey, CBOR{meta?, ref?, data = secret JWK}, tags alg / thumb* / user:*
                    if let Some(rows) = got.as_array() {
                        for (nm, k) in o.keys.iter().filter(|(nm, k)| o.live(k) && !o.raw_kms.contains(*nm)) {
                            let row = rows.iter().find(|r| r["k"] == 1 && r["c"] == "cryptokey" && r["n"] == nm.as_str());
                            let jwk = keys_json[k.key]["jwk"].as_str().map(|h| hex::decode(h).unwrap_or_default());
                            let mut want_tags: Vec<Tag> = vec![Tag { plain: false, name: "alg".into(), value: keys_json[k.key]["alg"].as_str().unwrap_or("").into() }];
                            for t in keys_json[k.key]["thumbs"].as_array().unwrap() { want_tags.push(Tag { plain: false, name: "thumb".into(), value: t.as_str().unwrap().into() }); }
                            for t in &k.tags { want_tags.push(Tag { plain: t.plain, name: format!("user:{}", t.name), value: t.value.clone() }); }
                            let want_v = jvalue(&cbor_params(k.meta.as_deref(), &k.rf, jwk.as_deref()));
                            let want_t: Vec<Value> = sorted_tags(&want_tags).iter().map(Tag::to_json).collect();
                            match row {
                                None => oracle_fail.push(json!({"sig": "dump:key-row-missing", "i": i, "n": nm})),
                                Some(r) => {
                                    if r["v"] != want_v { oracle_fail.push(json!({"sig": "dump:stored-value-not-cbor-keyparams", "i": i, "n": nm, "expected": want_v, "got": r["v"]})); }
                                    if r["t"] != json!(want_t) { oracle_fail.push(json!({"sig": "dump:stored-tags-differ", "i": i, "n": nm, "expected": want_t, "got": r["t"]})); }
                                }
                            }
                        }
                    } else { oracle_fail.push(json!({"sig": format!("dump:data->{}", short(&got)), "i": i})); }
                }
                _ => { *feat.entry("oracle-undetermined".into()).or_insert(0) += 1; }
            }
            outs.push(emitted);
        }
        drop(store);
        backend.close().await.ok();
    });
    cleanup(&path);
    let diag: Vec<String> = DIAG.with(|d| d.borrow_mut().drain(..).collect());
    json!({"out": outs, "oracle": oracle_fail, "feat": feat, "now": now, "diag": diag})
}
