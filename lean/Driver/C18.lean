/- Driver for `kind = "c18"` (and `"c18:…"`) cases. -/
import Driver.Common

open Lean

namespace Driver.C18

def runCase (_j : Json) : Json := jerr "not implemented"

end Driver.C18
