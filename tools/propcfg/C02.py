"""C02 — nothing secret is stored in the clear (encryption at rest)."""

CFG = {
    "feature": "c02",
    "gens": ["C02"],
    "rule": (
        "one case = one write history over ONE file-backed SQLite store (plus the target file of copy_to), key method raw / "
        "kdf:argon2i:13:int / none in the quick tier (kdf:argon2i:13:mod one case in 20 of the thorough tier), journal mode WAL "
        "(3 of 4) or journal_mode=delete (URI parameter).  14-32 calls (20-70 thorough): insert / replace (a third with the value "
        "already stored) / remove / remove-then-insert of the same record / remove_all, count, scan, fetch with tag filters "
        "($eq $neq $in $exist $like $gte under $and $or $not, encrypted and plaintext names) / insert_key through aries_askar::Store "
        "(ed25519 x25519 p256 k256 bls12381g1g2 c20p a256gcm, LocalKey::from_seed) / create_profile / remove_profile / "
        "set_default_profile / rekey and copy_to over every ordered pair of {raw, kdf, none} / wal_checkpoint(TRUNCATE) / close+open.  "
        "Every category, name, value, tag name, tag value, key name, key metadata, pass key and profile name is a fresh marker "
        "(class prefix + 20 random alphanumerics from the case seed, some with a non-ASCII tail; values are 0-60 random bytes or "
        "2.5-40 KiB so that overflow pages occur, searched by three 24-byte windows).  A skeleton forces one replace, one same-value "
        "rewrite, one KMS insert, one re-key, one copy and one re-insert into every history.  After EVERY call, after every close and "
        "once more after the final out-of-band read the executor reads *.db, *.db-wal, *.db-shm, *.db-journal of the store and of the "
        "copy target with std::fs::read and searches them for every marker, pass key, base58 raw key, raw key bytes, store key "
        "(raw or Argon2-derived here), every profile sub-key (profiles.profile_key unwrapped here) and every private key (secret "
        "bytes and JWK d/k).  Non-trivial = the history contains at least one successful replace, one successful KMS insert and one "
        "successful re-key; distinct = hash of the case"
    ),
    "assumptions": [
        "PARTIAL: the theorems cover the data flow (what is handed to SQLite as a statement parameter, for every history); that "
        "ChaCha20-Poly1305 output does not contain its plaintext (true up to 2^-96 for the >= 12-byte markers) and that SQLite "
        "writes to the file, the WAL and the journal only what it is given are NOT proved — they are what the file scan observes",
        "third-party primitives are a parameter of the model (structure Crypto: encrypt_searchable, value AEAD, key wrap, CBOR of the "
        "profile key); no law about them is needed by the provenance theorems; the driver runs a toy instance with the real lengths "
        "(+12 nonce, +16 tag, 235-byte profile key)",
        "value nonces: the random stream does not repeat among the draws a history consumes (InjBelow rng n; Function.Injective "
        "rng : Nat -> 96-bit nonce would be unsatisfiable); one stream position per value encryption and per profile-key wrap",
        "SQLite semantics of Model/Provenance.lean: rowid = max+1, INSERT OR IGNORE on the unique indexes, ON DELETE CASCADE, BLOB "
        "equality bytewise, LIKE = Model/Like.lean; validated by the per-step comparison of row counts and column lengths",
        "C02 histories never set an expiry (C17's subject): the expiry parameter is NULL",
        "with key method `none` the profile key is stored unwrapped by design: the scan REQUIRES its sub-keys to be visible then "
        "(counter subkeys_clear_under_none), and a store that was `none` at some time is reported under the separate signature "
        "residue:profile-subkey:...:after-rekey-from-none",
    ],
    "trusted_base": [
        "harness/src/c02.rs: marker generator, file scanner (4-byte index + memcmp), out-of-band row reader (rawsql.rs), its own base58 "
        "codec, CBOR map reader and Argon2 / ChaCha20-Poly1305 calls (askar-crypto's, used only to OBTAIN the keys that are then "
        "searched for — Cargo.toml of the harness does not list chacha20poly1305 / serde_cbor), nonce and same-value bookkeeping",
        "the scanner is guarded against vacuity: every plaintext-tag value and profile name must be FOUND right after the call that "
        "wrote it (counters public_found:*), unwrapped sub-keys must be found under method none",
        "lean/Driver/C02.lean: JSON protocol, canonical dump, toy primitives",
    ],
}


def nontrivial(rec):
    case = rec["case"]
    out = rec["impl"].get("out")
    if not isinstance(out, dict):
        return False
    steps = out.get("steps") or []
    ops = case.get("ops") or []
    outs = steps[1:]  # step 0 is the freshly provisioned store

    def ok(name):
        return any(o.get("op") == name and isinstance(s, dict) and s.get("res") == "ok" for o, s in zip(ops, outs))

    return ok("replace") and ok("insert_key") and ok("rekey")
