import Driver.C14
def main : IO Unit := Driver.mainLoop fun _ j => Driver.C14.runCase j
