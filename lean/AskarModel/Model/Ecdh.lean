/-
C15 — model of askar's key agreement glue, following the CURRENT code in /repo:

* `askar-crypto/src/kdf/concat.rs`   `ConcatKDFHash` (`start_pass`, `hash_message`, `hash_params`, `finish_pass`)
* `askar-crypto/src/kdf/ecdh_es.rs`  `EcdhEs::derive_key_bytes`
* `askar-crypto/src/kdf/ecdh_1pu.rs` `Ecdh1PU::derive_key_bytes` (the `pub_info` stack buffer behind `Writer::from_slice`; its size is read from the source: `Generated.ecdh1puPubInfoCap`)
* `askar-crypto/src/buffer/writer.rs` `Writer<[u8]>::buffer_write`, `as_ref`
* `askar-crypto/src/alg/any.rs`      `AnyKey::write_key_exchange`, `from_key_exchange_any`, `from_key_derivation_any`
* `askar-crypto/src/alg/aes/mod.rs`, `chacha20.rs` `FromKeyDerivation`, `FromKeyExchange`
* `askar-crypto/src/encrypt/crypto_box.rs` `crypto_box`, `crypto_box_open`, `crypto_box_seal_nonce`, `crypto_box_seal`, `crypto_box_seal_open`
* `src/kms/envelope.rs`              `derive_key_ecdh_es`, `derive_key_ecdh_1pu`, `crypto_box*`, `cast_x25519`; `src/error.rs` `From<CryptoError>`

Third-party primitives are PARAMETERS: Diffie-Hellman (`DhOps`: x25519-dalek / p256 / p384 / k256 `diffie_hellman`), the hash
(SHA-256), the secret box (`BoxOps`: X25519 + HSalsa20 key agreement, XSalsa20-Poly1305, BLAKE2b-24).  Their assumed laws are
`DhLaws`, `HashLen`, `BoxLaws`; no Lean `axiom`.  Every slice / index operation of the Rust is present with its bounds check as
an explicit `.panic` outcome.  Executable, total, core Lean only.
-/
import AskarModel.Base.Bytes
import AskarModel.Generated.Consts

namespace Askar.Ecdh

open Askar.Bytes (be32)

/-! ### outcomes -/

/-- `askar_crypto::ErrorKind` values reachable from this code, plus the envelope's own `Input` error of `cast_x25519` -/
inductive CErr
  | unsupported | missingSecretKey | exceededBuffer | usage | invalidNonce | encryption | invalidKeyData
  | notX25519
  deriving DecidableEq, Repr

/-- `aries_askar::ErrorKind` (what the public API reports) -/
inductive PErr
  | unsupported | input | unexpected | encryption
  deriving DecidableEq, Repr

/-- `impl From<CryptoError> for Error` (src/error.rs) -/
def CErr.toPublic : CErr → PErr
  | .unsupported => .unsupported
  | .missingSecretKey => .input
  | .exceededBuffer => .unexpected
  | .usage => .input
  | .invalidNonce => .input
  | .encryption => .encryption
  | .invalidKeyData => .input
  | .notX25519 => .input

def PErr.name : PErr → String
  | .unsupported => "Unsupported" | .input => "Input" | .unexpected => "Unexpected" | .encryption => "Encryption"

inductive Res (α : Type) where
  | ok (a : α)
  | err (e : CErr)
  | panic
  deriving Repr

instance {α} [DecidableEq α] : DecidableEq (Res α) := by
  intro a b
  cases a <;> cases b <;> simp <;> infer_instance

def Res.bind {α β} (r : Res α) (f : α → Res β) : Res β :=
  match r with
  | .ok a => f a
  | .err e => .err e
  | .panic => .panic

instance : Monad Res where
  pure := .ok
  bind := Res.bind

@[simp] theorem Res.ok_bind {α β} (a : α) (f : α → Res β) : (Res.ok a >>= f) = f a := rfl
@[simp] theorem Res.err_bind {α β} (e : CErr) (f : α → Res β) : (Res.err e >>= f) = .err e := rfl
@[simp] theorem Res.panic_bind {α β} (f : α → Res β) : ((Res.panic : Res α) >>= f) = .panic := rfl
@[simp] theorem Res.pure_eq {α} (a : α) : (pure a : Res α) = .ok a := rfl

/-! ### keys and Diffie-Hellman -/

inductive Curve
  | x25519 | p256 | p384 | k256
  deriving DecidableEq, Repr

/-- what `AnyKey::key_type_id` / `algorithm()` distinguish here: a DH-capable key pair on one of the four curves,
    or any other key (Ed25519, BLS, symmetric …) -/
inductive KeyType
  | dh (c : Curve)
  | other
  deriving DecidableEq, Repr

/-- a `LocalKey`: the public part is always present, the secret part may be absent -/
structure Key where
  ty : KeyType
  pub : Bytes
  secret : Option Bytes
  deriving DecidableEq, Repr

/-- the third-party curve operations -/
structure DhOps where
  /-- public key of a secret key -/
  pub : Curve → Bytes → Bytes
  /-- raw shared secret of (own secret key, peer public key) -/
  dh : Curve → Bytes → Bytes → Bytes

/-- ASSUMED about the curve crates -/
structure DhLaws (D : DhOps) where
  /-- which byte strings are secret keys (what `from_secret_bytes` accepts) -/
  valid : Curve → Bytes → Prop
  zlen : Curve → Nat
  dh_len : ∀ c a p, (D.dh c a p).length = zlen c
  dh_comm : ∀ c a b, valid c a → valid c b → D.dh c a (D.pub c b) = D.dh c b (D.pub c a)

/-- key pair holding the secret key `sk` -/
def Key.full (D : DhOps) (c : Curve) (sk : Bytes) : Key := ⟨.dh c, D.pub c sk, some sk⟩
/-- the same key as its owner publishes it -/
def Key.public (D : DhOps) (c : Curve) (sk : Bytes) : Key := ⟨.dh c, D.pub c sk, none⟩

/-- `AnyKey::write_key_exchange` followed by the curve's `write_key_exchange`: the bytes handed to `out.buffer_write` -/
def keyExchange (D : DhOps) (self other : Key) : Res Bytes :=
  if self.ty ≠ other.ty then .err .unsupported
  else match self.ty with
    | .dh c =>
      match self.secret with
      | some sk => .ok (D.dh c sk other.pub)
      | none => .err .missingSecretKey
    | .other => .err .unsupported

/-! ### `Writer<[u8]>` over a fixed slice -/

structure SliceWriter where
  inner : Bytes
  pos : Nat
  deriving Repr

def SliceWriter.new (cap : Nat) : SliceWriter := ⟨List.replicate cap 0, 0⟩

/-- `buffer_write`: the length check, then `self.inner[self.pos..end].copy_from_slice(data)` (slice index = panic branch) -/
def SliceWriter.write (w : SliceWriter) (data : Bytes) : Res SliceWriter :=
  let total := w.inner.length
  let end_ := w.pos + data.length
  if end_ > total then .err .exceededBuffer
  else if w.pos > end_ ∨ end_ > w.inner.length then .panic
  else .ok ⟨w.inner.take w.pos ++ data ++ w.inner.drop end_, end_⟩

/-- `as_ref`: `&self.inner[..self.pos]` -/
def SliceWriter.asRef (w : SliceWriter) : Res Bytes :=
  if w.pos > w.inner.length then .panic else .ok (w.inner.take w.pos)

/-! ### `ConcatKDFHash` -/

/-- length-prefixed datum as `hash_params` writes it: `(x.len() as u32).to_be_bytes()` then the bytes
    (`be32` keeps the low 32 bits, like the `as u32` cast) -/
def lp (x : Bytes) : Bytes := be32 x.length ++ x

/-- the hasher: everything `update`d since the last `finalize_reset`, and the pass counter -/
structure KdfHash where
  acc : Bytes
  counter : Nat

def KdfHash.new : KdfHash := ⟨[], 1⟩
def KdfHash.startPass (h : KdfHash) : KdfHash := ⟨h.acc ++ be32 h.counter, h.counter + 1⟩
def KdfHash.update (h : KdfHash) (data : Bytes) : KdfHash := { h with acc := h.acc ++ data }
def KdfHash.hashParams (h : KdfHash) (alg apu apv pubInfo prvInfo : Bytes) : KdfHash :=
  { h with acc := h.acc ++ lp alg ++ lp apu ++ lp apv ++ pubInfo ++ prvInfo }

/-- `key_output.copy_from_slice(&key[..output_len])`: the slice index panics beyond the digest length -/
def takeKey (digest : Bytes) (outLen : Nat) : Res Bytes :=
  if outLen > digest.length then .panic else .ok (digest.take outLen)

/-! ### ECDH-ES and ECDH-1PU -/

/-- `SuppPubInfo` of ECDH-1PU as the code assembles it in a stack buffer of `cap` bytes (`[0u8; cap]`) -/
def pubInfo1puCap (cap : Nat) (outLen : Nat) (ccTag : Bytes) : Res Bytes := do
  let w := SliceWriter.new cap
  let w ← w.write (be32 (outLen * 8))
  let w ← if ccTag.isEmpty then pure w else do
    let w ← w.write (be32 ccTag.length)
    w.write ccTag
  w.asRef

/-- the current tree: the buffer size extracted from `ecdh_1pu.rs` -/
def pubInfo1pu (outLen : Nat) (ccTag : Bytes) : Res Bytes := pubInfo1puCap Generated.ecdh1puPubInfoCap outLen ccTag

/-- the string hashed by `EcdhEs::derive_key_bytes` -/
def esInput (z alg apu apv : Bytes) (outLen : Nat) : Bytes :=
  (((KdfHash.new.startPass).update z).hashParams alg apu apv (be32 (outLen * 8)) []).acc

/-- the string hashed by `Ecdh1PU::derive_key_bytes`, given the assembled `pub_info` -/
def puInput (ze zs alg apu apv pubInfo : Bytes) : Bytes :=
  ((((KdfHash.new.startPass).update ze).update zs).hashParams alg apu apv pubInfo []).acc

/-- which private key meets which public key: `receive` ⇒ the recipient's key pair against the other party's public key,
    otherwise the other party's key pair against the recipient's public key -/
def exchange (D : DhOps) (other rcp : Key) (receive : Bool) : Res Bytes :=
  if receive then keyExchange D rcp other else keyExchange D other rcp

/-- `EcdhEs::derive_key_bytes` for an output slice of `outLen` bytes -/
def deriveEsBytes (D : DhOps) (hash : Bytes → Bytes) (eph rcp : Key) (alg apu apv : Bytes) (receive : Bool)
    (outLen : Nat) : Res Bytes :=
  if outLen > 32 then .err .unsupported
  else
    exchange D eph rcp receive >>= fun z =>
    takeKey (hash (esInput z alg apu apv outLen)) outLen

/-- `Ecdh1PU::derive_key_bytes` (Ze first, then Zs, then the `pub_info` buffer of `cap` bytes) -/
def derive1puBytesCap (cap : Nat) (D : DhOps) (hash : Bytes → Bytes) (eph snd rcp : Key) (alg apu apv ccTag : Bytes)
    (receive : Bool) (outLen : Nat) : Res Bytes :=
  if outLen > 32 then .err .unsupported
  else if ccTag.length > 128 then .err .unsupported
  else
    exchange D eph rcp receive >>= fun ze =>
    exchange D snd rcp receive >>= fun zs =>
    pubInfo1puCap cap outLen ccTag >>= fun pi =>
    takeKey (hash (puInput ze zs alg apu apv pi)) outLen

/-- the current tree -/
def derive1puBytes (D : DhOps) (hash : Bytes → Bytes) (eph snd rcp : Key) (alg apu apv ccTag : Bytes) (receive : Bool)
    (outLen : Nat) : Res Bytes :=
  derive1puBytesCap Generated.ecdh1puPubInfoCap D hash eph snd rcp alg apu apv ccTag receive outLen

/-- the `KeyAlg` requested for the derived key -/
inductive Target
  | a128gcm | a256gcm | a128cbcHs256 | a256cbcHs512 | a128kw | a256kw | c20p | xc20p
  /-- any non-symmetric algorithm -/
  | notSymmetric
  deriving DecidableEq, Repr

/-- `KeySize` of the symmetric key types -/
def Target.keyLen : Target → Option Nat
  | .a128gcm => some 16 | .a256gcm => some 32 | .a128cbcHs256 => some 32 | .a256cbcHs512 => some 64
  | .a128kw => some 16 | .a256kw => some 32 | .c20p => some 32 | .xc20p => some 32
  | .notSymmetric => none

/-- `from_key_derivation_any` + `ArrayKey::try_new_with(|arr| derive.derive_key_bytes(arr))` -/
def fromKeyDerivation (t : Target) (derive : Nat → Res Bytes) : Res Bytes :=
  match t.keyLen with
  | none => .err .unsupported
  | some n => derive n

/-- `envelope::derive_key_ecdh_es`: secret bytes of the resulting key -/
def deriveKeyEcdhEs (D : DhOps) (hash : Bytes → Bytes) (t : Target) (eph rcp : Key) (alg apu apv : Bytes)
    (receive : Bool) : Res Bytes :=
  fromKeyDerivation t (deriveEsBytes D hash eph rcp alg apu apv receive)

/-- `envelope::derive_key_ecdh_1pu` with a `pub_info` buffer of `cap` bytes -/
def deriveKeyEcdh1puCap (cap : Nat) (D : DhOps) (hash : Bytes → Bytes) (t : Target) (eph snd rcp : Key)
    (alg apu apv ccTag : Bytes) (receive : Bool) : Res Bytes :=
  fromKeyDerivation t (derive1puBytesCap cap D hash eph snd rcp alg apu apv ccTag receive)

/-- `envelope::derive_key_ecdh_1pu`, current tree -/
def deriveKeyEcdh1pu (D : DhOps) (hash : Bytes → Bytes) (t : Target) (eph snd rcp : Key) (alg apu apv ccTag : Bytes)
    (receive : Bool) : Res Bytes :=
  deriveKeyEcdh1puCap Generated.ecdh1puPubInfoCap D hash t eph snd rcp alg apu apv ccTag receive

/-- `LocalKey::to_key_exchange` = `from_key_exchange_any`: Z is written into a `Writer` over the key array; its length must
    be exactly the key size -/
def toKeyExchange (D : DhOps) (t : Target) (self other : Key) : Res Bytes :=
  match t.keyLen with
  | none => .err .unsupported
  | some n => do
    let z ← keyExchange D self other
    let w ← (SliceWriter.new n).write z
    if w.pos ≠ n then .err .usage else .ok w.inner

/-! ### what the standards say (written from RFC 7518 §4.6.2, SP 800-56A §5.8.2.1, draft-madden-jose-ecdh-1pu-04 §2.3) -/

namespace Spec

/-- "Datalen || Data, where Data is the variable-length string of zero or more octets, and Datalen is a fixed-length,
    big-endian 32-bit counter that indicates the length (in octets) of Data" -/
def datalenData (data : Bytes) : Bytes := be32 data.length ++ data

/-- OtherInfo = AlgorithmID ‖ PartyUInfo ‖ PartyVInfo ‖ SuppPubInfo ‖ SuppPrivInfo -/
def otherInfo (algorithmID partyUInfo partyVInfo suppPubInfo suppPrivInfo : Bytes) : Bytes :=
  algorithmID ++ partyUInfo ++ partyVInfo ++ suppPubInfo ++ suppPrivInfo

/-- one round of the Concat KDF: H(counter ‖ Z ‖ OtherInfo), counter a 32-bit big-endian integer starting at 1 -/
def round (hash : Bytes → Bytes) (counter : Nat) (z other : Bytes) : Bytes := hash (be32 counter ++ z ++ other)

/-- RFC 7518 §4.6.2: SuppPubInfo = keydatalen in bits as a 32-bit big-endian integer; SuppPrivInfo empty -/
def esOtherInfo (alg apu apv : Bytes) (keyBits : Nat) : Bytes :=
  otherInfo (datalenData alg) (datalenData apu) (datalenData apv) (be32 keyBits) []

/-- ECDH-1PU draft §2.3: in key-agreement-with-key-wrapping mode the (non-empty) content-encryption tag is appended to
    SuppPubInfo as Datalen ‖ Data; in direct mode SuppPubInfo is keydatalen alone -/
def puOtherInfo (alg apu apv : Bytes) (keyBits : Nat) (ccTag : Bytes) : Bytes :=
  otherInfo (datalenData alg) (datalenData apu) (datalenData apv)
    (be32 keyBits ++ (if ccTag.isEmpty then [] else datalenData ccTag)) []

/-- derived key of `keyBytes` ≤ hash length octets: the leftmost octets of round 1 -/
def esKey (hash : Bytes → Bytes) (z alg apu apv : Bytes) (keyBytes : Nat) : Bytes :=
  (round hash 1 z (esOtherInfo alg apu apv (8 * keyBytes))).take keyBytes

/-- ECDH-1PU: Z = Ze ‖ Zs -/
def puKey (hash : Bytes → Bytes) (ze zs alg apu apv ccTag : Bytes) (keyBytes : Nat) : Bytes :=
  (round hash 1 (ze ++ zs) (puOtherInfo alg apu apv (8 * keyBytes) ccTag)).take keyBytes

end Spec

/-! ### crypto_box -/

/-- third-party operations behind `crypto_box` -/
structure BoxOps where
  /-- X25519 public key of a secret key -/
  pub : Bytes → Bytes
  /-- `SalsaBox::new(pk, sk)`: the shared secret-box key -/
  beforenm : Bytes → Bytes → Bytes
  /-- `encrypt_in_place_detached key nonce msg = (ciphertext, tag)` -/
  sealBox : Bytes → Bytes → Bytes → Bytes × Bytes
  /-- `decrypt_in_place_detached key nonce ciphertext tag` -/
  openBox : Bytes → Bytes → Bytes → Bytes → Option Bytes
  /-- BLAKE2b with 24 output bytes -/
  nonceHash : Bytes → Bytes

/-- ASSUMED about crypto_box / xsalsa20poly1305 / blake2 -/
structure BoxLaws (B : BoxOps) : Prop where
  pub_len : ∀ s, (B.pub s).length = 32
  ct_len : ∀ k n m, (B.sealBox k n m).1.length = m.length
  tag_len : ∀ k n m, (B.sealBox k n m).2.length = 16
  open_seal : ∀ k n m, B.openBox k n (B.sealBox k n m).1 (B.sealBox k n m).2 = some m
  beforenm_comm : ∀ a b, B.beforenm a (B.pub b) = B.beforenm b (B.pub a)
  nonce_len : ∀ x, (B.nonceHash x).length = 24

/-- IDEALISATION (true of the real box only up to forgery probability): whatever opens under a key and nonce was sealed
    under that key and nonce -/
structure BoxIdeal (B : BoxOps) : Prop where
  auth : ∀ k n c t m, B.openBox k n c t = some m → B.sealBox k n m = (c, t)

/-- `CBOX_NONCE_LENGTH` = 24, `CBOX_KEY_LENGTH` = 32, `CBOX_TAG_LENGTH` = 16 (type-level constants of `SalsaBox` / x25519);
    the functions below use the numerals directly -/
def CBOX_NONCE_LENGTH : Nat := 24
def CBOX_KEY_LENGTH : Nat := 32
def CBOX_TAG_LENGTH : Nat := 16

def secretKeyFrom (k : Key) : Res Bytes :=
  match k.secret with
  | some sk => .ok sk
  | none => .err .missingSecretKey

/-- `nonce_from` -/
def nonceFrom (nonce : Bytes) : Res Bytes :=
  if nonce.length = 24 then .ok nonce else .err .invalidNonce

/-- `crypto_box`: the buffer afterwards (tag inserted in front) -/
def cryptoBox (B : BoxOps) (recipPk senderSk : Key) (buffer nonce : Bytes) : Res Bytes := do
  let sk ← secretKeyFrom senderSk
  let nonce ← nonceFrom nonce
  let (ct, tag) := B.sealBox (B.beforenm sk recipPk.pub) nonce buffer
  .ok (tag ++ ct)

/-- `crypto_box_open`: the buffer afterwards -/
def cryptoBoxOpen (B : BoxOps) (recipSk senderPk : Key) (buffer nonce : Bytes) : Res Bytes := do
  let sk ← secretKeyFrom recipSk
  let nonce ← nonceFrom nonce
  if buffer.length < 16 then .err .encryption
  -- `&buffer.as_ref()[..16]` and `&mut buffer.as_mut()[16..]`
  else if 16 > buffer.length then .panic
  else
    match B.openBox (B.beforenm sk senderPk.pub) nonce (buffer.drop 16) (buffer.take 16) with
    | none => .err .encryption
    | some m => .ok m          -- decrypted in place behind the tag, then `buffer_remove(0..16)`

/-- `crypto_box_seal_nonce` -/
def sealNonce (B : BoxOps) (ephPk recipPk : Bytes) : Bytes := B.nonceHash (ephPk ++ recipPk)

/-- `crypto_box_seal` with the ephemeral secret key made explicit (the code draws it at random) -/
def cryptoBoxSeal (B : BoxOps) (ephSk : Bytes) (recipPk : Key) (message : Bytes) : Res Bytes := do
  let ephPk := B.pub ephSk
  let buffer := ephPk ++ message
  -- `Writer::from_vec_skip(buffer, 32)`: `as_mut` is `&mut inner[pos..]`
  if 32 > buffer.length then .panic
  else
    let nonce := sealNonce B ephPk recipPk.pub
    let boxed ← cryptoBox B recipPk ⟨.dh .x25519, ephPk, some ephSk⟩ (buffer.drop 32) nonce
    .ok (buffer.take 32 ++ boxed)

/-- `crypto_box_seal_open` -/
def cryptoBoxSealOpen (B : BoxOps) (recipSk : Key) (ciphertext : Bytes) : Res Bytes := do
  if ciphertext.length < 48 then .err .encryption
  -- `&ciphertext[..32]`, `&ciphertext[32..]`
  else if 32 > ciphertext.length then .panic
  else
    let ephPk := ciphertext.take 32
    -- `X25519KeyPair::from_public_bytes`: exactly 32 bytes
    if ephPk.length ≠ 32 then .err .invalidKeyData
    else
      let nonce := sealNonce B ephPk recipSk.pub
      cryptoBoxOpen B recipSk ⟨.dh .x25519, ephPk, none⟩ (ciphertext.drop 32) nonce

/-- `envelope::cast_x25519` -/
def castX25519 (k : Key) : Res Key :=
  if k.ty = .dh .x25519 then .ok k else .err .notX25519

/-- `envelope::crypto_box` -/
def envCryptoBox (B : BoxOps) (recip sender : Key) (message nonce : Bytes) : Res Bytes := do
  let r ← castX25519 recip
  let s ← castX25519 sender
  cryptoBox B r s message nonce

/-- `envelope::crypto_box_open` -/
def envCryptoBoxOpen (B : BoxOps) (recip sender : Key) (message nonce : Bytes) : Res Bytes := do
  let r ← castX25519 recip
  let s ← castX25519 sender
  cryptoBoxOpen B r s message nonce

/-- `envelope::crypto_box_seal` -/
def envCryptoBoxSeal (B : BoxOps) (ephSk : Bytes) (recip : Key) (message : Bytes) : Res Bytes := do
  let r ← castX25519 recip
  cryptoBoxSeal B ephSk r message

/-- `envelope::crypto_box_seal_open` -/
def envCryptoBoxSealOpen (B : BoxOps) (recip : Key) (ciphertext : Bytes) : Res Bytes := do
  let r ← castX25519 recip
  cryptoBoxSealOpen B r ciphertext

end Askar.Ecdh
