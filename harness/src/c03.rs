//! C03: tampered or foreign ciphertext is rejected, never misread, never fatal (DESIGN.md section 4, C03).
//!
//! A case = one file-backed store (profiles + records written through the public API) and a list of
//! experiments (`ops`).  Each experiment corrupts ONE ciphertext cell out of band (second raw SQLite
//! connection), opens a NEW store handle (the profile key is cached per handle), performs the case's
//! `reads` on the experiment's profile, and restores the original bytes.
//!
//!   case  = {"kind":"c03","id":…,"profiles":[{"name":…,"recs":[{"k","c","n","v","t"}…]}…],"reads":[…],"ops":[…]}
//!   read  = {"r":"fetch","k","c","n"} | {"r":"fetch_all"|"scan"|"count","c": str|null}
//!   op    = {"p":i,"col":"category"|"name"|"value"|"tag_name"|"tag_value"|"profile_key","r":j,"t":k,"mut":M}
//!         | {"open":"wrong_key"|"empty_key"|"bad_format"|"short_key"|"wrong_method_kdf"|"wrong_method_none"|"no_method"|"no_method_wrong_key"}
//!   M     = {"flip":[[idx,mask]…]} | {"trunc":L} | {"extend":hex,"front":bool} | {"empty":true}
//!         | {"subst":{"p":i,"r":j,"t":k}}            (same column of another row / profile)
//!   out   = one entry per op: {"len":n,"open":"ok"|{"err":K}|"panic","res":[per read: rec|null|[recs]|n|{"err":K}|"panic"]}
//!           | {"skip":"unique"} when the substitution is rejected by the store's unique index
//!
//! Oracle (independent of the Lean model): no panic; every returned record equals the record written
//! under the same identity in that profile; a read never returns a record whose stored ciphertext was
//! changed (it must fail or omit it); counts never exceed the number of rows written.
use crate::canon::{err_name, kind_of, recs_json, tags_from_json, value_from_json, Rec, Tag};
use crate::rawsql::{RawDb, Val};
use crate::rng::Rng;
use crate::store_case::{cleanup, provision, RAW_KEY};
use askar_storage::any::AnyBackend;
use askar_storage::backend::{Backend, BackendSession, ManageBackend};
use askar_storage::entry::{EntryOperation, EntryTag};
use askar_storage::future::block_on;
use askar_storage::{Argon2Level, KdfMethod, PassKey, StoreKeyMethod};
use serde_json::{json, Map, Value};
use std::collections::{BTreeMap, BTreeSet};
use std::panic::{catch_unwind, AssertUnwindSafe};

/// length of a wrapped profile key: nonce 12 + CBOR(map of 7: "ver":"1" + 6 × (3-char name, 32-byte string)) 235 + tag 16
const PROFILE_KEY_CT_LEN: usize = 263;
/// a valid raw key different from `RAW_KEY` (base58 of 32 bytes, derived from a fixed seed)
fn other_raw_key() -> String {
    askar_storage::generate_raw_store_key(Some(b"c03 wrong key seed 0123456789abc")).expect("raw key").to_string()
}

// ---------------------------------------------------------------------------------------------
// generator

#[derive(Clone)]
struct GRec {
    k: i64,
    c: String,
    n: String,
    v: Vec<u8>,
    t: Vec<Tag>,
}

impl GRec {
    fn to_json(&self) -> Value {
        json!({"k": self.k, "c": self.c, "n": self.n, "v": hex::encode(&self.v), "t": self.t.iter().map(Tag::to_json).collect::<Vec<_>>()})
    }
}

fn tg(plain: bool, n: &str, v: &str) -> Tag {
    Tag { plain, name: n.to_string(), value: v.to_string() }
}

fn rec(k: i64, c: &str, n: &str, v: &[u8], t: Vec<Tag>) -> GRec {
    GRec { k, c: c.to_string(), n: n.to_string(), v: v.to_vec(), t }
}

type Store = Vec<(String, Vec<GRec>)>;

fn fixed_store() -> Store {
    vec![
        ("p0".to_string(), vec![
            rec(2, "c1", "n1", &[0x00], vec![tg(false, "ta", "va"), tg(true, "tp", "vp")]),
            rec(2, "c1", "n2", &[], vec![]),
            rec(2, "c2", "n1", b"seventeen bytes!!", vec![tg(false, "", ""), tg(false, "ta", "vb"), tg(true, "", "")]),
            rec(1, "c1", "n1", b"kms twin", vec![tg(false, "ta", "va")]),
        ]),
        ("p1".to_string(), vec![
            rec(2, "c1", "n1", &[0x01], vec![]),
            rec(2, "c2", "n2", b"sixteen bytes!!!", vec![tg(false, "ta", "va"), tg(true, "tp", "vp")]),
            rec(2, "c3", "n3", &[], vec![tg(false, "tb", "vb")]),
        ]),
    ]
}

fn ct_len(pt: usize) -> usize {
    pt + 28
}

/// (column, tag index, ciphertext length) of every ciphertext cell of a record
fn cells(r: &GRec) -> Vec<(&'static str, Option<usize>, usize)> {
    let mut v = vec![("category", None, ct_len(r.c.len())), ("name", None, ct_len(r.n.len())), ("value", None, ct_len(r.v.len()))];
    for (i, t) in r.t.iter().enumerate() {
        v.push(("tag_name", Some(i), ct_len(t.name.len())));
        if !t.plain {
            v.push(("tag_value", Some(i), ct_len(t.value.len())));
        }
    }
    v
}

fn op_cell(p: usize, col: &str, r: Option<usize>, t: Option<usize>, m: Value) -> Value {
    let mut o = Map::new();
    o.insert("p".into(), json!(p));
    o.insert("col".into(), json!(col));
    if let Some(r) = r { o.insert("r".into(), json!(r)); }
    if let Some(t) = t { o.insert("t".into(), json!(t)); }
    o.insert("mut".into(), m);
    Value::Object(o)
}

fn reads_for(store: &Store) -> Vec<Value> {
    let mut kinds = BTreeSet::new();
    let mut cats = BTreeSet::new();
    let mut names = BTreeSet::new();
    for (_, recs) in store {
        for r in recs {
            kinds.insert(r.k);
            cats.insert(r.c.clone());
            names.insert(r.n.clone());
        }
    }
    let mut out = vec![];
    for k in &kinds { for c in &cats { for n in &names { out.push(json!({"r": "fetch", "k": k, "c": c, "n": n})); } } }
    for r in ["fetch_all", "scan", "count"] {
        out.push(json!({"r": r, "c": null}));
        for c in &cats { out.push(json!({"r": r, "c": c})); }
    }
    out
}

fn push_cases(out: &mut Vec<Value>, next_id: &mut u64, sub: &str, store: &Store, ops: Vec<Value>, chunk: usize) {
    let profiles: Vec<Value> = store.iter().map(|(n, rs)| json!({"name": n, "recs": rs.iter().map(GRec::to_json).collect::<Vec<_>>()})).collect();
    let reads = reads_for(store);
    for c in ops.chunks(chunk.max(1)) {
        out.push(json!({"kind": "c03", "id": *next_id, "sub": sub, "profiles": profiles, "reads": reads, "ops": c}));
        *next_id += 1;
    }
}

fn rand_mask(r: &mut Rng) -> u8 {
    if r.chance(1, 2) { 1u8 << r.below(8) } else { (r.below(255) + 1) as u8 }
}

fn random_extend(r: &mut Rng) -> Value {
    let n = 1 + r.below(20);
    let b = r.bytes(n);
    json!({"extend": hex::encode(b), "front": r.chance(1, 2)})
}

fn random_flip(r: &mut Rng, len: usize) -> Value {
    let n = if r.chance(3, 4) { 1 } else { 2 + r.below(3) };
    let mut idx = BTreeSet::new();
    for _ in 0..n { idx.insert(r.below(len)); }
    json!({"flip": idx.iter().map(|i| json!([i, rand_mask(r)])).collect::<Vec<_>>()})
}

fn random_store(r: &mut Rng, thorough: bool) -> Store {
    let cats = ["c1", "c2", "", "ca\u{0}t", "çà/%_"];
    let names = ["n1", "n2", "", "n'\"\\", "名前\u{1F511}"];
    let tnames = ["ta", "tb", "", "~t", "t:,"];
    let tvals = ["va", "vb", "", "1:41,0:42", "\u{10FFFF}"];
    let vlens = [0usize, 1, 11, 12, 15, 16, 17, 27, 28, 33, 300];
    let mut store = vec![];
    for p in 0..2 {
        let n = 1 + r.below(if thorough { 6 } else { 4 });
        let mut recs: Vec<GRec> = vec![];
        let mut tries = 0;
        while recs.len() < n && tries < 50 {
            tries += 1;
            let k = if r.chance(1, 5) { 1 } else { 2 };
            let small = r.chance(3, 4);
            let c = if small { cats[r.below(2)] } else { *r.pick(&cats) };
            let nm = if small { names[r.below(2)] } else { *r.pick(&names) };
            if recs.iter().any(|x| x.k == k && x.c == c && x.n == nm) { continue; }
            let vl = *r.pick(&vlens);
            let v = r.bytes(vl);
            let nt = r.below(4);
            let mut t = vec![];
            for _ in 0..nt { t.push(tg(r.chance(1, 3), *r.pick(&tnames), *r.pick(&tvals))); }
            recs.push(rec(k, c, nm, &v, t));
        }
        store.push((format!("p{}", p), recs));
    }
    store
}

/// a random experiment on a store
fn random_op(r: &mut Rng, store: &Store) -> Value {
    let p = r.below(store.len());
    let recs = &store[p].1;
    if r.chance(1, 12) {
        return match r.below(5) {
            0 => op_cell(p, "profile_key", None, None, random_flip(r, PROFILE_KEY_CT_LEN)),
            1 => op_cell(p, "profile_key", None, None, json!({"trunc": r.below(PROFILE_KEY_CT_LEN + 1)})),
            2 => op_cell(p, "profile_key", None, None, json!({"trunc": r.below(30)})),
            3 => op_cell(p, "profile_key", None, None, json!({"subst": {"p": 1 - p}})),
            _ => op_cell(p, "profile_key", None, None, random_extend(r)),
        };
    }
    let ri = r.below(recs.len());
    let cs = cells(&recs[ri]);
    let (col, t, len) = cs[r.below(cs.len())];
    let m = match r.below(10) {
        0..=3 => random_flip(r, len),
        4 => json!({"trunc": r.below(len + 1)}),
        5 => json!({"trunc": r.below(29.min(len + 1))}),
        6 => random_extend(r),
        7 => json!({"empty": true}),
        _ => {
            // substitution by the same column of another row (same or other profile)
            let p2 = if r.chance(1, 2) { p } else { 1 - p };
            let recs2 = &store[p2].1;
            let r2 = r.below(recs2.len());
            if t.is_some() {
                let cand: Vec<usize> = recs2[r2].t.iter().enumerate().filter(|(_, x)| col == "tag_name" || !x.plain).map(|(i, _)| i).collect();
                if cand.is_empty() { json!({"empty": true}) } else { json!({"subst": {"p": p2, "r": r2, "t": cand[r.below(cand.len())]}}) }
            } else {
                json!({"subst": {"p": p2, "r": r2}})
            }
        }
    };
    op_cell(p, col, Some(ri), t, m)
}

pub fn gen(r: &mut Rng, thorough: bool, count: Option<usize>) -> Vec<Value> {
    let mut out = vec![];
    let mut id = 0u64;
    let fixed = fixed_store();

    // (1) the three records of p0 x every ciphertext column x truncation to EVERY length 0..=len
    for ri in 0..3 {
        let mut ops = vec![];
        for (col, t, len) in cells(&fixed[0].1[ri]) {
            for l in 0..=len { ops.push(op_cell(0, col, Some(ri), t, json!({"trunc": l}))); }
        }
        push_cases(&mut out, &mut id, "trunc", &fixed, ops, 40);
    }
    // (2) the wrapped profile keys: every length (p0 = the profile opened by default: the open is the read)
    for p in 0..2 {
        let ops: Vec<Value> = (0..=PROFILE_KEY_CT_LEN).map(|l| op_cell(p, "profile_key", None, None, json!({"trunc": l}))).collect();
        push_cases(&mut out, &mut id, "trunc_pk", &fixed, ops, 66);
    }
    // (3) extension, emptying, one flip at both ends, for every cell of every record
    {
        let mut ops = vec![];
        for (p, (_, recs)) in fixed.iter().enumerate() {
            for (ri, rc) in recs.iter().enumerate() {
                for (col, t, len) in cells(rc) {
                    ops.push(op_cell(p, col, Some(ri), t, json!({"empty": true})));
                    ops.push(op_cell(p, col, Some(ri), t, json!({"extend": "00", "front": false})));
                    ops.push(op_cell(p, col, Some(ri), t, json!({"extend": hex::encode(r.bytes(16)), "front": r.chance(1, 2)})));
                    ops.push(op_cell(p, col, Some(ri), t, json!({"flip": [[0, 1]]})));
                    ops.push(op_cell(p, col, Some(ri), t, json!({"flip": [[len - 1, 128]]})));
                    ops.push(op_cell(p, col, Some(ri), t, json!({"flip": [[11, 1]]})));
                    ops.push(op_cell(p, col, Some(ri), t, json!({"flip": [[12, 1]]})));
                }
            }
            ops.push(op_cell(p, "profile_key", None, None, json!({"empty": true})));
            ops.push(op_cell(p, "profile_key", None, None, json!({"extend": "00", "front": false})));
            ops.push(op_cell(p, "profile_key", None, None, json!({"extend": "0102030405060708090a0b0c", "front": true})));
            ops.push(op_cell(p, "profile_key", None, None, json!({"flip": [[0, 1]]})));
            ops.push(op_cell(p, "profile_key", None, None, json!({"flip": [[PROFILE_KEY_CT_LEN - 1, 128]]})));
            ops.push(op_cell(p, "profile_key", None, None, json!({"flip": [[100, 255]]})));
        }
        push_cases(&mut out, &mut id, "edges", &fixed, ops, 40);
    }
    // (4) substitutions: same-profile cross-row (category / name / value), cross-profile (all columns),
    //     the kind twins, tag rows of the same profile (excluded by the property: agreement only)
    {
        let mut ops = vec![];
        for (p, (_, recs)) in fixed.iter().enumerate() {
            for a in 0..recs.len() {
                for b in 0..recs.len() {
                    if a == b { continue; }
                    for col in ["category", "name", "value"] {
                        ops.push(op_cell(p, col, Some(a), None, json!({"subst": {"p": p, "r": b}})));
                    }
                }
            }
            let q = 1 - p;
            for a in 0..recs.len() {
                for b in 0..fixed[q].1.len() {
                    for col in ["category", "name", "value"] {
                        ops.push(op_cell(p, col, Some(a), None, json!({"subst": {"p": q, "r": b}})));
                    }
                    for (ta, tga) in recs[a].t.iter().enumerate() {
                        for (tb, tgb) in fixed[q].1[b].t.iter().enumerate() {
                            ops.push(op_cell(p, "tag_name", Some(a), Some(ta), json!({"subst": {"p": q, "r": b, "t": tb}})));
                            if !tga.plain && !tgb.plain {
                                ops.push(op_cell(p, "tag_value", Some(a), Some(ta), json!({"subst": {"p": q, "r": b, "t": tb}})));
                            }
                        }
                    }
                }
            }
            ops.push(op_cell(p, "profile_key", None, None, json!({"subst": {"p": q}})));
        }
        // same-profile tag rows (re-association: outside the property)
        ops.push(op_cell(0, "tag_value", Some(0), Some(0), json!({"subst": {"p": 0, "r": 2, "t": 1}})));
        ops.push(op_cell(0, "tag_name", Some(0), Some(0), json!({"subst": {"p": 0, "r": 2, "t": 0}})));
        ops.push(op_cell(0, "tag_name", Some(2), Some(1), json!({"subst": {"p": 0, "r": 0, "t": 1}})));
        push_cases(&mut out, &mut id, "subst", &fixed, ops, 40);
    }
    // (5) opening with a wrong key / wrong method
    {
        let ops: Vec<Value> = ["wrong_key", "empty_key", "bad_format", "short_key", "wrong_method_kdf", "wrong_method_none", "no_method", "no_method_wrong_key"]
            .iter().map(|o| json!({"open": o})).collect();
        push_cases(&mut out, &mut id, "open", &fixed, ops, 40);
    }
    // (6) random flips on the fixed store
    {
        let n = if thorough { 2000 } else { 200 };
        let ops: Vec<Value> = (0..n).map(|_| {
            let p = r.below(2);
            if r.chance(1, 10) { return op_cell(p, "profile_key", None, None, random_flip(r, PROFILE_KEY_CT_LEN)); }
            let ri = r.below(fixed[p].1.len());
            let cs = cells(&fixed[p].1[ri]);
            let (col, t, len) = cs[r.below(cs.len())];
            op_cell(p, col, Some(ri), t, random_flip(r, len))
        }).collect();
        push_cases(&mut out, &mut id, "flips", &fixed, ops, 25);
    }
    // (7) random stores (colliding + exotic alphabets, boundary value lengths) x random experiments;
    //     thorough: additionally every single-byte flip of every cell
    let stores = count.unwrap_or(if thorough { 50 } else { 8 });
    for _ in 0..stores {
        let mut rr = r.fork();
        let store = random_store(&mut rr, thorough);
        let mut ops: Vec<Value> = (0..if thorough { 120 } else { 30 }).map(|_| random_op(&mut rr, &store)).collect();
        if thorough {
            for (p, (_, recs)) in store.iter().enumerate() {
                for (ri, rc) in recs.iter().enumerate() {
                    for (col, t, len) in cells(rc) {
                        for i in 0..len.min(80) { ops.push(op_cell(p, col, Some(ri), t, json!({"flip": [[i, rand_mask(&mut rr)]]}))); }
                    }
                }
                for i in 0..PROFILE_KEY_CT_LEN { ops.push(op_cell(p, "profile_key", None, None, json!({"flip": [[i, rand_mask(&mut rr)]]}))); }
            }
        }
        push_cases(&mut out, &mut id, "random", &store, ops, 40);
    }
    out
}

// ---------------------------------------------------------------------------------------------
// executor

type Ident = (i64, String, String);

struct Layout {
    prof_ids: Vec<i64>,
    item_ids: Vec<Vec<i64>>,
    tag_ids: Vec<Vec<Vec<i64>>>,
}

fn bump(feat: &mut BTreeMap<String, u64>, k: &str) {
    *feat.entry(k.to_string()).or_insert(0) += 1;
}

fn jerr_kind(e: &askar_storage::Error) -> Value {
    json!({"err": err_name(e.kind())})
}

struct Cell {
    table: &'static str,
    column: &'static str,
    id: i64,
}

fn cell_of(layout: &Layout, col: &str, p: usize, r: Option<usize>, t: Option<usize>) -> Option<Cell> {
    Some(match col {
        "category" | "name" | "value" => Cell {
            table: "items",
            column: match col { "category" => "category", "name" => "name", _ => "value" },
            id: *layout.item_ids.get(p)?.get(r?)?,
        },
        "tag_name" | "tag_value" => Cell {
            table: "items_tags",
            column: if col == "tag_name" { "name" } else { "value" },
            id: *layout.tag_ids.get(p)?.get(r?)?.get(t?)?,
        },
        "profile_key" => Cell { table: "profiles", column: "profile_key", id: *layout.prof_ids.get(p)? },
        _ => return None,
    })
}

fn read_cell(raw: &RawDb, c: &Cell) -> Result<Vec<u8>, String> {
    let rows = raw.query(&format!("SELECT {} FROM {} WHERE id = ?1", c.column, c.table), &[Val::Int(c.id)])?;
    rows.get(0).and_then(|r| r.get(0)).map(|v| v.as_blob()).ok_or_else(|| "cell not found".to_string())
}

fn write_cell(raw: &RawDb, c: &Cell, bytes: &[u8]) -> Result<(), String> {
    raw.query(&format!("UPDATE {} SET {} = ?1 WHERE id = ?2", c.table, c.column), &[Val::Blob(bytes.to_vec()), Val::Int(c.id)])?;
    if raw.changes() != 1 { return Err("no row updated".into()); }
    Ok(())
}

fn open_with(path: &str, method: Option<StoreKeyMethod>, key: &str) -> Result<AnyBackend, askar_storage::Error> {
    let uri = format!("sqlite://{}", path);
    let key = key.to_string();
    block_on(async move { uri.as_str().open_backend(method, PassKey::from(key), None).await })
}

fn close_backend(backend: AnyBackend) {
    block_on(async move {
        backend.close().await.ok();
        drop(backend);
    });
}

/// open a fresh handle; Err = canonical failure ("panic" or {"err": kind})
fn try_open(path: &str, method: Option<StoreKeyMethod>, key: &str) -> Result<AnyBackend, Value> {
    match catch_unwind(AssertUnwindSafe(|| open_with(path, method, key))) {
        Err(_) => Err(json!("panic")),
        Ok(Err(e)) => Err(jerr_kind(&e)),
        Ok(Ok(b)) => Ok(b),
    }
}

fn do_read(backend: &AnyBackend, profile: &str, read: &Value) -> Value {
    let kind = read["r"].as_str().unwrap_or("");
    let cat = read["c"].as_str().map(|s| s.to_string());
    let res = catch_unwind(AssertUnwindSafe(|| {
        block_on(async {
            match kind {
                "scan" => {
                    let mut scan = match backend.scan(Some(profile.to_string()), None, cat.clone(), None, None, None, None, false).await {
                        Ok(s) => s,
                        Err(e) => return jerr_kind(&e),
                    };
                    let mut all: Vec<Rec> = vec![];
                    loop {
                        match scan.fetch_next().await {
                            Ok(Some(rows)) => all.extend(rows.iter().map(Rec::from_entry)),
                            Ok(None) => break,
                            // records of earlier pages are judged by the oracle through "partial"
                            Err(e) => return json!({"err": err_name(e.kind()), "partial": recs_json(false, &all)}),
                        }
                    }
                    recs_json(false, &all)
                }
                _ => {
                    let mut sess = match backend.session(Some(profile.to_string()), false) {
                        Ok(s) => s,
                        Err(e) => return jerr_kind(&e),
                    };
                    let out = match kind {
                        "fetch" => match sess.fetch(kind_of(read["k"].as_i64().unwrap_or(2)), read["c"].as_str().unwrap_or(""), read["n"].as_str().unwrap_or(""), false).await {
                            Ok(None) => Value::Null,
                            Ok(Some(e)) => Rec::from_entry(&e).to_json(),
                            Err(e) => jerr_kind(&e),
                        },
                        "fetch_all" => match sess.fetch_all(None, cat.as_deref(), None, None, None, false, false).await {
                            Ok(rows) => recs_json(false, &rows.iter().map(Rec::from_entry).collect::<Vec<_>>()),
                            Err(e) => jerr_kind(&e),
                        },
                        "count" => match sess.count(None, cat.as_deref(), None).await {
                            Ok(n) => json!(n),
                            Err(e) => jerr_kind(&e),
                        },
                        _ => json!({"err": "BadRead"}),
                    };
                    sess.close(false).await.ok();
                    drop(sess);
                    out
                }
            }
        })
    }));
    res.unwrap_or_else(|_| json!("panic"))
}

fn ident_of(rec: &Value) -> Ident {
    (rec["k"].as_i64().unwrap_or(0), rec["c"].as_str().unwrap_or("").to_string(), rec["n"].as_str().unwrap_or("").to_string())
}

/// the property's own verdict on one read result
#[allow(clippy::too_many_arguments)]
fn judge(read: &Value, got: &Value, written: &BTreeMap<Ident, Value>, affected: &BTreeSet<Ident>, changed: bool, exempt: bool,
         ctx: &str, orc: &mut Vec<Value>, feat: &mut BTreeMap<String, u64>) {
    let rk = read["r"].as_str().unwrap_or("?");
    let mut fail = |class: &str, detail: Value| {
        orc.push(json!({"sig": format!("{}:{}:{}", ctx, rk, class), "read": read, "got": detail}));
    };
    if got == "panic" {
        bump(feat, "obs:panic");
        fail("panic", got.clone());
        return;
    }
    let check_recs = |recs: &[Value], fail: &mut dyn FnMut(&str, Value)| {
        let mut seen = BTreeSet::new();
        for rc in recs {
            let id = ident_of(rc);
            if !seen.insert(id.clone()) { fail("duplicate", rc.clone()); }
            if exempt { continue; }
            match written.get(&id) {
                Some(w) if w == rc => {
                    if changed && affected.contains(&id) { fail("accepted", rc.clone()); }
                }
                _ => fail("altered", rc.clone()),
            }
        }
    };
    if let Some(e) = got.get("err") {
        bump(feat, &format!("obs:err:{}", e.as_str().unwrap_or("?")));
        if let Some(p) = got.get("partial").and_then(|p| p.as_array()) { check_recs(p, &mut fail); }
        return;
    }
    match rk {
        "fetch" => {
            if got.is_null() { bump(feat, "obs:none"); return; }
            bump(feat, "obs:record");
            let want = (read["k"].as_i64().unwrap_or(0), read["c"].as_str().unwrap_or("").to_string(), read["n"].as_str().unwrap_or("").to_string());
            if ident_of(got) != want { fail("altered", got.clone()); return; }
            check_recs(std::slice::from_ref(got), &mut fail);
        }
        "fetch_all" | "scan" => {
            bump(feat, "obs:rows");
            match got.as_array() { Some(a) => check_recs(a, &mut fail), None => fail("malformed", got.clone()) }
        }
        "count" => {
            bump(feat, "obs:count");
            match got.as_i64() {
                Some(n) if n >= 0 && (n as usize) <= written.len() => {}
                _ => fail("count-exceeds", got.clone()),
            }
        }
        _ => {}
    }
}

fn mutation_class(m: &Value, old_len: usize, same_profile: bool, col: &str, kind_twin: bool) -> String {
    if m.get("flip").is_some() { "flip".into() }
    else if let Some(l) = m["trunc"].as_u64() {
        let l = l as usize;
        if l == old_len { "trunc_full".into() } else if l < 12 { "trunc_lt_nonce".into() } else if l < 28 { "trunc_lt_tag".into() } else { "trunc".into() }
    }
    else if m.get("extend").is_some() { "extend".into() }
    else if m.get("empty").is_some() { "empty".into() }
    else if m.get("subst").is_some() {
        if !same_profile { "subst_profile".into() }
        else if col.starts_with("tag_") { "subst_tag".into() }
        else if kind_twin { "subst_kind".into() }
        else { "subst_row".into() }
    }
    else { "unknown".into() }
}

pub fn exec(case: &Value, tag: &str) -> Value {
    let mut feat: BTreeMap<String, u64> = BTreeMap::new();
    let mut orc: Vec<Value> = vec![];
    let profiles: Vec<(String, Vec<Value>)> = case["profiles"].as_array().cloned().unwrap_or_default().iter()
        .map(|p| (p["name"].as_str().unwrap_or("").to_string(), p["recs"].as_array().cloned().unwrap_or_default())).collect();
    if profiles.is_empty() { return json!({"out": {"err": "no profiles"}, "oracle": [], "feat": feat}); }
    let reads = case["reads"].as_array().cloned().unwrap_or_default();
    let ops = case["ops"].as_array().cloned().unwrap_or_default();

    // --- build the store through the public API
    let (backend, path) = provision(true, &profiles[0].0, "", &format!("c03-{}", tag));
    let path_s = path.clone().expect("file store");
    let setup: Result<(), askar_storage::Error> = block_on(async {
        for (i, (pname, recs)) in profiles.iter().enumerate() {
            if i > 0 { backend.create_profile(Some(pname.clone())).await?; }
            let mut sess = backend.session(Some(pname.clone()), false)?;
            for rc in recs {
                let tags: Vec<EntryTag> = tags_from_json(&rc["t"]).unwrap_or_default().iter().map(Tag::to_entry_tag).collect();
                let v = value_from_json(&rc["v"]);
                sess.update(kind_of(rc["k"].as_i64().unwrap_or(2)), EntryOperation::Insert, rc["c"].as_str().unwrap_or(""), rc["n"].as_str().unwrap_or(""),
                    Some(&v), Some(&tags), None).await?;
            }
            sess.close(false).await?;
            drop(sess);
        }
        Ok(())
    });
    close_backend(backend);
    if let Err(e) = setup {
        cleanup(&path);
        return json!({"out": {"err": format!("setup: {}", err_name(e.kind()))}, "oracle": [], "feat": feat});
    }

    // --- what was written, per profile (canonical records), and where it lives
    let written: Vec<BTreeMap<Ident, Value>> = profiles.iter().map(|(_, recs)| {
        recs.iter().map(|rc| {
            let r = Rec { kind: rc["k"].as_i64().unwrap_or(2), cat: rc["c"].as_str().unwrap_or("").into(), name: rc["n"].as_str().unwrap_or("").into(),
                          value: value_from_json(&rc["v"]), tags: tags_from_json(&rc["t"]).unwrap_or_default() };
            ((r.kind, r.cat.clone(), r.name.clone()), r.to_json())
        }).collect()
    }).collect();
    let layout = {
        let raw = RawDb::open(&path_s).expect("raw open");
        let mut l = Layout { prof_ids: vec![], item_ids: vec![], tag_ids: vec![] };
        for (pname, recs) in &profiles {
            let pid = raw.query("SELECT id FROM profiles WHERE name = ?1", &[Val::Text(pname.clone())]).expect("profiles")[0][0].as_int();
            let items: Vec<i64> = raw.query("SELECT id FROM items WHERE profile_id = ?1 ORDER BY id", &[Val::Int(pid)]).expect("items").iter().map(|r| r[0].as_int()).collect();
            assert_eq!(items.len(), recs.len(), "row count after set-up");
            let tags = items.iter().map(|it| raw.query("SELECT id FROM items_tags WHERE item_id = ?1 ORDER BY id", &[Val::Int(*it)]).expect("tags").iter().map(|r| r[0].as_int()).collect()).collect();
            l.prof_ids.push(pid);
            l.item_ids.push(items);
            l.tag_ids.push(tags);
        }
        l
    };

    // --- experiments
    let mut out = vec![];
    for op in &ops {
        bump(&mut feat, "ops");
        if let Some(how) = op["open"].as_str() {
            bump(&mut feat, &format!("open:{}", how));
            let argon = StoreKeyMethod::DeriveKey(KdfMethod::Argon2i(Argon2Level::Interactive));
            let other = other_raw_key();
            let (method, key): (Option<StoreKeyMethod>, &str) = match how {
                "wrong_key" => (Some(StoreKeyMethod::RawKey), other.as_str()),
                "empty_key" => (Some(StoreKeyMethod::RawKey), ""),
                "bad_format" => (Some(StoreKeyMethod::RawKey), "not base58: 0OIl"),
                "short_key" => (Some(StoreKeyMethod::RawKey), "2VfUX"),
                "wrong_method_kdf" => (Some(argon), RAW_KEY),
                "wrong_method_none" => (Some(StoreKeyMethod::Unprotected), RAW_KEY),
                "no_method" => (None, RAW_KEY),
                _ => (None, other.as_str()),
            };
            let should_open = how == "no_method";
            match try_open(&path_s, method, key) {
                Ok(b) => {
                    // a handle obtained with a wrong key must not exist; with the right key it must read back the store
                    let res: Vec<Value> = reads.iter().map(|rd| do_read(&b, &profiles[0].0, rd)).collect();
                    close_backend(b);
                    if !should_open { orc.push(json!({"sig": format!("open:{}:opened", how)})); }
                    for (rd, got) in reads.iter().zip(res.iter()) {
                        judge(rd, got, &written[0], &BTreeSet::new(), false, false, &format!("open:{}", how), &mut orc, &mut feat);
                    }
                    out.push(json!({"open": "ok", "res": res}));
                }
                Err(v) => {
                    if v == "panic" { orc.push(json!({"sig": format!("open:{}:panic", how)})); }
                    else if should_open { orc.push(json!({"sig": format!("open:{}:refused", how), "got": v})); }
                    bump(&mut feat, &format!("obs:open:{}", if v == "panic" { "panic".to_string() } else { format!("err:{}", v["err"].as_str().unwrap_or("?")) }));
                    out.push(json!({"open": v}));
                }
            }
            continue;
        }

        let col = op["col"].as_str().unwrap_or("");
        let p = op["p"].as_u64().unwrap_or(0) as usize;
        let r = op["r"].as_u64().map(|x| x as usize);
        let t = op["t"].as_u64().map(|x| x as usize);
        let m = &op["mut"];
        let cell = match cell_of(&layout, col, p, r, t) {
            Some(c) => c,
            None => { out.push(json!({"err": "harness: no such cell"})); continue; }
        };
        let raw = RawDb::open(&path_s).expect("raw open");
        let old = match read_cell(&raw, &cell) {
            Ok(b) => b,
            Err(e) => { out.push(json!({"err": format!("harness: {}", e)})); continue; }
        };
        // the new bytes
        let mut same_profile = true;
        let mut kind_twin = false;
        let mut src_ident: Option<(usize, Ident)> = None;
        let new: Vec<u8> = if let Some(fl) = m["flip"].as_array() {
            let mut b = old.clone();
            let mut ok = true;
            for f in fl {
                let (i, mask) = (f[0].as_u64().unwrap_or(0) as usize, f[1].as_u64().unwrap_or(1) as u8);
                if i < b.len() { b[i] ^= mask; } else { ok = false; }
            }
            if !ok { out.push(json!({"len": old.len(), "err": "harness: flip index beyond the ciphertext"})); continue; }
            b
        } else if let Some(l) = m["trunc"].as_u64() {
            if (l as usize) > old.len() { out.push(json!({"len": old.len(), "err": "harness: truncation beyond the ciphertext"})); continue; }
            old[..l as usize].to_vec()
        } else if let Some(x) = m["extend"].as_str() {
            let extra = hex::decode(x).unwrap_or_default();
            if m["front"].as_bool().unwrap_or(false) { [extra, old.clone()].concat() } else { [old.clone(), extra].concat() }
        } else if m.get("empty").is_some() {
            vec![]
        } else if let Some(s) = m.get("subst") {
            let p2 = s["p"].as_u64().unwrap_or(0) as usize;
            let r2 = s["r"].as_u64().map(|x| x as usize);
            let t2 = s["t"].as_u64().map(|x| x as usize);
            same_profile = p2 == p;
            if let (Some(a), Some(b)) = (r, r2) {
                if let (Some(ra), Some(rb)) = (profiles.get(p).and_then(|x| x.1.get(a)), profiles.get(p2).and_then(|x| x.1.get(b))) {
                    kind_twin = same_profile && col == "value" && ra["c"] == rb["c"] && ra["n"] == rb["n"];
                    src_ident = Some((p2, ident_of(rb)));
                }
            }
            match cell_of(&layout, col, p2, r2, t2).map(|c| read_cell(&raw, &c)) {
                Some(Ok(b)) => b,
                _ => { out.push(json!({"len": old.len(), "err": "harness: no such source cell"})); continue; }
            }
        } else {
            out.push(json!({"err": "harness: unknown mutation"}));
            continue;
        };
        let _ = src_ident;
        let class = mutation_class(m, old.len(), same_profile, col, kind_twin);
        let changed = new != old;
        // re-association of tag rows inside one profile is outside the property (deterministic, item-independent tag ciphertexts)
        let exempt = class == "subst_tag";
        let ctx = format!("{}:{}", col, class);
        bump(&mut feat, &format!("col:{}", col));
        bump(&mut feat, &format!("cls:{}", class));
        if let Err(e) = write_cell(&raw, &cell, &new) {
            drop(raw);
            if e.to_lowercase().contains("unique") { bump(&mut feat, "skip:unique"); out.push(json!({"skip": "unique"})); }
            else { out.push(json!({"len": old.len(), "err": format!("harness: {}", e)})); }
            continue;
        }
        drop(raw);

        // the records whose stored ciphertext is no longer what was written
        let affected: BTreeSet<Ident> = if !changed { BTreeSet::new() }
            else if col == "profile_key" { written[p].keys().cloned().collect() }
            else { r.and_then(|ri| profiles[p].1.get(ri)).map(ident_of).into_iter().collect() };

        let mut entry = json!({"len": old.len()});
        match try_open(&path_s, Some(StoreKeyMethod::RawKey), RAW_KEY) {
            Err(v) => {
                if v == "panic" {
                    bump(&mut feat, "obs:open:panic");
                    orc.push(json!({"sig": format!("{}:open:panic", ctx), "op": op, "len": new.len()}));
                } else {
                    bump(&mut feat, &format!("obs:open:err:{}", v["err"].as_str().unwrap_or("?")));
                    // refusing to open is a legitimate outcome only when the opened profile's key was touched
                    if !(col == "profile_key" && p == 0 && changed) {
                        orc.push(json!({"sig": format!("{}:open:refused", ctx), "op": op, "got": v}));
                    }
                }
                entry["open"] = v;
            }
            Ok(b) => {
                entry["open"] = json!("ok");
                let res: Vec<Value> = reads.iter().map(|rd| { bump(&mut feat, "reads"); do_read(&b, &profiles[p].0, rd) }).collect();
                close_backend(b);
                for (rd, got) in reads.iter().zip(res.iter()) {
                    judge(rd, got, &written[p], &affected, changed, exempt, &ctx, &mut orc, &mut feat);
                }
                // "partial" pages are judged above but are not part of the compared outcome
                entry["res"] = Value::Array(res.into_iter().map(|mut v| { if let Some(o) = v.as_object_mut() { o.remove("partial"); } v }).collect());
            }
        }
        out.push(entry);

        // restore the original bytes
        let raw = RawDb::open(&path_s).expect("raw open");
        write_cell(&raw, &cell, &old).expect("restore");
    }

    // after all experiments the store must read back exactly as written (the restores worked, nothing was damaged)
    match try_open(&path_s, Some(StoreKeyMethod::RawKey), RAW_KEY) {
        Ok(b) => {
            for (i, (pname, _)) in profiles.iter().enumerate() {
                let got = do_read(&b, pname, &json!({"r": "fetch_all", "c": null}));
                let want = Value::Array({ let mut v: Vec<(&Ident, &Value)> = written[i].iter().collect(); v.sort_by(|a, b| (a.0 .0, a.0 .1.as_bytes(), a.0 .2.as_bytes()).cmp(&(b.0 .0, b.0 .1.as_bytes(), b.0 .2.as_bytes()))); v.into_iter().map(|x| x.1.clone()).collect() });
                if got != want { orc.push(json!({"sig": "final:readback-differs", "profile": pname, "got": got})); }
            }
            close_backend(b);
        }
        Err(v) => orc.push(json!({"sig": "final:open-failed", "got": v})),
    }
    cleanup(&path);
    json!({"out": out, "oracle": orc, "feat": feat})
}
