/-
Helper lemmas and proofs for C15 (model: `Model/Ecdh.lean`; property theorems: `Props/C15.lean`).
-/
import AskarModel.Model.Ecdh

namespace Askar.Ecdh

open Askar.Bytes (be32)

/-! ### be32, length prefixes -/

@[simp] theorem be32_length (n : Nat) : (be32 n).length = 4 := rfl

theorem u8_ofNat_inj {a b : Nat} (ha : a < 256) (hb : b < 256) (h : UInt8.ofNat a = UInt8.ofNat b) : a = b := by
  have := congrArg UInt8.toNat h
  simp [UInt8.toNat_ofNat'] at this
  omega

theorem be32_inj {n m : Nat} (hn : n < 2 ^ 32) (hm : m < 2 ^ 32) (h : be32 n = be32 m) : n = m := by
  unfold be32 at h
  simp only [List.cons.injEq, and_true] at h
  obtain ⟨h0, h1, h2, h3⟩ := h
  have e0 := u8_ofNat_inj (Nat.mod_lt _ (by decide)) (Nat.mod_lt _ (by decide)) h0
  have e1 := u8_ofNat_inj (Nat.mod_lt _ (by decide)) (Nat.mod_lt _ (by decide)) h1
  have e2 := u8_ofNat_inj (Nat.mod_lt _ (by decide)) (Nat.mod_lt _ (by decide)) h2
  have e3 := u8_ofNat_inj (Nat.mod_lt _ (by decide)) (Nat.mod_lt _ (by decide)) h3
  omega

theorem be32_append_inj {n m : Nat} {r r' : Bytes} (hn : n < 2 ^ 32) (hm : m < 2 ^ 32)
    (h : be32 n ++ r = be32 m ++ r') : n = m ∧ r = r' := by
  have := List.append_inj h (by simp)
  exact ⟨be32_inj hn hm this.1, this.2⟩

theorem lp_append_inj {a a' r r' : Bytes} (ha : a.length < 2 ^ 32) (ha' : a'.length < 2 ^ 32)
    (h : lp a ++ r = lp a' ++ r') : a = a' ∧ r = r' := by
  unfold lp at h
  rw [List.append_assoc, List.append_assoc] at h
  obtain ⟨hl, hr⟩ := be32_append_inj ha ha' h
  exact List.append_inj hr hl

/-- the optional tag field of ECDH-1PU's SuppPubInfo as the code writes it -/
def tagPart (t : Bytes) : Bytes := if t.isEmpty then [] else lp t

theorem tagPart_inj {t t' : Bytes} (ht : t.length < 2 ^ 32) (ht' : t'.length < 2 ^ 32) (h : tagPart t = tagPart t') : t = t' := by
  unfold tagPart at h
  cases t with
  | nil =>
    cases t' with
    | nil => rfl
    | cons x xs => simp [lp, be32] at h
  | cons y ys =>
    cases t' with
    | nil => simp [lp, be32] at h
    | cons x xs =>
      simp only [List.isEmpty_cons, Bool.false_eq_true, if_false] at h
      have := lp_append_inj (r := []) (r' := []) ht ht' (by simpa using h)
      exact this.1

/-! ### normal forms of the hashed strings -/

theorem esInput_eq (z alg apu apv : Bytes) (n : Nat) :
    esInput z alg apu apv n = be32 1 ++ (z ++ (lp alg ++ (lp apu ++ (lp apv ++ be32 (n * 8))))) := by
  simp [esInput, KdfHash.new, KdfHash.startPass, KdfHash.update, KdfHash.hashParams, List.append_assoc]

theorem puInput_eq (ze zs alg apu apv pi : Bytes) :
    puInput ze zs alg apu apv pi = be32 1 ++ (ze ++ (zs ++ (lp alg ++ (lp apu ++ (lp apv ++ pi))))) := by
  simp [puInput, KdfHash.new, KdfHash.startPass, KdfHash.update, KdfHash.hashParams, List.append_assoc]

theorem esInput_injective {z z' alg alg' apu apu' apv apv' : Bytes} {n n' : Nat}
    (hz : z.length = z'.length)
    (h1 : alg.length < 2 ^ 32) (h1' : alg'.length < 2 ^ 32) (h2 : apu.length < 2 ^ 32) (h2' : apu'.length < 2 ^ 32)
    (h3 : apv.length < 2 ^ 32) (h3' : apv'.length < 2 ^ 32) (hn : n * 8 < 2 ^ 32) (hn' : n' * 8 < 2 ^ 32)
    (h : esInput z alg apu apv n = esInput z' alg' apu' apv' n') :
    z = z' ∧ alg = alg' ∧ apu = apu' ∧ apv = apv' ∧ n = n' := by
  rw [esInput_eq, esInput_eq] at h
  have h := (List.append_inj h rfl).2
  obtain ⟨e1, h⟩ := List.append_inj h hz
  obtain ⟨e2, h⟩ := lp_append_inj h1 h1' h
  obtain ⟨e3, h⟩ := lp_append_inj h2 h2' h
  obtain ⟨e4, h⟩ := lp_append_inj h3 h3' h
  have e5 := be32_inj hn hn' h
  exact ⟨e1, e2, e3, e4, by omega⟩

theorem puInput_injective {ze ze' zs zs' alg alg' apu apu' apv apv' tag tag' : Bytes} {n n' : Nat}
    (hze : ze.length = ze'.length) (hzs : zs.length = zs'.length)
    (h1 : alg.length < 2 ^ 32) (h1' : alg'.length < 2 ^ 32) (h2 : apu.length < 2 ^ 32) (h2' : apu'.length < 2 ^ 32)
    (h3 : apv.length < 2 ^ 32) (h3' : apv'.length < 2 ^ 32) (h4 : tag.length < 2 ^ 32) (h4' : tag'.length < 2 ^ 32)
    (hn : n * 8 < 2 ^ 32) (hn' : n' * 8 < 2 ^ 32)
    (h : puInput ze zs alg apu apv (be32 (n * 8) ++ tagPart tag) = puInput ze' zs' alg' apu' apv' (be32 (n' * 8) ++ tagPart tag')) :
    ze = ze' ∧ zs = zs' ∧ alg = alg' ∧ apu = apu' ∧ apv = apv' ∧ n = n' ∧ tag = tag' := by
  rw [puInput_eq, puInput_eq] at h
  have h := (List.append_inj h rfl).2
  obtain ⟨e0, h⟩ := List.append_inj h hze
  obtain ⟨e1, h⟩ := List.append_inj h hzs
  obtain ⟨e2, h⟩ := lp_append_inj h1 h1' h
  obtain ⟨e3, h⟩ := lp_append_inj h2 h2' h
  obtain ⟨e4, h⟩ := lp_append_inj h3 h3' h
  obtain ⟨e5, h⟩ := be32_append_inj hn hn' h
  exact ⟨e0, e1, e2, e3, e4, by omega, tagPart_inj h4 h4' h⟩

/-! ### the slice writer -/

theorem write_ok {w : SliceWriter} {d : Bytes} (hw : w.pos ≤ w.inner.length) (hfit : w.pos + d.length ≤ w.inner.length) :
    w.write d = .ok ⟨w.inner.take w.pos ++ d ++ w.inner.drop (w.pos + d.length), w.pos + d.length⟩ := by
  unfold SliceWriter.write
  simp only
  rw [if_neg (by omega), if_neg (by omega)]

theorem write_full {w : SliceWriter} {d : Bytes} (hfit : ¬ w.pos + d.length ≤ w.inner.length) :
    w.write d = .err .exceededBuffer := by
  unfold SliceWriter.write
  simp only
  rw [if_pos (by omega)]

/-- a write never panics, keeps the slice length, and extends the written prefix by exactly the data -/
theorem write_spec (w : SliceWriter) (d : Bytes) (_hw : w.pos ≤ w.inner.length) :
    w.write d = .err .exceededBuffer ∨
    ∃ w', w.write d = .ok w' ∧ w'.inner.length = w.inner.length ∧ w'.pos = w.pos + d.length ∧ w'.pos ≤ w'.inner.length ∧
      w'.inner.take w'.pos = w.inner.take w.pos ++ d := by
  by_cases hfit : w.pos + d.length ≤ w.inner.length
  · right
    refine ⟨_, write_ok _hw hfit, ?_, rfl, ?_, ?_⟩
    · simp; omega
    · simp; omega
    · simp only
      have hl : (List.take w.pos w.inner ++ d).length = w.pos + d.length := by simp; omega
      rw [List.take_append_of_le_length (by omega), List.take_of_length_le (by omega)]
  · left; exact write_full hfit

theorem write_ok' {w : SliceWriter} {d : Bytes} (hw : w.pos ≤ w.inner.length) (hfit : w.pos + d.length ≤ w.inner.length) :
    ∃ w', w.write d = .ok w' ∧ w'.inner.length = w.inner.length ∧ w'.pos = w.pos + d.length ∧
      w'.inner.take w'.pos = w.inner.take w.pos ++ d := by
  rcases write_spec w d hw with h | ⟨w', h1, h2, h3, _, h5⟩
  · rw [write_ok hw hfit] at h; cases h
  · exact ⟨w', h1, h2, h3, h5⟩

theorem asRef_ok {w : SliceWriter} (hw : w.pos ≤ w.inner.length) : w.asRef = .ok (w.inner.take w.pos) := by
  unfold SliceWriter.asRef; rw [if_neg (by omega)]

/-- what `pub_info` holds: the code's result for every output length and tag -/
theorem pubInfo1pu_eq (n : Nat) (tag : Bytes) :
    pubInfo1pu n tag = if tag.length ≤ 124 then .ok (be32 (n * 8) ++ tagPart tag) else .err .exceededBuffer := by
  unfold pubInfo1pu
  have hn0 : (SliceWriter.new 132).inner.length = 132 := by simp [SliceWriter.new]
  have hp0 : (SliceWriter.new 132).pos = 0 := rfl
  obtain ⟨w1, e1, l1, p1, t1⟩ := write_ok' (w := SliceWriter.new 132) (d := be32 (n * 8)) (by omega) (by rw [hn0, hp0]; simp)
  rw [hp0] at p1 t1
  rw [hn0] at l1
  simp only [List.take_zero, List.nil_append, be32_length, Nat.zero_add] at p1 t1
  simp only [e1, Res.ok_bind]
  cases tag with
  | nil =>
    simp only [List.isEmpty_nil, if_true, Res.pure_eq, Res.ok_bind]
    rw [asRef_ok (by omega), t1]
    simp [tagPart]
  | cons x xs =>
    simp only [List.isEmpty_cons, Bool.false_eq_true, if_false]
    obtain ⟨w2, e2, l2, p2, t2⟩ := write_ok' (w := w1) (d := be32 (x :: xs).length) (by omega) (by rw [p1, l1]; simp)
    rw [t1] at t2
    rw [p1] at p2
    rw [l1] at l2
    simp only [be32_length] at p2
    simp only [e2, Res.ok_bind]
    by_cases hl : (x :: xs).length ≤ 124
    · obtain ⟨w3, e3, l3, p3, t3⟩ := write_ok' (w := w2) (d := x :: xs) (by omega) (by rw [p2, l2]; omega)
      rw [e3, if_pos hl]
      simp only [Res.ok_bind]
      rw [asRef_ok (by rw [p3, l3, p2, l2]; omega), t3, t2]
      simp [tagPart, lp, List.append_assoc]
    · rw [write_full (by rw [p2, l2]; omega), if_neg hl]
      rfl

theorem pubInfo1pu_ne_panic (n : Nat) (tag : Bytes) : pubInfo1pu n tag ≠ .panic := by
  rw [pubInfo1pu_eq]; split <;> simp

/-- the 132-byte stack buffer is never overrun -/
theorem pubInfo1pu_bounded {n : Nat} {tag b : Bytes} (h : pubInfo1pu n tag = .ok b) : b.length ≤ 132 := by
  rw [pubInfo1pu_eq] at h
  split at h
  · rename_i hl
    injection h with h
    subst h
    unfold tagPart
    split <;> simp [lp] <;> omega
  · cases h

/-! ### key exchange -/

theorem keyExchange_ne_panic (D : DhOps) (a b : Key) : keyExchange D a b ≠ .panic := by
  unfold keyExchange
  split
  · simp
  · split
    · split <;> simp
    · simp

theorem exchange_ne_panic (D : DhOps) (a b : Key) (r : Bool) : exchange D a b r ≠ .panic := by
  unfold exchange; split <;> exact keyExchange_ne_panic _ _ _

theorem keyExchange_full (D : DhOps) (c : Curve) (sk : Bytes) (other : Key) (h : other.ty = .dh c) :
    keyExchange D (Key.full D c sk) other = .ok (D.dh c sk other.pub) := by
  simp [keyExchange, Key.full, h]

theorem keyExchange_length (D : DhOps) (L : DhLaws D) {a b : Key} {z : Bytes} {c : Curve} (hc : a.ty = .dh c)
    (h : keyExchange D a b = .ok z) : z.length = L.zlen c := by
  unfold keyExchange at h
  split at h
  · cases h
  · rw [hc] at h
    simp only at h
    split at h
    · injection h with h; subst h; exact L.dh_len _ _ _
    · cases h

/-! ### derivations -/

theorem takeKey_ok {d : Bytes} {n : Nat} (h : n ≤ d.length) : takeKey d n = .ok (d.take n) := by
  unfold takeKey; rw [if_neg (by omega)]

theorem deriveEsBytes_eq (D : DhOps) (hash : Bytes → Bytes) (hlen : ∀ x, (hash x).length = 32) (eph rcp : Key)
    (alg apu apv : Bytes) (receive : Bool) (n : Nat) :
    deriveEsBytes D hash eph rcp alg apu apv receive n =
      if n > 32 then .err .unsupported
      else exchange D eph rcp receive >>= fun z =>
        .ok ((hash (esInput z alg apu apv n)).take n) := by
  unfold deriveEsBytes
  split
  · rfl
  · rename_i hn
    congr 1
    funext z
    exact takeKey_ok (by rw [hlen]; omega)

theorem derive1puBytes_eq (D : DhOps) (hash : Bytes → Bytes) (hlen : ∀ x, (hash x).length = 32) (eph snd rcp : Key)
    (alg apu apv tag : Bytes) (receive : Bool) (n : Nat) :
    derive1puBytes D hash eph snd rcp alg apu apv tag receive n =
      if n > 32 then .err .unsupported
      else if tag.length > 128 then .err .unsupported
      else exchange D eph rcp receive >>= fun ze =>
        exchange D snd rcp receive >>= fun zs =>
          if tag.length ≤ 124 then .ok ((hash (puInput ze zs alg apu apv (be32 (n * 8) ++ tagPart tag))).take n)
          else .err .exceededBuffer := by
  unfold derive1puBytes
  split
  · rfl
  · rename_i hn
    split
    · rfl
    · congr 1
      funext ze
      congr 1
      funext zs
      rw [pubInfo1pu_eq]
      split
      · simp only [Res.ok_bind]
        exact takeKey_ok (by rw [hlen]; omega)
      · rfl

theorem res_bind_ne_panic {α β} {r : Res α} {f : α → Res β} (hr : r ≠ .panic) (hf : ∀ a, f a ≠ .panic) : (r >>= f) ≠ .panic := by
  cases r with
  | ok a => exact hf a
  | err e => simp
  | panic => exact absurd rfl hr

theorem deriveEsBytes_ne_panic (D : DhOps) (hash : Bytes → Bytes) (hlen : ∀ x, (hash x).length = 32) (eph rcp : Key)
    (alg apu apv : Bytes) (receive : Bool) (n : Nat) : deriveEsBytes D hash eph rcp alg apu apv receive n ≠ .panic := by
  rw [deriveEsBytes_eq D hash hlen]
  split
  · simp
  · apply res_bind_ne_panic
    · exact exchange_ne_panic _ _ _ _
    · intro a; simp

theorem derive1puBytes_ne_panic (D : DhOps) (hash : Bytes → Bytes) (hlen : ∀ x, (hash x).length = 32) (eph snd rcp : Key)
    (alg apu apv tag : Bytes) (receive : Bool) (n : Nat) :
    derive1puBytes D hash eph snd rcp alg apu apv tag receive n ≠ .panic := by
  rw [derive1puBytes_eq D hash hlen]
  split
  · simp
  · split
    · simp
    · apply res_bind_ne_panic
      · exact exchange_ne_panic _ _ _ _
      · intro ze
        apply res_bind_ne_panic
        · exact exchange_ne_panic _ _ _ _
        · intro zs; split <;> simp

end Askar.Ecdh
