/-
C08 — only the right key opens a store; re-key, provisioning and URIs lose nothing.
ONLY property theorems and non-vacuity examples live here; the models are Model/Keys.lean (A) and
Model/Uri.lean (B), the helper lemmas Lemmas/Keys.lean and Lemmas/Uri.lean.

Conventions.  `C : Crypto` are the third-party primitives (Argon2i, base58, the AEAD wrap of the
profile key) as parameters; `C.Laws` is what is assumed of them (decryptability + the idealisation
"a sealed blob loads under no other store key").  `Rnd` are the random choices of one call.
`Store` is the logical content of the SQLite file, `Fs` adds "no file" / "file without tables".
A Rust `str` is modelled as its bytes (`Str`), with the type invariant as the predicate `validUtf8`.
-/
import AskarModel.Model.Uri
import AskarModel.Model.Keys
import AskarModel.Lemmas.Uri
import AskarModel.Lemmas.Keys
import AskarModel.Model.KeysDisk
import AskarModel.Model.SqliteOpts
import AskarModel.Lemmas.KeysDisk
import AskarModel.Lemmas.UriOpts

namespace Askar.C08
open Askar.Uri Askar.Keys

variable {C : Crypto} {I : Type}

/-! ## Model A — keys and the store life cycle -/

/-- The text stored in `config.key` parses back to the key reference it was written from, for every
    reference the code can produce (`KeyRef.WF`: the detail is empty or `?…`; see `keyref_parse_wf`
    and `resolve_ref_wf`: both producers only yield such references). -/
theorem keyref_uri_roundtrip (r : KeyRef) (h : r.WF) : KeyRef.parse r.toUri = .ok r :=
  keyref_roundtrip r h

theorem keyref_parse_wf (s : Str) (r : KeyRef) (h : KeyRef.parse s = .ok r) : r.WF := parse_wf h

theorem resolve_ref_wf (m : Method) (pass : PassKey) (rnd : Rnd C) (sk : Option C.Key) (ref : KeyRef)
    (h : m.resolve C pass rnd = .ok (sk, ref)) : ref.WF ∧ ref.method = m :=
  resolve_ref m pass rnd sk ref h

/-- The Argon2 salt survives `format!("?salt={}", hex)` → `Options::parse_uri` → `hex::decode_to_slice`
    (this goes through model B's `parseUri`). -/
theorem salt_roundtrip (salt : Bytes) (hlen : salt.length = 16) : parseSalt (saltDetail salt) = .ok salt :=
  parseSalt_saltDetail salt hlen

/-- **Only the right key opens a store.**  For a store all of whose profile keys are sealed under
    `sk0` (what provision / create_profile / rekey establish: `provision_fresh`, `rekey_preserves`),
    and a requested profile that exists: `open` succeeds *iff* the named method (if one is named)
    is the stored one and the pass key resolves — through the stored key reference, i.e. with the
    stored salt — to `sk0` itself. -/
theorem open_iff_right_key (L : C.Laws) (st : Store C I) (sk0 : Option C.Key) (hs : SealedUnder C sk0 st)
    (ref : KeyRef) (hp : KeyRef.parse st.keyRef = .ok ref)
    (m : Option Method) (pass : PassKey) (p : Option Str)
    (hex : (lookup (p.getD st.defaultProfile) st.profiles).isSome) :
    (∃ h, openDb C st m pass p = .ok h) ↔
      (∀ m', m = some m' → ref.method = m') ∧ ref.resolve C pass = .ok sk0 :=
  Keys.open_iff_right_key L st sk0 hs ref hp m pass p hex

/-- … and whoever gets a handle holds exactly that key. -/
theorem open_yields_store_key (L : C.Laws) (st : Store C I) (sk0 : Option C.Key) (hs : SealedUnder C sk0 st)
    (m : Option Method) (pass : PassKey) (p : Option Str) (h : Handle C) (ho : openDb C st m pass p = .ok h) :
    h.storeKey = sk0 :=
  open_storeKey_eq L st sk0 hs m pass p h ho

/-- … and under the collision-freeness idealisation of Argon2i / base58 (`Crypto.Inj`), two pass keys
    that resolve to the same store key through the same key reference are the same text: "the right
    key" is *the* pass key the store was keyed with (for `none` every pass key is right, by design). -/
theorem right_key_is_the_pass_key (J : C.Inj) (ref : KeyRef) (hne : ref ≠ .unprotected) (pass pass' : PassKey)
    (sk : Option C.Key) (h : ref.resolve C pass = .ok sk) (h' : ref.resolve C pass' = .ok sk) :
    pass.str = pass'.str :=
  resolve_same_key_same_pass J ref hne pass pass' sk h h'

/-- `open` writes nothing: whatever key, method or profile is given, and whether it succeeds or
    is rejected, the persistent state afterwards is the state before. -/
theorem wrong_open_no_change (fs : Fs C I) (m : Option Method) (pass : PassKey) (p : Option Str) :
    (openStore C fs m pass p).1 = fs :=
  openStore_fs fs m pass p

/-- Provisioning without `recreate` over an existing store is `open` with the method check and
    leaves the store as it is (contents preserved, also when the key is wrong). -/
theorem provision_existing (noItems : I) (st : Store C I) (m : Method) (pass : PassKey) (p : Option Str) (rnd : Rnd C) :
    provision C noItems (.store st) m pass p false rnd = (.store st, openDb C st (some m) pass p) :=
  provision_existing_eq noItems st m pass p rnd

/-- `recreate` forgets whatever was there … -/
theorem provision_recreate (noItems : I) (fs : Fs C I) (m : Method) (pass : PassKey) (p : Option Str) (rnd : Rnd C) :
    provision C noItems fs m pass p true rnd = provision C noItems .absent m pass p false rnd :=
  provision_recreate_eq noItems fs m pass p rnd

/-- … and a successful creation yields the empty store: no items, one profile (the active and
    default one), sealed under the new key — which the same method and pass key open again. -/
theorem provision_fresh (L : C.Laws) (noItems : I) (fs fs' : Fs C I) (hfs : fs = .absent ∨ fs = .empty)
    (m : Method) (pass : PassKey) (p : Option Str) (rnd : Rnd C) (hsalt : rnd.salt.length = 16) (h : Handle C)
    (hp : provision C noItems fs m pass p false rnd = (fs', .ok h)) :
    ∃ st, fs' = .store st ∧ st.items = noItems ∧ st.defaultProfile = h.profile ∧ h.profile = p.getD rnd.profileName ∧
      st.profiles.map (·.1) = [h.profile] ∧ SealedUnder C h.storeKey st ∧
      openDb C st (some m) pass none = .ok h ∧ openDb C st none pass none = .ok h :=
  Keys.provision_fresh L noItems fs fs' hfs m pass p rnd hsalt h hp

/-- A blank raw key (`None` or `""`) is refused whenever a store would be created. -/
theorem blank_raw_refused (noItems : I) (pass : PassKey) (p : Option Str) (rnd : Rnd C) (h : pass.str = []) :
    provision C noItems .absent .raw pass p false rnd = (.empty, .error .input) ∧
    provision C noItems .empty .raw pass p false rnd = (.empty, .error .input) :=
  provision_blank_raw noItems pass p rnd h

/-- **Re-keying preserves everything**, for every target method and every source key: the same
    profile names, the same profile keys (read with the new store key) — hence the same records —
    the same items and default profile; the store is sealed under the new key and its stored key
    reference parses back and names the new method. -/
theorem rekey_preserves (L : C.Laws) (st st' : Store C I) (h h' : Handle C) (m : Method) (pass : PassKey) (rnd : Rnd C)
    (hr : rekey C st h m pass rnd = (st', .ok h')) :
    loadAll C h'.storeKey st'.profiles = loadAll C h.storeKey st.profiles ∧
    (∃ r, loadAll C h.storeKey st.profiles = .ok r) ∧
    st'.profiles.map (·.1) = st.profiles.map (·.1) ∧
    st'.items = st.items ∧ st'.defaultProfile = st.defaultProfile ∧
    SealedUnder C h'.storeKey st' ∧
    h'.profile = h.profile ∧ h'.pk = h.pk ∧
    (∃ ref, m.resolve C pass rnd = .ok (h'.storeKey, ref) ∧ KeyRef.parse st'.keyRef = .ok ref ∧ ref.method = m) :=
  rekey_ok rekeyRefusesBlankRaw L st st' h h' m pass rnd hr

/-- A rejected re-key changes nothing. -/
theorem rekey_failed_no_change (st : Store C I) (h : Handle C) (m : Method) (pass : PassKey) (rnd : Rnd C) (e : Err)
    (hr : (rekey C st h m pass rnd).2 = .error e) : (rekey C st h m pass rnd).1 = st :=
  rekey_err_unchanged rekeyRefusesBlankRaw st h m pass rnd e hr

/-- The new (method, pass key) opens the re-keyed store (for a usable pass key: not a blank raw one —
    with the guard of 9124dcd in the source that case cannot succeed anyway, see below). -/
theorem rekey_new_key_opens (L : C.Laws) (st st' : Store C I) (h h' : Handle C) (m : Method) (pass : PassKey)
    (rnd : Rnd C) (hsalt : rnd.salt.length = 16) (hraw : m = .raw → pass.str ≠ [])
    (hr : rekey C st h m pass rnd = (st', .ok h'))
    (p : Option Str) (hex : (lookup (p.getD st'.defaultProfile) st'.profiles).isSome) :
    ∃ hh, openDb C st' (some m) pass p = .ok hh ∧ hh.storeKey = h'.storeKey :=
  rekey_then_open rekeyRefusesBlankRaw L st st' h h' m pass rnd hsalt hraw hr p hex

/-- **The previous key is dead**, for all ordered pairs of methods: after a re-key, every
    successful open holds the NEW store key and, if it names a method, names the NEW method.
    So a previous (method, pass key) that resolves to any other key, or names any other method,
    is rejected. -/
theorem rekey_old_key_dead (L : C.Laws) (st st' : Store C I) (h h' : Handle C) (m : Method) (pass : PassKey)
    (rnd : Rnd C) (hr : rekey C st h m pass rnd = (st', .ok h'))
    (m0 : Option Method) (pass0 : PassKey) (p : Option Str) (hh : Handle C)
    (ho : openDb C st' m0 pass0 p = .ok hh) :
    hh.storeKey = h'.storeKey ∧ ∀ m', m0 = some m' → m' = m :=
  rekey_then_open_only_new rekeyRefusesBlankRaw L st st' h h' m pass rnd hr m0 pass0 p hh ho

/-- The twelve ordered pairs of *different* methods, spelled out: naming the old method fails with `Input`. -/
theorem rekey_old_method_refused (L : C.Laws) (st st' : Store C I) (h h' : Handle C) (m mOld : Method) (pass : PassKey)
    (rnd : Rnd C) (hr : rekey C st h m pass rnd = (st', .ok h')) (hne : mOld ≠ m)
    (pass0 : PassKey) (p : Option Str) : openDb C st' (some mOld) pass0 p = .error .input :=
  rekey_other_method_refused rekeyRefusesBlankRaw L st st' h h' m mOld pass rnd hr hne pass0 p

/-- The default-profile setting is what a later `open` without a profile name activates, and a
    re-key keeps it (`rekey_preserves`); `open` itself never changes it (`wrong_open_no_change`). -/
theorem default_profile_persists (st : Store C I) (name : Str) (m : Option Method) (pass : PassKey) (h : Handle C)
    (ho : openDb C (setDefaultProfile st name) m pass none = .ok h) : h.profile = name :=
  open_default_profile (setDefaultProfile st name) m pass h ho

/-- The statement "a blank raw key is refused" at full strength — also by `rekey`, and nothing is
    written — for the variant of `rekey` with (`g = true`) or without (`g = false`) the check
    `method == RawKey && pass_key.is_empty()` in front of `resolve`. -/
def BlankRawRefusedBy (g : Bool) : Prop :=
  ∀ (C : Crypto) (I : Type) (st : Store C I) (h : Handle C) (pass : PassKey) (rnd : Rnd C),
    pass.str = [] → rekeyG g C st h .raw pass rnd = (st, .error .input)

/-- … and for the CURRENT tree (`Keys.rekey` follows `Generated.Flags.rekeyRefusesBlankRaw`). -/
def BlankRawRefusedEverywhere : Prop :=
  ∀ (C : Crypto) (I : Type) (st : Store C I) (h : Handle C) (pass : PassKey) (rnd : Rnd C),
    pass.str = [] → rekey C st h .raw pass rnd = (st, .error .input)

/-- With the guard the full statement holds. -/
theorem blank_raw_refused_everywhere_of_guard : BlankRawRefusedBy true :=
  fun _ _ st h pass rnd hb => rekey_blank_raw_refused st h pass rnd hb

/-- Hence it holds on the current tree whenever the source has the guard. -/
theorem blank_raw_refused_everywhere_current (hg : rekeyRefusesBlankRaw = true) : BlankRawRefusedEverywhere := by
  intro C I st h pass rnd hb
  unfold rekey; rw [hg]
  exact rekey_blank_raw_refused st h pass rnd hb

/-- Without the guard it is FALSE (defect D25, found by this check, fixed in 9124dcd):
    `StoreKeyMethod::resolve` answers a blank raw pass key with `StoreKey::random()` and the re-key
    goes through.  Witness: an unprotected one-profile store. -/
theorem blank_raw_accepted_without_guard : ¬ BlankRawRefusedBy false := by
  intro h
  have := h Crypto.toy Unit
    { keyRef := sNone, defaultProfile := [0x70], profiles := [([0x70], (none, 1))], items := () }
    { storeKey := none, profile := [0x70], pk := 1 } none Crypto.toyRnd rfl
  have e : (rekeyG false Crypto.toy (I := Unit)
      { keyRef := sNone, defaultProfile := [0x70], profiles := [([0x70], (none, 1))], items := () }
      { storeKey := none, profile := [0x70], pk := 1 } .raw none Crypto.toyRnd).2
      = .ok { storeKey := some (99 : Nat), profile := [0x70], pk := (1 : Nat) } := rfl
  rw [this] at e; cases e

/-- What does hold without the guard: the store ends up sealed under the *random* key, which no
    pass key denotes. -/
theorem blank_raw_rekey_partial (st : Store C I) (h : Handle C) (pass : PassKey) (rnd : Rnd C) (hb : pass.str = [])
    (ps' : List (Str × C.Blob)) (hw : rewrap C h.storeKey (some rnd.key) rnd.nonce 0 st.profiles = .ok ps') :
    rekeyG false C st h .raw pass rnd = ({ st with profiles := ps', keyRef := sRaw }, .ok { h with storeKey := some rnd.key }) :=
  rekey_blank_raw_accepted st h pass rnd hb ps' hw

/-- Either way the verdict on the current tree is decided by the flag read from the source. -/
theorem blank_raw_status :
    (rekeyRefusesBlankRaw = true ∧ BlankRawRefusedEverywhere) ∨ (rekeyRefusesBlankRaw = false ∧ ¬ BlankRawRefusedEverywhere) := by
  cases hg : rekeyRefusesBlankRaw with
  | true => exact Or.inl ⟨rfl, blank_raw_refused_everywhere_current hg⟩
  | false =>
    refine Or.inr ⟨rfl, fun h => blank_raw_accepted_without_guard ?_⟩
    intro C I st hh pass rnd hb
    have := h C I st hh pass rnd hb
    unfold rekey at this; rw [hg] at this; exact this

/-! Non-vacuity: the laws have an instance; a concrete provision / rekey / open run succeeds. -/
example : Crypto.toy.Laws := Crypto.toy_laws
example : (KeyRef.kdf .interactive (saltDetail [1, 2])).WF := Or.inr ⟨_, _, rfl⟩
example : Crypto.toyRnd.salt.length = 16 := by decide
example : ∃ fs h, provision Crypto.toy () .absent (.kdf .interactive) (some [0x70, 0x77]) (some [0x70]) false Crypto.toyRnd = (fs, .ok h) :=
  ⟨_, _, rfl⟩

/-! ## Model B — store URIs -/

/-- **The round-trip property at full strength**, for an `into_uri` that writes `sep` between two
    `key=value` pairs: for every well-formed `Options` (explicit decidable predicate `Options.WF`,
    Model/Uri.lean) and EVERY order `qs` in which the hash map may enumerate its entries, parsing
    what is written gives the same `Options` (query compared as a map). -/
def UriRoundtripFor (sep : Str) : Prop :=
  ∀ (o : Options), o.WF = true → ∀ qs : List (Str × Str), qs.Perm o.query →
    (parseUri (intoUriSep sep qs o)).Equiv o

/-- … and for the `into_uri` of the CURRENT tree (`Uri.queryPairSeparator` follows
    `Generated.Flags.uriQueryAmpersand`, read from options.rs on every run). -/
def UriRoundtrip : Prop :=
  ∀ (o : Options), o.WF = true → ∀ qs : List (Str × Str), qs.Perm o.query →
    (parseUri (intoUriWith qs o)).Equiv o

/-- The statement is decided by the separator: with `&` it holds, with nothing it fails. -/
theorem uri_roundtrip_by_separator : UriRoundtripFor [0x26] ∧ ¬ UriRoundtripFor [] :=
  ⟨fun o hwf qs hp => roundtrip_equiv_amp o hwf qs hp,
   fun h => d1Witness_not_equiv (h d1Witness d1Witness_wf d1Witness.query (List.Perm.refl _))⟩

/-- Without a separator (defect D1, the tree before 3030f32) the full statement is FALSE: witness
    host `h`, query {a ↦ 1, b ↦ 2}, written `h?a=1b=2`, read back as {a ↦ "1b=2"}. -/
theorem uri_roundtrip_false_without_separator : ¬ UriRoundtripFor [] := uri_roundtrip_by_separator.2

/-- On the current tree the round trip holds whenever the source writes the `&`. -/
theorem uri_roundtrip_current (hf : Askar.Generated.Flags.uriQueryAmpersand = true) : UriRoundtrip := by
  intro o hwf qs hp
  have hs : queryPairSeparator = [0x26] := by unfold queryPairSeparator; rw [hf]; rfl
  unfold intoUriWith; rw [hs]
  exact roundtrip_equiv_amp o hwf qs hp

/-- Either way the verdict on the current tree is decided by the flag read from the source. -/
theorem uri_roundtrip_status :
    (Askar.Generated.Flags.uriQueryAmpersand = true ∧ UriRoundtrip) ∨
    (Askar.Generated.Flags.uriQueryAmpersand = false ∧ ¬ UriRoundtrip) := by
  cases hf : Askar.Generated.Flags.uriQueryAmpersand with
  | true => exact Or.inl ⟨rfl, uri_roundtrip_current hf⟩
  | false =>
    refine Or.inr ⟨rfl, fun h => ?_⟩
    have hs : queryPairSeparator = [] := by unfold queryPairSeparator; rw [hf]; rfl
    have := h d1Witness d1Witness_wf d1Witness.query (List.Perm.refl _)
    unfold intoUriWith at this; rw [hs] at this
    exact d1Witness_not_equiv this

/-- The part that holds on every tree: at most one query parameter. -/
theorem uri_roundtrip_partial (o : Options) (hwf : o.WF = true) (qs : List (Str × Str)) (hp : qs.Perm o.query)
    (hlen : o.query.length ≤ 1) : (parseUri (intoUriWith qs o)).Equiv o :=
  roundtrip_equiv_short queryPairSeparator o hwf qs hp (hp.length_eq ▸ hlen)

/-- With `&` between the pairs the round trip holds for all well-formed options, any number of
    parameters, any enumeration order — and the parsed map lists exactly the written pairs. -/
theorem uri_roundtrip_with_ampersand (o : Options) (hwf : o.WF = true) (qs : List (Str × Str)) (hp : qs.Perm o.query) :
    parseUri (intoUriSep [0x26] qs o) = { o with query := qs.reverse } :=
  roundtrip_amp o hwf qs hp

/-- The `List Char` view: every string of Unicode scalar values is a `validUtf8` byte string, so the
    validity clauses of `WF` hold for every Rust `String`; what remains of `WF` is syntactic. -/
theorem utf8_valid (cs : List Char) : validUtf8 (Uri.utf8 cs) = true := validUtf8_utf8 cs

/-- `from_utf8_lossy` is the identity on valid UTF-8 (and only there does `percent_decode` keep text). -/
theorem lossy_valid (s : Str) (h : validUtf8 s = true) : lossy s = s := lossy_of_valid s h

/-! Non-vacuity: a non-trivial `Options` satisfying `WF` — scheme `sqlite`, user `u/é`, password `p w`,
    host `h`, path `/a b`, query {`b c` ↦ `2 é`}, fragment `f#` — and its round trip computed. -/
def exOpts : Options :=
  { scheme := Uri.utf8 ['s', 'q', 'l', 'i', 't', 'e'], user := Uri.utf8 ['u', '/', 'é'], password := Uri.utf8 ['p', ' ', 'w'],
    host := Uri.utf8 ['h'], path := Uri.utf8 ['/', 'a', ' ', 'b'], query := [(Uri.utf8 ['b', ' ', 'c'], Uri.utf8 ['2', ' ', 'é'])],
    fragment := Uri.utf8 ['f', '#'] }
example : exOpts.WF = true := by decide
example : parseUri (intoUri exOpts) = exOpts := by decide
example : d1Witness.WF = true := d1Witness_wf

/-! ## Model A′ — what is at the path is not a store this code wrote (Model/KeysDisk.lean)

`Disk` = nothing / a directory / a non-database / a database without tables / a database whose three `config` cells are each
missing, a TEXT (NULL reads as ""), or a BLOB.  `openDisk` is `SqliteStoreOptions::open` on it. -/

/-- **The codec of `config.key` is total**: every text either parses to a well-formed reference or is refused with
    `Unsupported` — no third outcome, no panic. -/
theorem keyref_parse_total (s : Str) :
    (∃ r, KeyRef.parse s = .ok r ∧ r.WF) ∨ KeyRef.parse s = .error .unsupported := by
  cases h : KeyRef.parse s with
  | ok r => exact Or.inl ⟨r, rfl, parse_wf h⟩
  | error e => rw [keyRef_parse_err h]; exact Or.inr rfl

/-- … and so is the method parser of the caller's side. -/
theorem method_parse_total (s : Str) : (∃ m, Method.parse s = .ok m) ∨ Method.parse s = .error .unsupported := by
  cases h : Method.parse s with
  | ok m => exact Or.inl ⟨m, rfl⟩
  | error e => rw [method_parse_err h]; exact Or.inr rfl

/-- Resolving a parsed reference with a pass key either yields a store key or is refused with `Input`. -/
theorem keyref_resolve_total (r : KeyRef) (pass : PassKey) :
    (∃ sk, r.resolve C pass = .ok sk) ∨ r.resolve C pass = .error .input := by
  cases h : r.resolve C pass with
  | ok sk => exact Or.inl ⟨sk, rfl⟩
  | error e => rw [keyRef_resolve_err h]; exact Or.inr rfl

/-- The salt of a derived-key reference is accepted iff the LAST `salt` parameter of the detail is the hex text of exactly
    16 bytes (either case of the digits); absent, odd, non-hex, 15 or 17 bytes: `Input`. -/
theorem salt_accepted_iff (d : Str) (b : Bytes) :
    parseSalt d = .ok b ↔ ∃ s, Uri.mapGet (parseUri d).query sSalt = some s ∧ hexDecode s = some b ∧ b.length = 16 :=
  parseSalt_ok_iff d b

theorem salt_accepted_has_32_digits (d : Str) (b : Bytes) (h : parseSalt d = .ok b) :
    b.length = 16 ∧ ∃ s, Uri.mapGet (parseUri d).query sSalt = some s ∧ s.length = 32 :=
  parseSalt_ok_length h

theorem salt_refused_with_input (d : Str) (e : Err) (h : parseSalt d = .error e) : e = .input := parseSalt_err h

/-- Codec laxness made explicit: after the prefix `raw` / `none` a `:` and ANY text is accepted and ignored. -/
theorem keyref_prefix_decides (s : Str) :
    ((splitOnce 0x3A s).1 = sRaw → KeyRef.parse s = .ok .raw) ∧ ((splitOnce 0x3A s).1 = sNone → KeyRef.parse s = .ok .unprotected) :=
  ⟨keyRef_parse_raw s, keyRef_parse_none s⟩

/-- **`open` writes nothing**, whatever is at the path and whatever the outcome. -/
theorem open_never_writes (d : Disk C I) (m : Option Method) (pass : PassKey) (p : Option Str) :
    (openDisk C d m pass p).1 = d := rfl

/-- On a store written by this code, `openDisk` IS the `openStore` of model A: every theorem above carries over. -/
theorem open_on_store_is_model_A (fs : Fs C I) (m : Option Method) (pass : PassKey) (p : Option Str) :
    openDisk C (Disk.ofFs fs) m pass p = (Disk.ofFs fs, (openStore C fs m pass p).2) :=
  openDisk_ofFs fs m pass p

/-- **Every refusal carries a documented kind** — Backend, Encryption, Input, NotFound or Unsupported; never Busy, Custom,
    Duplicate or Unexpected — for every disk state, method, pass key and profile (given that the profile-key loader answers
    Encryption / Unsupported, see `profile_key_load_kinds`). -/
theorem open_refused_with_documented_kind (hL : LoadKinds C) (d : Disk C I) (m : Option Method) (pass : PassKey)
    (p : Option Str) (e : Err) (h : (openDisk C d m pass p).2 = .error e) : Documented e :=
  openDisk_err_kinds hL d m pass p e h

/-- **Only a well-formed configuration opens**: a database; version exactly "1"; the key row a TEXT; no BLOB where a text is
    read; a profile to activate (the caller's or a TEXT default) — and then the outcome is that of model A's `openDb` on the
    store these rows describe (so `open_iff_right_key` applies: the key text must parse, the method match, the pass key resolve
    to the sealing key). -/
theorem open_only_wellformed_config (d : Disk C I) (m : Option Method) (pass : PassKey) (p : Option Str) (h : Handle C)
    (ho : (openDisk C d m pass p).2 = .ok h) :
    ∃ cfg ps it k q, d = .db cfg ps it ∧ cfg.version = .text sOne ∧ cfg.key = .text k ∧ cfg.defaultProfile ≠ .blob ∧
      (match p with | some p' => q = p' | none => cfg.defaultProfile = .text q) ∧
      openDb C { keyRef := k, defaultProfile := q, profiles := ps, items := it } m pass (some q) = .ok h :=
  openDisk_ok d m pass p h ho

/-- **Every malformed configuration is refused with the kind of its first defect, and nothing is written.** -/
theorem malformed_config_refused (cfg : Config) (ps : List (Str × C.Blob)) (it : I) (m : Option Method) (pass : PassKey)
    (p : Option Str) (e : Err) (h : readConfig cfg p = .error e) :
    openDisk C (.db cfg ps it) m pass p = (.db cfg ps it, .error e) := by
  simp [openDisk, openCfg, h]

/-- the defects and their kinds: a BLOB anywhere → Backend (the rows are visited before any check) … -/
theorem config_blob_refused (cfg : Config) (p : Option Str)
    (h : cfg.defaultProfile = .blob ∨ cfg.key = .blob ∨ cfg.version = .blob) : readConfig cfg p = .error .backend :=
  readConfig_blob cfg p h

/-- … the version row missing, NULL, "2", "01", "1 " → Unsupported … -/
theorem config_version_refused (cfg : Config) (p : Option Str)
    (hb : cfg.defaultProfile ≠ .blob ∧ cfg.key ≠ .blob ∧ cfg.version ≠ .blob) (hv : cfg.version ≠ .text sOne) :
    readConfig cfg p = .error .unsupported :=
  readConfig_version cfg p hb hv

/-- … no `key` row → Unsupported … -/
theorem config_key_missing_refused (cfg : Config) (p : Option Str)
    (hb : cfg.defaultProfile ≠ .blob) (hv : cfg.version = .text sOne) (hk : cfg.key = .missing) :
    readConfig cfg p = .error .unsupported :=
  readConfig_key_missing cfg p hb hv hk

/-- … no profile named and no default → Unsupported. -/
theorem config_no_profile_refused (cfg : Config)
    (hb : cfg.key ≠ .blob) (hv : cfg.version = .text sOne) (hd : cfg.defaultProfile = .missing) :
    readConfig cfg none = .error .unsupported :=
  readConfig_no_profile cfg hb hv hd

/-- A key row that does not parse: Unsupported; one whose method is not the caller's: Input; one that does not resolve
    (no / bad salt, no / bad pass key): Input — each with nothing written (`open_never_writes`). -/
theorem config_key_text_refused (cfg : Config) (ps : List (Str × C.Blob)) (it : I) (m : Option Method) (pass : PassKey)
    (p : Option Str) (q k : Str) (hr : readConfig cfg p = .ok (q, k)) :
    (∀ e, KeyRef.parse k = .error e → (openDisk C (.db cfg ps it) m pass p).2 = .error .unsupported) ∧
    (∀ ref, KeyRef.parse k = .ok ref → methodMismatch ref m = true → (openDisk C (.db cfg ps it) m pass p).2 = .error .input) ∧
    (∀ ref e, KeyRef.parse k = .ok ref → methodMismatch ref m = false → ref.resolve C pass = .error e →
      (openDisk C (.db cfg ps it) m pass p).2 = .error .input) := by
  refine ⟨fun e he => ?_, fun ref he hm => ?_, fun ref e he hm hres => ?_⟩
  · have := keyRef_parse_err he
    subst this
    simp [openDisk, openCfg, hr, openDb, he]
  · simp [openDisk, openCfg, hr, openDb, he, hm]
  · have := keyRef_resolve_err hres
    subst this
    simp [openDisk, openCfg, hr, openDb, he, hm, hres]

/-- Things that are not databases: nothing / a directory → NotFound; random bytes, a cut or garbled header → Backend; 0 bytes
    or a foreign database → Backend.  Unchanged afterwards. -/
theorem open_non_store_refused (m : Option Method) (pass : PassKey) (p : Option Str) :
    openDisk C (.absent : Disk C I) m pass p = (.absent, .error .notFound) ∧
    openDisk C (.dir : Disk C I) m pass p = (.dir, .error .notFound) ∧
    openDisk C (.notDb : Disk C I) m pass p = (.notDb, .error .backend) ∧
    openDisk C (.noTables : Disk C I) m pass p = (.noTables, .error .backend) := ⟨rfl, rfl, rfl, rfl⟩

/-- `provision` without `recreate` over a directory / a non-database is refused with Backend and leaves it; over a database
    with a `config` table it is `open` with the method named (so every theorem about `openDisk` applies). -/
theorem provision_non_store (noItems : I) (m : Method) (pass : PassKey) (p : Option Str) (rnd : Rnd C)
    (cfg : Config) (ps : List (Str × C.Blob)) (it : I) :
    provisionDisk C noItems (.dir : Disk C I) m pass p rnd = (.dir, .error .backend) ∧
    provisionDisk C noItems (.notDb : Disk C I) m pass p rnd = (.notDb, .error .backend) ∧
    provisionDisk C noItems (.db cfg ps it) m pass p rnd = openDisk C (.db cfg ps it) (some m) pass p := ⟨rfl, rfl, rfl⟩

/-- **A handle that has a clone cannot re-key**: refused with Input, the store as it was (so the old key still opens it);
    the sole owner's call is the `rekey` of model A. -/
theorem rekey_shared_handle_refused (refs : Nat) (hr : refs ≠ 1) (st : Store C I) (h : Handle C) (m : Method) (pass : PassKey)
    (rnd : Rnd C) : rekeyAny refs C st h m pass rnd = (st, .error .input) :=
  rekeyAny_shared refs hr st h m pass rnd

theorem rekey_sole_handle (st : Store C I) (h : Handle C) (m : Method) (pass : PassKey) (rnd : Rnd C) :
    rekeyAny 1 C st h m pass rnd = rekey C st h m pass rnd :=
  rekeyAny_sole st h m pass rnd

/-- **One profile key that does not load under the handle's store key** (a flipped byte, a cut blob, a record that does not
    decode — in ANY profile, not only the active one): the re-key is refused and no row is rewritten — every profile key is
    loaded before the first `UPDATE`.  Hence the old key still opens the store and the handle keeps working. -/
theorem rekey_unloadable_profile_key_refused (st : Store C I) (h : Handle C) (m : Method) (pass : PassKey) (rnd : Rnd C)
    (hu : ∃ e ∈ st.profiles, ∃ er, C.loadPk h.storeKey e.2 = .error er) :
    ∃ er, rekey C st h m pass rnd = (st, .error er) :=
  rekey_unloadable rekeyRefusesBlankRaw st h m pass rnd hu

/-- `ProfileKey::from_slice` refuses with Unsupported only, and what it accepts has six members of exactly 32 bytes (a 31- or
    33-byte member, a missing one, one given twice or as a text: refused). -/
theorem profile_key_decode_kinds (g : Bool) (b : Bytes) (e : Err) (h : pkDecode g b = .error e) : e = .unsupported :=
  pkDecode_err h

theorem profile_key_members_32 (g : Bool) (b : Bytes) (k : PkRecord) (h : pkDecode g b = .ok k) :
    k.ick.length = 32 ∧ k.ink.length = 32 ∧ k.ihk.length = 32 ∧ k.tnk.length = 32 ∧ k.tvk.length = 32 ∧ k.thk.length = 32 :=
  pkDecode_ok_lengths h

/-- `KeyCache::load_key` = unwrap (Encryption) then decode (Unsupported): discharges `LoadKinds` for the real loader. -/
theorem profile_key_load_kinds {K : Type} (unwrap : Option K → Bytes → Option Bytes) (g : Bool) (sk : Option K) (blob : Bytes)
    (e : Err) (h : loadKeyWith unwrap g sk blob = .error e) : e = .encryption ∨ e = .unsupported :=
  loadKeyWith_err unwrap g sk blob e h

/-- OBSERVATION about the model (no property states it: neither C08 nor C09 / C03 say that a record with another `ver` must be
    refused, so the run does not judge it).  "A profile key of another format version is refused", for the reader with
    (`g = true`) or without (`g = false`) a test of the `ver` member. -/
def ProfileKeyVersionEnforcedBy (g : Bool) : Prop :=
  ∀ (b : Bytes) (k : PkRecord), pkDecode g b = .ok k → ∃ m, Crypto.Cbor.decode b = some m ∧ pkVersionOk m = true

/-- … and for the reader of the current tree (`Keys.profileKeyChecksVersion`, the constant `false`). -/
def ProfileKeyVersionEnforced : Prop :=
  ∀ (b : Bytes) (k : PkRecord), pkDecodeCurrent b = .ok k → ∃ m, Crypto.Cbor.decode b = some m ∧ pkVersionOk m = true

/-- With the test the statement holds. -/
theorem profile_key_version_enforced_of_check : ProfileKeyVersionEnforcedBy true :=
  fun _ _ h => pkDecode_checks_version h

theorem profile_key_version_enforced_current (hg : profileKeyChecksVersion = true) : ProfileKeyVersionEnforced := by
  intro b k h
  unfold pkDecodeCurrent at h; rw [hg] at h
  exact pkDecode_checks_version h

/-- Without it the statement does not hold (observation, no property states it): the derived deserialiser skips `ver` like any
    unknown member.
    For EVERY version text other than "1" and every six 32-byte members, the record is read by the reader without the test
    (and refused by the one with it). -/
theorem profile_key_other_version (v : Bytes) (hv : v ≠ sOne) (hl : v.length < 2 ^ 64) (k : PkRecord)
    (h : k.ick.length = 32 ∧ k.ink.length = 32 ∧ k.ihk.length = 32 ∧ k.tnk.length = 32 ∧ k.tvk.length = 32 ∧ k.thk.length = 32) :
    let doc := Crypto.Cbor.encodeMap [(nVer, .text v), (nIck, .bytes k.ick), (nInk, .bytes k.ink), (nIhk, .bytes k.ihk),
      (nTnk, .bytes k.tnk), (nTvk, .bytes k.tvk), (nThk, .bytes k.thk)]
    pkDecode false doc = .ok k ∧ pkDecode true doc = .error .unsupported :=
  pkDecode_other_version v hv hl k h

def verWitness : PkRecord :=
  ⟨List.replicate 32 1, List.replicate 32 2, List.replicate 32 3, List.replicate 32 4, List.replicate 32 5, List.replicate 32 6⟩

/-- Witness: the record `{ver: "2", ick … thk: 32 bytes each}`. -/
theorem profile_key_version_ignored_without_check : ¬ ProfileKeyVersionEnforcedBy false := by
  intro h
  have hw := pkDecode_other_version [0x32] (by decide) (by decide) verWitness (by decide)
  simp only at hw
  obtain ⟨m, hm, hv⟩ := h _ _ hw.1
  have hd := Askar.Lemmas.StorageScheme.Cbor.decode_encodeMap _
    (fits_seven [0x32] verWitness.ick verWitness.ink verWitness.ihk verWitness.tnk verWitness.tvk verWitness.thk
      (by decide) (by decide) (by decide) (by decide) (by decide) (by decide) (by decide))
  rw [hd] at hm
  cases hm
  exact absurd hv (by decide)

/-- Which of the two holds of the model's current reader is decided by the constant. -/
theorem profile_key_version_status :
    (profileKeyChecksVersion = true ∧ ProfileKeyVersionEnforced) ∨ (profileKeyChecksVersion = false ∧ ¬ ProfileKeyVersionEnforced) := by
  cases hg : profileKeyChecksVersion with
  | true => exact Or.inl ⟨rfl, profile_key_version_enforced_current hg⟩
  | false =>
    refine Or.inr ⟨rfl, fun h => profile_key_version_ignored_without_check ?_⟩
    intro b k hk
    have := h b k (by unfold pkDecodeCurrent; rw [hg]; exact hk)
    exact this

/-- What does hold without the test: everything else about the record (`profile_key_members_32`), and the records this code
    writes are read back by both readers. -/
theorem profile_key_roundtrip (g : Bool) (k : PkRecord)
    (h : k.ick.length = 32 ∧ k.ink.length = 32 ∧ k.ihk.length = 32 ∧ k.tnk.length = 32 ∧ k.tvk.length = 32 ∧ k.thk.length = 32) :
    pkDecode g k.toCbor = .ok k :=
  pkDecode_toCbor g k h

/-! Non-vacuity of the hypotheses above. -/
example : LoadKinds Crypto.toy := by
  intro sk b e h
  have h' : (if sk = b.1 then Except.ok b.2 else Except.error Err.encryption) = (Except.error e : Except Err Nat) := h
  by_cases hs : sk = b.1
  · rw [if_pos hs] at h'; cases h'
  · rw [if_neg hs] at h'; cases h'; exact Or.inl rfl
example : readConfig ⟨.text [0x70], .text sRaw, .text sOne⟩ none = .ok ([0x70], sRaw) := by rfl
example : readConfig ⟨.text [0x70], .text sRaw, .text [0x32]⟩ none = .error .unsupported := by rfl
example : readConfig ⟨.blob, .text sRaw, .text [0x32]⟩ (some [0x70]) = .error .backend := by rfl
example : readConfig ⟨Cell.null, Cell.null, .text sOne⟩ none = .ok ([], []) := by rfl
example : ∃ e ∈ ([([0x70], ((some 1 : Option Nat), (1 : Nat)))] : List (Str × Crypto.toy.Blob)), ∃ er, Crypto.toy.loadPk none e.2 = .error er :=
  ⟨_, List.mem_singleton.2 rfl, .encryption, rfl⟩

/-! ## Model B′ — the SQLite parameters of a store URI (Model/SqliteOpts.lean) -/

/-- **`SqliteStoreOptions::new` is total and refuses with `Input` only.** -/
theorem sqlite_options_total (dmax : Nat) (o : Options) :
    (∃ r, sqliteOptions dmax o = .ok r) ∨ sqliteOptions dmax o = .error .input := by
  cases h : sqliteOptions dmax o with
  | ok r => exact Or.inl ⟨r, rfl⟩
  | error e => rw [sqliteOptions_err h]; exact Or.inr rfl

/-- None of the seven recognised names present — whatever else the query holds — gives the default option set … -/
theorem sqlite_options_default (dmax : Nat) (o : Options) (h : ∀ k ∈ recognised, Uri.mapGet o.query k = none) :
    sqliteOptions dmax o = .ok (defaultOpts dmax (o.host ++ o.path)) :=
  sqliteOptions_default dmax o h

/-- … and in general only those seven are looked at: unknown parameters never change the result. -/
theorem sqlite_options_ignore_unknown (dmax : Nat) (o : Options) (q' : QueryMap)
    (h : ∀ k ∈ recognised, Uri.mapGet o.query k = Uri.mapGet q' k) :
    sqliteOptions dmax { o with query := q' } = sqliteOptions dmax o :=
  sqliteOptions_congr dmax o q' h

/-- A recognised parameter with a value its parser refuses: `Input` (shown for the first one checked; `param_garbage` is the
    step for each of the others). -/
theorem sqlite_options_garbage_busy_timeout (dmax : Nat) (o : Options) (v : Str) (h : Uri.mapGet o.query kBusy = some v)
    (hp : parseUnsigned 64 v = none) : sqliteOptions dmax o = .error .input :=
  sqliteOptions_bad_busy dmax o v h hp

theorem sqlite_param_garbage {α : Type} (q : QueryMap) (k v : Str) (d : α) (parse : Str → Option α)
    (h : Uri.mapGet q k = some v) (hp : parse v = none) : param q k d parse = .error .input :=
  param_garbage d parse h hp

/-- `from_path(p)` — hence `in_memory()` and `default()` — is the default option set for `p`, never an error
    (the `unwrap()` in `from_path` and the `expect` in `default` cannot fire). -/
theorem sqlite_from_path (dmax : Nat) (p : Str) : fromPath dmax p = .ok (defaultOpts dmax p) := fromPath_eq dmax p

/-- Rust's unsigned `FromStr` as the numeric parameters use it: an accepted text denotes a value of the type; a minus sign,
    or any non-digit after an optional single leading `+`, or the empty text, is refused. -/
theorem unsigned_parse_in_range (bits : Nat) (s : Str) (n : Nat) (h : parseUnsigned bits s = some n) : n < 2 ^ bits :=
  parseUnsigned_lt h

theorem unsigned_parse_rejects (bits : Nat) (c0 : UInt8) (rest : Str) :
    parseUnsigned bits [] = none ∧ parseUnsigned bits (0x2D :: rest) = none ∧
    (∀ c ∈ rest, isDigit c = false → parseUnsigned bits (c0 :: rest) = none) :=
  ⟨rfl, parseUnsigned_minus bits rest, fun c hc hd => parseUnsigned_nondigit bits c0 rest c hc hd⟩

/-! Non-vacuity: a URI with every kind of parameter, computed; garbage refused. -/
example : sqliteOptionsOfUri 8 (lit "sqlite:///tmp/x.db?busy_timeout=250&journal_mode=Delete&cache=SHARED&x=1&max_connections=%2B3") =
    .ok { inMemory := false, path := lit "/tmp/x.db", busyMs := 250, maxConn := 3, minConn := 1, journal := .delete,
          locking := .normal, sharedCache := true, sync := .full } := by rfl
example : sqliteOptionsOfUri 8 (lit "sqlite://:memory:") = .ok (defaultOpts 8 sMemory) := by rfl
example : sqliteOptionsOfUri 8 (lit "sqlite://x.db?max_connections=-1") = .error .input := by rfl
example : sqliteOptionsOfUri 8 (lit "sqlite://x.db?synchronous=2") = .error .input := by rfl
example : parseUnsigned 32 (lit "4294967295") = some 4294967295 ∧ parseUnsigned 32 (lit "4294967296") = none := by decide

end Askar.C08
