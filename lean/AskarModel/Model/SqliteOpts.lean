/-
Model B′ of C08: `SqliteStoreOptions::new` (askar-storage/src/backend/sqlite/provision.rs:56-127) — what the
SQLite backend reads out of a parsed store URI (`Options`, Model/Uri.lean).

  path            = host ++ path (both already percent-decoded by `parse_uri`), `in_memory` iff it is ":memory:"
  busy_timeout    `str::parse::<u64>()` milliseconds                      (default 5000)
  max_connections `str::parse::<u32>()`                                   (default: available_parallelism clamped to 4..8,
                                                                            a fact of the machine: parameter `dmax`)
  min_connections `str::parse::<u32>()`                                   (default 1)
  journal_mode    sqlx `SqliteJournalMode::from_str` (ASCII case-insensitive)   (default WAL)
  locking_mode    sqlx `SqliteLockingMode::from_str`                      (default NORMAL)
  cache           `eq_ignore_ascii_case("shared")`, any other text = private     (default: shared iff in-memory)
  synchronous     sqlx `SqliteSynchronous::from_str`                      (default FULL)

Every parse failure is mapped to `ErrorKind::Input`; unknown parameters are ignored (`query.remove` of the seven
names only).  `from_path(p)` = `new(Options { host: p, .. })`, `in_memory()` = `from_path(":memory:")` = `default()`.
Nothing here indexes or slices.
-/
import AskarModel.Model.Keys

namespace Askar.Uri
open Askar.Keys (Err)

def isDigit (b : UInt8) : Bool := 0x30 ≤ b && b ≤ 0x39

/-- value of a string of ASCII digits, `none` at the first other byte (`InvalidDigit`) -/
def digitsVal : Nat → Str → Option Nat
  | acc, [] => some acc
  | acc, c :: rest => if isDigit c then digitsVal (acc * 10 + (c.toNat - 0x30)) rest else none

/-- Rust `<uN as FromStr>::from_str` for an unsigned type of `bits` bits (core::num, radix 10): empty → `Empty`;
    a lone `+` / `-` → `InvalidDigit`; one leading `+` is skipped (a `-` is not: it is then an invalid digit);
    every other byte must be an ASCII digit; a value of `2^bits` or more → `PosOverflow`. -/
def parseUnsigned (bits : Nat) (s : Str) : Option Nat :=
  match s with
  | [] => none
  | [c] => if c = 0x2B ∨ c = 0x2D then none else (digitsVal 0 [c]).bind fun v => if v < 2 ^ bits then some v else none
  | c :: rest =>
    (digitsVal 0 (if c = 0x2B then rest else c :: rest)).bind fun v => if v < 2 ^ bits then some v else none

/-- `u8::to_ascii_lowercase` -/
def lowerByte (b : UInt8) : UInt8 := if 0x41 ≤ b ∧ b ≤ 0x5A then b + 0x20 else b
def asciiLower (s : Str) : Str := s.map lowerByte

inductive Journal | delete | truncate | persist | memory | wal | off
  deriving DecidableEq, Repr
inductive Locking | normal | exclusive
  deriving DecidableEq, Repr
inductive Synchronous | off | normal | full | extra
  deriving DecidableEq, Repr

/-- sqlx-sqlite 0.7 `SqliteJournalMode::from_str` -/
def Journal.parse (s : Str) : Option Journal :=
  let l := asciiLower s
  if l = lit "delete" then some .delete else if l = lit "truncate" then some .truncate
  else if l = lit "persist" then some .persist else if l = lit "memory" then some .memory
  else if l = lit "wal" then some .wal else if l = lit "off" then some .off else none

/-- `SqliteLockingMode::from_str` -/
def Locking.parse (s : Str) : Option Locking :=
  let l := asciiLower s
  if l = lit "normal" then some .normal else if l = lit "exclusive" then some .exclusive else none

/-- `SqliteSynchronous::from_str` -/
def Synchronous.parse (s : Str) : Option Synchronous :=
  let l := asciiLower s
  if l = lit "off" then some .off else if l = lit "normal" then some .normal
  else if l = lit "full" then some .full else if l = lit "extra" then some .extra else none

structure SqliteOpts where
  inMemory : Bool
  path : Str
  busyMs : Nat
  maxConn : Nat
  minConn : Nat
  journal : Journal
  locking : Locking
  sharedCache : Bool
  sync : Synchronous
  deriving DecidableEq, Repr

def sMemory : Str := lit ":memory:"
def kBusy : Str := lit "busy_timeout"
def kMax : Str := lit "max_connections"
def kMin : Str := lit "min_connections"
def kJournal : Str := lit "journal_mode"
def kLocking : Str := lit "locking_mode"
def kCache : Str := lit "cache"
def kSync : Str := lit "synchronous"

/-- the seven names `new` looks at -/
def recognised : List Str := [kBusy, kMax, kMin, kJournal, kLocking, kCache, kSync]

/-- an optional parameter: absent → the default, present → must parse -/
def param {α : Type} (q : QueryMap) (k : Str) (dflt : α) (parse : Str → Option α) : Except Err α :=
  match mapGet q k with
  | none => .ok dflt
  | some v => match parse v with
    | some x => .ok x
    | none => .error .input                 -- `err_map!(Input, "Error parsing '…' parameter")`

/-- `SqliteStoreOptions::new(opts)`; `dmax` = `available_parallelism().max(4).min(8)` -/
def sqliteOptions (dmax : Nat) (o : Options) : Except Err SqliteOpts := do
  let path := o.host ++ o.path
  let inMemory := decide (path = sMemory)
  let busy ← param o.query kBusy 5000 (parseUnsigned 64)
  let maxc ← param o.query kMax dmax (parseUnsigned 32)
  let minc ← param o.query kMin 1 (parseUnsigned 32)
  let journal ← param o.query kJournal Journal.wal Journal.parse
  let locking ← param o.query kLocking Locking.normal Locking.parse
  let shared := match mapGet o.query kCache with
    | some c => decide (asciiLower c = lit "shared")
    | none => inMemory
  let sync ← param o.query kSync Synchronous.full Synchronous.parse
  pure { inMemory := inMemory, path := path, busyMs := busy, maxConn := maxc, minConn := minc, journal := journal,
         locking := locking, sharedCache := shared, sync := sync }

/-- the option set every parameter-free URI gets -/
def defaultOpts (dmax : Nat) (path : Str) : SqliteOpts :=
  { inMemory := decide (path = sMemory), path := path, busyMs := 5000, maxConn := dmax, minConn := 1, journal := .wal,
    locking := .normal, sharedCache := decide (path = sMemory), sync := .full }

/-- `SqliteStoreOptions::from_path` (the path goes in as `host`, nothing is parsed or decoded) -/
def fromPath (dmax : Nat) (p : Str) : Except Err SqliteOpts := sqliteOptions dmax { host := p }

/-- `SqliteStoreOptions::new(uri: &str)`: `parse_uri`, then the above -/
def sqliteOptionsOfUri (dmax : Nat) (uri : Str) : Except Err SqliteOpts := sqliteOptions dmax (parseUri uri)

end Askar.Uri
