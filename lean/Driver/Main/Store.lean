import Driver.Store
def main : IO Unit := Driver.mainLoop fun _ j => Driver.Store.runCase j
