//! C09: the on-disk format matches docs/storage.md and stays readable (DESIGN.md section 4, C09).
//!
//! Case kinds (one JSON object per line):
//!   c09:selftest  the Lean specifications' self tests (out = all true)
//!   c09:consts    constants extracted from the source text of the tree the harness is built against (and from the
//!                 library at run time for the AEAD sizes) — the model states the DOCUMENTED values in the same shape
//!   c09:b58       Base58 of the Lean spec against the `bs58` crate (the one the library uses)
//!   c09:read      the LIBRARY writes a file store (key method raw / none / kdf:argon2i int|mod, several profiles, both
//!                 kinds, both tag kinds, empty / unicode / binary values, replace + remove), closes it; the raw tables are
//!                 dumped out of band with `RawDb` and handed to the Lean spec (`model_input.raw`, plus — for derived keys —
//!                 the Argon2i output computed HERE with the `argon2` crate and the documented libsodium parameter sets);
//!                 out = the library's own logical dump + the stored bytes of every deterministic field; the model must
//!                 decrypt EVERY row to the same dump and re-encrypt the deterministic fields to the same bytes
//!   c09:write     the LEAN SPEC writes the store: the executor asks the compiled driver for the encrypted rows of the case
//!                 (`emit: rows`), creates the SQLite file with `RawDb` (DDL of the released format, no query semantics),
//!                 inserts the rows, and the library must open it with the pass key and show identical contents — by scan,
//!                 by `fetch` of every record (searchable category / name) and by tag filters (searchable tag name / value)
//!   c09:golden    a store file written by the UNMODIFIED PINNED tree (golden/<method>.db) is copied, opened by the current
//!                 code and compared with its recorded dump, every recorded record is looked up by fetch and by tag filter
//!                 (oracle); the Lean spec decrypts the file as the pinned tree left it (out, as c09:read)
//!
//! The oracle judges the property without the Lean model: documented lengths (nonce 12 + tag 16), equal plaintext ⇒
//! equal searchable ciphertext and different plaintext ⇒ different, config rows and version, key-entry shape, profile key
//! size, the library's dump = what was written (read), = the case's records (write), = the recorded dump (golden).
use crate::canon::{err_name, jvalue, kind_of, tags_from_json, value_from_json, Rec, Tag};
use crate::rawsql::{RawDb, Val};
use crate::rng::Rng;
use crate::store_case::{cleanup, dump_profile, scratch_dir};
use askar_storage::any::AnyBackend;
use askar_storage::backend::{Backend, BackendSession, ManageBackend};
use askar_storage::entry::{EntryOperation, TagFilter};
use askar_storage::future::block_on;
use askar_storage::{Argon2Level, KdfMethod, PassKey, StoreKeyMethod};
use serde_json::{json, Map, Value};
use std::collections::{BTreeMap, BTreeSet};
use std::io::Write;

fn s(v: &Value, k: &str) -> String { v[k].as_str().unwrap_or("").to_string() }

// ---------------------------------------------------------------------------------------------
// key methods

fn method_of(m: &str) -> StoreKeyMethod {
    match m {
        "raw" => StoreKeyMethod::RawKey,
        "none" => StoreKeyMethod::Unprotected,
        "kdf:int" => StoreKeyMethod::DeriveKey(KdfMethod::Argon2i(Argon2Level::Interactive)),
        _ => StoreKeyMethod::DeriveKey(KdfMethod::Argon2i(Argon2Level::Moderate)),
    }
}

fn passkey(m: &str, pass: &str) -> PassKey<'static> {
    if m == "none" { PassKey::from(None::<&'static str>) } else { PassKey::from(pass.to_string()) }
}

/// The parameter sets behind the level names of the key entry: libsodium's crypto_pwhash_argon2i
/// OPSLIMIT/MEMLIMIT INTERACTIVE (4 passes, 32 MiB) and MODERATE (6 passes, 128 MiB), one lane, version 0x13,
/// 32 bytes of output.  Computed with the `argon2` crate directly — nothing of askar is involved.
fn doc_params(level: &str) -> (u32, u32, u32) {
    if level == "int" { (32 * 1024, 4, 1) } else { (128 * 1024, 6, 1) }
}

fn derive_doc(level: &str, pass: &str, salt: &[u8]) -> Result<Vec<u8>, String> {
    let (m, t, p) = doc_params(level);
    let params = argon2::Params::new(m, t, p, Some(32)).map_err(|e| e.to_string())?;
    let a = argon2::Argon2::new(argon2::Algorithm::Argon2i, argon2::Version::V0x13, params);
    let mut out = vec![0u8; 32];
    a.hash_password_into(pass.as_bytes(), salt, &mut out).map_err(|e| e.to_string())?;
    Ok(out)
}

fn kdf_json(level: &str, salt: &[u8], key: &[u8]) -> Value {
    let (m, t, p) = doc_params(level);
    json!({"level": level, "salt": hex::encode(salt), "key": hex::encode(key), "mem_kib": m, "passes": t, "lanes": p,
           "version": 0x13, "variant": "Argon2i"})
}

/// `kdf:argon2i:13:<level>?salt=<hex>` → (level, salt); anything else → None (shape judged by the oracle)
fn split_kdf_entry(entry: &str) -> Option<(String, Vec<u8>)> {
    let rest = entry.strip_prefix("kdf:argon2i:13:")?;
    let (level, q) = rest.split_once("?salt=")?;
    if level != "int" && level != "mod" { return None; }
    let salt = hex::decode(q).ok()?;
    if salt.len() != 16 || q.bytes().any(|c| c.is_ascii_uppercase()) { return None; }
    Some((level.to_string(), salt))
}

// ---------------------------------------------------------------------------------------------
// raw dump of a store file

fn jopt_text(v: &Val) -> Value { match v { Val::Null => Value::Null, x => json!(x.as_text()) } }

fn raw_dump(path: &str) -> Result<Value, String> {
    let db = RawDb::open(path)?;
    let config: Vec<Value> = db.query("SELECT name, value FROM config ORDER BY name", &[])?
        .iter().map(|r| json!([r[0].as_text(), r[1].as_text()])).collect();
    let profiles: Vec<Value> = db.query("SELECT id, name, profile_key FROM profiles ORDER BY id", &[])?
        .iter().map(|r| json!([r[0].as_int(), r[1].as_text(), hex::encode(r[2].as_blob())])).collect();
    let items: Vec<Value> = db.query("SELECT id, profile_id, kind, category, name, value, expiry FROM items ORDER BY id", &[])?
        .iter().map(|r| json!([r[0].as_int(), r[1].as_int(), r[2].as_int(), hex::encode(r[3].as_blob()), hex::encode(r[4].as_blob()),
                               hex::encode(r[5].as_blob()), jopt_text(&r[6])])).collect();
    let tags: Vec<Value> = db.query("SELECT id, item_id, name, value, plaintext FROM items_tags ORDER BY id", &[])?
        .iter().map(|r| json!([r[0].as_int(), r[1].as_int(), hex::encode(r[2].as_blob()), hex::encode(r[3].as_blob()), r[4].as_int()])).collect();
    // column types as stored (a BLOB column holding TEXT would be a format change the hex dump hides)
    let mut typing = vec![];
    for (t, cols) in [("items", "category, name, value"), ("items_tags", "name, value"), ("profiles", "profile_key")] {
        for c in cols.split(", ") {
            let rows = db.query(&format!("SELECT DISTINCT typeof({}) FROM {} ORDER BY 1", c, t), &[])?;
            typing.push(json!([format!("{}.{}", t, c), rows.iter().map(|r| r[0].as_text()).collect::<Vec<_>>()]));
        }
    }
    Ok(json!({"config": config, "profiles": profiles, "items": items, "tags": tags, "typing": typing}))
}

/// the stored bytes of the deterministic fields, item by item (id order): [cat, name, value, [[tag name, tag value, plaintext]…]]
fn det_of(raw: &Value) -> Value {
    let mut out = vec![];
    for it in raw["items"].as_array().cloned().unwrap_or_default() {
        let id = it[0].as_i64().unwrap_or(0);
        let tags: Vec<Value> = raw["tags"].as_array().cloned().unwrap_or_default().into_iter()
            .filter(|t| t[1].as_i64() == Some(id)).map(|t| json!([t[2], t[3], t[4]])).collect();
        out.push(json!([it[3], it[4], it[5], tags]));
    }
    Value::Array(out)
}

fn oracle_fail(v: &mut Vec<Value>, sig: String, detail: Value) {
    if v.len() < 20 { v.push(json!({"sig": sig, "detail": detail})); }
}

/// Format facts of the document, checked on the raw rows without any decryption.
/// `plain`: per item id the plaintext (cat, name, value, tags) when the harness knows it (read direction).
fn format_oracle(ctx: &str, method: &str, raw: &Value, plain: Option<&BTreeMap<i64, (i64, Rec)>>, fails: &mut Vec<Value>, feat: &mut BTreeMap<String, u64>) {
    let cfg: BTreeMap<String, String> = raw["config"].as_array().cloned().unwrap_or_default().iter().map(|r| (r[0].as_str().unwrap_or("").to_string(), r[1].as_str().unwrap_or("").to_string())).collect();
    let names: Vec<&str> = cfg.keys().map(|x| x.as_str()).collect();
    if names != ["default_profile", "key", "version"] { oracle_fail(fails, format!("{}:config-entries:{}", ctx, method), json!(names)); }
    if cfg.get("version").map(|x| x.as_str()) != Some("1") { oracle_fail(fails, format!("{}:config-version:{}", ctx, method), json!(cfg.get("version"))); }
    let key = cfg.get("key").cloned().unwrap_or_default();
    let key_ok = match method { "raw" => key == "raw", "none" => key == "none",
        m => split_kdf_entry(&key).map_or(false, |(l, _)| format!("kdf:{}", l) == m) };
    if !key_ok { oracle_fail(fails, format!("{}:config-key-entry-shape:{}", ctx, method), json!(key)); }
    // profile key: CBOR map of 7 members = 1 + (4+2) + 6*(4+2+32) = 235 bytes; wrapped: + nonce 12 + tag 16
    let want = if method == "none" { 235 } else { 235 + 28 };
    for p in raw["profiles"].as_array().cloned().unwrap_or_default() {
        let l = p[2].as_str().unwrap_or("").len() / 2;
        if l != want { oracle_fail(fails, format!("{}:profile-key-size:{}:{}", ctx, method, l), json!(p[1])); }
        if method == "none" && !p[2].as_str().unwrap_or("").starts_with("a763766572613163") { // {7: "ver": "1", …
            oracle_fail(fails, format!("{}:profile-key-not-cbor-ver-1:{}", ctx, method), json!(p[1]));
        }
    }
    for t in raw["typing"].as_array().cloned().unwrap_or_default() {
        let tys: Vec<String> = t[1].as_array().cloned().unwrap_or_default().iter().map(|x| x.as_str().unwrap_or("").to_string()).collect();
        if tys.iter().any(|x| x != "blob") { oracle_fail(fails, format!("{}:column-not-blob:{}", ctx, t[0].as_str().unwrap_or("")), json!(tys)); }
    }
    let Some(plain) = plain else { return };
    // searchable fields: length = 12 + |plaintext| + 16; same plaintext ⇔ same ciphertext (within a profile and column)
    let mut seen: BTreeMap<(i64, &'static str, Vec<u8>), String> = BTreeMap::new();
    let mut seen_rev: BTreeMap<(i64, &'static str, String), Vec<u8>> = BTreeMap::new();
    let mut check = |pid: i64, col: &'static str, pt: &[u8], ct: &str, fails: &mut Vec<Value>| {
        if ct.len() / 2 != pt.len() + 28 { oracle_fail(fails, format!("{}:searchable-length:{}", ctx, col), json!({"pt": pt.len(), "ct": ct.len() / 2})); }
        if let Some(prev) = seen.insert((pid, col, pt.to_vec()), ct.to_string()) {
            if prev != ct { oracle_fail(fails, format!("{}:searchable-not-deterministic:{}", ctx, col), json!(hex::encode(pt))); }
        }
        if let Some(prev) = seen_rev.insert((pid, col, ct.to_string()), pt.to_vec()) {
            if prev != pt { oracle_fail(fails, format!("{}:searchable-collision:{}", ctx, col), json!(ct)); }
        }
    };
    let items = raw["items"].as_array().cloned().unwrap_or_default();
    let tags = raw["tags"].as_array().cloned().unwrap_or_default();
    let mut value_nonces = BTreeSet::new();
    for it in &items {
        let id = it[0].as_i64().unwrap_or(0);
        let Some((pid, rec)) = plain.get(&id) else { oracle_fail(fails, format!("{}:unexpected-row", ctx), json!(id)); continue };
        if it[1].as_i64() != Some(*pid) { oracle_fail(fails, format!("{}:row-in-wrong-profile", ctx), json!(id)); }
        if it[2].as_i64() != Some(rec.kind) { oracle_fail(fails, format!("{}:kind-column", ctx), json!([it[2], rec.kind])); }
        check(*pid, "category", rec.cat.as_bytes(), it[3].as_str().unwrap_or(""), fails);
        check(*pid, "name", rec.name.as_bytes(), it[4].as_str().unwrap_or(""), fails);
        let v = it[5].as_str().unwrap_or("");
        if v.len() / 2 != rec.value.len() + 28 { oracle_fail(fails, format!("{}:value-length", ctx), json!({"pt": rec.value.len(), "ct": v.len() / 2})); }
        if !value_nonces.insert(v.get(..24).unwrap_or("").to_string()) { oracle_fail(fails, format!("{}:value-nonce-repeats", ctx), json!(id)); }
        if !rec.value.is_empty() && v.contains(&hex::encode(&rec.value)) && rec.value.len() >= 4 { oracle_fail(fails, format!("{}:value-in-clear", ctx), json!(id)); }
        let mine: Vec<&Value> = tags.iter().filter(|t| t[1].as_i64() == Some(id)).collect();
        if mine.len() != rec.tags.len() { oracle_fail(fails, format!("{}:tag-row-count", ctx), json!([mine.len(), rec.tags.len()])); continue; }
        // tag rows are written in the order given
        for (row, t) in mine.iter().zip(rec.tags.iter()) {
            check(*pid, "tag-name", t.name.as_bytes(), row[2].as_str().unwrap_or(""), fails);
            if (row[4].as_i64() == Some(1)) != t.plain { oracle_fail(fails, format!("{}:tag-plaintext-flag", ctx), json!(id)); }
            if t.plain {
                if row[3].as_str().unwrap_or("") != hex::encode(t.value.as_bytes()) { oracle_fail(fails, format!("{}:plaintext-tag-value-not-stored-as-is", ctx), json!(id)); }
                *feat.entry("plain_tags".into()).or_default() += 1;
            } else {
                check(*pid, "tag-value", t.value.as_bytes(), row[3].as_str().unwrap_or(""), fails);
                *feat.entry("enc_tags".into()).or_default() += 1;
            }
        }
        if let Some(e) = it[6].as_str() {
            // RFC 3339, UTC offset, as sqlx writes chrono::DateTime<Utc>
            let b = e.as_bytes();
            let ok = b.len() >= 25 && b[4] == b'-' && b[7] == b'-' && b[10] == b'T' && b[13] == b':' && b[16] == b':' && e.ends_with("+00:00");
            if !ok { oracle_fail(fails, format!("{}:expiry-text-shape", ctx), json!(e)); }
            *feat.entry("expiry_rows".into()).or_default() += 1;
        }
    }
    if items.len() != plain.len() { oracle_fail(fails, format!("{}:row-count", ctx), json!([items.len(), plain.len()])); }
}

// ---------------------------------------------------------------------------------------------
// library-side helpers

fn close(b: AnyBackend) {
    block_on(async move { b.close().await.ok(); drop(b); });
}

/// Open an existing file store.  The first connections of the pool race on the switch to WAL mode and may see
/// SQLITE_BUSY ("database is locked") on a file that was just created out of band: that is set-up, not the property — retry.
fn open_retry(uri: &str, method: &str, pass: &str) -> Result<AnyBackend, askar_storage::Error> {
    let mut last = None;
    for attempt in 0..20 {
        match block_on(async { uri.open_backend(Some(method_of(method)), passkey(method, pass), None).await }) {
            Ok(b) => return Ok(b),
            Err(e) if matches!(e.kind(), askar_storage::ErrorKind::Backend | askar_storage::ErrorKind::Busy) && format!("{:?}", e).contains("locked") => {
                last = Some(e);
                std::thread::sleep(std::time::Duration::from_millis(20 * (attempt + 1)));
            }
            Err(e) => return Err(e),
        }
    }
    Err(last.unwrap())
}

/// every profile's dump, default profile, as the library reports them
fn library_view(b: &AnyBackend) -> Result<(Value, String), askar_storage::Error> {
    let (names, default) = block_on(async { Ok::<_, askar_storage::Error>((b.list_profiles().await?, b.get_default_profile().await?)) })?;
    let mut m = Map::new();
    for n in names { m.insert(n.clone(), dump_profile(b, &n)?); }
    Ok((Value::Object(m), default))
}

fn rec_of(j: &Value) -> Rec {
    Rec { kind: j["k"].as_i64().unwrap_or(2), cat: s(j, "c"), name: s(j, "n"), value: value_from_json(&j["v"]),
          tags: tags_from_json(&j["t"]).unwrap_or_default() }
}

// ---------------------------------------------------------------------------------------------
// c09:read

fn exec_read(case: &Value, tag: &str) -> Value {
    let method = s(case, "method");
    let pass = s(case, "pass");
    let path = format!("{}/c09r-{}.db", scratch_dir(), tag);
    cleanup(&Some(path.clone()));
    let uri = format!("sqlite://{}", path);
    let profiles = case["profiles"].as_array().cloned().unwrap_or_default();
    let default = s(&profiles[0], "name");
    let mut fails = vec![];
    let mut feat: BTreeMap<String, u64> = BTreeMap::new();
    let mut last = None;
    let mut backend = None;
    // "prov" = the store is provisioned under ANOTHER method / pass key and re-keyed to (method, pass) after the writes: the format
    // of the re-keyed store (config key entry, EVERY profile key wrapped under the new store key) must be the documented one
    let (pmethod, ppass) = match case.get("prov").filter(|p| !p.is_null()) { Some(p) => (s(p, "method"), s(p, "pass")), None => (method.clone(), pass.clone()) };
    for attempt in 0..10 {
        match block_on(async { uri.as_str().provision_backend(method_of(&pmethod), passkey(&pmethod, &ppass), Some(default.clone()), true).await }) {
            Ok(b) => { backend = Some(b); break }
            Err(e) => { last = Some(e); std::thread::sleep(std::time::Duration::from_millis(20 * (attempt + 1))); }
        }
    }
    let Some(mut backend) = backend else { return json!({"out": {"err": format!("provision:{}", err_name(last.unwrap().kind()))}, "oracle": [{"sig": format!("read:provision-failed:{}", method)}]}) };
    // reference: what the store must contain (insertion order = id order; replace keeps the row, remove drops it)
    let mut reference: BTreeMap<String, Vec<Rec>> = BTreeMap::new();
    let res: Result<(), askar_storage::Error> = block_on(async {
        for (i, p) in profiles.iter().enumerate() {
            let pname = s(p, "name");
            if i > 0 { backend.create_profile(Some(pname.clone())).await?; }
            let recs = reference.entry(pname.clone()).or_default();
            let mut sess = backend.session(Some(pname.clone()), false)?;
            for op in p["ops"].as_array().cloned().unwrap_or_default() {
                let r = rec_of(&op);
                let tags: Vec<_> = r.tags.iter().map(Tag::to_entry_tag).collect();
                match s(&op, "op").as_str() {
                    "insert" => {
                        sess.update(kind_of(r.kind), EntryOperation::Insert, &r.cat, &r.name, Some(&r.value), Some(&tags), op["e"].as_i64()).await?;
                        recs.push(r);
                    }
                    "replace" => {
                        sess.update(kind_of(r.kind), EntryOperation::Replace, &r.cat, &r.name, Some(&r.value), Some(&tags), op["e"].as_i64()).await?;
                        if let Some(x) = recs.iter_mut().find(|x| x.kind == r.kind && x.cat == r.cat && x.name == r.name) { *x = r; }
                    }
                    _ => {
                        sess.update(kind_of(r.kind), EntryOperation::Remove, &r.cat, &r.name, None, None, None).await?;
                        recs.retain(|x| !(x.kind == r.kind && x.cat == r.cat && x.name == r.name));
                    }
                }
            }
            sess.close(true).await?;
            drop(sess);
        }
        Ok(())
    });
    if let Err(e) = res {
        close(backend);
        cleanup(&Some(path));
        return json!({"out": {"err": format!("write-ops:{}", err_name(e.kind()))}, "oracle": [{"sig": format!("read:ops-failed:{}:{}", err_name(e.kind()), method)}]});
    }
    if case.get("prov").map_or(false, |p| !p.is_null()) {
        *feat.entry("rekeyed".into()).or_default() += 1;
        if let Err(e) = block_on(async { backend.rekey(method_of(&method), passkey(&method, &pass)).await }) {
            close(backend);
            cleanup(&Some(path));
            return json!({"out": {"err": format!("rekey:{}", err_name(e.kind()))}, "oracle": [{"sig": format!("read:rekey-failed:{}:{}", err_name(e.kind()), method)}]});
        }
    }
    let view = library_view(&backend);
    close(backend);
    let (dump, lib_default) = match view {
        Ok(v) => v,
        Err(e) => { cleanup(&Some(path)); return json!({"out": {"err": format!("dump:{}", err_name(e.kind()))}, "oracle": [{"sig": format!("read:dump-failed:{}:{}", err_name(e.kind()), method)}]}) }
    };
    let expected: Map<String, Value> = reference.iter().map(|(k, v)| (k.clone(), Value::Array(v.iter().map(Rec::to_json).collect()))).collect();
    if Value::Object(expected) != dump { oracle_fail(&mut fails, format!("read:library-dump-differs-from-written:{}", method), json!(null)); }
    let raw = match raw_dump(&path) { Ok(r) => r, Err(e) => { cleanup(&Some(path)); return json!({"out": {"err": format!("raw:{}", e)}, "oracle": [{"sig": "read:raw-dump-failed"}]}) } };
    // plaintext by item id: rows appear in id order per the reference (ids are global, ascending in write order; a removed
    // maximum id is reused, so map by decrypting nothing: walk the raw rows profile by profile in id order)
    let mut plain: BTreeMap<i64, (i64, Rec)> = BTreeMap::new();
    for p in raw["profiles"].as_array().cloned().unwrap_or_default() {
        let pid = p[0].as_i64().unwrap_or(0);
        let name = p[1].as_str().unwrap_or("").to_string();
        let ids: Vec<i64> = raw["items"].as_array().cloned().unwrap_or_default().iter().filter(|it| it[1].as_i64() == Some(pid)).map(|it| it[0].as_i64().unwrap_or(0)).collect();
        let recs = reference.get(&name).cloned().unwrap_or_default();
        if ids.len() == recs.len() { for (id, r) in ids.iter().zip(recs.into_iter()) { plain.insert(*id, (pid, r)); } }
        else { oracle_fail(&mut fails, format!("read:row-count-in-profile:{}", method), json!([name, ids.len(), recs.len()])); }
    }
    format_oracle("read", &method, &raw, Some(&plain), &mut fails, &mut feat);
    let mut model_input = json!({"raw": raw});
    let cfg_key = raw["config"].as_array().and_then(|a| a.iter().find(|r| r[0] == "key")).map(|r| r[1].as_str().unwrap_or("").to_string()).unwrap_or_default();
    let cfg_ver = raw["config"].as_array().and_then(|a| a.iter().find(|r| r[0] == "version")).map(|r| r[1].clone()).unwrap_or(Value::Null);
    if method.starts_with("kdf") {
        if let Some((level, salt)) = split_kdf_entry(&cfg_key) {
            match derive_doc(&level, &pass, &salt) {
                Ok(k) => { model_input["kdf"] = kdf_json(&level, &salt, &k); }
                Err(e) => oracle_fail(&mut fails, "read:argon2-crate-failed".into(), json!(e)),
            }
        }
    }
    let names: Vec<Value> = raw["config"].as_array().cloned().unwrap_or_default().iter().map(|r| r[0].clone()).collect();
    *feat.entry(format!("method_{}", method.replace(':', "_"))).or_default() += 1;
    *feat.entry("rows".into()).or_default() += raw["items"].as_array().map_or(0, |a| a.len()) as u64;
    *feat.entry("profiles".into()).or_default() += profiles.len() as u64;
    let out = json!({
        "config": {"default_profile": lib_default, "key": cfg_key, "version": cfg_ver, "names": names},
        "profiles": dump,
        "det": det_of(&model_input["raw"]),
        "spec_verdict": {"profile_keys_canonical_cbor": true},
    });
    cleanup(&Some(path));
    json!({"out": out, "oracle": fails, "feat": feat, "model_input": model_input})
}

// ---------------------------------------------------------------------------------------------
// c09:write

/// DDL of the released format (`provision.rs::init_db` of the pinned tree), without the three INSERTs.
const DDL: &str = r#"
    CREATE TABLE config (
        name TEXT NOT NULL,
        value TEXT,
        PRIMARY KEY (name)
    );
    CREATE TABLE profiles (
        id INTEGER NOT NULL,
        name TEXT NOT NULL,
        reference TEXT NULL,
        profile_key BLOB NULL,
        PRIMARY KEY(id)
    );
    CREATE UNIQUE INDEX ix_profile_name ON profiles (name);
    CREATE TABLE items (
        id INTEGER NOT NULL,
        profile_id INTEGER NOT NULL,
        kind INTEGER NOT NULL,
        category BLOB NOT NULL,
        name BLOB NOT NULL,
        value BLOB NOT NULL,
        expiry DATETIME NULL,
        PRIMARY KEY (id),
        FOREIGN KEY (profile_id) REFERENCES profiles (id)
            ON DELETE CASCADE ON UPDATE CASCADE
    );
    CREATE UNIQUE INDEX ix_items_uniq ON items (profile_id, kind, category, name);
    CREATE TABLE items_tags (
        id INTEGER NOT NULL,
        item_id INTEGER NOT NULL,
        name BLOB NOT NULL,
        value BLOB NOT NULL,
        plaintext BOOLEAN NOT NULL,
        PRIMARY KEY (id),
        FOREIGN KEY (item_id) REFERENCES items (id)
            ON DELETE CASCADE ON UPDATE CASCADE
    );
    CREATE INDEX ix_items_tags_item_id ON items_tags (item_id);
    CREATE INDEX ix_items_tags_name_enc ON items_tags (name, SUBSTR(value, 1, 12)) WHERE plaintext=0;
    CREATE INDEX ix_items_tags_name_plain ON items_tags (name, value) WHERE plaintext=1;
"#;

fn model_bin() -> String {
    std::env::var("VERIF_MODEL_C09").unwrap_or_else(|_| concat!(env!("CARGO_MANIFEST_DIR"), "/../lean/.lake/build/bin/askar_model_c09").to_string())
}

/// ask the compiled Lean driver for the rows of the case
fn lean_rows(case: &Value) -> Result<Value, String> {
    let mut c = case.clone();
    c["emit"] = json!("rows");
    let mut child = std::process::Command::new(model_bin())
        .stdin(std::process::Stdio::piped()).stdout(std::process::Stdio::piped()).stderr(std::process::Stdio::null())
        .spawn().map_err(|e| format!("spawn {}: {}", model_bin(), e))?;
    let line = serde_json::to_string(&c).unwrap();
    let mut stdin = child.stdin.take().unwrap();
    let writer = std::thread::spawn(move || { stdin.write_all(line.as_bytes()).ok(); stdin.write_all(b"\n").ok(); });
    let out = child.wait_with_output().map_err(|e| e.to_string())?;
    writer.join().ok();
    let text = String::from_utf8_lossy(&out.stdout);
    let v: Value = serde_json::from_str(text.lines().next().unwrap_or("")).map_err(|e| format!("driver output: {}", e))?;
    if v["out"]["items"].is_array() { Ok(v["out"].clone()) } else { Err(format!("driver: {}", v)) }
}

fn blob(v: &Value) -> Val { Val::Blob(hex::decode(v.as_str().unwrap_or("")).unwrap_or_default()) }

fn build_file(path: &str, rows: &Value) -> Result<(), String> {
    std::fs::File::create(path).map_err(|e| e.to_string())?; // an empty file is an empty SQLite database
    let db = RawDb::open(path)?;
    db.exec("BEGIN")?;
    db.exec(DDL)?;
    for r in rows["config"].as_array().cloned().unwrap_or_default() {
        db.query("INSERT INTO config (name, value) VALUES (?1, ?2)", &[Val::Text(r[0].as_str().unwrap_or("").into()), Val::Text(r[1].as_str().unwrap_or("").into())])?;
    }
    for r in rows["profiles"].as_array().cloned().unwrap_or_default() {
        db.query("INSERT INTO profiles (id, name, profile_key) VALUES (?1, ?2, ?3)", &[Val::Int(r[0].as_i64().unwrap_or(0)), Val::Text(r[1].as_str().unwrap_or("").into()), blob(&r[2])])?;
    }
    for r in rows["items"].as_array().cloned().unwrap_or_default() {
        db.query("INSERT INTO items (id, profile_id, kind, category, name, value, expiry) VALUES (?1, ?2, ?3, ?4, ?5, ?6, ?7)",
            &[Val::Int(r[0].as_i64().unwrap_or(0)), Val::Int(r[1].as_i64().unwrap_or(0)), Val::Int(r[2].as_i64().unwrap_or(0)), blob(&r[3]), blob(&r[4]), blob(&r[5]),
              r[6].as_str().map_or(Val::Null, |e| Val::Text(e.into()))])?;
    }
    for r in rows["tags"].as_array().cloned().unwrap_or_default() {
        db.query("INSERT INTO items_tags (item_id, name, value, plaintext) VALUES (?1, ?2, ?3, ?4)",
            &[Val::Int(r[0].as_i64().unwrap_or(0)), blob(&r[1]), blob(&r[2]), Val::Int(r[3].as_i64().unwrap_or(0))])?;
    }
    db.exec("COMMIT")
}

/// number of records having at least one tag equal to (plain, name, value)
fn ref_tag_hits(recs: &[Rec], t: &Tag) -> u64 { recs.iter().filter(|r| r.tags.iter().any(|x| x == t)).count() as u64 }

/// Look-ups that depend on the searchable ciphertexts the LIBRARY computes: every record by (kind, category, name), and an
/// equality filter for every distinct tag (names starting with '~' cannot be expressed in a filter).
/// Returns (records found with identical content, sum of the filter counts).
fn probe(backend: &AnyBackend, expected: &BTreeMap<String, Vec<Rec>>, ctx: &str, fails: &mut Vec<Value>) -> Result<(u64, u64), askar_storage::Error> {
    let mut fetched = 0u64;
    let mut tag_hits = 0u64;
    for (pname, recs) in expected {
        block_on(async {
            let mut sess = backend.session(Some(pname.clone()), false)?;
            for r in recs {
                if let Some(e) = sess.fetch(kind_of(r.kind), &r.cat, &r.name, false).await? {
                    if Rec::from_entry(&e).to_json() == r.to_json() { fetched += 1; }
                }
            }
            let distinct: BTreeSet<Tag> = recs.iter().flat_map(|r| r.tags.iter().cloned()).filter(|t| !t.name.starts_with('~')).collect();
            for t in &distinct {
                let f = TagFilter::is_eq(if t.plain { format!("~{}", t.name) } else { t.name.clone() }, t.value.clone());
                let n = sess.count(None, None, Some(f)).await? as u64;
                let want = ref_tag_hits(recs, t);
                if n != want { oracle_fail(fails, format!("{}:tag-filter-count:{}", ctx, if t.plain { "plain" } else { "enc" }), json!({"tag": t.to_json(), "got": n, "want": want})); }
                tag_hits += n;
            }
            sess.close(true).await?;
            drop(sess);
            Ok::<(), askar_storage::Error>(())
        })?;
    }
    Ok((fetched, tag_hits))
}

fn exec_write(case: &Value, tag: &str) -> Value {
    let method = s(case, "method");
    let pass = s(case, "pass");
    let path = format!("{}/c09w-{}.db", scratch_dir(), tag);
    cleanup(&Some(path.clone()));
    let mut fails = vec![];
    let mut feat: BTreeMap<String, u64> = BTreeMap::new();
    let rows = match lean_rows(case) { Ok(r) => r, Err(e) => return json!({"out": {"err": e}, "oracle": [{"sig": "write:lean-driver-unavailable"}]}) };
    if let Err(e) = build_file(&path, &rows) { cleanup(&Some(path)); return json!({"out": {"err": format!("build: {}", e)}, "oracle": [{"sig": "write:file-build-failed", "detail": e}]}); }
    // the rows the spec wrote obey the documented lengths too (judged here, not by the spec)
    let uri = format!("sqlite://{}", path);
    let backend = match open_retry(&uri, &method, &pass) {
        Ok(b) => b,
        Err(e) => {
            cleanup(&Some(path));
            return json!({"out": {"err": format!("open:{}", err_name(e.kind()))}, "feat": feat,
                          "oracle": [{"sig": format!("write:library-cannot-open-spec-written-store:{}:{}", err_name(e.kind()), method), "detail": format!("{:?}", e)}]});
        }
    };
    // the case's visible records, per profile
    let mut expected: BTreeMap<String, Vec<Rec>> = BTreeMap::new();
    for p in case["profiles"].as_array().cloned().unwrap_or_default() {
        let recs: Vec<Rec> = p["recs"].as_array().cloned().unwrap_or_default().iter().filter(|r| r["exp"].as_str() != Some("past")).map(rec_of).collect();
        expected.insert(s(&p, "name"), recs);
    }
    let view = library_view(&backend);
    let probed = probe(&backend, &expected, "write", &mut fails);
    let (fetched, tag_hits) = *probed.as_ref().unwrap_or(&(0, 0));
    let probe_err = probed.err();
    close(backend);
    cleanup(&Some(path));
    if let Some(e) = probe_err {
        return json!({"out": {"err": format!("probe:{}", err_name(e.kind()))}, "feat": feat,
                      "oracle": [{"sig": format!("write:library-cannot-read-spec-written-store:{}:{}", err_name(e.kind()), method), "detail": format!("{:?}", e)}]});
    }
    let (dump, lib_default) = match view {
        Ok(v) => v,
        Err(e) => return json!({"out": {"err": format!("dump:{}", err_name(e.kind()))}, "feat": feat,
                                "oracle": [{"sig": format!("write:library-cannot-read-spec-written-store:{}:{}", err_name(e.kind()), method), "detail": format!("{:?}", e)}]}),
    };
    let want: Map<String, Value> = expected.iter().map(|(k, v)| (k.clone(), Value::Array(v.iter().map(Rec::to_json).collect()))).collect();
    if Value::Object(want) != dump { oracle_fail(&mut fails, format!("write:library-shows-different-contents:{}", method), json!(null)); }
    let visible: u64 = expected.values().map(|v| v.len() as u64).sum();
    if fetched != visible { oracle_fail(&mut fails, format!("write:fetch-by-category-name:{}", method), json!({"fetched": fetched, "visible": visible})); }
    if lib_default != s(case, "default_profile") { oracle_fail(&mut fails, "write:default-profile".into(), json!(lib_default)); }
    *feat.entry(format!("method_{}", method.replace(':', "_"))).or_default() += 1;
    *feat.entry("rows".into()).or_default() += rows["items"].as_array().map_or(0, |a| a.len()) as u64;
    *feat.entry("tag_filters".into()).or_default() += 1;
    let out = json!({"default_profile": lib_default, "profiles": dump, "fetched": fetched, "tag_hits": tag_hits,
                     "n_items": rows["items"].as_array().map_or(0, |a| a.len()), "n_tags": rows["tags"].as_array().map_or(0, |a| a.len())});
    json!({"out": out, "oracle": fails, "feat": feat})
}

// ---------------------------------------------------------------------------------------------
// c09:golden

fn golden_dir() -> String {
    std::env::var("VERIF_GOLDEN").unwrap_or_else(|_| concat!(env!("CARGO_MANIFEST_DIR"), "/../golden").to_string())
}

fn exec_golden(case: &Value, tag: &str) -> Value {
    let file = s(case, "file");
    let meta: Value = match std::fs::read_to_string(format!("{}/{}.json", golden_dir(), file)).ok().and_then(|t| serde_json::from_str(&t).ok()) {
        Some(m) => m,
        None => return json!({"out": {"err": "golden meta missing"}, "oracle": [{"sig": format!("golden:corpus-file-missing:{}", file)}]}),
    };
    let method = s(&meta, "method");
    let pass = s(&meta, "pass");
    let path = format!("{}/c09g-{}.db", scratch_dir(), tag);
    cleanup(&Some(path.clone()));
    if std::fs::copy(format!("{}/{}.db", golden_dir(), file), &path).is_err() {
        return json!({"out": {"err": "golden db missing"}, "oracle": [{"sig": format!("golden:corpus-file-missing:{}", file)}]});
    }
    let mut fails = vec![];
    let mut feat: BTreeMap<String, u64> = BTreeMap::new();
    // the Lean side reads the file as the pinned tree left it (before the current code touches it)
    let raw = match raw_dump(&path) { Ok(r) => r, Err(e) => { cleanup(&Some(path)); return json!({"out": {"err": format!("raw:{}", e)}, "oracle": [{"sig": "golden:raw-dump-failed"}]}) } };
    let uri = format!("sqlite://{}", path);
    let opened = open_retry(&uri, &method, &pass);
    let backend = match opened {
        Ok(b) => b,
        Err(e) => {
            cleanup(&Some(path));
            return json!({"out": {"err": format!("open:{}", err_name(e.kind()))}, "model_input": {"raw": raw, "pass": pass, "method": method},
                          "oracle": [{"sig": format!("golden:current-code-cannot-open:{}:{}", err_name(e.kind()), method), "detail": format!("{:?}", e)}]});
        }
    };
    let view = library_view(&backend);
    // the recorded contents must also be FOUND by the current code (searchable ciphertexts are recomputed for every look-up)
    let recorded_recs: BTreeMap<String, Vec<Rec>> = meta["profiles"].as_object().cloned().unwrap_or_default().iter()
        .map(|(k, v)| (k.clone(), v.as_array().cloned().unwrap_or_default().iter().map(rec_of).collect())).collect();
    let probed = if view.is_ok() { Some(probe(&backend, &recorded_recs, "golden", &mut fails)) } else { None };
    close(backend);
    let (dump, lib_default) = match view {
        Ok(v) => v,
        Err(e) => { cleanup(&Some(path)); return json!({"out": {"err": format!("dump:{}", err_name(e.kind()))},
                      "model_input": {"raw": raw, "pass": pass, "method": method},
                      "oracle": [{"sig": format!("golden:current-code-cannot-read:{}:{}", err_name(e.kind()), method), "detail": format!("{:?}", e)}]}) }
    };
    let n_recorded: u64 = recorded_recs.values().map(|v| v.len() as u64).sum();
    match probed {
        Some(Ok((fetched, _))) => if fetched != n_recorded { oracle_fail(&mut fails, format!("golden:fetch-by-category-name:{}", method), json!({"fetched": fetched, "recorded": n_recorded})); },
        Some(Err(e)) => oracle_fail(&mut fails, format!("golden:current-code-cannot-read:{}:{}", err_name(e.kind()), method), json!(format!("{:?}", e))),
        None => {}
    }
    // the recorded dump carries every value as plain hex; bring it to the canonical value form (long values → digest)
    let mut recorded = meta["profiles"].clone();
    if let Some(m) = recorded.as_object_mut() {
        for recs in m.values_mut() {
            for r in recs.as_array_mut().into_iter().flatten() {
                let v = hex::decode(r["v"].as_str().unwrap_or("")).unwrap_or_default();
                r["v"] = jvalue(&v);
            }
        }
    }
    if dump != recorded { oracle_fail(&mut fails, format!("golden:contents-differ-from-recorded:{}", method), json!(null)); }
    if lib_default != s(&meta, "default_profile") { oracle_fail(&mut fails, format!("golden:default-profile:{}", method), json!(lib_default)); }
    format_oracle("golden", &method, &raw, None, &mut fails, &mut feat);
    let mut model_input = json!({"raw": raw, "pass": pass, "method": method});
    let cfg_key = raw["config"].as_array().and_then(|a| a.iter().find(|r| r[0] == "key")).map(|r| r[1].as_str().unwrap_or("").to_string()).unwrap_or_default();
    let cfg_ver = raw["config"].as_array().and_then(|a| a.iter().find(|r| r[0] == "version")).map(|r| r[1].clone()).unwrap_or(Value::Null);
    if method.starts_with("kdf") {
        if let Some((level, salt)) = split_kdf_entry(&cfg_key) {
            match derive_doc(&level, &pass, &salt) {
                Ok(k) => { model_input["kdf"] = kdf_json(&level, &salt, &k); }
                Err(e) => oracle_fail(&mut fails, "golden:argon2-crate-failed".into(), json!(e)),
            }
        }
    }
    let names: Vec<Value> = raw["config"].as_array().cloned().unwrap_or_default().iter().map(|r| r[0].clone()).collect();
    *feat.entry(format!("golden_{}", method.replace(':', "_"))).or_default() += 1;
    *feat.entry("rows".into()).or_default() += raw["items"].as_array().map_or(0, |a| a.len()) as u64;
    let out = json!({
        "config": {"default_profile": lib_default, "key": cfg_key, "version": cfg_ver, "names": names},
        "profiles": dump,
        "det": det_of(&model_input["raw"]),
        "spec_verdict": {"profile_keys_canonical_cbor": true},
    });
    cleanup(&Some(path));
    json!({"out": out, "oracle": fails, "feat": feat, "model_input": model_input})
}

// ---------------------------------------------------------------------------------------------
// c09:consts — read from the source text of the tree this harness was built against

const SRC_ARGON2: &str = include_str!("/repo/askar-crypto/src/kdf/argon2.rs");
const SRC_LEVEL: &str = include_str!("/repo/askar-storage/src/protect/kdf/argon2.rs");
const SRC_KDF: &str = include_str!("/repo/askar-storage/src/protect/kdf/mod.rs");
const SRC_STORE_KEY: &str = include_str!("/repo/askar-storage/src/protect/store_key.rs");
const SRC_PROFILE_KEY: &str = include_str!("/repo/askar-storage/src/protect/profile_key.rs");
const SRC_PROVISION: &str = include_str!("/repo/askar-storage/src/backend/sqlite/provision.rs");

fn between<'a>(src: &'a str, start: &str, end: &str) -> Option<&'a str> {
    let i = src.find(start)? + start.len();
    let j = src[i..].find(end)? + i;
    Some(&src[i..j])
}

fn str_const(src: &str, name: &str) -> Value {
    match between(src, &format!("const {}: &str = \"", name), "\"") { Some(x) => json!(x), None => json!({"err": format!("{} not found", name)}) }
}

fn params_const(name: &str) -> Value {
    let Some(body) = between(SRC_ARGON2, &format!("pub const {}: Params = Params {{", name), "};") else { return json!({"err": format!("{} not found", name)}) };
    let field = |f: &str| -> Option<String> { Some(between(body, &format!("{}:", f), ",")?.trim().to_string()) };
    let num = |f: &str| -> Value { field(f).and_then(|x| x.replace('_', "").parse::<u64>().ok()).map_or(json!({"err": f}), |n| json!(n)) };
    json!({"alg": field("alg").map(|x| x.replace("Algorithm::", "")), "version": field("version").map(|x| x.replace("Version::", "")),
           "mem_cost": num("mem_cost"), "time_cost": num("time_cost")})
}

fn schema_of_source() -> Value {
    let mut out = vec![];
    let mut rest = SRC_PROVISION;
    while let Some(i) = rest.find("CREATE TABLE ") {
        rest = &rest[i + "CREATE TABLE ".len()..];
        let Some(p) = rest.find('(') else { break };
        let table = rest[..p].trim().to_string();
        let Some(end) = rest.find(");") else { break };
        let body = &rest[p + 1..end];
        let mut cols: Vec<(String, String, bool)> = vec![];
        let mut pk: Vec<String> = vec![];
        for line in body.lines() {
            let l = line.trim().trim_end_matches(',');
            if l.is_empty() || l.starts_with("ON DELETE") { continue; }
            if let Some(x) = l.strip_prefix("PRIMARY KEY") {
                pk = x.trim().trim_start_matches('(').trim_end_matches(')').split(',').map(|c| c.trim().to_string()).collect();
            } else if l.starts_with("FOREIGN KEY") { continue; }
            else {
                let w: Vec<&str> = l.split_whitespace().collect();
                if w.len() >= 2 { cols.push((w[0].to_string(), w[1].to_string(), l.contains("NOT NULL"))); }
            }
        }
        out.push(json!([table, cols.iter().map(|(n, t, nn)| json!([n, t, nn, pk.contains(n)])).collect::<Vec<_>>()]));
        rest = &rest[end..];
    }
    Value::Array(out)
}

fn exec_consts() -> Value {
    use askar_crypto::alg::chacha20::{Chacha20Key, C20P};
    let salt = between(SRC_ARGON2, "pub type SaltSize = U", ";").and_then(|x| x.parse::<u64>().ok());
    // serde attributes of ProfileKeyImpl, in declaration order
    let tag_attr = between(SRC_PROFILE_KEY, "#[serde(tag = \"", "\")]").map(|x| x.to_string()).unwrap_or_default(); // ver", rename = "1
    let (tag, tag_value) = tag_attr.split_once("\", rename = \"").map(|(a, b)| (a.to_string(), b.to_string())).unwrap_or_default();
    let mut fields = vec![];
    let body = between(SRC_PROFILE_KEY, "pub struct ProfileKeyImpl<Key, HmacKey> {", "}").unwrap_or("");
    let mut rest = body;
    while let Some(x) = between(rest, "#[serde(rename = \"", "\")]") {
        fields.push(x.to_string());
        rest = &rest[rest.find(x).unwrap() + x.len()..];
    }
    // config rows of init_db
    let ins = between(SRC_PROVISION, "INSERT INTO config (name, value) VALUES", ";").unwrap_or("");
    let mut rows = vec![];
    let mut version = Value::Null;
    for part in ins.split('(').skip(1) {
        let mut q = part.split('"');
        q.next();
        let name = q.next().unwrap_or("").to_string();
        q.next();
        if name == "version" { version = json!(q.next().unwrap_or("")); }
        rows.push(name);
    }
    let out = json!({
        "argon2": {"PARAMS_INTERACTIVE": params_const("PARAMS_INTERACTIVE"), "PARAMS_MODERATE": params_const("PARAMS_MODERATE"),
                   "salt_len": salt, "LEVEL_INTERACTIVE": str_const(SRC_LEVEL, "LEVEL_INTERACTIVE"), "LEVEL_MODERATE": str_const(SRC_LEVEL, "LEVEL_MODERATE")},
        "prefixes": [str_const(SRC_STORE_KEY, "PREFIX_KDF"), str_const(SRC_STORE_KEY, "PREFIX_RAW"), str_const(SRC_STORE_KEY, "PREFIX_NONE"), str_const(SRC_KDF, "METHOD_ARGON2I")],
        "cbor": {"tag": tag, "tag_value": tag_value, "fields": fields},
        "config_rows": rows,
        "version": version,
        "sizes": {"nonce": Chacha20Key::<C20P>::NONCE_LENGTH, "tag": Chacha20Key::<C20P>::TAG_LENGTH, "key": Chacha20Key::<C20P>::KEY_LENGTH},
        "schema": schema_of_source(),
    });
    json!({"out": out, "oracle": [], "feat": {"consts": 1}})
}

// ---------------------------------------------------------------------------------------------
// c09:b58

fn exec_b58(case: &Value) -> Value {
    let mut out = vec![];
    let mut fails = vec![];
    for op in case["ops"].as_array().cloned().unwrap_or_default() {
        if s(&op, "op") == "enc" {
            let b = hex::decode(s(&op, "b")).unwrap_or_default();
            let e = bs58::encode(&b).into_string();
            if bs58::decode(&e).into_vec().ok() != Some(b) { oracle_fail(&mut fails, "b58:crate-round-trip".into(), json!(e)); }
            out.push(json!(e));
        } else {
            match bs58::decode(s(&op, "s")).into_vec() { Ok(b) => out.push(json!(hex::encode(b))), Err(_) => out.push(json!({"err": "Input"})) }
        }
    }
    json!({"out": out, "oracle": fails, "feat": {"b58_ops": out.len()}})
}

// ---------------------------------------------------------------------------------------------

pub fn exec(case: &Value, tag: &str) -> Value {
    match s(case, "kind").as_str() {
        "c09:selftest" => json!({"out": {"cbor": true, "base58": true, "hmac": true, "chachapoly": true, "hmac_expected": true}, "oracle": [], "feat": {"selftest": 1}}),
        "c09:consts" => exec_consts(),
        "c09:b58" => exec_b58(case),
        "c09:read" => exec_read(case, tag),
        "c09:write" => exec_write(case, tag),
        "c09:golden" => exec_golden(case, tag),
        k => json!({"out": {"err": format!("unknown kind {}", k)}, "oracle": [{"sig": "c09:unknown-kind"}]}),
    }
}

// ---------------------------------------------------------------------------------------------
// generators

const PROFILES: &[&str] = &["default", "p2", "профиль", "p 3", "", "P2"];
const CATS: &[&str] = &["c1", "c2", "", "cat\u{0}nul", "ca\u{301}t-\u{1F600}", "~c", "%", "c1 ", "category-with-a-rather-long-name-that-spans-more-than-one-chacha-block-0123456789"];
const NAMES: &[&str] = &["n1", "n2", "n3", "", "n\u{0}", "名前", "n'\"\\", "$n", "n1\u{200d}"];
const TAG_NAMES: &[&str] = &["a", "b", "n", "", "t:1", "ü", "a\u{0}b", "$exist", "user:x", "~"];
const TAG_VALUES: &[&str] = &["1", "2", "10", "x", "", "abc", "ABC", "a%c", "ü", "a\u{0}z", "\u{10FFFF}", "0123456789abcdef0123456789"];

fn gen_value(r: &mut Rng) -> Value {
    match r.below(12) {
        0 => json!(""),
        1 => json!(hex::encode(r.bytes(1))),
        2 => json!(hex::encode("значение-値-\u{1F511}".as_bytes())),
        3 => { let n = *r.pick(&[15usize, 16, 17, 63, 64, 65, 255, 256, 257]); json!(hex::encode(r.bytes(n))) }
        4 => json!({"fill": r.below(256), "salt": 1 + r.below(250), "len": 600 + r.below(3000)}),
        5 => json!(hex::encode([0xff, 0xfe, 0x00, 0x80, 0xc0])), // not UTF-8
        _ => { let n = r.below(40); json!(hex::encode(r.bytes(n))) }
    }
}

fn gen_tags(r: &mut Rng) -> Value {
    let n = *r.pick(&[0usize, 0, 1, 2, 3, 5]);
    let mut v: Vec<Value> = (0..n).map(|_| json!([if r.chance(1, 2) { 1 } else { 0 }, *r.pick(TAG_NAMES), *r.pick(TAG_VALUES)])).collect();
    if n > 1 && r.chance(1, 4) { let d = v[0].clone(); v.push(d); }
    Value::Array(v)
}

fn gen_recs(r: &mut Rng, n: usize) -> Vec<Value> {
    let mut seen = BTreeSet::new();
    let mut out = vec![];
    for _ in 0..n * 3 {
        if out.len() >= n { break; }
        let k = if r.chance(1, 3) { 1 } else { 2 };
        let (c, nm) = (*r.pick(CATS), *r.pick(NAMES));
        if !seen.insert((k, c, nm)) { continue; }
        out.push(json!({"k": k, "c": c, "n": nm, "v": gen_value(r), "t": gen_tags(r)}));
    }
    out
}

fn gen_pass(r: &mut Rng, method: &str) -> (String, Vec<u8>) {
    match method {
        "raw" => {
            let mut k = r.bytes(32);
            if r.chance(1, 4) { k[0] = 0; if r.chance(1, 2) { k[1] = 0; } } // leading zero bytes → leading '1's
            (bs58::encode(&k).into_string(), k)
        }
        "none" => (String::new(), vec![]),
        _ => ((*r.pick(&["pass", "", "пароль \u{1F511}", "a rather long pass phrase with spaces, 0123456789 0123456789 0123456789 0123456789"])).to_string(), vec![]),
    }
}

fn gen_read(r: &mut Rng, id: String, method: &str) -> Value {
    let (pass, _) = gen_pass(r, method);
    let np = *r.pick(&[1usize, 1, 2, 3]);
    let mut names: Vec<&str> = vec![];
    while names.len() < np { let n = *r.pick(PROFILES); if !names.contains(&n) { names.push(n); } }
    let mut profiles = vec![];
    for n in names {
        let count = *r.pick(&[0usize, 1, 3, 6, 12]);
        let recs = gen_recs(r, count);
        let mut ops: Vec<Value> = vec![];
        for rec in &recs {
            let mut o = rec.clone();
            o["op"] = json!("insert");
            if r.chance(1, 6) { o["e"] = json!(3_600_000 + r.below(1000) as i64); }
            ops.push(o);
        }
        // replace (new value and tags) and remove some of them
        for rec in &recs {
            if r.chance(1, 5) {
                let mut o = json!({"op": "replace", "k": rec["k"], "c": rec["c"], "n": rec["n"], "v": gen_value(r), "t": gen_tags(r)});
                if r.chance(1, 4) { o["e"] = json!(7_200_000); }
                ops.push(o);
            } else if r.chance(1, 8) {
                ops.push(json!({"op": "remove", "k": rec["k"], "c": rec["c"], "n": rec["n"]}));
            }
        }
        profiles.push(json!({"name": n, "ops": ops}));
    }
    let mut case = json!({"kind": "c09:read", "id": id, "method": method, "pass": pass, "profiles": profiles});
    if r.chance(1, 3) {
        let pm = *r.pick(&["raw", "none", "raw"]);
        let (pp, _) = gen_pass(r, pm);
        case["prov"] = json!({"method": pm, "pass": pp});
    }
    case
}

fn gen_write(r: &mut Rng, id: String, method: &str) -> Value {
    let (pass, raw_key) = gen_pass(r, method);
    let np = *r.pick(&[1usize, 2, 2, 3]);
    let mut names: Vec<&str> = vec![];
    while names.len() < np { let n = *r.pick(PROFILES); if !names.contains(&n) { names.push(n); } }
    let mut profiles = vec![];
    for n in &names {
        let key = json!({"ick": hex::encode(r.bytes(32)), "ink": hex::encode(r.bytes(32)), "ihk": hex::encode(r.bytes(32)),
                         "tnk": hex::encode(r.bytes(32)), "tvk": hex::encode(r.bytes(32)), "thk": hex::encode(r.bytes(32))});
        let count = *r.pick(&[0usize, 1, 4, 8]);
        let mut recs = gen_recs(r, count);
        for rec in recs.iter_mut() {
            rec["nonce"] = json!(hex::encode(r.bytes(12)));
            rec["exp"] = match r.below(8) { 0 => json!("past"), 1 => json!("future"), _ => Value::Null };
        }
        profiles.push(json!({"name": n, "key": key, "wrap_nonce": hex::encode(r.bytes(12)), "recs": recs}));
    }
    let default = *r.pick(&names);
    let mut case = json!({"kind": "c09:write", "id": id, "method": method, "pass": pass, "default_profile": default, "profiles": profiles});
    if method.starts_with("kdf") {
        let salt = r.bytes(16);
        let level = &method[4..];
        case["salt"] = json!(hex::encode(&salt));
        case["store_key"] = json!(hex::encode(derive_doc(level, &pass, &salt).expect("argon2")));
    } else if method == "raw" {
        case["store_key"] = json!(hex::encode(raw_key)); // informational; the spec decodes the pass key itself
    }
    case
}

fn gen_b58(r: &mut Rng, id: String, n: usize) -> Value {
    let alphabet: Vec<char> = "123456789ABCDEFGHJKLMNPQRSTUVWXYZabcdefghijkmnopqrstuvwxyz".chars().collect();
    let mut ops = vec![];
    for i in 0..n {
        if i % 2 == 0 {
            let len = match r.below(6) { 0 => 0, 1 => 1, 2 => 32, 3 => 33, _ => r.below(48) };
            let mut b = r.bytes(len);
            let z = match r.below(4) { 0 => r.below(len + 1), 1 => 1.min(len), _ => 0 };
            for x in b.iter_mut().take(z) { *x = 0; }
            ops.push(json!({"op": "enc", "b": hex::encode(b)}));
        } else {
            let len = match r.below(5) { 0 => 0, 1 => 1, 2 => 44, _ => r.below(50) };
            let mut t: String = (0..len).map(|_| *r.pick(&alphabet)).collect();
            if r.chance(1, 3) { let ones = r.below(4); t = format!("{}{}", "1".repeat(ones), t); }
            if r.chance(1, 6) && !t.is_empty() { let bad = *r.pick(&['0', 'O', 'I', 'l', ' ', '+', 'é']); let pos = r.below(t.chars().count()); t = t.chars().enumerate().map(|(i, c)| if i == pos { bad } else { c }).collect(); }
            ops.push(json!({"op": "dec", "s": t}));
        }
    }
    json!({"kind": "c09:b58", "id": id, "ops": ops})
}

pub fn gen(r: &mut Rng, thorough: bool, count: Option<usize>) -> Vec<Value> {
    let mut out = vec![json!({"kind": "c09:selftest", "id": "selftest"}), json!({"kind": "c09:consts", "id": "consts"})];
    for f in ["raw", "none", "kdf-int", "kdf-mod"] { out.push(json!({"kind": "c09:golden", "id": format!("golden-{}", f), "file": f})); }
    // quick: 30 + 30 library-written and 25 + 25 spec-written stores under raw / none, 3 + 3 under argon2i int, 1 + 1 under mod
    // (a moderate derivation costs ~0.3 s on each side); thorough: 8 times as many (`--count n` = that factor)
    let scale = count.unwrap_or(if thorough { 8 } else { 1 });
    for i in 0..2 * scale { out.push(gen_b58(r, format!("b58-{}", i), if thorough { 200 } else { 100 })); }
    for i in 0..30 * scale { out.push(gen_read(r, format!("read-raw-{}", i), "raw")); }
    for i in 0..30 * scale { out.push(gen_read(r, format!("read-none-{}", i), "none")); }
    for i in 0..3 * scale { out.push(gen_read(r, format!("read-int-{}", i), "kdf:int")); }
    for i in 0..scale { out.push(gen_read(r, format!("read-mod-{}", i), "kdf:mod")); }
    for i in 0..25 * scale { out.push(gen_write(r, format!("write-raw-{}", i), "raw")); }
    for i in 0..25 * scale { out.push(gen_write(r, format!("write-none-{}", i), "none")); }
    for i in 0..3 * scale { out.push(gen_write(r, format!("write-int-{}", i), "kdf:int")); }
    for i in 0..scale { out.push(gen_write(r, format!("write-mod-{}", i), "kdf:mod")); }
    out
}
