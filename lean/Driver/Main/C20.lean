import Driver.C20
def main : IO Unit := Driver.mainLoop fun _ j => Driver.C20.runCase j
