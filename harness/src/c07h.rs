//! C07H — second engine for C07: SEVERAL `Store` handles (A, B, sometimes C) opened on the SAME SQLite file.
//!
//! Every handle owns a `KeyCache` (profile name -> (profile row id, profile key)); nothing invalidates it when ANOTHER handle
//! removes or re-creates a profile, and SQLite hands out `max(rowid)+1`, so the id of a removed profile is reused when it was the
//! largest.  The engine runs random and directed histories of profile-level calls (create / remove / re-create / default / list),
//! sessions, transactions and store-level scans through any handle, handle close + reopen, and judges every call by the property:
//! what a handle sees under a profile NAME is exactly what the shared database holds under that name NOW.
//!
//! Case:   {"id", "kind": "c07h", "journal": "wal"|"delete", "ops": [op…]}     (store provisioned with profile "p0" = handle 0)
//! Ops:    open{h,profile?}  close{h}  create_profile{h,name}  remove_profile{h,name}  set_default{h,name}  get_default{h}
//!         list_profiles{h}  session{h,s,profile?,txn}  scan{h,profile?,c?}  dump
//!         insert|replace{s,c,n,v,t}  remove|fetch{s,c,n}  fetch_all|count|remove_all{s,c?}  commit|rollback{s}
//! Out:    {"steps": [{"r": result, "raw": {"rows": {profile name: raw `items` rows}, "orphans": n}, "d"?: logical dump}…], "final": dump}
//!         `raw` is read through a separate OS-level connection after EVERY call; the logical dump `d` (after every call that can
//!         write, unless a transaction is still open) comes from an OBSERVER handle that is re-opened after each profile removal, so its cache is never stale.
//! Oracle (independent of the Lean model): a reference that is ONE map per profile NAME shared by all handles.  Every call must
//! return what the reference returns and leave the database (observer dump) equal to the reference; an ERROR instead is accepted
//! — and counted in `feat` as `accept:<op>:<error>:<label>` — only on a call labelled `stale:gone` / `stale:recreated` (the handle
//! has used the name before and the profile has since been removed / created anew by someone else).  A session that is still
//! open when its profile is removed (`held`), or that opened although the name has no profile (`orphan`), must stay VOID: error,
//! None, [] or 0, nothing written.  Signatures: `<op>:<expected class>-><observed class>:<label>` and
//! `<op>:dump:<profiles|default|unreadable|rows>:<label>`; after the first failure of a case the oracle stops (`oracle:stopped`),
//! the correspondence goes on.  An optional case member `"validate": true|false` selects the model variant (default: the
//! switch `validateCurrent` of the model); the executor ignores it.
//! Executor rules (also in the model; they keep every ops list — shrunk ones included — free of lock waits): while a transaction
//! is open every call that is not on that transaction's session is refused with "TxnOpen"; at most 3 sessions per handle
//! ("TooMany"); `close` rolls back / drops the handle's sessions first.
use crate::canon::{jvalue, sorted_tags, tags_from_json, value_from_json, Tag};
use crate::rawsql::RawDb;
use crate::rng::Rng;
use crate::store_case::scratch_dir;
use aries_askar::entry::{Entry, EntryTag};
use aries_askar::future::block_on;
use aries_askar::{Error, ErrorKind, PassKey, Session, Store, StoreKeyMethod};
use serde_json::{json, Map, Value};
use std::collections::BTreeMap;

const RAW_KEY: &str = "7Z8ftDAzMvoyXnGEJye8DurzgFQXLAbYCaeeesM7UKHa";
const NH: usize = 3;
const MAX_SESS: usize = 3;

fn err_name(k: ErrorKind) -> &'static str {
    match k {
        ErrorKind::Backend => "Backend",
        ErrorKind::Busy => "Busy",
        ErrorKind::Custom => "Custom",
        ErrorKind::Duplicate => "Duplicate",
        ErrorKind::Encryption => "Encryption",
        ErrorKind::Input => "Input",
        ErrorKind::NotFound => "NotFound",
        ErrorKind::Unexpected => "Unexpected",
        ErrorKind::Unsupported => "Unsupported",
    }
}

fn jerr(e: &Error) -> Value { json!({"err": err_name(e.kind())}) }
fn refused(what: &str) -> Value { json!({"err": what}) }

fn rec_json(e: &Entry) -> Value {
    let tags: Vec<Tag> = e.tags.iter().map(Tag::from_entry_tag).collect();
    json!({"c": e.category, "n": e.name, "v": jvalue(e.value.as_ref()), "t": sorted_tags(&tags).iter().map(Tag::to_json).collect::<Vec<_>>()})
}

fn spec_rec(x: &Value) -> Value {
    let tags = tags_from_json(&x["t"]).unwrap_or_default();
    json!({"c": x["c"], "n": x["n"], "v": jvalue(&value_from_json(&x["v"])), "t": sorted_tags(&tags).iter().map(Tag::to_json).collect::<Vec<_>>()})
}

fn sort_recs(mut a: Vec<Value>) -> Vec<Value> {
    a.sort_by_key(|x| (x["c"].as_str().unwrap_or("").as_bytes().to_vec(), x["n"].as_str().unwrap_or("").as_bytes().to_vec(), x["v"].as_str().unwrap_or("").to_string()));
    a
}

fn entry_tags(v: &Value) -> Vec<EntryTag> { tags_from_json(v).unwrap_or_default().iter().map(Tag::to_entry_tag).collect() }
fn sname(op: &Value, k: &str) -> String { op[k].as_str().unwrap_or("").to_string() }
fn oname(op: &Value, k: &str) -> Option<String> { op[k].as_str().map(|s| s.to_string()) }

fn pool_busy(e: &Error) -> bool {
    let t = format!("{:?}", e);
    t.contains("database is locked") && t.contains("database pool")
}

fn remove_files(path: &str) {
    for suffix in ["", "-wal", "-shm", "-journal"] { std::fs::remove_file(format!("{}{}", path, suffix)).ok(); }
}

// =============================================================================================
// the real side

struct Real {
    uri: String,
    handles: Vec<Option<Store>>,
    sessions: BTreeMap<u64, (usize, bool, Session)>,
    txn: Option<u64>,
    raw: RawDb,
    observer: Option<Store>,
    observer_dirty: bool,
    feat: BTreeMap<String, u64>,
}

fn open_store(uri: &str, profile: Option<String>) -> Result<Store, Error> {
    let mut attempt = 0u64;
    loop {
        let r = block_on(async { Store::open(uri, Some(StoreKeyMethod::RawKey), PassKey::from(RAW_KEY), profile.clone()).await });
        match &r {
            Err(e) if attempt < 20 && pool_busy(e) => { attempt += 1; std::thread::sleep(std::time::Duration::from_millis(20 * attempt)); }
            _ => return r,
        }
    }
}

fn close_store(s: Store) { block_on(async move { s.close().await.ok(); }); }

impl Real {
    fn bump(&mut self, k: &str) { *self.feat.entry(k.to_string()).or_insert(0) += 1; }

    fn end_session(&mut self, sid: u64, commit: bool) -> Value {
        let (_, txn, s) = match self.sessions.remove(&sid) { Some(x) => x, None => return refused("NoSession") };
        if self.txn == Some(sid) { self.txn = None; }
        let r = block_on(async move { if commit { s.commit().await } else { s.rollback().await } });
        let _ = txn;
        match r { Ok(()) => json!("ok"), Err(e) => jerr(&e) }
    }

    fn raw_counts(&self) -> Value {
        let rows = self.raw.query("SELECT p.name, COUNT(i.id) FROM profiles p LEFT JOIN items i ON i.profile_id = p.id GROUP BY p.id", &[]);
        let orphans = self.raw.query("SELECT COUNT(*) FROM items WHERE profile_id NOT IN (SELECT id FROM profiles)", &[]);
        match (rows, orphans) {
            (Ok(rows), Ok(o)) => {
                let mut m = Map::new();
                for r in rows { m.insert(r[0].as_text(), json!(r[1].as_int())); }
                json!({"rows": m, "orphans": o.first().map_or(0, |r| r[0].as_int())})
            }
            (a, b) => json!({"err": format!("{:?} {:?}", a.err(), b.err())}),
        }
    }

    /// logical dump through a handle whose cache cannot be stale (re-opened after every profile removal)
    fn dump(&mut self) -> Value {
        if self.observer_dirty { if let Some(o) = self.observer.take() { close_store(o); } self.observer_dirty = false; }
        let names: Vec<String> = match self.raw.query("SELECT name FROM profiles", &[]) { Ok(r) => r.iter().map(|x| x[0].as_text()).collect(), Err(e) => return json!({"err": e}) };
        let default = self.raw.query("SELECT value FROM config WHERE name='default_profile'", &[]).ok().and_then(|r| r.first().map(|x| x[0].as_text())).unwrap_or_default();
        if names.is_empty() { return json!({"default": default, "profiles": []}); }
        if self.observer.is_none() {
            match open_store(&self.uri, Some(names[0].clone())) { Ok(s) => self.observer = Some(s), Err(e) => return json!({"observer": jerr(&e)}) }
        }
        let o = self.observer.as_ref().unwrap();
        let mut names = names;
        names.sort_by(|a, b| a.as_bytes().cmp(b.as_bytes()));
        let profiles: Vec<Value> = block_on(async {
            let mut out = vec![];
            for n in names {
                let recs: Result<Vec<Value>, Error> = async {
                    let mut scan = o.scan(Some(n.clone()), None, None, None, None, None, false).await?;
                    let mut all = vec![];
                    while let Some(rows) = scan.fetch_next().await? { all.extend(rows.iter().map(rec_json)); }
                    Ok(all)
                }.await;
                out.push(json!({"name": n, "recs": match recs { Ok(v) => Value::Array(sort_recs(v)), Err(e) => jerr(&e) }}));
            }
            out
        });
        json!({"default": default, "profiles": profiles})
    }

    fn step(&mut self, op: &Value) -> Value {
        let name = sname(op, "op");
        self.bump(&format!("op:{}", name));
        if name == "dump" { return json!("ok"); }
        let on_session = matches!(name.as_str(), "insert" | "replace" | "remove" | "fetch" | "fetch_all" | "count" | "remove_all" | "commit" | "rollback");
        if let Some(t) = self.txn {
            if !(on_session && op["s"].as_u64() == Some(t)) { self.bump("refused:TxnOpen"); return refused("TxnOpen"); }
        }
        if on_session {
            let sid = op["s"].as_u64().unwrap_or(u64::MAX);
            if name == "commit" || name == "rollback" { return self.end_session(sid, name == "commit"); }
            let s = match self.sessions.get_mut(&sid) { Some(x) => &mut x.2, None => { self.bump("refused:NoSession"); return refused("NoSession"); } };
            let (c, n) = (sname(op, "c"), sname(op, "n"));
            let cat = oname(op, "c");
            return block_on(async {
                match name.as_str() {
                    "insert" | "replace" => {
                        let tags = entry_tags(&op["t"]);
                        let v = value_from_json(&op["v"]);
                        let r = if name == "insert" { s.insert(&c, &n, &v, Some(&tags), None).await } else { s.replace(&c, &n, &v, Some(&tags), None).await };
                        match r { Ok(()) => json!("ok"), Err(e) => jerr(&e) }
                    }
                    "remove" => match s.remove(&c, &n).await { Ok(()) => json!("ok"), Err(e) => jerr(&e) },
                    "fetch" => match s.fetch(&c, &n, false).await { Ok(Some(e)) => rec_json(&e), Ok(None) => Value::Null, Err(e) => jerr(&e) },
                    "fetch_all" => match s.fetch_all(cat.as_deref(), None, None, None, false, false).await {
                        Ok(v) => Value::Array(sort_recs(v.iter().map(rec_json).collect())), Err(e) => jerr(&e) },
                    "count" => match s.count(cat.as_deref(), None).await { Ok(k) => json!(k), Err(e) => jerr(&e) },
                    _ => match s.remove_all(cat.as_deref(), None).await { Ok(k) => json!(k), Err(e) => jerr(&e) },
                }
            });
        }
        let h = op["h"].as_u64().unwrap_or(u64::MAX) as usize;
        if h >= NH { self.bump("refused:NoHandle"); return refused("NoHandle"); }
        if name == "open" {
            if self.handles[h].is_some() { return refused("HandleOpen"); }
            return match open_store(&self.uri, oname(op, "profile")) { Ok(s) => { self.handles[h] = Some(s); json!("ok") } Err(e) => jerr(&e) };
        }
        if self.handles[h].is_none() { self.bump("refused:NoHandle"); return refused("NoHandle"); }
        if name == "close" {
            let sids: Vec<u64> = self.sessions.iter().filter(|(_, v)| v.0 == h).map(|(k, _)| *k).collect();
            for sid in sids { self.end_session(sid, false); }
            close_store(self.handles[h].take().unwrap());
            return json!("ok");
        }
        if name == "session" && self.sessions.values().filter(|v| v.0 == h).count() >= MAX_SESS { self.bump("refused:TooMany"); return refused("TooMany"); }
        let st = self.handles[h].as_ref().unwrap();
        let mut new_session = None;
        let mut removed_msg = false;
        let mut removed_ok = false;
        let res = block_on(async {
            match name.as_str() {
                "create_profile" => match st.create_profile(Some(sname(op, "name"))).await { Ok(n) => json!({"name": n}), Err(e) => jerr(&e) },
                "remove_profile" => match st.remove_profile(sname(op, "name")).await { Ok(b) => { removed_ok = b; json!({"removed": b}) } Err(e) => jerr(&e) },
                "set_default" => match st.set_default_profile(sname(op, "name")).await { Ok(()) => json!("ok"), Err(e) => jerr(&e) },
                "get_default" => match st.get_default_profile().await { Ok(n) => json!({"name": n}), Err(e) => jerr(&e) },
                "list_profiles" => match st.list_profiles().await {
                    Ok(mut v) => { v.sort_by(|a, b| a.as_bytes().cmp(b.as_bytes())); json!(v) } Err(e) => jerr(&e) },
                "session" => {
                    let txn = op["txn"].as_bool().unwrap_or(false);
                    let r = if txn { st.transaction(oname(op, "profile")).await } else { st.session(oname(op, "profile")).await };
                    match r {
                        Ok(s) => { new_session = Some((txn, s)); json!("ok") }
                        Err(e) => { removed_msg = format!("{}", e).contains("Session profile has been removed"); jerr(&e) }
                    }
                }
                "scan" => {
                    let r: Result<Vec<Value>, Error> = async {
                        let mut scan = st.scan(oname(op, "profile"), oname(op, "c"), None, None, None, None, false).await?;
                        let mut all = vec![];
                        while let Some(rows) = scan.fetch_next().await? { all.extend(rows.iter().map(rec_json)); }
                        Ok(all)
                    }.await;
                    match r { Ok(v) => Value::Array(sort_recs(v)), Err(e) => jerr(&e) }
                }
                _ => refused("UnknownOp"),
            }
        });
        if removed_msg { self.bump("ping:profile-removed"); }
        if removed_ok { self.observer_dirty = true; }
        if let Some((txn, s)) = new_session {
            let sid = op["s"].as_u64().unwrap_or(u64::MAX);
            if let Some(old) = self.sessions.insert(sid, (h, txn, s)) { block_on(async move { drop(old) }); }
            if txn { self.txn = Some(sid); }
        }
        res
    }

    fn shutdown(&mut self) {
        let sids: Vec<u64> = self.sessions.keys().cloned().collect();
        for sid in sids { self.end_session(sid, false); }
        for h in 0..NH { if let Some(s) = self.handles[h].take() { close_store(s); } }
        if let Some(o) = self.observer.take() { close_store(o); }
    }
}

// =============================================================================================
// the reference: the property's reading — ONE map per profile name, shared by all handles; no ids, no keys, no caches.
// `known` / `octx` only LABEL a call (is this handle / session possibly behind the shared state?): an error where the reference
// expects success is accepted on a labelled call (and counted), never on a fresh one.

#[derive(Clone)]
struct RProf { gen: u64, id: u64, recs: BTreeMap<(String, String), Value> }
#[derive(Clone)]
struct RefDb { profs: BTreeMap<String, RProf>, default: String }
struct RSess { h: usize, name: String, gen: Option<u64>, octx: &'static str }
struct RHandle { active: String, known: BTreeMap<String, u64> }

struct Reference {
    db: RefDb,
    saved: Option<RefDb>,
    txn: Option<u64>,
    next_gen: u64,
    /// generation -> the row id SQLite gave it (rowid = max + 1, reused after the largest is deleted): only used to LABEL a
    /// stale opening (is the remembered id in use again?), never for a verdict
    gen_id: BTreeMap<u64, u64>,
    handles: Vec<Option<RHandle>>,
    sessions: BTreeMap<u64, RSess>,
}

fn class(v: &Value) -> String {
    match v {
        Value::String(_) => "ok".into(),
        Value::Null => "none".into(),
        Value::Number(_) => "count".into(),
        Value::Array(_) => "data".into(),
        Value::Bool(_) => "bool".into(),
        Value::Object(o) => {
            if let Some(e) = o.get("err") { format!("err:{}", e.as_str().unwrap_or("?")) }
            else if o.contains_key("removed") { "removed".into() }
            else if o.contains_key("name") { "name".into() }
            else { "data".into() }
        }
    }
}

fn is_err(v: &Value) -> bool { v.get("err").is_some() }
fn is_void(v: &Value) -> bool { is_err(v) || v.is_null() || v.as_i64() == Some(0) || v.as_array().map_or(false, |a| a.is_empty()) }

enum Verdict { Exact, Accepted(String), Fail(String) }

impl Reference {
    fn committed(&self) -> &RefDb { self.saved.as_ref().unwrap_or(&self.db) }

    fn dump(&self) -> Value {
        let d = self.committed();
        let ps: Vec<Value> = d.profs.iter().map(|(n, p)| json!({"name": n, "recs": sort_recs(p.recs.values().cloned().collect())})).collect();
        let mut ps = ps;
        ps.sort_by_key(|p| p["name"].as_str().unwrap_or("").as_bytes().to_vec());
        json!({"default": d.default, "profiles": ps})
    }

    fn hctx(&self, h: usize, name: &str) -> &'static str {
        match self.handles[h].as_ref().and_then(|x| x.known.get(name)) {
            None => "fresh",
            Some(g) => match self.db.profs.get(name) { None => "stale:gone", Some(p) if p.gen != *g => "stale:recreated", _ => "fresh" },
        }
    }

    /// label of a session: the label of its opening while the profile it was opened on is still the same one, else what happened since
    fn sess_ctx(&self, sid: u64) -> Option<String> {
        let s = self.sessions.get(&sid)?;
        Some(match (s.gen, self.db.profs.get(&s.name)) {
            // opened although the name had no profile (already an oracle failure at the opening)
            (None, _) => "orphan".to_string(),
            (Some(g), Some(p)) if p.gen == g => s.octx.to_string(),
            // kept open while its profile was removed (and possibly created again)
            _ => "held".to_string(),
        })
    }

    fn end_session(&mut self, sid: u64, commit: bool) {
        if self.sessions.remove(&sid).is_some() && self.txn == Some(sid) {
            self.txn = None;
            let saved = self.saved.take();
            if !commit { if let Some(s) = saved { self.db = s; } }
        }
    }

    /// expected result + verdict for one call whose observed result is `obs`; updates the reference
    fn judge(&mut self, op: &Value, obs: &Value) -> Verdict {
        let name = sname(op, "op");
        if name == "dump" { return Verdict::Exact; }
        let on_session = matches!(name.as_str(), "insert" | "replace" | "remove" | "fetch" | "fetch_all" | "count" | "remove_all" | "commit" | "rollback");
        let exact = |exp: Value, ctx: &str| -> Verdict {
            if exp == *obs { Verdict::Exact }
            else if is_err(obs) && ctx != "fresh" && ctx != "store" { Verdict::Accepted(format!("accept:{}:{}:{}", name, class(obs), ctx)) }
            else { Verdict::Fail(format!("{}:{}->{}:{}", name, class(&exp), class(obs), ctx)) }
        };
        if let Some(t) = self.txn {
            if !(on_session && op["s"].as_u64() == Some(t)) { return exact(refused("TxnOpen"), "store"); }
        }
        if on_session {
            let sid = op["s"].as_u64().unwrap_or(u64::MAX);
            if !self.sessions.contains_key(&sid) { return exact(refused("NoSession"), "store"); }
            if name == "commit" || name == "rollback" { self.end_session(sid, name == "commit"); return exact(json!("ok"), "store"); }
            let s = &self.sessions[&sid];
            let live = s.gen.is_some() && self.db.profs.get(&s.name).map(|p| p.gen) == s.gen;
            if !live {
                let ctx = self.sess_ctx(sid).unwrap_or_default();
                return if is_void(obs) { Verdict::Accepted(format!("void:{}:{}:{}", name, class(obs), ctx)) } else { Verdict::Fail(format!("{}:void->{}:{}", name, class(obs), ctx)) };
            }
            let ctx = s.octx;
            let pname = s.name.clone();
            let (c, n) = (sname(op, "c"), sname(op, "n"));
            let cat = oname(op, "c");
            let recs = &self.db.profs[&pname].recs;
            let in_cat = |k: &(String, String)| cat.as_ref().map_or(true, |c| k.0 == *c);
            // expected result and (if the observed result agrees) the effect
            let exp: Value = match name.as_str() {
                "insert" => if recs.contains_key(&(c.clone(), n.clone())) { json!({"err": "Duplicate"}) } else { json!("ok") },
                "replace" | "remove" => if recs.contains_key(&(c.clone(), n.clone())) { json!("ok") } else { json!({"err": "NotFound"}) },
                "fetch" => recs.get(&(c.clone(), n.clone())).cloned().unwrap_or(Value::Null),
                "fetch_all" => Value::Array(sort_recs(recs.iter().filter(|(k, _)| in_cat(k)).map(|(_, v)| v.clone()).collect())),
                _ => json!(recs.keys().filter(|k| in_cat(k)).count()),
            };
            let v = exact(exp.clone(), ctx);
            if matches!(v, Verdict::Exact) {
                let recs = &mut self.db.profs.get_mut(&pname).unwrap().recs;
                match name.as_str() {
                    "insert" | "replace" if exp == json!("ok") => { recs.insert((c, n), spec_rec(op)); }
                    "remove" if exp == json!("ok") => { recs.remove(&(c, n)); }
                    "remove_all" => { recs.retain(|k, _| !cat.as_ref().map_or(true, |c| k.0 == *c)); }
                    _ => {}
                }
            }
            return v;
        }
        let h = op["h"].as_u64().unwrap_or(u64::MAX) as usize;
        if h >= NH { return exact(refused("NoHandle"), "store"); }
        if name == "open" {
            if self.handles[h].is_some() { return exact(refused("HandleOpen"), "store"); }
            let target = oname(op, "profile").unwrap_or_else(|| self.db.default.clone());
            return match self.db.profs.get(&target) {
                Some(p) => {
                    if *obs == json!("ok") { let mut known = BTreeMap::new(); known.insert(target.clone(), p.gen); self.handles[h] = Some(RHandle { active: target, known }); }
                    exact(json!("ok"), "store")
                }
                None => if is_err(obs) { Verdict::Exact } else { Verdict::Fail(format!("open:err->{}:profile-missing", class(obs))) },
            };
        }
        if self.handles[h].is_none() { return exact(refused("NoHandle"), "store"); }
        match name.as_str() {
            "close" => {
                let sids: Vec<u64> = self.sessions.iter().filter(|(_, s)| s.h == h).map(|(k, _)| *k).collect();
                for sid in sids { self.end_session(sid, false); }
                self.handles[h] = None;
                exact(json!("ok"), "store")
            }
            "create_profile" => {
                let p = sname(op, "name");
                if self.db.profs.contains_key(&p) { return exact(json!({"err": "Duplicate"}), "store"); }
                let v = exact(json!({"name": p}), "store");
                if matches!(v, Verdict::Exact) {
                    self.next_gen += 1;
                    let id = self.db.profs.values().map(|x| x.id).max().unwrap_or(0) + 1;
                    self.gen_id.insert(self.next_gen, id);
                    self.db.profs.insert(p.clone(), RProf { gen: self.next_gen, id, recs: BTreeMap::new() });
                    self.handles[h].as_mut().unwrap().known.insert(p, self.next_gen);
                }
                v
            }
            "remove_profile" => {
                let p = sname(op, "name");
                let v = exact(json!({"removed": self.db.profs.contains_key(&p)}), "store");
                if matches!(v, Verdict::Exact) { self.db.profs.remove(&p); }
                self.handles[h].as_mut().unwrap().known.remove(&p);
                v
            }
            "set_default" => { let v = exact(json!("ok"), "store"); if matches!(v, Verdict::Exact) { self.db.default = sname(op, "name"); } v }
            "get_default" => exact(json!({"name": self.db.default}), "store"),
            "list_profiles" => {
                let mut names: Vec<&String> = self.db.profs.keys().collect();
                names.sort_by(|a, b| a.as_bytes().cmp(b.as_bytes()));
                exact(json!(names), "store")
            }
            "session" | "scan" => {
                if name == "session" && self.sessions.values().filter(|s| s.h == h).count() >= MAX_SESS { return exact(refused("TooMany"), "store"); }
                let p = oname(op, "profile").unwrap_or_else(|| self.handles[h].as_ref().unwrap().active.clone());
                let mut ctx = self.hctx(h, &p);
                if name == "session" && ctx == "stale:gone" {
                    // D42 needs the remembered row id to be IN USE again (`ping` looks the id up); while the id is free every
                    // opening of the removed profile — plain or transaction — must be refused: a label of its own, so that the
                    // known signatures of D42 do not absorb such an opening (seed C07g)
                    let id = self.handles[h].as_ref().and_then(|x| x.known.get(&p)).and_then(|g| self.gen_id.get(g)).copied();
                    if let Some(id) = id { if !self.db.profs.values().any(|x| x.id == id) { ctx = "stale:gone:id-free"; } }
                }
                let cur = self.db.profs.get(&p).map(|x| x.gen);
                let exp = match (&cur, name.as_str()) {
                    (None, _) => json!({"err": "NotFound"}),
                    (Some(_), "session") => json!("ok"),
                    _ => { let cat = oname(op, "c"); Value::Array(sort_recs(self.db.profs[&p].recs.iter().filter(|(k, _)| cat.as_ref().map_or(true, |c| k.0 == *c)).map(|(_, v)| v.clone()).collect())) }
                };
                let v = exact(exp, ctx);
                if matches!(v, Verdict::Exact) && cur.is_some() && ctx == "fresh" { self.handles[h].as_mut().unwrap().known.insert(p.clone(), cur.unwrap()); }
                if name == "session" && *obs == json!("ok") {
                    let sid = op["s"].as_u64().unwrap_or(u64::MAX);
                    self.sessions.insert(sid, RSess { h, name: p, gen: cur, octx: ctx });
                    if op["txn"].as_bool().unwrap_or(false) { self.txn = Some(sid); self.saved = Some(self.db.clone()); }
                }
                v
            }
            _ => exact(refused("UnknownOp"), "store"),
        }
    }
}

fn dump_diff(exp: &Value, obs: &Value) -> Option<&'static str> {
    if exp == obs { return None; }
    let names = |d: &Value| -> Vec<String> { d["profiles"].as_array().map(|a| a.iter().map(|p| sname(p, "name")).collect()).unwrap_or_default() };
    if obs.get("profiles").is_none() { return Some("observer-failed"); }
    if names(exp) != names(obs) { return Some("profiles"); }
    if exp["default"] != obs["default"] { return Some("default"); }
    if obs["profiles"].as_array().map_or(false, |a| a.iter().any(|p| p["recs"].get("err").is_some())) { return Some("unreadable"); }
    Some("rows")
}

pub fn exec(case: &Value, tag: &str) -> Value {
    let path = format!("{}/c07h-{}.db", scratch_dir(), tag);
    remove_files(&path);
    let uri = format!("sqlite://{}?max_connections=5&busy_timeout=400{}", path, if case["journal"] == "delete" { "&journal_mode=delete" } else { "" });
    let mut first = None;
    let mut last = None;
    for attempt in 0..20u64 {
        match block_on(async { Store::provision(&uri, StoreKeyMethod::RawKey, PassKey::from(RAW_KEY), Some("p0".to_string()), true).await }) {
            Ok(s) => { first = Some(s); break; }
            Err(e) => { last = Some(e); std::thread::sleep(std::time::Duration::from_millis(20 * (attempt + 1))); }
        }
    }
    let first = first.unwrap_or_else(|| panic!("set-up: provision: {:?}", last));
    let raw = RawDb::open(&path).expect("set-up: raw connection");
    let mut real = Real { uri, handles: vec![Some(first), None, None], sessions: BTreeMap::new(), txn: None, raw, observer: None, observer_dirty: false, feat: BTreeMap::new() };
    let mut known = BTreeMap::new();
    known.insert("p0".to_string(), 0u64);
    let mut profs = BTreeMap::new();
    profs.insert("p0".to_string(), RProf { gen: 0, id: 1, recs: BTreeMap::new() });
    let mut gen_id = BTreeMap::new();
    gen_id.insert(0u64, 1u64);
    let mut reference = Reference { db: RefDb { profs, default: "p0".into() }, saved: None, txn: None, next_gen: 0, gen_id,
        handles: vec![Some(RHandle { active: "p0".into(), known }), None, None], sessions: BTreeMap::new() };

    let mut steps = vec![];
    let mut oracle: Vec<Value> = vec![];
    let mut judging = true;
    let ops = case["ops"].as_array().cloned().unwrap_or_default();
    for (i, op) in ops.iter().enumerate() {
        let name = sname(op, "op");
        let r = real.step(op);
        let mut step = json!({"r": r, "raw": real.raw_counts()});
        let writes = matches!(name.as_str(), "insert" | "replace" | "remove" | "remove_all" | "commit" | "rollback" | "create_profile" | "remove_profile" | "set_default" | "close" | "dump");
        let d = if writes && !is_refusal(&r) && real.txn.is_none() { let d = real.dump(); step["d"] = d.clone(); Some(d) } else { None };
        if name == "remove_profile" && r["removed"] == json!(true) {
            // the situation the engine exists for: a profile disappears behind the back of a handle that has used it
            let h = op["h"].as_u64().unwrap_or(0) as usize;
            let p = sname(op, "name");
            if reference.handles.iter().enumerate().any(|(i, x)| i != h && x.as_ref().map_or(false, |x| x.known.contains_key(&p))) { real.bump("stale:made"); }
            if reference.sessions.values().any(|s| s.name == p) { real.bump("held:made"); }
        }
        if judging {
            let sctx = op["s"].as_u64().and_then(|s| reference.sess_ctx(s)).unwrap_or_else(|| "store".to_string());
            let mut fail: Option<String> = None;
            match reference.judge(op, &r) {
                Verdict::Exact => {}
                Verdict::Accepted(k) => real.bump(&k),
                Verdict::Fail(sig) => fail = Some(sig),
            }
            if fail.is_none() {
                if let Some(d) = &d {
                    if let Some(what) = dump_diff(&reference.dump(), d) {
                        fail = Some(format!("{}:dump:{}:{}", name, what, sctx));
                    }
                }
            }
            if let Some(sig) = fail {
                oracle.push(json!({"sig": sig, "step": i, "op": op, "observed": r, "expected_dump": reference.dump(), "observed_dump": d}));
                real.bump("oracle:stopped");
                judging = false;
            }
        }
        steps.push(step);
    }
    real.shutdown();
    real.observer_dirty = true;
    let fin = real.dump();
    if judging {
        // every transaction and session has been rolled back / closed
        let sids: Vec<u64> = reference.sessions.keys().cloned().collect();
        for sid in sids { reference.end_session(sid, false); }
        if let Some(what) = dump_diff(&reference.dump(), &fin) { oracle.push(json!({"sig": format!("final:dump:{}", what), "expected_dump": reference.dump(), "observed_dump": fin})); }
    }
    if let Some(o) = real.observer.take() { close_store(o); }
    let feat = real.feat.clone();
    drop(real);
    remove_files(&path);
    json!({"out": {"steps": steps, "final": fin}, "oracle": oracle, "feat": feat})
}

fn is_refusal(r: &Value) -> bool {
    matches!(r["err"].as_str(), Some("TxnOpen") | Some("NoSession") | Some("NoHandle") | Some("HandleOpen") | Some("TooMany") | Some("UnknownOp"))
}

// =============================================================================================
// generator

struct G { ops: Vec<Value>, open: [bool; NH], sessions: Vec<(u64, usize, bool)>, txn: Option<u64>, next_sid: u64, exists: Vec<String>, default: String }

fn pname(r: &mut Rng) -> String {
    if r.chance(17, 20) { r.pick(&["p0", "p1", "p2"]).to_string() } else { r.pick(&["p\u{e9}", "", "P1"]).to_string() }
}

fn value(r: &mut Rng) -> String { let n = 1 + r.below(3); hex::encode(r.bytes(n)) }

fn tags(r: &mut Rng) -> Value {
    let n = r.below(3);
    let mut t: Vec<Value> = vec![];
    for _ in 0..n {
        let x = json!([r.below(2), r.pick(&["a", "b"]).to_string(), r.pick(&["1", "2"]).to_string()]);
        if !t.iter().any(|y| y[0] == x[0] && y[1] == x[1]) { t.push(x); }
    }
    json!(t)
}

fn ident(r: &mut Rng) -> (String, String) { (r.pick(&["c1", "c1", "c2", ""]).to_string(), r.pick(&["n1", "n2", "n3"]).to_string()) }
fn ocat(r: &mut Rng) -> Value { if r.chance(3, 5) { Value::Null } else { json!(r.pick(&["c1", "c2", ""]).to_string()) } }

impl G {
    fn sess_op(&mut self, r: &mut Rng, sid: u64) {
        let (c, n) = ident(r);
        let op = match r.below(20) {
            0..=6 => json!({"op": "insert", "s": sid, "c": c, "n": n, "v": value(r), "t": tags(r)}),
            7 | 8 => json!({"op": "replace", "s": sid, "c": c, "n": n, "v": value(r), "t": tags(r)}),
            9 | 10 => json!({"op": "remove", "s": sid, "c": c, "n": n}),
            11..=13 => json!({"op": "fetch", "s": sid, "c": c, "n": n}),
            14 | 15 => json!({"op": "fetch_all", "s": sid, "c": ocat(r)}),
            16..=18 => json!({"op": "count", "s": sid, "c": ocat(r)}),
            _ => json!({"op": "remove_all", "s": sid, "c": ocat(r)}),
        };
        self.ops.push(op);
    }
    fn open_session(&mut self, r: &mut Rng, h: usize, profile: Option<String>, txn: bool) -> u64 {
        let sid = self.next_sid;
        self.next_sid += 1;
        self.ops.push(json!({"op": "session", "h": h, "s": sid, "profile": profile, "txn": txn}));
        // a session on a name that (as far as the generator can tell) does not exist fails: it gets a few calls, no more
        let believed = profile.as_ref().map_or(true, |p| self.exists.contains(p));
        if believed {
            self.sessions.push((sid, h, txn));
            if txn { self.txn = Some(sid); }
        } else if r.chance(1, 3) {
            self.ops.push(json!({"op": "insert", "s": sid, "c": "c1", "n": "ghost", "v": "aa", "t": []}));
            self.ops.push(json!({"op": "count", "s": sid, "c": null}));
        }
        sid
    }
    fn force_session(&mut self, h: usize, p: &str, txn: bool) -> u64 {
        let sid = self.next_sid;
        self.next_sid += 1;
        self.ops.push(json!({"op": "session", "h": h, "s": sid, "profile": p, "txn": txn}));
        self.sessions.push((sid, h, txn));
        if txn { self.txn = Some(sid); }
        sid
    }
    fn end(&mut self, sid: u64, commit: bool) {
        self.ops.push(json!({"op": if commit { "commit" } else { "rollback" }, "s": sid}));
        self.sessions.retain(|x| x.0 != sid);
        if self.txn == Some(sid) { self.txn = None; }
    }
    fn ins(&mut self, r: &mut Rng, sid: u64) {
        let (c, n) = ident(r);
        self.ops.push(json!({"op": "insert", "s": sid, "c": c, "n": n, "v": value(r), "t": tags(r)}));
    }
    /// every way a stale (id, key) pair can be used
    fn probe(&mut self, r: &mut Rng, sid: u64) {
        let k = 2 + r.below(5);
        for _ in 0..k {
            match r.below(8) {
                0 => self.ops.push(json!({"op": "count", "s": sid, "c": null})),
                1 => self.ops.push(json!({"op": "fetch_all", "s": sid, "c": null})),
                2 => self.ops.push(json!({"op": "remove_all", "s": sid, "c": null})),
                3 => self.ins(r, sid),
                _ => self.sess_op(r, sid),
            }
        }
    }
    fn create(&mut self, h: usize, name: &str) {
        self.ops.push(json!({"op": "create_profile", "h": h, "name": name}));
        if !self.exists.iter().any(|x| x == name) { self.exists.push(name.to_string()); }
    }
    fn remove(&mut self, h: usize, name: &str) {
        self.ops.push(json!({"op": "remove_profile", "h": h, "name": name}));
        self.exists.retain(|x| x != name);
    }
    /// a profile name: mostly one that exists
    fn ename(&mut self, r: &mut Rng) -> String {
        if !self.exists.is_empty() && r.chance(3, 4) { r.pick(&self.exists).clone() } else { pname(r) }
    }
    fn random_op(&mut self, r: &mut Rng) {
        if let Some(t) = self.txn {
            match r.below(20) {
                0..=15 => self.sess_op(r, t),
                16 | 17 => { let c = r.chance(2, 3); self.end(t, c); }
                18 => self.ops.push(json!({"op": "create_profile", "h": 0, "name": pname(r)})),   // refused: TxnOpen
                _ => self.ops.push(json!({"op": "list_profiles", "h": 1})),
            }
            return;
        }
        let hs: Vec<usize> = (0..NH).filter(|h| self.open[*h]).collect();
        let closed: Vec<usize> = (0..NH).filter(|h| !self.open[*h]).collect();
        let w = r.below(100);
        let h = if hs.is_empty() { 0 } else { *r.pick(&hs) };
        match w {
            0..=6 if !closed.is_empty() => {
                // the third handle is rarer
                let c = if closed.contains(&2) && closed.len() > 1 && r.chance(3, 4) { closed[0] } else { *r.pick(&closed) };
                let by_default = r.chance(1, 2);
                let target = if by_default { self.default.clone() } else { self.ename(r) };
                self.ops.push(json!({"op": "open", "h": c, "profile": if by_default { Value::Null } else { json!(target) }}));
                // a failed open (missing profile) leaves the slot empty: later calls on it would all be refused
                self.open[c] = self.exists.contains(&target);
            }
            7 | 8 if hs.len() >= 2 => {
                self.ops.push(json!({"op": "close", "h": h}));
                self.open[h] = false;
                self.sessions.retain(|x| x.1 != h);
            }
            9..=17 => { let p = pname(r); self.create(h, &p); }
            18..=26 => { let p = self.ename(r); self.remove(h, &p); }
            27 | 28 => { let p = self.ename(r); self.ops.push(json!({"op": "set_default", "h": h, "name": p})); self.default = p; }
            29 => self.ops.push(json!({"op": "get_default", "h": h})),
            30 | 31 => self.ops.push(json!({"op": "list_profiles", "h": h})),
            32..=43 => {
                if self.sessions.iter().filter(|x| x.1 == h).count() >= MAX_SESS && r.chance(9, 10) {
                    let sid = self.sessions.iter().find(|x| x.1 == h).unwrap().0;
                    self.end(sid, true);
                }
                let p = if r.chance(1, 5) { None } else { Some(self.ename(r)) };
                let txn = r.chance(1, 4);
                self.open_session(r, h, p, txn);
            }
            44..=49 => {
                let p = if r.chance(1, 6) { Value::Null } else { json!(self.ename(r)) };
                self.ops.push(json!({"op": "scan", "h": h, "profile": p, "c": ocat(r)}));
            }
            50..=55 if !self.sessions.is_empty() => { let sid = r.pick(&self.sessions).0; let c = r.chance(1, 2); self.end(sid, c); }
            56 => self.ops.push(json!({"op": "dump"})),
            57 => {
                // malformed: unknown session / handle out of range / unknown op
                let op = match r.below(4) {
                    0 => json!({"op": "insert", "s": 999, "c": "c1", "n": "n1", "v": "00", "t": []}),
                    1 => json!({"op": "list_profiles", "h": 7}),
                    2 => json!({"op": "commit", "s": 998}),
                    _ => json!({"op": "vacuum", "h": h}),
                };
                self.ops.push(op);
            }
            _ => {
                if self.sessions.is_empty() { let p = Some(self.ename(r)); self.open_session(r, h, p, false); }
                else { let sid = r.pick(&self.sessions).0; self.sess_op(r, sid); }
            }
        }
    }
}

fn gen_case(r: &mut Rng, id: usize, thorough: bool) -> Value {
    let mut g = G { ops: vec![], open: [true, false, false], sessions: vec![], txn: None, next_sid: 0, exists: vec!["p0".to_string()], default: "p0".to_string() };
    let (p, q) = if r.chance(1, 2) { ("p1", "p2") } else { ("p2", "p1") };
    let (a, b) = if r.chance(3, 4) { (0usize, 1usize) } else { (1, 0) };
    let template = if id % 2 == 0 { (id / 2) % 7 } else { 99 };
    if template < 7 {
        // A learns P (creates it or opens a session on it), B removes it behind A's back
        g.ops.push(json!({"op": "open", "h": 1, "profile": null}));
        g.open[1] = true;
        if template == 5 {
            // P is not the last row: its id is not reused by the next create
            g.create(b, p);
            g.create(b, q);
        } else if r.chance(1, 2) { g.create(a, p); }
        else { g.create(b, p); }
        let s = g.open_session(r, a, Some(p.to_string()), false);
        for _ in 0..r.below(3) { g.ins(r, s); }
        let held = template == 4 || template == 6;
        if !held { g.end(s, true); }
        g.remove(b, p);
        match template {
            0 => {}                                                                                  // removed, id free: the ping path
            1 | 4 => g.create(b, q),                            // id reused by ANOTHER profile
            2 | 5 | 6 => g.create(b, p),                        // re-created (same id unless template 5)
            _ => { g.create(b, q); g.create(b, p); }            // another profile takes the id, then the name comes back
        }
        if template != 0 && r.chance(3, 4) {
            // the new owner of the id gets records of its own
            let owner = if template == 1 || template == 4 || template == 3 { q } else { p };
            let ttxn = r.chance(1, 4);
            let t = g.open_session(r, b, Some(owner.to_string()), ttxn);
            for _ in 0..1 + r.below(3) { g.ins(r, t); }
            g.end(t, true);
        }
        if held { g.probe(r, s); }
        else {
            let txn = r.chance(1, 3);
            let s2 = g.force_session(a, p, txn);
            g.probe(r, s2);
            if r.chance(1, 2) { g.end(s2, true); }
            if g.txn.is_none() {
                g.ops.push(json!({"op": "scan", "h": a, "profile": p, "c": null}));
                let s3 = g.force_session(a, p, true);
                g.end(s3, false);
            }
        }
    }
    let len = if thorough { 20 + r.below(100) } else { 10 + r.below(35) };
    for _ in 0..len { g.random_op(r); }
    if let Some(t) = g.txn { let c = r.chance(1, 2); g.end(t, c); }
    g.ops.push(json!({"op": "dump"}));
    json!({"id": id, "kind": "c07h", "journal": if r.chance(1, 2) { "wal" } else { "delete" }, "ops": g.ops})
}

pub fn gen(r: &mut Rng, thorough: bool, count: Option<usize>) -> Vec<Value> {
    let n = count.unwrap_or(if thorough { 3000 } else { 160 });
    (0..n).map(|i| { let mut rr = r.fork(); gen_case(&mut rr, i, thorough) }).collect()
}
