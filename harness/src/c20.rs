//! C20: secret memory is wiped before release and never printed (DESIGN.md section 4, C20).
//!
//! Case kinds
//!   c20:buf — operation sequences on real `SecretBytes` under the instrumented allocator (Part A)
//!   c20:key — create / use / drop of every key type with known secret bytes under the allocator (Part A)
//!   c20:fmt — `{:?}` / `{:#?}` / `{}` of every public secret-bearing type, searched for the secret (Part B)
//!   c20:log — every `log` record at Trace level during store life cycles and failing opens (Part B)
//!   c20:ffi — secret material fetched through the C API into `SecretBuffer` / `EncryptedBuffer` and released with
//!             `askar_buffer_free` under the instrumented allocator; the JSON of `askar_get_current_error` after failing calls (Part A / B)
//!   c20:ffilog — the log campaign through the C API with the C API's own logger (`askar_set_custom_logger`) in a child process (Part B)
//!
//! The allocator is the type `TrackingAlloc` below; the binary that runs the cases must install it with
//!   `#[cfg(feature = "c20")] #[global_allocator] static C20_ALLOC: c20::TrackingAlloc = c20::TrackingAlloc;`
//! (`src/bin/c20_alloc.rs` is a private binary that does so).  Without it every c20:buf / c20:key case reports the
//! oracle failure `c20:allocator-not-installed`.
use crate::rng::Rng;
use serde_json::{json, Map, Value};
use std::alloc::{GlobalAlloc, Layout, System};
use std::cell::{Cell, RefCell};
use std::panic::{catch_unwind, AssertUnwindSafe};
use std::str::FromStr;
use std::sync::atomic::{AtomicBool, Ordering};
use std::sync::Mutex;

use aries_askar::kms::{KeyAlg, LocalKey};
use aries_askar::{PassKey, Store, StoreKeyMethod};
use askar_crypto::buffer::{ResizeBuffer, SecretBytes, WriteBuffer};
use askar_storage::future::block_on;

// =================================================================================================
// instrumented allocator

pub struct TrackingAlloc;

static INSTALLED: AtomicBool = AtomicBool::new(false);

#[derive(Clone, Copy, Debug)]
struct Ev {
    kind: u8, // 0 alloc, 1 dealloc, 2 realloc
    size: usize,
    new_size: usize,
    live: bool,     // the released block is the data block of a live SecretBytes (registered by address before the call)
    nonzero: usize, // bytes != 0 in the released block (whole capacity)
    run: bool,      // the released block contains >= 8 consecutive bytes of the c20:buf content pattern
    hit: Option<usize>, // index of a registered needle found in the released block (c20:key)
}

thread_local! {
    static TRACK: Cell<bool> = const { Cell::new(false) };
    static EVENTS: RefCell<Vec<Ev>> = const { RefCell::new(Vec::new()) };
    static NEEDLES: RefCell<Vec<Vec<u8>>> = const { RefCell::new(Vec::new()) };
    static LIVE: RefCell<Vec<usize>> = const { RefCell::new(Vec::new()) };
}

fn tracking() -> bool {
    TRACK.try_with(|t| t.get()).unwrap_or(false)
}
fn set_tracking(on: bool) {
    let _ = TRACK.try_with(|t| t.set(on));
}

/// content bytes of c20:buf follow b[i+1] - b[i] = 37 (mod 128) with the top bit set
fn pattern_step(a: u8, b: u8) -> bool {
    a >= 0x80 && b >= 0x80 && (b.wrapping_sub(a) & 0x7f) == 37
}

unsafe fn scan(ptr: *const u8, size: usize) -> (usize, bool, Option<usize>) {
    let mut nonzero = 0usize;
    let mut run = false;
    let mut cur = 0usize;
    let mut prev = 0u8;
    for i in 0..size {
        let b = ptr.add(i).read_volatile();
        if b != 0 {
            nonzero += 1;
        }
        if i > 0 && pattern_step(prev, b) {
            cur += 1;
            if cur >= 7 {
                run = true;
            }
        } else {
            cur = 0;
        }
        prev = b;
    }
    let hit = NEEDLES
        .try_with(|n| {
            n.try_borrow()
                .map(|n| {
                    n.iter().position(|nd| {
                        let k = nd.len();
                        k > 0 && k <= size && (0..=size - k).any(|o| (0..k).all(|j| ptr.add(o + j).read_volatile() == nd[j]))
                    })
                })
                .unwrap_or(None)
        })
        .unwrap_or(None);
    (nonzero, run, hit)
}

/// is `p` a registered SecretBytes block?  (it is unregistered at once: the address may be reused within the same call)
fn take_live(p: *mut u8) -> bool {
    LIVE.try_with(|l| {
        if let Ok(mut l) = l.try_borrow_mut() {
            if let Some(i) = l.iter().position(|x| *x == p as usize) {
                l.swap_remove(i);
                return true;
            }
        }
        false
    })
    .unwrap_or(false)
}

fn record(ev: Ev) {
    let _ = EVENTS.try_with(|e| {
        if let Ok(mut e) = e.try_borrow_mut() {
            e.push(ev);
        }
    });
}

unsafe impl GlobalAlloc for TrackingAlloc {
    unsafe fn alloc(&self, l: Layout) -> *mut u8 {
        if !INSTALLED.load(Ordering::Relaxed) {
            INSTALLED.store(true, Ordering::Relaxed);
        }
        let p = System.alloc(l);
        if tracking() {
            set_tracking(false);
            record(Ev { kind: 0, size: l.size(), new_size: 0, live: false, nonzero: 0, run: false, hit: None });
            set_tracking(true);
        }
        p
    }
    unsafe fn alloc_zeroed(&self, l: Layout) -> *mut u8 {
        let p = System.alloc_zeroed(l);
        if tracking() {
            set_tracking(false);
            record(Ev { kind: 0, size: l.size(), new_size: 0, live: false, nonzero: 0, run: false, hit: None });
            set_tracking(true);
        }
        p
    }
    unsafe fn dealloc(&self, p: *mut u8, l: Layout) {
        if tracking() {
            set_tracking(false);
            let (nonzero, run, hit) = scan(p, l.size());
            record(Ev { kind: 1, size: l.size(), new_size: 0, live: take_live(p), nonzero, run, hit });
            set_tracking(true);
        }
        System.dealloc(p, l)
    }
    unsafe fn realloc(&self, p: *mut u8, l: Layout, new_size: usize) -> *mut u8 {
        if tracking() {
            set_tracking(false);
            let (nonzero, run, hit) = scan(p, l.size());
            record(Ev { kind: 2, size: l.size(), new_size, live: take_live(p), nonzero, run, hit });
            set_tracking(true);
        }
        System.realloc(p, l, new_size)
    }
}

struct Window;
impl Window {
    fn open() -> Self {
        set_tracking(true);
        Window
    }
}
impl Drop for Window {
    fn drop(&mut self) {
        set_tracking(false);
    }
}

/// runs `f` with allocator tracking on for this thread (also switched off when `f` unwinds)
fn tracked<R>(f: impl FnOnce() -> R) -> R {
    let _w = Window::open();
    f()
}

fn events_reset() {
    EVENTS.with(|e| {
        let mut e = e.borrow_mut();
        e.clear();
        e.reserve(1 << 12);
    });
    LIVE.with(|l| {
        let mut l = l.borrow_mut();
        l.clear();
        l.reserve(64);
    });
}
fn events_take() -> Vec<Ev> {
    EVENTS.with(|e| {
        let mut e = e.borrow_mut();
        let out = e.clone();
        e.clear();
        out
    })
}
fn needles_set(n: Vec<Vec<u8>>) {
    NEEDLES.with(|x| *x.borrow_mut() = n);
}
/// registers the data blocks of the live buffers (by address) for the next tracked call
fn live_set(slots: &[SecretBytes]) {
    LIVE.with(|l| {
        let mut l = l.borrow_mut();
        l.clear();
        for s in slots {
            if s.capacity() > 0 {
                l.push(s.as_ref().as_ptr() as usize);
            }
        }
    });
}

fn allocator_installed() -> bool {
    // make sure at least one allocation has happened
    let b = Box::new(0u8);
    std::hint::black_box(&b);
    INSTALLED.load(Ordering::Relaxed)
}

// =================================================================================================
// helpers

fn feat_inc(f: &mut Map<String, Value>, k: &str) {
    let n = f.get(k).and_then(|v| v.as_u64()).unwrap_or(0);
    f.insert(k.to_string(), json!(n + 1));
}

/// values longer than 512 bytes are compared by length and FNV-1a-64 digest (same as canon::jvalue / Driver.jvalue)
fn jvalue(v: &[u8]) -> Value {
    if v.len() <= 512 {
        return json!(hex::encode(v));
    }
    let mut h: u64 = 0xcbf29ce484222325;
    for b in v {
        h ^= *b as u64;
        h = h.wrapping_mul(0x100000001b3);
    }
    json!(format!("len:{}:fnv:{:016x}", v.len(), h))
}

/// The harness's own copies of content bytes: allocated exactly once (never reallocated) and wiped over their whole
/// capacity before they are freed, so that stale harness data never shows up in the uninitialised part of somebody else's block.
struct W(Vec<u8>);
impl W {
    fn from_iter_exact(n: usize, it: impl Iterator<Item = u8>) -> W {
        let mut v = Vec::with_capacity(n);
        for b in it.take(n) {
            v.push(b);
        }
        W(v)
    }
    fn copy(s: &[u8]) -> W {
        W::from_iter_exact(s.len(), s.iter().cloned())
    }
    fn concat(parts: &[&[u8]]) -> W {
        let n = parts.iter().map(|p| p.len()).sum();
        W::from_iter_exact(n, parts.iter().flat_map(|p| p.iter().cloned()))
    }
}
fn wipe_vec(v: &mut Vec<u8>) {
    v.clear();
    for b in v.spare_capacity_mut() {
        unsafe { std::ptr::write_volatile(b.as_mut_ptr(), 0) };
    }
}
impl Drop for W {
    fn drop(&mut self) {
        wipe_vec(&mut self.0);
    }
}
impl std::ops::Deref for W {
    type Target = [u8];
    fn deref(&self) -> &[u8] {
        &self.0
    }
}

/// data spec {"s": seed, "n": len}: byte i = 0x80 + ((s + 37 i + 11 (i / 128)) mod 128)
fn pat(s: usize, n: usize) -> W {
    W::from_iter_exact(n, (0..n).map(|i| (128 + (s + i * 37 + (i / 128) * 11) % 128) as u8))
}
fn data_of(v: &Value) -> W {
    if v.is_object() {
        pat(v["s"].as_u64().unwrap_or(0) as usize, v["n"].as_u64().unwrap_or(0) as usize)
    } else {
        W(vec![])
    }
}
fn us(v: &Value, k: &str) -> usize {
    v[k].as_u64().unwrap_or(0) as usize
}

fn scratch(tag: &str) -> String {
    let d = format!("{}/askar-verif-c20-{}", std::env::temp_dir().display(), std::process::id());
    std::fs::create_dir_all(&d).ok();
    format!("{}/{}.db", d, tag.replace(|c: char| !c.is_ascii_alphanumeric(), "_"))
}
fn rm_db(p: &str) {
    for suffix in ["", "-wal", "-shm", "-journal"] {
        std::fs::remove_file(format!("{}{}", p, suffix)).ok();
    }
}

// =================================================================================================
// Part A: c20:buf

fn buf_report(sb: &SecretBytes, diag: bool) -> Value {
    let mut m = Map::new();
    m.insert("len".into(), json!(sb.len()));
    m.insert("v".into(), jvalue(sb.as_ref()));
    if diag {
        m.insert("cap".into(), json!(sb.capacity()));
    }
    Value::Object(m)
}

struct BufRun {
    feat: Map<String, Value>,
    oracle: Vec<Value>,
    trace: Vec<Value>,
    dirty_free: u64,
    realloc_data: u64,
}

impl BufRun {
    /// accounts for the allocator events of one operation
    fn settle(&mut self, name: &str, k: usize) {
        for ev in events_take() {
            match ev.kind {
                0 => {
                    self.trace.push(json!(["a", ev.size]));
                    feat_inc(&mut self.feat, "alloc");
                }
                1 => {
                    self.trace.push(json!(["f", ev.size]));
                    feat_inc(&mut self.feat, if ev.live { "free:buffer-block" } else { "free:other" });
                    if ev.live && ev.nonzero > 0 {
                        self.dirty_free += 1;
                        self.oracle.push(json!({"sig": format!("buf:{}:freed-block-not-zeroed", name), "op_index": k, "block_size": ev.size, "nonzero_bytes": ev.nonzero}));
                    } else if !ev.live && ev.run {
                        self.dirty_free += 1;
                        self.oracle.push(json!({"sig": format!("buf:{}:freed-temporary-holds-data", name), "op_index": k, "block_size": ev.size}));
                    }
                }
                _ => {
                    self.trace.push(json!(["r", ev.size, ev.new_size]));
                    feat_inc(&mut self.feat, if ev.live { "realloc:buffer-block" } else { "realloc:other" });
                    if (ev.live && ev.nonzero > 0) || (!ev.live && ev.run) {
                        self.realloc_data += 1;
                        self.oracle.push(json!({"sig": format!("buf:{}:realloc-of-block-holding-data", name), "op_index": k, "block_size": ev.size, "new_size": ev.new_size, "nonzero_bytes": ev.nonzero}));
                    }
                }
            }
        }
    }
}

fn exec_buf(case: &Value) -> Value {
    let diag = case["diag"].as_bool().unwrap_or(false);
    let mut run = BufRun { feat: Map::new(), oracle: vec![], trace: vec![], dirty_free: 0, realloc_data: 0 };
    if !allocator_installed() {
        run.oracle.push(json!({"sig": "c20:allocator-not-installed"}));
    }
    let mut slots: Vec<SecretBytes> = Vec::with_capacity(16);
    let mut refs: Vec<W> = Vec::with_capacity(16);
    let mut outs: Vec<Value> = vec![];
    let empty = vec![];
    let ops = case["ops"].as_array().unwrap_or(&empty);
    events_reset();
    needles_set(vec![]);

    for (k, op) in ops.iter().enumerate() {
        let name = op["op"].as_str().unwrap_or("").to_string();
        let i = us(op, "i");
        let d = data_of(&op["d"]);
        feat_inc(&mut run.feat, &format!("op:{}", name));
        let needs_slot = name != "new";
        if needs_slot && i >= slots.len() {
            outs.push(json!({"r": "skip"}));
            continue;
        }
        live_set(&slots);
        match name.as_str() {
            "new" => {
                let ctor = op["ctor"].as_str().unwrap_or("");
                let extra = us(op, "extra");
                let (sb, expect) = match ctor {
                    "with_capacity" => {
                        let n = us(op, "n");
                        (tracked(|| SecretBytes::with_capacity(n)), W(vec![]))
                    }
                    "from" => {
                        let via = op["via"].as_str().unwrap_or("from_slice_reserve");
                        feat_inc(&mut run.feat, &format!("ctor:{}", via));
                        let sb = match via {
                            "from_slice" if extra == 0 => tracked(|| SecretBytes::from_slice(&d)),
                            "slice" if extra == 0 => tracked(|| SecretBytes::from(&d[..])),
                            "boxed" if extra == 0 => {
                                let mut v = Vec::with_capacity(d.len());
                                v.extend_from_slice(&d);
                                let b: Box<[u8]> = v.into_boxed_slice();
                                if b.len() > 0 {
                                    run.trace.push(json!(["a", b.len()])); // allocated by the caller, owned by the buffer from here on
                                }
                                tracked(|| SecretBytes::from(b))
                            }
                            "vec" => {
                                let mut v = Vec::with_capacity(d.len() + extra);
                                v.extend_from_slice(&d);
                                if v.capacity() > 0 {
                                    run.trace.push(json!(["a", v.capacity()]));
                                }
                                tracked(|| SecretBytes::from(v))
                            }
                            _ => tracked(|| SecretBytes::from_slice_reserve(&d, extra)),
                        };
                        (sb, W::copy(&d))
                    }
                    "new_with" => (tracked(|| SecretBytes::new_with(d.len(), |b| b.copy_from_slice(&d))), W::copy(&d)),
                    _ => (tracked(SecretBytes::default), W(vec![])),
                };
                run.settle(&name, k);
                if sb.as_ref() != &expect[..] {
                    run.oracle.push(json!({"sig": format!("buf:new:{}:contents-differ", ctor), "op_index": k}));
                }
                let mut rep = buf_report(&sb, diag);
                rep["r"] = json!("ok");
                outs.push(rep);
                slots.push(sb);
                refs.push(expect);
            }
            "clone" => {
                let c = tracked(|| slots[i].clone());
                run.settle(&name, k);
                if c.as_ref() != &refs[i][..] {
                    run.oracle.push(json!({"sig": "buf:clone:contents-differ", "op_index": k}));
                }
                let mut rep = buf_report(&c, diag);
                rep["r"] = json!("ok");
                outs.push(rep);
                slots.push(c);
                let r = W::copy(&refs[i]);
                refs.push(r);
            }
            "drop" => {
                let sb = slots.remove(i);
                refs.remove(i);
                tracked(|| drop(sb));
                run.settle(&name, k);
                outs.push(json!({"r": "ok"}));
            }
            "ffi_free" => {
                // the buffer leaves the way `SecretBuffer::from_secret` hands it out (`shrink_to_fit`, `into_vec`: len = capacity, the
                // block owned by nobody) and comes back through `askar_buffer_free` (src/ffi/secret.rs)
                let sb = slots.remove(i);
                let expect = refs.remove(i);
                let boxed = tracked(|| sb.into_boxed_slice());
                run.settle("ffi_free:export", k);
                let n = boxed.len();
                if boxed[..] != expect[..] {
                    run.oracle.push(json!({"sig": "buf:ffi_free:contents-differ", "op_index": k}));
                }
                let p = Box::into_raw(boxed) as *mut u8;
                if n > 0 {
                    run.trace.push(json!(["e", n]));
                }
                LIVE.with(|l| {
                    let mut l = l.borrow_mut();
                    l.clear();
                    if n > 0 {
                        l.push(p as usize);
                    }
                });
                tracked(|| unsafe { capi::askar_buffer_free(capi::SecretBuf { len: n as i64, data: p }) });
                let before = run.feat.get("free:buffer-block").and_then(|v| v.as_u64()).unwrap_or(0);
                run.settle("ffi_free", k);
                let after = run.feat.get("free:buffer-block").and_then(|v| v.as_u64()).unwrap_or(0);
                if n > 0 && after == before {
                    run.oracle.push(json!({"sig": "buf:ffi_free:block-not-released", "op_index": k, "len": n}));
                }
                feat_inc(&mut run.feat, "ffi-free");
                outs.push(json!({"r": "ok", "len": n, "v": jvalue(&expect)}));
            }
            "into_vec" | "into_boxed" => {
                let sb = slots.remove(i);
                let expect = refs.remove(i);
                let mut got: Vec<u8> = if name == "into_vec" { tracked(|| sb.into_vec()) } else { tracked(|| sb.into_boxed_slice()).into_vec() };
                run.settle(&name, k);
                if got.capacity() > 0 {
                    run.trace.push(json!(["e", got.capacity()]));
                }
                if got[..] != expect[..] {
                    run.oracle.push(json!({"sig": format!("buf:{}:contents-differ", name), "op_index": k}));
                }
                outs.push(json!({"r": "ok", "len": got.len(), "v": jvalue(&got)}));
                // the caller's block: outside the buffer's responsibility; the harness wipes its own garbage
                wipe_vec(&mut got);
            }
            _ => {
                // operations on a live buffer; the reference is the obvious list semantics
                let cur = &refs[i];
                let len = cur.len();
                let mut expect_panic = false;
                let next: Option<W> = match name.as_str() {
                    "ensure" | "reserve" | "shrink" => Some(W::copy(cur)),
                    "extend" | "write" | "bextend" => Some(W::concat(&[cur, &d])),
                    "insert" => {
                        let pos = us(op, "pos");
                        if pos > len {
                            expect_panic = true;
                            Some(W::copy(cur))
                        } else {
                            Some(W::concat(&[&cur[..pos], &d, &cur[pos..]]))
                        }
                    }
                    "remove" => {
                        let (s, e) = (us(op, "s"), us(op, "e"));
                        if s > e || e > len {
                            expect_panic = true;
                            Some(W::copy(cur))
                        } else {
                            Some(W::concat(&[&cur[..s], &cur[e..]]))
                        }
                    }
                    "resize" => {
                        let n = us(op, "n");
                        Some(W::from_iter_exact(n, cur.iter().cloned().chain(std::iter::repeat(0u8))))
                    }
                    "clear" => Some(W(vec![])),
                    // (`Zeroize::zeroize` is not callable from here: the zeroize crate is not a dependency of the harness)
                    _ => None,
                };
                let next = match next {
                    Some(n) => n,
                    None => {
                        outs.push(json!({"r": "badop"}));
                        continue;
                    }
                };
                let sb = &mut slots[i];
                let cap_before = sb.capacity();
                let res = catch_unwind(AssertUnwindSafe(|| {
                    tracked(|| match name.as_str() {
                        "ensure" => {
                            sb.ensure_capacity(us(op, "n"));
                            Ok(())
                        }
                        "reserve" => {
                            sb.reserve(us(op, "n"));
                            Ok(())
                        }
                        "extend" => {
                            sb.extend_from_slice(&d);
                            Ok(())
                        }
                        "write" => sb.buffer_write(&d),
                        "insert" => sb.buffer_insert(us(op, "pos"), &d),
                        "remove" => sb.buffer_remove(us(op, "s")..us(op, "e")),
                        "resize" => sb.buffer_resize(us(op, "n")),
                        "bextend" => sb.buffer_extend(d.len()).map(|sl| sl.copy_from_slice(&d)),
                        "shrink" => {
                            sb.shrink_to_fit();
                            Ok(())
                        }
                        _ => {
                            sb.clear();
                            Ok(())
                        }
                    })
                }));
                set_tracking(false);
                run.settle(&name, k);
                let r = match &res {
                    Ok(Ok(())) => "ok",
                    Ok(Err(_)) => "err",
                    Err(_) => "panic",
                };
                drop(res);
                if r == "panic" {
                    feat_inc(&mut run.feat, "panic");
                }
                if (r == "panic") != expect_panic {
                    run.oracle.push(json!({"sig": format!("buf:{}:{}", name, if expect_panic { "missing-panic" } else { "unexpected-panic" }), "op_index": k}));
                }
                if r == "err" {
                    run.oracle.push(json!({"sig": format!("buf:{}:unexpected-error", name), "op_index": k}));
                }
                refs[i] = next;
                let sb = &slots[i];
                if sb.as_ref() != &refs[i][..] {
                    run.oracle.push(json!({"sig": format!("buf:{}:contents-differ", name), "op_index": k, "len": sb.len(), "expected_len": refs[i].len()}));
                }
                if sb.capacity() != cap_before {
                    feat_inc(&mut run.feat, "cap-change");
                    if cap_before > 0 && sb.capacity() > cap_before {
                        feat_inc(&mut run.feat, "grow-with-data");
                        // diagnostic: the growth law as read from the source
                        let want = match name.as_str() {
                            "ensure" | "resize" => us(op, "n"),
                            "reserve" => len + us(op, "n"),
                            _ => len + d.len(),
                        };
                        if sb.capacity() != want.max(cap_before * 2).max(32) {
                            feat_inc(&mut run.feat, "diag:capacity-drift");
                        }
                    }
                }
                let mut rep = buf_report(sb, diag);
                rep["r"] = json!(r);
                outs.push(rep);
            }
        }
    }
    // end of program: every buffer still alive is dropped (slot 0 first)
    let fin: Vec<Value> = slots.iter().map(|s| buf_report(s, diag)).collect();
    live_set(&slots);
    for sb in slots.drain(..) {
        tracked(|| drop(sb));
        run.settle("final-drop", ops.len());
    }
    let mut last = Map::new();
    last.insert("final".into(), Value::Array(fin));
    last.insert("dirty_free".into(), json!(run.dirty_free));
    last.insert("realloc_data".into(), json!(run.dirty_free * 0 + run.realloc_data));
    if diag {
        last.insert("trace".into(), Value::Array(std::mem::take(&mut run.trace)));
    }
    outs.push(Value::Object(last));
    json!({"out": outs, "oracle": run.oracle, "feat": run.feat})
}

// =================================================================================================
// secrets and their encodings

fn b58(data: &[u8]) -> String {
    const A: &[u8] = b"123456789ABCDEFGHJKLMNPQRSTUVWXYZabcdefghijkmnopqrstuvwxyz";
    let mut digits: Vec<u8> = vec![];
    for &b in data {
        let mut carry = b as u32;
        for d in digits.iter_mut() {
            carry += (*d as u32) << 8;
            *d = (carry % 58) as u8;
            carry /= 58;
        }
        while carry > 0 {
            digits.push((carry % 58) as u8);
            carry /= 58;
        }
    }
    let mut s = String::new();
    for &b in data {
        if b == 0 {
            s.push('1');
        } else {
            break;
        }
    }
    for d in digits.iter().rev() {
        s.push(A[*d as usize] as char);
    }
    s
}

fn b64(data: &[u8], url: bool) -> String {
    let a: &[u8] = if url {
        b"ABCDEFGHIJKLMNOPQRSTUVWXYZabcdefghijklmnopqrstuvwxyz0123456789-_"
    } else {
        b"ABCDEFGHIJKLMNOPQRSTUVWXYZabcdefghijklmnopqrstuvwxyz0123456789+/"
    };
    let mut s = String::new();
    for ch in data.chunks(3) {
        let n = (ch[0] as u32) << 16 | (*ch.get(1).unwrap_or(&0) as u32) << 8 | *ch.get(2).unwrap_or(&0) as u32;
        s.push(a[(n >> 18) as usize & 63] as char);
        s.push(a[(n >> 12) as usize & 63] as char);
        if ch.len() > 1 {
            s.push(a[(n >> 6) as usize & 63] as char);
        }
        if ch.len() > 2 {
            s.push(a[n as usize & 63] as char);
        }
    }
    s
}

/// where (in which encoding) `secret` occurs in `text`; empty = not at all.
/// hex (any case, also byte-reversed, any 8-byte window), Rust's `{:?}` of a byte slice (decimal list, any 8-byte window),
/// base58, base64 / base64url (whole secret, and the chunk-aligned inner part), raw UTF-8.
fn find_secret(text: &str, secret: &[u8]) -> Vec<&'static str> {
    let mut found = vec![];
    if secret.len() < 6 {
        return found;
    }
    let lower = text.to_lowercase();
    let nows: String = text.chars().filter(|c| !c.is_whitespace()).collect();
    let win = secret.len().min(8);
    let rev: Vec<u8> = secret.iter().rev().cloned().collect();
    if secret.windows(win).any(|w| lower.contains(&hex::encode(w))) {
        found.push("hex");
    } else if rev.windows(win).any(|w| lower.contains(&hex::encode(w))) {
        found.push("hex-reversed");
    }
    if secret.windows(win).any(|w| nows.contains(&w.iter().map(|b| b.to_string()).collect::<Vec<_>>().join(","))) {
        found.push("decimal-list");
    }
    if text.contains(&b58(secret)) {
        found.push("base58");
    }
    for url in [true, false] {
        let whole = b64(secret, url);
        let inner = if secret.len() >= 12 { b64(&secret[3..secret.len() - secret.len() % 3], url) } else { whole.clone() };
        if text.contains(&whole) || (inner.len() >= 12 && text.contains(&inner)) {
            found.push(if url { "base64url" } else { "base64" });
            break;
        }
    }
    if let Ok(s) = std::str::from_utf8(secret) {
        // a fragment of a textual secret is a leak too (e.g. the tail of a credential after a mis-split): any 8 characters
        let cs: Vec<char> = s.chars().collect();
        if text.contains(s) || cs.windows(8).any(|w| text.contains(&w.iter().collect::<String>())) {
            found.push("raw");
        }
    }
    found
}

/// a credential with a URI-reserved character in the middle (chosen by the seed), as a user would have to percent-encode it
fn special_word(seed: u64, label: &str) -> String {
    const SP: [&str; 10] = ["&", "=", "#", "%", "+", ";", "&&", "=&", "?", "%26"];
    format!("{}{}{}", secret_word(seed, label, 10), SP[(seed % SP.len() as u64) as usize], secret_word(seed ^ 0x5a5a, label, 10))
}

fn secret_bytes(seed: u64, label: &str, n: usize) -> Vec<u8> {
    let mut r = Rng::new(seed ^ label.bytes().fold(7u64, |a, b| a.wrapping_mul(131).wrapping_add(b as u64)));
    r.bytes(n)
}
fn secret_word(seed: u64, label: &str, n: usize) -> String {
    const A: &[u8] = b"abcdefghijkmnopqrstuvwxyzABCDEFGHJKLMNPQRSTUVWXYZ23456789";
    let mut r = Rng::new(seed ^ label.bytes().fold(11u64, |a, b| a.wrapping_mul(131).wrapping_add(b as u64)));
    (0..n).map(|_| A[r.below(A.len())] as char).collect()
}

const ALGS: [(&str, usize); 16] = [
    ("a128gcm", 16), ("a256gcm", 32), ("a128cbchs256", 32), ("a256cbchs512", 64), ("a128kw", 16), ("a256kw", 32),
    ("bls12381g1", 32), ("bls12381g2", 32), ("bls12381g1g2", 32), ("c20p", 32), ("xc20p", 32),
    ("ed25519", 32), ("x25519", 32), ("k256", 32), ("p256", 32), ("p384", 48),
];

/// a valid secret key for `alg` derived from the seed (scalars are kept below every group order)
fn key_secret(seed: u64, alg: &str) -> Vec<u8> {
    let n = ALGS.iter().find(|a| a.0 == alg).map(|a| a.1).unwrap_or(32);
    let mut s = secret_bytes(seed, alg, n);
    if alg.starts_with("bls") || alg == "k256" || alg == "p256" || alg == "p384" {
        s[0] = 0x10 | (s[0] & 0x0f);
    }
    s
}

// =================================================================================================
// Part B: c20:fmt

struct Shown {
    what: &'static str, // "debug" | "debug-alt" | "display"
    text: String,
}

fn dbg2<T: std::fmt::Debug>(t: &T) -> Vec<Shown> {
    vec![Shown { what: "debug", text: format!("{:?}", t) }, Shown { what: "debug-alt", text: format!("{:#?}", t) }]
}
fn disp<T: std::fmt::Display>(t: &T) -> Shown {
    Shown { what: "display", text: format!("{}", t) }
}

fn typed_key_shown(alg: &str, secret: &[u8]) -> Option<Vec<Shown>> {
    use askar_crypto::alg::aes::{A128CbcHs256, A128Gcm, A128Kw, A256CbcHs512, A256Gcm, A256Kw, AesKey};
    use askar_crypto::alg::bls::{BlsKeyPair, G1, G1G2, G2};
    use askar_crypto::alg::chacha20::{Chacha20Key, C20P, XC20P};
    use askar_crypto::alg::{ed25519::Ed25519KeyPair, k256::K256KeyPair, p256::P256KeyPair, p384::P384KeyPair, x25519::X25519KeyPair};
    use askar_crypto::repr::KeySecretBytes;
    macro_rules! k {
        ($t:ty) => {{
            let key = <$t>::from_secret_bytes(secret).ok()?;
            Some(dbg2(&key))
        }};
    }
    match alg {
        "a128gcm" => k!(AesKey<A128Gcm>),
        "a256gcm" => k!(AesKey<A256Gcm>),
        "a128cbchs256" => k!(AesKey<A128CbcHs256>),
        "a256cbchs512" => k!(AesKey<A256CbcHs512>),
        "a128kw" => k!(AesKey<A128Kw>),
        "a256kw" => k!(AesKey<A256Kw>),
        "bls12381g1" => k!(BlsKeyPair<G1>),
        "bls12381g2" => k!(BlsKeyPair<G2>),
        "bls12381g1g2" => k!(BlsKeyPair<G1G2>),
        "c20p" => k!(Chacha20Key<C20P>),
        "xc20p" => k!(Chacha20Key<XC20P>),
        "ed25519" => k!(Ed25519KeyPair),
        "x25519" => k!(X25519KeyPair),
        "k256" => k!(K256KeyPair),
        "p256" => k!(P256KeyPair),
        "p384" => k!(P384KeyPair),
        _ => None,
    }
}

fn mem_store(raw_key: &str) -> Store {
    block_on(Store::provision("sqlite://:memory:", StoreKeyMethod::RawKey, PassKey::from(raw_key.to_string()), Some("p".into()), true)).expect("provision in-memory store")
}

/// builds the value of type `ty` around secrets derived from `seed`; returns the formatted texts and the secrets to look for
fn fmt_subject(ty: &str, seed: u64, tag: &str) -> Result<(Vec<Shown>, Vec<(String, Vec<u8>)>), String> {
    use askar_crypto::alg::{AnyKey, AnyKeyCreate};
    let e = |x: &dyn std::fmt::Debug| format!("{:?}", x);
    let (head, arg) = match ty.split_once(':') {
        Some((h, a)) => (h, a),
        None => (ty, ""),
    };
    let sec32 = secret_bytes(seed, ty, 32);
    Ok(match head {
        "SecretBytes" => {
            let sb = SecretBytes::from_slice(&sec32);
            let mut sh = dbg2(&sb);
            if arg == "eq" {
                // the comparison impls (`ct_eq`, `PartialEq` with itself / `&[u8]` / `Vec<u8>`) print nothing; their verdicts are shown
                let other = SecretBytes::from_slice(&secret_bytes(seed ^ 1, ty, 32));
                let v = format!("{} {} {} {} {}", sb == sb.clone(), sb == other, sb == &sec32[..], sb == sec32.clone(), sb == secret_bytes(seed ^ 1, ty, 32));
                if v != "true false true true false" {
                    return Err(format!("SecretBytes comparisons: {}", v));
                }
                sh.push(Shown { what: "debug", text: v });
            }
            (sh, vec![("bytes".into(), sec32)])
        }
        "ArrayKey" => {
            use askar_crypto::buffer::ArrayKey;
            use askar_crypto::generic_array::typenum::U32;
            (dbg2(&ArrayKey::<U32>::from_slice(&sec32)), vec![("bytes".into(), sec32)])
        }
        "PassKey" => {
            let w = secret_word(seed, ty, 24);
            let mut sh = dbg2(&PassKey::from(w.as_str()));
            sh.extend(dbg2(&PassKey::from(w.clone())));
            (sh, vec![("pass key".into(), w.into_bytes())])
        }
        "Entry" => {
            use aries_askar::entry::{Entry, EntryKind, EntryTag};
            let en = Entry::new(EntryKind::Item, "cat", "name", &sec32[..], vec![EntryTag::Encrypted("t".into(), "v".into())]);
            (dbg2(&en), vec![("record value".into(), sec32)])
        }
        "Options" => {
            use askar_storage::Options;
            let pw = if arg == "query-special" { special_word(seed, ty) } else { secret_word(seed, ty, 20) };
            let uri = if arg == "query-special" {
                format!("postgres://user@host.example/db?admin_account=adm&admin_password={}&connect_timeout=1", pct(&pw))
            } else if arg == "query" {
                format!("postgres://user@host.example/db?admin_account=adm&admin_password={}", pw)
            } else {
                format!("postgres://user:{}@host.example/db", pw)
            };
            let o = Options::parse_uri(&uri).map_err(|x| e(&x))?;
            (dbg2(&o), vec![("uri password".into(), pw.into_bytes())])
        }
        "PostgresStoreOptions" => {
            use askar_storage::postgres::PostgresStoreOptions;
            let pw = if arg == "query-special" { special_word(seed, ty) } else { secret_word(seed, ty, 20) };
            let uri = if arg == "query-special" {
                format!("postgres://user:x@host.example/db?admin_account=adm&admin_password={}&connect_timeout=1", pct(&pw))
            } else if arg == "query" {
                format!("postgres://user:x@host.example/db?admin_account=adm&admin_password={}", pw)
            } else {
                format!("postgres://user:{}@host.example/db", pw)
            };
            let o = PostgresStoreOptions::new(uri.as_str()).map_err(|x| e(&x))?;
            (dbg2(&o), vec![("uri password".into(), pw.into_bytes())])
        }
        "Argon2" => {
            use askar_crypto::kdf::argon2::{Argon2, PARAMS_INTERACTIVE};
            let salt = [7u8; 16];
            let a = Argon2::new(&sec32, &salt, PARAMS_INTERACTIVE).map_err(|x| e(&x))?;
            (dbg2(&a), vec![("password".into(), sec32.clone())])
        }
        "BlsKeyGen" => {
            use askar_crypto::alg::bls::BlsKeyGen;
            let g = BlsKeyGen::new(&sec32).map_err(|x| e(&x))?;
            (dbg2(&g), vec![("seed".into(), sec32.clone())])
        }
        "RandomDet" => {
            use askar_crypto::random::RandomDet;
            (dbg2(&RandomDet::new(&sec32)), vec![("seed".into(), sec32)])
        }
        "JwkParts" => {
            use askar_crypto::jwk::JwkParts;
            let k = LocalKey::from_secret_bytes(KeyAlg::from_str(arg).map_err(|x| e(&x))?, &key_secret(seed, arg)).map_err(|x| e(&x))?;
            let jwk = k.to_jwk_secret().map_err(|x| e(&x))?;
            let s = String::from_utf8_lossy(jwk.as_ref()).to_string();
            let parts = JwkParts::try_from_str(&s).map_err(|x| e(&x))?;
            (dbg2(&parts), vec![("key material".into(), key_secret(seed, arg))])
        }
        "Key" => {
            let s = key_secret(seed, arg);
            (typed_key_shown(arg, &s).ok_or("key construction failed")?, vec![("key material".into(), s)])
        }
        "AnyKey" => {
            let s = key_secret(seed, arg);
            let k = Box::<AnyKey>::from_secret_bytes(KeyAlg::from_str(arg).map_err(|x| e(&x))?, &s).map_err(|x| e(&x))?;
            (dbg2(&k), vec![("key material".into(), s)])
        }
        "LocalKey" => {
            let s = key_secret(seed, arg);
            let k = LocalKey::from_secret_bytes(KeyAlg::from_str(arg).map_err(|x| e(&x))?, &s).map_err(|x| e(&x))?;
            (dbg2(&k), vec![("key material".into(), s)])
        }
        "Encrypted" => {
            let s = key_secret(seed, "a256gcm");
            let k = LocalKey::from_secret_bytes(KeyAlg::from_str("a256gcm").unwrap(), &s).map_err(|x| e(&x))?;
            let enc = k.aead_encrypt(&sec32, &[1u8; 12], b"aad").map_err(|x| e(&x))?;
            (dbg2(&enc), vec![("key material".into(), s), ("plaintext".into(), sec32)])
        }
        "KeyEntry" | "Store" | "Session" => {
            let raw = b58(&sec32);
            let st = mem_store(&raw);
            let s = key_secret(seed, "ed25519");
            let k = LocalKey::from_secret_bytes(KeyAlg::from_str("ed25519").unwrap(), &s).map_err(|x| e(&x))?;
            let secrets = vec![("key material".to_string(), s), ("raw store key".to_string(), sec32.clone()), ("raw store key (text)".to_string(), raw.clone().into_bytes())];
            let shown = block_on(async {
                let mut sess = st.session(None).await.map_err(|x| e(&x))?;
                sess.insert_key("k1", &k, Some("meta"), None, None, None).await.map_err(|x| e(&x))?;
                let sh = match head {
                    "KeyEntry" => {
                        let ke = sess.fetch_key("k1", false).await.map_err(|x| e(&x))?.ok_or("key not found")?;
                        dbg2(&ke)
                    }
                    "Session" => dbg2(&sess),
                    _ => dbg2(&st),
                };
                drop(sess);
                Ok::<_, String>(sh)
            })?;
            block_on(st.close()).ok();
            (shown, secrets)
        }
        "Error" => {
            let mut shown = vec![];
            let mut secrets = vec![];
            let mut chain = 0usize;
            match arg {
                "secret_bytes_len" => {
                    let s = secret_bytes(seed, ty, 31);
                    let err = LocalKey::from_secret_bytes(KeyAlg::from_str("ed25519").unwrap(), &s).err().ok_or("no error")?;
                    let (sh, d) = err_shown(&err);
                    shown.extend(sh);
                    chain = d;
                    secrets.push(("key material".to_string(), s));
                }
                "jwk_mismatch" => {
                    // a secret JWK whose public part does not belong to `d`
                    let s = key_secret(seed, "ed25519");
                    let k = LocalKey::from_secret_bytes(KeyAlg::from_str("ed25519").unwrap(), &s).map_err(|x| e(&x))?;
                    let other = LocalKey::from_secret_bytes(KeyAlg::from_str("ed25519").unwrap(), &key_secret(seed ^ 1, "ed25519")).map_err(|x| e(&x))?;
                    let good = String::from_utf8_lossy(k.to_jwk_secret().map_err(|x| e(&x))?.as_ref()).to_string();
                    let pubj: Value = serde_json::from_str(&other.to_jwk_public(None).map_err(|x| e(&x))?).map_err(|x| e(&x))?;
                    let mut j: Value = serde_json::from_str(&good).map_err(|x| e(&x))?;
                    j["x"] = pubj["x"].clone();
                    let err = LocalKey::from_jwk(&j.to_string()).err().ok_or("no error")?;
                    let (sh, d) = err_shown(&err);
                    shown.extend(sh);
                    chain = d;
                    secrets.push(("key material".to_string(), s));
                }
                "jwk_garbage" => {
                    let s = key_secret(seed, "ed25519");
                    let j = format!("{{\"kty\":\"OKP\",\"crv\":\"Ed25519\",\"x\":\"AA\",\"d\":\"{}\"", b64(&s, true)); // truncated JSON
                    let err = LocalKey::from_jwk(&j).err().ok_or("no error")?;
                    let (sh, d) = err_shown(&err);
                    shown.extend(sh);
                    chain = d;
                    secrets.push(("key material".to_string(), s));
                }
                "bad_raw_key" => {
                    let w = format!("0OIl-{}", secret_word(seed, ty, 30)); // not base58
                    let err = block_on(Store::provision("sqlite://:memory:", StoreKeyMethod::RawKey, PassKey::from(w.clone()), None, true)).err().ok_or("no error")?;
                    let (sh, d) = err_shown(&err);
                    shown.extend(sh);
                    chain = d;
                    secrets.push(("raw store key (text)".to_string(), w.into_bytes()));
                }
                "wrong_pass_key" => {
                    let path = scratch(&format!("fmt-{}-{}", tag, seed));
                    rm_db(&path);
                    let uri = format!("sqlite://{}", path);
                    let raw = b58(&sec32);
                    let raw2 = b58(&secret_bytes(seed ^ 5, ty, 32));
                    let st = block_on(Store::provision(&uri, StoreKeyMethod::RawKey, PassKey::from(raw.clone()), None, true)).map_err(|x| e(&x))?;
                    block_on(st.close()).ok();
                    let err = block_on(Store::open(&uri, Some(StoreKeyMethod::RawKey), PassKey::from(raw2.clone()), None)).err().ok_or("no error")?;
                    let (sh, d) = err_shown(&err);
                    shown.extend(sh);
                    chain = d;
                    rm_db(&path);
                    secrets.push(("raw store key (text)".to_string(), raw.into_bytes()));
                    secrets.push(("wrong raw store key (text)".to_string(), raw2.into_bytes()));
                }
                "decrypt_bad_tag" => {
                    let s = key_secret(seed, "c20p");
                    let k = LocalKey::from_secret_bytes(KeyAlg::from_str("c20p").unwrap(), &s).map_err(|x| e(&x))?;
                    let enc = k.aead_encrypt(&sec32, &[1u8; 12], b"").map_err(|x| e(&x))?;
                    let mut ct = enc.into_vec();
                    let n = ct.len();
                    ct[n - 1] ^= 1;
                    let err = k.aead_decrypt(&ct[..], &[1u8; 12], b"").err().ok_or("no error")?;
                    let (sh, d) = err_shown(&err);
                    shown.extend(sh);
                    chain = d;
                    secrets.push(("key material".to_string(), s));
                    secrets.push(("plaintext".to_string(), sec32));
                }
                "storage_garbage_file" | "top_garbage_file" | "storage_on_directory" => {
                    // a file that is not a database / a directory, opened with a URI carrying credentials
                    let path = scratch(&format!("fmt-{}-{}-{}", arg, tag, seed));
                    rm_db(&path);
                    std::fs::remove_dir(&path).ok();
                    if arg == "storage_on_directory" {
                        std::fs::create_dir_all(&path).map_err(|x| e(&x))?;
                    } else {
                        std::fs::write(&path, secret_bytes(seed, "garbage", 4096)).map_err(|x| e(&x))?;
                    }
                    let pw = format!("pw-{}", secret_word(seed, "uripw", 18));
                    let apw = special_word(seed, "adminpw");
                    let raw = b58(&sec32);
                    let uri = format!("sqlite://user:{}@{}?admin_password={}", pw, path, pct(&apw));
                    if arg == "top_garbage_file" {
                        let err = block_on(Store::open(&uri, Some(StoreKeyMethod::RawKey), PassKey::from(raw.clone()), None)).err().ok_or("no error")?;
                        let (sh, d) = err_shown(&err);
                        shown.extend(sh);
                        chain = d;
                    } else {
                        use askar_storage::ManageBackend;
                        let err = if arg == "storage_on_directory" {
                            block_on(uri.as_str().provision_backend(askar_storage::StoreKeyMethod::RawKey, askar_storage::PassKey::from(raw.clone()), None, false)).err().ok_or("no error")?
                        } else {
                            block_on(uri.as_str().open_backend(Some(askar_storage::StoreKeyMethod::RawKey), askar_storage::PassKey::from(raw.clone()), None)).err().ok_or("no error")?
                        };
                        let (sh, d) = err_shown(&err);
                        shown.extend(sh);
                        chain = d;
                    }
                    rm_db(&path);
                    std::fs::remove_dir(&path).ok();
                    secrets.push(("uri password".to_string(), pw.into_bytes()));
                    secrets.push(("uri admin_password (percent-decoded)".to_string(), apw.into_bytes()));
                    secrets.push(("raw store key (text)".to_string(), raw.into_bytes()));
                }
                "storage_missing_dir" | "storage_unknown_scheme" | "storage_bad_param" => {
                    use askar_storage::ManageBackend;
                    let pw = format!("pw-{}", secret_word(seed, "uripw", 18));
                    let apw = special_word(seed, "adminpw");
                    let raw = b58(&sec32);
                    let uri = match arg {
                        "storage_missing_dir" => format!("sqlite://user:{}@/nonexistent-dir-c20/x.db?admin_password={}", pw, pct(&apw)),
                        "storage_unknown_scheme" => format!("mysql://user:{}@db.example/db?admin_password={}", pw, pct(&apw)),
                        _ => format!("sqlite://user:{}@/nonexistent-dir-c20/x.db?admin_password={}&busy_timeout={}", pw, pct(&apw), pct(&apw)),
                    };
                    let err = block_on(uri.as_str().provision_backend(askar_storage::StoreKeyMethod::RawKey, askar_storage::PassKey::from(raw.clone()), None, false)).err().ok_or("no error")?;
                    let (sh, d) = err_shown(&err);
                    shown.extend(sh);
                    chain = d;
                    secrets.push(("uri password".to_string(), pw.into_bytes()));
                    secrets.push(("uri admin_password (percent-decoded)".to_string(), apw.into_bytes()));
                    secrets.push(("raw store key (text)".to_string(), raw.into_bytes()));
                }
                "storage_kind_only" => {
                    // a statement failure that reaches the caller through `From<sqlx::Error>`: no message, only kind and cause
                    // (a tag filter nested beyond SQLite's expression depth), in a store holding secret records
                    use askar_storage::entry::{EntryKind, EntryOperation, TagFilter};
                    use askar_storage::{Backend, BackendSession, ManageBackend};
                    let raw = b58(&sec32);
                    let tv = format!("tv-{}", secret_word(seed, "tagvalue", 14));
                    let mut f = TagFilter::is_eq("t", tv.clone());
                    for i in 0..1100 {
                        f = if i % 2 == 0 { TagFilter::all_of(vec![f, TagFilter::is_eq("u", "1")]) } else { TagFilter::any_of(vec![f, TagFilter::is_eq("u", "2")]) };
                    }
                    // through the storage crate's own API (its own `Display` / `source`), then the same through the top-level crate
                    let be = block_on("sqlite://:memory:".provision_backend(askar_storage::StoreKeyMethod::RawKey, askar_storage::PassKey::from(raw.clone()), None, true)).map_err(|x| e(&x))?;
                    let res = block_on(async {
                        let mut sess = be.session(None, false).map_err(|x| e(&x))?;
                        sess.update(EntryKind::Item, EntryOperation::Insert, "cat", "name", Some(&sec32[..]), None, None).await.map_err(|x| e(&x))?;
                        let r = sess.remove_all(Some(EntryKind::Item), Some("cat"), Some(f.clone())).await;
                        sess.close(false).await.ok();
                        Ok::<_, String>(r)
                    })?;
                    let err = res.err().ok_or("no error")?;
                    if err.message().is_some() {
                        return Err("storage error carries a message".into());
                    }
                    let (sh, d) = err_shown(&err);
                    shown.extend(sh);
                    chain = d;
                    block_on(be.close()).ok();
                    let top: aries_askar::Error = err.into();
                    shown.extend(err_shown(&top).0);
                    secrets.push(("raw store key (text)".to_string(), raw.into_bytes()));
                    secrets.push(("record value".to_string(), sec32.clone()));
                    secrets.push(("tag value".to_string(), tv.into_bytes()));
                }
                "crypto_jwk_garbage" => {
                    use askar_crypto::jwk::JwkParts;
                    let s = key_secret(seed, "ed25519");
                    let j = format!("{{\"kty\":\"OKP\",\"crv\":\"Ed25519\",\"x\":\"AA\",\"d\":\"{}\"", b64(&s, true)); // truncated JSON
                    let err = JwkParts::try_from_str(&j).err().ok_or("no error")?;
                    let (sh, d) = err_shown(&err);
                    shown.extend(sh);
                    chain = d;
                    secrets.push(("key material".to_string(), s));
                }
                "crypto_secret_len" => {
                    use askar_crypto::alg::ed25519::Ed25519KeyPair;
                    use askar_crypto::repr::KeySecretBytes;
                    let s = secret_bytes(seed, ty, 31);
                    let err = Ed25519KeyPair::from_secret_bytes(&s).err().ok_or("no error")?;
                    let (sh, d) = err_shown(&err);
                    shown.extend(sh);
                    chain = d;
                    secrets.push(("key material".to_string(), s));
                }
                "crypto_bad_tag" => {
                    use askar_crypto::alg::aes::{A256Gcm, AesKey};
                    use askar_crypto::encrypt::KeyAeadInPlace;
                    use askar_crypto::repr::KeySecretBytes;
                    let s = key_secret(seed, "a256gcm");
                    let k = AesKey::<A256Gcm>::from_secret_bytes(&s).map_err(|x| e(&x))?;
                    let mut buf = SecretBytes::from_slice(&sec32);
                    k.encrypt_in_place(&mut buf, &[1u8; 12], b"").map_err(|x| e(&x))?;
                    let n = buf.len();
                    buf.as_mut()[n - 1] ^= 1;
                    let err = k.decrypt_in_place(&mut buf, &[1u8; 12], b"").err().ok_or("no error")?;
                    let (sh, d) = err_shown(&err);
                    shown.extend(sh);
                    chain = d;
                    secrets.push(("key material".to_string(), s));
                    secrets.push(("plaintext".to_string(), sec32));
                }
                _ => return Err(format!("unknown error scenario {}", arg)),
            }
            shown.push(Shown { what: "chain", text: chain.to_string() });
            (shown, secrets)
        }
        "Scan" => {
            // `Debug` of a live `Scan` over a store that holds records carrying the secret
            let raw = b58(&sec32);
            let st = mem_store(&raw);
            let secrets = vec![("record value".to_string(), sec32.clone()), ("raw store key (text)".to_string(), raw.clone().into_bytes())];
            let shown = block_on(async {
                let mut sess = st.session(None).await.map_err(|x| e(&x))?;
                sess.insert("cat", "name", &sec32, None, None).await.map_err(|x| e(&x))?;
                drop(sess);
                let mut sc = st.scan(None, Some("cat".into()), None, None, None, None, false).await.map_err(|x| e(&x))?;
                let mut sh = dbg2(&sc);
                let _ = sc.fetch_next().await.map_err(|x| e(&x))?;
                sh.extend(dbg2(&sc));
                drop(sc);
                Ok::<_, String>(sh)
            })?;
            block_on(st.close()).ok();
            (shown, secrets)
        }
        "Obs" => {
            // outside the property's list ("keys, pass keys, secret buffers, store handles and errors"): what these print is recorded
            // as an observation, never as a failure
            use aries_askar::entry::{Entry, EntryKind, EntryTag, TagFilter};
            let tv = format!("tv-{}", secret_word(seed, ty, 18));
            match arg {
                "SecretBytesAsHex" => {
                    let sb = SecretBytes::from_slice(&sec32);
                    let mut sh = vec![disp(&sb.as_hex())];
                    sh.extend(dbg2(&sb.as_hex()));
                    (sh, vec![("bytes".into(), sec32)])
                }
                "EntryTagPlaintext" => (dbg2(&EntryTag::Plaintext("t".into(), tv.clone())), vec![("plaintext tag value".into(), tv.into_bytes())]),
                "EntryTagEncrypted" => (dbg2(&EntryTag::Encrypted("t".into(), tv.clone())), vec![("tag value".into(), tv.into_bytes())]),
                "EntryTags" => {
                    let en = Entry::new(EntryKind::Item, "cat", "name", &sec32[..], vec![EntryTag::Encrypted("t".into(), tv.clone())]);
                    (dbg2(&en), vec![("tag value".into(), tv.into_bytes())])
                }
                "TagFilter" => (dbg2(&TagFilter::is_eq("t", tv.clone())), vec![("tag value".into(), tv.into_bytes())]),
                _ => return Err(format!("unknown observation {}", arg)),
            }
        }
        _ => return Err(format!("unknown type {}", ty)),
    })
}

fn exec_fmt(case: &Value, tag: &str) -> Value {
    let ty = case["ty"].as_str().unwrap_or("");
    let seed = case["seed"].as_u64().unwrap_or(0);
    let mut feat = Map::new();
    let head = ty.split(':').next().unwrap_or("");
    feat_inc(&mut feat, &format!("fmt:{}", head));
    match fmt_subject(ty, seed, tag) {
        Err(e) => json!({"out": {"err": "setup", "msg": e}, "oracle": [{"sig": format!("fmt:{}:setup-failed", ty), "msg": e}], "feat": feat}),
        Ok((shown, secrets)) => {
            let mut oracle = vec![];
            let mut leak = false;
            let obs = head == "Obs";
            let mut chain: Option<u64> = None;
            for sh in &shown {
                if sh.what == "chain" {
                    chain = sh.text.parse().ok();
                    continue;
                }
                feat_inc(&mut feat, &format!("shown:{}", sh.what));
                for (label, sec) in &secrets {
                    let enc = find_secret(&sh.text, sec);
                    if !enc.is_empty() {
                        leak = true;
                        if obs {
                            feat_inc(&mut feat, &format!("obs:{}:{}-prints-contents", ty, sh.what));
                            continue;
                        }
                        if sh.what != "debug-alt" || oracle.is_empty() {
                            let ch = match sh.what { "debug-alt" => "debug", w => w };
                            oracle.push(json!({"sig": format!("fmt:{}:{}:prints-secret", ty, ch),
                                               "secret": label, "encodings": enc, "output": sh.text.chars().take(400).collect::<String>()}));
                        }
                    }
                }
            }
            oracle.dedup_by(|a, b| a["sig"] == b["sig"]);
            let mut out = Map::new();
            out.insert("leak".into(), json!(leak));
            if obs {
                out.insert("obs".into(), json!(true));
            }
            if let Some(c) = chain {
                // errors: length of the `source()` chain (where a cause survives the conversions is a fact of the code)
                out.insert("chain".into(), json!(c));
                if c > 0 {
                    feat_inc(&mut feat, "err:with-cause");
                }
            }
            json!({"out": out, "oracle": oracle, "feat": feat})
        }
    }
}

// =================================================================================================
// Part B: c20:log — a `log::Log` capturing everything at Trace level

struct CapLog;
static CAPTURE_ON: AtomicBool = AtomicBool::new(false);
static CAPTURED: Mutex<Vec<String>> = Mutex::new(Vec::new());
static LOG_CASE: Mutex<()> = Mutex::new(());
static CAPLOG: CapLog = CapLog;
static LOGGER_OK: once_cell::sync::Lazy<bool> = once_cell::sync::Lazy::new(|| {
    let ok = log::set_logger(&CAPLOG).is_ok();
    if ok {
        log::set_max_level(log::LevelFilter::Trace);
    }
    ok
});

impl log::Log for CapLog {
    fn enabled(&self, _m: &log::Metadata) -> bool {
        true
    }
    fn log(&self, r: &log::Record) {
        if CAPTURE_ON.load(Ordering::SeqCst) {
            let line = format!("{} {} {}", r.level(), r.target(), r.args());
            let _ = &line;
            if let Ok(mut c) = CAPTURED.lock() {
                c.push(line);
            }
        }
    }
    fn flush(&self) {}
}

fn pct(s: &str) -> String {
    s.bytes().map(|b| if b.is_ascii_alphanumeric() { (b as char).to_string() } else { format!("%{:02X}", b) }).collect()
}

fn exec_log(case: &Value, tag: &str) -> Value {
    use aries_askar::entry::{EntryTag, TagFilter};
    let scenario = case["scenario"].as_str().unwrap_or("");
    let seed = case["seed"].as_u64().unwrap_or(0);
    let mut feat = Map::new();
    feat_inc(&mut feat, &format!("log:{}", scenario.split(':').next().unwrap_or("")));
    let _g = LOG_CASE.lock().unwrap_or_else(|p| p.into_inner());
    if !*LOGGER_OK {
        return json!({"out": {"err": "logger"}, "oracle": [{"sig": "c20:logger-not-installed"}], "feat": feat});
    }
    log::set_max_level(log::LevelFilter::Trace);
    CAPTURED.lock().unwrap().clear();
    let mut secrets: Vec<(String, Vec<u8>)> = vec![];
    let mut steps: Vec<(String, bool)> = vec![]; // (step, succeeded)
    let e = |x: &dyn std::fmt::Debug| format!("{:?}", x);
    CAPTURE_ON.store(true, Ordering::SeqCst);
    let run: Result<(), String> = (|| {
        let (head, arg) = scenario.split_once(':').unwrap_or((scenario, ""));
        match head {
            "lifecycle" => {
                // arg: "raw" | "argon" (key method of the store), file-backed SQLite
                let path = scratch(&format!("log-{}-{}", tag, seed));
                rm_db(&path);
                let uri = format!("sqlite://{}", path);
                let pass1 = secret_word(seed, "pass1", 26);
                let raw1 = b58(&secret_bytes(seed, "raw1", 32));
                let raw2 = b58(&secret_bytes(seed, "raw2", 32));
                let wrong = secret_word(seed, "wrong", 26);
                let cat = format!("cat-{}", secret_word(seed, "cat", 16));
                let name = format!("name-{}", secret_word(seed, "name", 16));
                let value = secret_bytes(seed, "value", 48);
                let value2 = secret_word(seed, "value2", 40);
                let tn = format!("tn-{}", secret_word(seed, "tagname", 14));
                let tv = format!("tv-{}", secret_word(seed, "tagvalue", 14));
                let ptn = format!("ptn-{}", secret_word(seed, "ptagname", 14));
                let ptv = format!("ptv-{}", secret_word(seed, "ptagvalue", 14));
                let keysec = key_secret(seed, "ed25519");
                let keysec2 = key_secret(seed, "a256gcm");
                let profile2 = format!("prof-{}", secret_word(seed, "profile", 10));
                for (l, s) in [("pass key", pass1.as_bytes()), ("raw store key (text)", raw1.as_bytes()), ("new raw store key (text)", raw2.as_bytes()), ("wrong pass key", wrong.as_bytes()),
                               ("record category", cat.as_bytes()), ("record name", name.as_bytes()), ("record value", &value[..]), ("record value (text)", value2.as_bytes()),
                               ("tag name", tn.as_bytes()), ("tag value", tv.as_bytes()), ("plaintext tag value", ptv.as_bytes()),
                               ("key material", &keysec[..]), ("key material", &keysec2[..])] {
                    secrets.push((l.to_string(), s.to_vec()));
                }
                secrets.push(("raw store key".into(), secret_bytes(seed, "raw1", 32)));
                secrets.push(("new raw store key".into(), secret_bytes(seed, "raw2", 32)));
                let (method, pass): (StoreKeyMethod, String) = if arg == "argon" {
                    (StoreKeyMethod::DeriveKey(askar_storage::KdfMethod::Argon2i(askar_storage::Argon2Level::Interactive)), pass1.clone())
                } else {
                    (StoreKeyMethod::RawKey, raw1.clone())
                };
                block_on(async {
                    let mut st = Store::provision(&uri, method.clone(), PassKey::from(pass.clone()), Some("first".into()), true).await.map_err(|x| e(&x))?;
                    steps.push(("provision".into(), true));
                    st.create_profile(Some(profile2.clone())).await.map_err(|x| e(&x))?;
                    let tags = vec![EntryTag::Encrypted(tn.clone(), tv.clone()), EntryTag::Plaintext(ptn.clone(), ptv.clone())];
                    let mut s = st.session(None).await.map_err(|x| e(&x))?;
                    s.insert(&cat, &name, &value, Some(&tags), None).await.map_err(|x| e(&x))?;
                    s.insert(&cat, "other", value2.as_bytes(), Some(&tags), Some(100000)).await.map_err(|x| e(&x))?;
                    steps.push(("insert".into(), true));
                    let dup = s.insert(&cat, &name, &value, None, None).await;
                    steps.push(("insert-duplicate".into(), dup.is_ok()));
                    if let Err(err) = &dup {
                        CAPTURED.lock().unwrap().push(err_line(err));
                    }
                    let f = s.fetch(&cat, &name, false).await.map_err(|x| e(&x))?;
                    steps.push(("fetch".into(), f.is_some()));
                    let filt = TagFilter::all_of(vec![TagFilter::is_eq(tn.clone(), tv.clone()), TagFilter::is_like(format!("~{}", ptn), format!("{}%", &ptv[..6]))]);
                    let all = s.fetch_all(Some(&cat), Some(filt.clone()), None, None, false, false).await.map_err(|x| e(&x))?;
                    steps.push(("fetch_all".into(), all.len() == 2));
                    let n = s.count(Some(&cat), Some(filt.clone())).await.map_err(|x| e(&x))?;
                    steps.push(("count".into(), n == 2));
                    s.replace(&cat, &name, value2.as_bytes(), Some(&tags), None).await.map_err(|x| e(&x))?;
                    let miss = s.replace(&cat, "absent", &value, None, None).await;
                    steps.push(("replace-missing".into(), miss.is_ok()));
                    if let Err(err) = &miss {
                        CAPTURED.lock().unwrap().push(err_line(err));
                    }
                    let k = LocalKey::from_secret_bytes(KeyAlg::from_str("ed25519").unwrap(), &keysec).map_err(|x| e(&x))?;
                    let k2 = LocalKey::from_secret_bytes(KeyAlg::from_str("a256gcm").unwrap(), &keysec2).map_err(|x| e(&x))?;
                    s.insert_key("key-one", &k, Some("meta"), None, Some(&tags), None).await.map_err(|x| e(&x))?;
                    s.insert_key("key-two", &k2, None, None, None, None).await.map_err(|x| e(&x))?;
                    let ke = s.fetch_key("key-one", false).await.map_err(|x| e(&x))?.ok_or("no key")?;
                    let lk = ke.load_local_key().map_err(|x| e(&x))?;
                    let sig = lk.sign_message(b"msg", None).map_err(|x| e(&x))?;
                    steps.push(("key-ops".into(), lk.verify_signature(b"msg", &sig, None).unwrap_or(false)));
                    let ks = s.fetch_all_keys(Some("ed25519"), None, None, None, false).await.map_err(|x| e(&x))?;
                    steps.push(("fetch_all_keys".into(), ks.len() == 1));
                    s.remove_key("key-two").await.map_err(|x| e(&x))?;
                    s.commit().await.map_err(|x| e(&x))?;
                    let mut t = st.transaction(None).await.map_err(|x| e(&x))?;
                    t.insert(&cat, "in-txn", &value, Some(&tags), None).await.map_err(|x| e(&x))?;
                    t.rollback().await.map_err(|x| e(&x))?;
                    let mut sc = st.scan(None, Some(cat.clone()), Some(filt), None, None, None, false).await.map_err(|x| e(&x))?;
                    let mut seen = 0;
                    while let Some(rows) = sc.fetch_next().await.map_err(|x| e(&x))? {
                        seen += rows.len();
                    }
                    steps.push(("scan".into(), seen == 2));
                    drop(sc);
                    let mut s = st.session(None).await.map_err(|x| e(&x))?;
                    s.remove(&cat, "other").await.map_err(|x| e(&x))?;
                    let n = s.remove_all(Some(&cat), None).await.map_err(|x| e(&x))?;
                    steps.push(("remove_all".into(), n == 1));
                    drop(s);
                    st.rekey(StoreKeyMethod::RawKey, PassKey::from(raw2.clone())).await.map_err(|x| e(&x))?;
                    steps.push(("rekey".into(), true));
                    st.close().await.map_err(|x| e(&x))?;
                    let st2 = Store::open(&uri, Some(StoreKeyMethod::RawKey), PassKey::from(raw2.clone()), Some(profile2.clone())).await.map_err(|x| e(&x))?;
                    steps.push(("open".into(), true));
                    st2.close().await.map_err(|x| e(&x))?;
                    let bad = Store::open(&uri, Some(method.clone()), PassKey::from(pass.clone()), None).await;
                    steps.push(("open-old-key".into(), bad.is_ok()));
                    if let Err(err) = &bad {
                        CAPTURED.lock().unwrap().push(err_line(err));
                    }
                    let bad = Store::open(&uri, None, PassKey::from(wrong.clone()), None).await;
                    steps.push(("open-wrong-pass".into(), bad.is_ok()));
                    if let Err(err) = &bad {
                        CAPTURED.lock().unwrap().push(err_line(err));
                    }
                    let bad = Store::open(&format!("{}-missing", uri), None, PassKey::from(wrong.clone()), None).await;
                    steps.push(("open-missing".into(), bad.is_ok()));
                    if let Err(err) = &bad {
                        CAPTURED.lock().unwrap().push(err_line(err));
                    }
                    let rm = Store::remove(&uri).await.map_err(|x| e(&x))?;
                    steps.push(("remove".into(), rm));
                    Ok::<(), String>(())
                })?;
                rm_db(&path);
            }
            "uri" => {
                // arg: which entry point; a URI carrying credentials that cannot connect
                let pw = format!("pw-{}", secret_word(seed, "uripw", 18));
                let pw_special = format!("p@s/{}", secret_word(seed, "uripw2", 14));
                let apw = format!("apw-{}", secret_word(seed, "adminpw", 18));
                secrets.push(("uri password".into(), pw.clone().into_bytes()));
                secrets.push(("uri password (percent-decoded)".into(), pw_special.clone().into_bytes()));
                secrets.push(("uri admin_password".into(), apw.clone().into_bytes()));
                let apw_special = special_word(seed, "adminpw2");
                secrets.push(("uri admin_password (percent-decoded)".into(), apw_special.clone().into_bytes()));
                let (entry, which) = arg.split_once('/').unwrap_or((arg, "postgres"));
                let uri = match which {
                    "postgres-query-encoded" => format!("postgres://user:{}@127.0.0.1:1/db?connect_timeout=1&admin_account=adm&admin_password={}", pw, pct(&apw_special)),
                    "sqlite-query-encoded" => format!("sqlite://user:{}@/nonexistent-dir-c20/x.db?admin_password={}&busy_timeout=1", pw, pct(&apw_special)),
                    "postgres" => format!("postgres://user:{}@127.0.0.1:1/db?connect_timeout=1&admin_account=adm&admin_password={}", pw, apw),
                    "postgres-encoded" => format!("postgres://user:{}@127.0.0.1:1/db?connect_timeout=1", pct(&pw_special)),
                    // every SUBSET of the credential-bearing parameters (seed C20f: the admin password without the admin
                    // account stayed in the URI handed to sqlx, which logs unknown parameters with their values)
                    "postgres-adminpw-only" => format!("postgres://user:{}@127.0.0.1:1/db?connect_timeout=1&admin_password={}", pw, apw),
                    "postgres-adminpw-only-encoded" => format!("postgres://user:{}@127.0.0.1:1/db?admin_password={}&connect_timeout=1", pw, pct(&apw_special)),
                    "postgres-adminacct-only" => format!("postgres://user:{}@127.0.0.1:1/db?connect_timeout=1&admin_account=adm", pw),
                    "postgres-adminpw-twice" => format!("postgres://user:{}@127.0.0.1:1/db?admin_password=x&connect_timeout=1&admin_account=adm&admin_password={}", pw, apw),
                    "unknown-scheme" => format!("mysql://user:{}@db.example/db", pw),
                    _ => format!("sqlite://user:{}@/nonexistent-dir-c20/x.db", pw),
                };
                let raw = b58(&secret_bytes(seed, "raw", 32));
                secrets.push(("raw store key (text)".into(), raw.clone().into_bytes()));
                let res: Result<(), aries_askar::Error> = block_on(async {
                    match entry {
                        "open" => Store::open(&uri, Some(StoreKeyMethod::RawKey), PassKey::from(raw.clone()), None).await.map(|_| ()),
                        "provision" => Store::provision(&uri, StoreKeyMethod::RawKey, PassKey::from(raw.clone()), None, false).await.map(|_| ()),
                        _ => Store::remove(&uri).await.map(|_| ()),
                    }
                });
                steps.push((format!("{}-{}", entry, which), res.is_ok()));
                if let Err(err) = &res {
                    CAPTURED.lock().unwrap().push(err_line(err));
                    feat_inc(&mut feat, "returned-error-rendered");
                }
            }
            _ => return Err(format!("unknown scenario {}", scenario)),
        }
        Ok(())
    })();
    CAPTURE_ON.store(false, Ordering::SeqCst);
    let records: Vec<String> = std::mem::take(&mut *CAPTURED.lock().unwrap());
    feat.insert("log-records".into(), json!(records.len()));
    if let Err(msg) = run {
        return json!({"out": {"err": "setup", "msg": msg}, "oracle": [{"sig": format!("log:{}:setup-failed", scenario), "msg": msg}], "feat": feat});
    }
    let mut oracle = vec![];
    let mut leak = false;
    for rec in &records {
        for (label, sec) in &secrets {
            let enc = find_secret(rec, sec);
            if !enc.is_empty() {
                leak = true;
                let site = if rec.starts_with("RETURNED-ERROR") {
                    "returned-error".to_string()
                } else {
                    // level + target + the constant head of the message (up to the first ": " or 48 characters)
                    rec.split(": ").next().unwrap_or("").chars().take(72).collect::<String>()
                };
                let sig = format!("log:{}:{}:record-holds-secret", label.replace(' ', "-"), site);
                if !oracle.iter().any(|o: &Value| o["sig"] == sig) {
                    oracle.push(json!({"sig": sig, "scenario": scenario, "secret": label, "encodings": enc, "record": rec.chars().take(500).collect::<String>()}));
                }
            }
        }
    }
    let steps_json: Vec<Value> = steps.iter().map(|(s, ok)| json!([s, ok])).collect();
    json!({"out": {"leak": leak, "steps": steps_json}, "oracle": oracle, "feat": feat})
}

// =================================================================================================
// Part A: c20:key — create / use / drop under the allocator

fn key_needles(secret: &[u8]) -> Vec<Vec<u8>> {
    let mut n = vec![];
    let k = secret.len().min(16);
    n.push(secret[..k].to_vec());
    n.push(secret[secret.len() - k..].to_vec());
    // byte-reversed (little-endian limb order of big-endian scalars); no temporary copy is left behind unwiped
    n.push(secret.iter().rev().take(k).cloned().collect());
    n.push(secret.iter().take(k).rev().cloned().collect());
    n
}

fn exec_key(case: &Value) -> Value {
    use askar_crypto::alg::{AnyKey, AnyKeyCreate};
    let ty = case["ty"].as_str().unwrap_or("");
    let seed = case["seed"].as_u64().unwrap_or(0);
    let (head, arg) = ty.split_once(':').unwrap_or((ty, ""));
    let mut feat = Map::new();
    feat_inc(&mut feat, &format!("key:{}", head));
    let mut oracle = vec![];
    if !allocator_installed() {
        oracle.push(json!({"sig": "c20:allocator-not-installed"}));
    }
    let e = |x: &dyn std::fmt::Debug| format!("{:?}", x);
    events_reset();
    let r: Result<(), String> = (|| {
        match head {
            "LocalKey" | "AnyKey" => {
                let alg = KeyAlg::from_str(arg).map_err(|x| e(&x))?;
                let s = key_secret(seed, arg);
                needles_set(key_needles(&s));
                if head == "AnyKey" {
                    let k = tracked(|| Box::<AnyKey>::from_secret_bytes(alg, &s)).map_err(|x| e(&x))?;
                    tracked(|| drop(k));
                } else {
                    let k = tracked(|| LocalKey::from_secret_bytes(alg, &s)).map_err(|x| e(&x))?;
                    // use: secret export, JWK export, thumbprint, and where supported sign / encrypt / key exchange / conversion
                    tracked(|| {
                        let _ = k.to_secret_bytes();
                        let _ = k.to_jwk_secret();
                        let _ = k.to_jwk_thumbprint(None);
                        let _ = k.sign_message(b"message", None);
                        if let Ok(p) = k.aead_params() {
                            let nonce = vec![1u8; p.nonce_length];
                            if let Ok(enc) = k.aead_encrypt(b"plaintext-plaintext", &nonce, b"aad") {
                                let _ = k.aead_decrypt(&enc, &nonce, b"aad");
                            }
                        }
                        let _ = k.convert_key(KeyAlg::X25519);
                        if let Ok(pk) = k.to_public_bytes() {
                            if let Ok(pk) = LocalKey::from_public_bytes(alg, pk.as_ref()) {
                                let _ = k.to_key_exchange(KeyAlg::from_str("a256gcm").unwrap(), &pk);
                            }
                        }
                    });
                    tracked(|| drop(k));
                }
            }
            "SecretBytes" => {
                let s = secret_bytes(seed, ty, 64);
                needles_set(key_needles(&s));
                let b = tracked(|| SecretBytes::from_slice(&s));
                tracked(|| drop(b));
            }
            "PassKey" => {
                let w = secret_word(seed, ty, 32);
                needles_set(key_needles(w.as_bytes()));
                let owned = w.clone();
                let p = tracked(|| PassKey::from(owned));
                let q = tracked(|| p.as_ref().into_owned());
                tracked(|| drop(p));
                tracked(|| drop(q));
            }
            "Store" => {
                // the store key and profile key live in the key cache; the raw key is given as text
                let rawb = secret_bytes(seed, ty, 32);
                let raw = b58(&rawb);
                let mut nd = key_needles(&rawb);
                nd.extend(key_needles(raw.as_bytes()));
                let s = key_secret(seed, "ed25519");
                nd.extend(key_needles(&s));
                let val = pat(seed as usize % 128, 64);
                nd.push(val[..16].to_vec());
                needles_set(nd);
                let k = LocalKey::from_secret_bytes(KeyAlg::Ed25519, &s).map_err(|x| e(&x))?;
                // the whole life cycle runs on this thread (block_on drives the futures here; SQLite workers are other threads)
                tracked(|| {
                    block_on(async {
                        let st = Store::provision("sqlite://:memory:", StoreKeyMethod::RawKey, PassKey::from(raw.clone()), None, true).await.map_err(|x| e(&x))?;
                        let mut sess = st.session(None).await.map_err(|x| e(&x))?;
                        sess.insert("cat", "name", &val, None, None).await.map_err(|x| e(&x))?;
                        sess.insert_key("k", &k, None, None, None, None).await.map_err(|x| e(&x))?;
                        let got = sess.fetch("cat", "name", false).await.map_err(|x| e(&x))?;
                        let ke = sess.fetch_key("k", false).await.map_err(|x| e(&x))?;
                        drop(got);
                        drop(ke);
                        drop(sess);
                        st.close().await.map_err(|x| e(&x))?;
                        Ok::<(), String>(())
                    })
                })?;
                tracked(|| drop(k));
            }
            _ => return Err(format!("unknown key subject {}", ty)),
        }
        Ok(())
    })();
    set_tracking(false);
    let evs = events_take();
    needles_set(vec![]);
    if let Err(msg) = r {
        return json!({"out": {"err": "setup", "msg": msg}, "oracle": [{"sig": format!("key:{}:setup-failed", ty), "msg": msg}], "feat": feat});
    }
    let mut dirty = 0u64;
    // "Store": the store key is an inline ArrayKey that travels through boxed futures / closures; the moved-from copies in
    // those boxes are not wiped.  Compiler-introduced copies of inline keys are outside the model (DESIGN C20, "Partial"):
    // reported on the diagnostic channel only.
    let diagnostic_only = head == "Store";
    for ev in &evs {
        match ev.kind {
            0 => feat_inc(&mut feat, "alloc"),
            1 => feat_inc(&mut feat, "free"),
            _ => feat_inc(&mut feat, "realloc"),
        }
        if ev.kind != 0 && ev.hit.is_some() {
            dirty += 1;
            if diagnostic_only {
                feat_inc(&mut feat, &format!("diag:store-lifecycle:released-block-holds-needle-{}", ev.hit.unwrap_or(0)));
                continue;
            }
            let sig = format!("key:{}:{}-block-holds-secret", ty, if ev.kind == 1 { "freed" } else { "realloc" });
            if !oracle.iter().any(|o: &Value| o["sig"] == sig) {
                oracle.push(json!({"sig": sig, "block_size": ev.size, "needle": ev.hit}));
            }
        }
    }
    if diagnostic_only {
        return json!({"out": {"dirty_release": "diagnostic"}, "oracle": oracle, "feat": feat});
    }
    json!({"out": {"dirty_release": dirty > 0}, "oracle": oracle, "feat": feat})
}

// =================================================================================================
// the C API (COVERAGE.md round 2, rows 1 and 3): own declarations of the `extern "C"` entry points used below

#[allow(dead_code)]
mod capi {
    use aries_askar as _;
    use once_cell::sync::Lazy;
    use std::collections::HashMap;
    use std::os::raw::{c_char, c_void};
    use std::sync::atomic::{AtomicI64, Ordering};
    use std::sync::{Condvar, Mutex};
    use std::time::{Duration, Instant};

    #[repr(C)]
    #[derive(Clone, Copy, Debug, PartialEq, Eq)]
    pub struct H(pub usize);
    #[repr(C)]
    #[derive(Clone, Copy, Debug, PartialEq, Eq)]
    pub struct P(pub *const u8);
    #[repr(C)]
    #[derive(Clone, Copy)]
    pub struct ByteBuf {
        pub len: i64,
        pub data: *const u8,
    }
    #[repr(C)]
    #[derive(Clone, Copy)]
    pub struct SecretBuf {
        pub len: i64,
        pub data: *mut u8,
    }
    #[repr(C)]
    #[derive(Clone, Copy)]
    pub struct EncryptedBuf {
        pub buffer: SecretBuf,
        pub tag_pos: i64,
        pub nonce_pos: i64,
    }
    pub type Code = i64;
    pub type LogCb = extern "C" fn(context: *const c_void, level: i32, target: *const c_char, message: *const c_char, module_path: *const c_char, file: *const c_char, line: i32);
    pub type EnabledCb = extern "C" fn(context: *const c_void, level: i32) -> i8;
    pub type FlushCb = extern "C" fn(context: *const c_void);
    pub type CbUnit = Option<extern "C" fn(i64, Code)>;
    pub type CbHandle = Option<extern "C" fn(i64, Code, H)>;
    pub type CbPtr = Option<extern "C" fn(i64, Code, P)>;
    pub type CbI64 = Option<extern "C" fn(i64, Code, i64)>;
    pub type CbI8 = Option<extern "C" fn(i64, Code, i8)>;
    pub type CbStr = Option<extern "C" fn(i64, Code, *const c_char)>;

    extern "C" {
        pub fn askar_get_current_error(out: *mut *const c_char) -> Code;
        pub fn askar_string_free(s: *mut c_char);
        pub fn askar_buffer_free(b: SecretBuf);
        pub fn askar_set_custom_logger(context: *const c_void, log: LogCb, enabled: Option<EnabledCb>, flush: Option<FlushCb>, max_level: i32) -> Code;
        pub fn askar_store_provision(uri: *const c_char, method: *const c_char, pass_key: *const c_char, profile: *const c_char, recreate: i8, cb: CbHandle, cb_id: i64) -> Code;
        pub fn askar_store_open(uri: *const c_char, method: *const c_char, pass_key: *const c_char, profile: *const c_char, cb: CbHandle, cb_id: i64) -> Code;
        pub fn askar_store_remove(uri: *const c_char, cb: CbI8, cb_id: i64) -> Code;
        pub fn askar_store_close(h: H, cb: CbUnit, cb_id: i64) -> Code;
        pub fn askar_store_create_profile(h: H, profile: *const c_char, cb: CbStr, cb_id: i64) -> Code;
        pub fn askar_store_rekey(h: H, method: *const c_char, pass_key: *const c_char, cb: CbUnit, cb_id: i64) -> Code;
        pub fn askar_scan_start(h: H, profile: *const c_char, category: *const c_char, tag_filter: *const c_char, offset: i64, limit: i64, order_by: *const c_char, descending: i8, cb: CbHandle, cb_id: i64) -> Code;
        pub fn askar_scan_next(h: H, cb: CbPtr, cb_id: i64) -> Code;
        pub fn askar_scan_free(h: H) -> Code;
        pub fn askar_session_start(h: H, profile: *const c_char, as_transaction: i8, cb: CbHandle, cb_id: i64) -> Code;
        pub fn askar_session_close(h: H, commit: i8, cb: CbUnit, cb_id: i64) -> Code;
        pub fn askar_session_count(h: H, category: *const c_char, tag_filter: *const c_char, cb: CbI64, cb_id: i64) -> Code;
        pub fn askar_session_fetch(h: H, category: *const c_char, name: *const c_char, for_update: i8, cb: CbPtr, cb_id: i64) -> Code;
        pub fn askar_session_fetch_all(h: H, category: *const c_char, tag_filter: *const c_char, limit: i64, order_by: *const c_char, descending: i8, for_update: i8, cb: CbPtr, cb_id: i64) -> Code;
        pub fn askar_session_remove_all(h: H, category: *const c_char, tag_filter: *const c_char, cb: CbI64, cb_id: i64) -> Code;
        pub fn askar_session_update(h: H, operation: i8, category: *const c_char, name: *const c_char, value: ByteBuf, tags: *const c_char, expiry_ms: i64, cb: CbUnit, cb_id: i64) -> Code;
        pub fn askar_session_insert_key(h: H, key: P, name: *const c_char, metadata: *const c_char, tags: *const c_char, expiry_ms: i64, cb: CbUnit, cb_id: i64) -> Code;
        pub fn askar_session_fetch_key(h: H, name: *const c_char, for_update: i8, cb: CbPtr, cb_id: i64) -> Code;
        pub fn askar_session_fetch_all_keys(h: H, alg: *const c_char, thumbprint: *const c_char, tag_filter: *const c_char, limit: i64, for_update: i8, cb: CbPtr, cb_id: i64) -> Code;
        pub fn askar_session_remove_key(h: H, name: *const c_char, cb: CbUnit, cb_id: i64) -> Code;
        pub fn askar_entry_list_count(l: P, count: *mut i32) -> Code;
        pub fn askar_entry_list_get_name(l: P, index: i32, out: *mut *const c_char) -> Code;
        pub fn askar_entry_list_get_value(l: P, index: i32, out: *mut SecretBuf) -> Code;
        pub fn askar_entry_list_get_tags(l: P, index: i32, out: *mut *const c_char) -> Code;
        pub fn askar_entry_list_free(l: P);
        pub fn askar_key_entry_list_count(l: P, count: *mut i32) -> Code;
        pub fn askar_key_entry_list_load_local(l: P, index: i32, out: *mut P) -> Code;
        pub fn askar_key_entry_list_free(l: P);
        pub fn askar_key_free(k: P);
        pub fn askar_key_from_jwk(jwk: ByteBuf, out: *mut P) -> Code;
        pub fn askar_key_from_public_bytes(alg: *const c_char, public: ByteBuf, out: *mut P) -> Code;
        pub fn askar_key_from_secret_bytes(alg: *const c_char, secret: ByteBuf, out: *mut P) -> Code;
        pub fn askar_key_get_public_bytes(k: P, out: *mut SecretBuf) -> Code;
        pub fn askar_key_get_secret_bytes(k: P, out: *mut SecretBuf) -> Code;
        pub fn askar_key_get_jwk_secret(k: P, out: *mut SecretBuf) -> Code;
        pub fn askar_key_sign_message(k: P, msg: ByteBuf, sig_type: *const c_char, out: *mut SecretBuf) -> Code;
        pub fn askar_key_from_key_exchange(alg: *const c_char, sk: P, pk: P, out: *mut P) -> Code;
        pub fn askar_key_aead_encrypt(k: P, message: ByteBuf, nonce: ByteBuf, aad: ByteBuf, out: *mut EncryptedBuf) -> Code;
        pub fn askar_key_aead_decrypt(k: P, ciphertext: ByteBuf, nonce: ByteBuf, tag: ByteBuf, aad: ByteBuf, out: *mut SecretBuf) -> Code;
        pub fn askar_key_wrap_key(k: P, other: P, nonce: ByteBuf, out: *mut EncryptedBuf) -> Code;
        pub fn askar_key_unwrap_key(k: P, alg: *const c_char, ciphertext: ByteBuf, nonce: ByteBuf, tag: ByteBuf, out: *mut P) -> Code;
        pub fn askar_key_crypto_box_seal(k: P, message: ByteBuf, out: *mut SecretBuf) -> Code;
        pub fn askar_key_crypto_box_seal_open(k: P, ciphertext: ByteBuf, out: *mut SecretBuf) -> Code;
    }

    pub fn code_name(c: Code) -> &'static str {
        match c {
            0 => "Success", 1 => "Backend", 2 => "Busy", 3 => "Duplicate", 4 => "Encryption", 5 => "Input", 6 => "NotFound", 7 => "Unexpected", 8 => "Unsupported", 100 => "Custom", _ => "Code(?)",
        }
    }

    /// one recorded callback invocation: (code, handle / pointer / integer result, string result)
    pub type CbVal = (Code, usize, Option<String>);
    static CALLS: Lazy<(Mutex<HashMap<i64, CbVal>>, Condvar)> = Lazy::new(|| (Mutex::new(HashMap::new()), Condvar::new()));
    static NEXT_CB: AtomicI64 = AtomicI64::new(0x20_0000);
    pub fn new_cb_id() -> i64 {
        NEXT_CB.fetch_add(1, Ordering::SeqCst)
    }
    fn record(id: i64, v: CbVal) {
        let (m, cv) = &*CALLS;
        m.lock().unwrap_or_else(|p| p.into_inner()).insert(id, v);
        cv.notify_all();
    }
    pub extern "C" fn cb_unit(id: i64, c: Code) { record(id, (c, 0, None)) }
    pub extern "C" fn cb_handle(id: i64, c: Code, h: H) { record(id, (c, h.0, None)) }
    pub extern "C" fn cb_ptr(id: i64, c: Code, p: P) { record(id, (c, p.0 as usize, None)) }
    pub extern "C" fn cb_i64(id: i64, c: Code, n: i64) { record(id, (c, n as usize, None)) }
    pub extern "C" fn cb_i8(id: i64, c: Code, n: i8) { record(id, (c, n as usize, None)) }
    pub extern "C" fn cb_str(id: i64, c: Code, s: *const c_char) {
        let v = take_str(s);
        record(id, (c, 0, v))
    }
    pub fn wait_cb(id: i64) -> Option<CbVal> {
        let (m, cv) = &*CALLS;
        let deadline = Instant::now() + Duration::from_secs(60);
        let mut g = m.lock().unwrap_or_else(|p| p.into_inner());
        loop {
            if let Some(v) = g.remove(&id) {
                return Some(v);
            }
            let now = Instant::now();
            if now >= deadline {
                return None;
            }
            g = cv.wait_timeout(g, deadline - now).unwrap_or_else(|p| p.into_inner()).0;
        }
    }
    /// `askar_get_current_error` as text (clears the slot)
    pub fn current_error() -> String {
        let mut p: *const c_char = std::ptr::null();
        unsafe { askar_get_current_error(&mut p) };
        take_str(p).unwrap_or_default()
    }
    pub fn take_str(p: *const c_char) -> Option<String> {
        if p.is_null() {
            return None;
        }
        let s = unsafe { std::ffi::CStr::from_ptr(p) }.to_string_lossy().to_string();
        unsafe { askar_string_free(p as *mut c_char) };
        Some(s)
    }
    pub fn bb(s: &[u8]) -> ByteBuf {
        ByteBuf { len: s.len() as i64, data: if s.is_empty() { std::ptr::null() } else { s.as_ptr() } }
    }
    pub const NOBUF: SecretBuf = SecretBuf { len: 0, data: std::ptr::null_mut() };
    pub const NOENC: EncryptedBuf = EncryptedBuf { buffer: NOBUF, tag_pos: 0, nonce_pos: 0 };
    pub const NOKEY: P = P(std::ptr::null());
    /// NUL-terminated copy of a string argument (`None` = NULL)
    pub struct CS(Option<std::ffi::CString>);
    impl CS {
        pub fn new(s: &str) -> CS { CS(std::ffi::CString::new(s.replace('\0', "")).ok()) }
        pub fn null() -> CS { CS(None) }
        pub fn p(&self) -> *const c_char { self.0.as_ref().map_or(std::ptr::null(), |c| c.as_ptr()) }
    }
}

/// `{}`, `{:?}`, `{:#?}` of an error value and of every error on its `source()` chain
fn err_shown(e: &(dyn std::error::Error + 'static)) -> (Vec<Shown>, usize) {
    let mut v = vec![Shown { what: "display", text: format!("{}", e) }, Shown { what: "debug", text: format!("{:?}", e) }, Shown { what: "debug-alt", text: format!("{:#?}", e) }];
    let mut cur = e.source();
    let mut depth = 0usize;
    while let Some(s) = cur {
        v.push(Shown { what: "source-display", text: format!("{}", s) });
        v.push(Shown { what: "source-debug", text: format!("{:?}", s) });
        v.push(Shown { what: "source-debug", text: format!("{:#?}", s) });
        depth += 1;
        if depth >= 16 {
            break;
        }
        cur = s.source();
    }
    (v, depth)
}

/// all renderings of a returned error as one text (for the log / C API campaigns, where records are plain lines)
fn err_line(e: &(dyn std::error::Error + 'static)) -> String {
    let (sh, depth) = err_shown(e);
    let mut s = format!("RETURNED-ERROR chain={}", depth);
    for x in sh {
        s.push_str(" / ");
        s.push_str(&x.text);
    }
    s
}

// =================================================================================================
// Part A through the C API: c20:ffi — secret material fetched into `SecretBuffer` / `EncryptedBuffer`, released with
// `askar_buffer_free` under the instrumented allocator (`src/ffi/secret.rs`)

struct FfiRun {
    feat: Map<String, Value>,
    oracle: Vec<Value>,
    bufs: Vec<Value>,
    whats: Vec<Value>,
    texts: Vec<String>, // `askar_get_current_error` JSON after failing calls
    dirty: u64,
    subject: String,
}

impl FfiRun {
    /// accounts for the allocator events of one tracked C API call: no released block may hold a needle
    fn settle(&mut self, step: &str) -> Vec<Ev> {
        let evs = events_take();
        for ev in &evs {
            match ev.kind {
                0 => feat_inc(&mut self.feat, "alloc"),
                1 => feat_inc(&mut self.feat, "free"),
                _ => feat_inc(&mut self.feat, "realloc"),
            }
            if ev.kind != 0 && ev.hit.is_some() {
                self.dirty += 1;
                let sig = format!("ffi:{}:{}:{}-block-holds-secret", self.subject, step, if ev.kind == 1 { "freed" } else { "realloc" });
                if !self.oracle.iter().any(|o| o["sig"] == sig) {
                    self.oracle.push(json!({"sig": sig, "block_size": ev.size, "needle": ev.hit}));
                }
            }
        }
        evs
    }

    /// the caller's side of a `SecretBuffer`: look at it, then `askar_buffer_free` with the block registered by address.
    /// `expect`: the bytes the buffer must hold (None = unknown: e.g. ciphertext, derived key).
    fn release(&mut self, what: &str, b: capi::SecretBuf, expect: Option<&[u8]>) -> W {
        let n = if b.len > 0 { b.len as usize } else { 0 };
        let seen = if b.data.is_null() || n == 0 { W(vec![]) } else { W::copy(unsafe { std::slice::from_raw_parts(b.data, n) }) };
        if b.len < 0 || (b.data.is_null() && b.len != 0) {
            self.oracle.push(json!({"sig": format!("ffi:{}:{}:malformed-buffer", self.subject, what), "len": b.len, "null": b.data.is_null()}));
        }
        let eq = expect.map(|e| e == &seen[..]);
        if eq == Some(false) {
            self.oracle.push(json!({"sig": format!("ffi:{}:{}:contents-differ", self.subject, what), "len": n, "expected_len": expect.map(|e| e.len())}));
        }
        LIVE.with(|l| {
            let mut l = l.borrow_mut();
            l.clear();
            if n > 0 && !b.data.is_null() {
                l.push(b.data as usize);
            }
        });
        tracked(|| unsafe { capi::askar_buffer_free(b) });
        let evs = self.settle(&format!("{}:buffer_free", what));
        let mut freed: Option<usize> = None;
        let mut nonzero = 0usize;
        for ev in &evs {
            if ev.kind != 0 && ev.live {
                freed = Some(ev.size);
                nonzero = ev.nonzero;
                feat_inc(&mut self.feat, "free:ffi-buffer-block");
                if ev.kind == 2 {
                    self.oracle.push(json!({"sig": format!("ffi:{}:{}:buffer-block-reallocated", self.subject, what), "block_size": ev.size}));
                }
                if ev.nonzero > 0 {
                    self.dirty += 1;
                    self.oracle.push(json!({"sig": format!("ffi:{}:{}:freed-block-not-zeroed", self.subject, what), "block_size": ev.size, "nonzero_bytes": ev.nonzero}));
                }
            }
        }
        if n > 0 && freed.is_none() {
            self.oracle.push(json!({"sig": format!("ffi:{}:{}:buffer-block-not-released", self.subject, what), "len": n}));
        }
        if freed.map_or(false, |s| s != n) {
            // `Vec::from_raw_parts(data, len, len)`: the layout handed back must be the allocated one
            self.oracle.push(json!({"sig": format!("ffi:{}:{}:released-size-differs-from-len", self.subject, what), "len": n, "block_size": freed}));
        }
        self.bufs.push(json!({"len": n, "freed": freed, "nonzero": nonzero}));
        self.whats.push(json!([what, eq]));
        seen
    }

    /// return code of a synchronous call; a failure is looked up with `askar_get_current_error`
    fn code(&mut self, step: &str, c: capi::Code, expect_ok: bool) -> bool {
        if c != 0 {
            self.texts.push(format!("{} -> {}", step, capi::current_error()));
            feat_inc(&mut self.feat, "ffi-error-json");
        }
        if (c == 0) != expect_ok {
            self.oracle.push(json!({"sig": format!("ffi:{}:{}:{}", self.subject, step, if expect_ok { "unexpected-error" } else { "missing-error" }), "code": capi::code_name(c)}));
        }
        c == 0
    }
}

fn ffi_key(run: &mut FfiRun, step: &str, alg: &str, secret: &[u8]) -> capi::P {
    let a = capi::CS::new(alg);
    let mut k = capi::NOKEY;
    let c = tracked(|| unsafe { capi::askar_key_from_secret_bytes(a.p(), capi::bb(secret), &mut k) });
    run.settle(step);
    run.code(step, c, true);
    k
}
fn ffi_key_free(run: &mut FfiRun, step: &str, k: capi::P) {
    if !k.0.is_null() {
        tracked(|| unsafe { capi::askar_key_free(k) });
        run.settle(step);
    }
}

/// an in-memory store through the C API holding one record; returns (store, session)
fn ffi_wait(run: &mut FfiRun, step: &str, c: capi::Code, id: i64) -> Option<capi::CbVal> {
    if c != 0 {
        run.code(step, c, true);
        return None;
    }
    match capi::wait_cb(id) {
        Some(v) => {
            if v.0 != 0 {
                run.code(step, v.0, true);
                None
            } else {
                Some(v)
            }
        }
        None => {
            run.oracle.push(json!({"sig": format!("ffi:{}:{}:no-callback", run.subject, step)}));
            None
        }
    }
}

fn exec_ffi(case: &Value) -> Value {
    use capi::*;
    let sub = case["sub"].as_str().unwrap_or("").to_string();
    let seed = case["seed"].as_u64().unwrap_or(0);
    let n = us(case, "n");
    let (head, arg) = sub.split_once(':').unwrap_or((&sub, ""));
    let mut run = FfiRun { feat: Map::new(), oracle: vec![], bufs: vec![], whats: vec![], texts: vec![], dirty: 0, subject: sub.clone() };
    feat_inc(&mut run.feat, &format!("ffi:{}", head));
    if !allocator_installed() {
        run.oracle.push(json!({"sig": "c20:allocator-not-installed"}));
    }
    events_reset();
    let mut secrets: Vec<(String, Vec<u8>)> = vec![];
    let msg = pat(seed as usize % 128, n);
    match head {
        "secret_bytes" | "jwk_secret" | "public_bytes" | "sign" => {
            let s = W::copy(&key_secret(seed, arg));
            needles_set(key_needles(&s));
            secrets.push(("key material".into(), s.to_vec()));
            let k = ffi_key(&mut run, "from_secret_bytes", arg, &s);
            let mut b = NOBUF;
            match head {
                "secret_bytes" => {
                    let c = tracked(|| unsafe { askar_key_get_secret_bytes(k, &mut b) });
                    run.settle("get_secret_bytes");
                    if run.code("get_secret_bytes", c, true) {
                        run.release("secret_bytes", b, Some(&s));
                    }
                }
                "jwk_secret" => {
                    let c = tracked(|| unsafe { askar_key_get_jwk_secret(k, &mut b) });
                    run.settle("get_jwk_secret");
                    if run.code("get_jwk_secret", c, true) {
                        // the needle for the text form: the base64url of the secret as it stands in the JWK
                        let enc = b64(&s, true);
                        let inner = enc.as_bytes()[..enc.len().min(16)].to_vec();
                        let mut nd = key_needles(&s);
                        nd.push(inner);
                        needles_set(nd);
                        let seen = run.release("jwk_secret", b, None);
                        if String::from_utf8_lossy(&seen).contains(&enc) {
                            feat_inc(&mut run.feat, "jwk:secret-member-seen");
                        }
                    }
                }
                "public_bytes" => {
                    let c = tracked(|| unsafe { askar_key_get_public_bytes(k, &mut b) });
                    run.settle("get_public_bytes");
                    // symmetric keys have no public part: an error (looked up as JSON) and no buffer
                    let sym = !matches!(arg, "ed25519" | "x25519" | "k256" | "p256" | "p384" | "bls12381g1" | "bls12381g2" | "bls12381g1g2");
                    if run.code("get_public_bytes", c, !sym) {
                        run.release("public_bytes", b, None);
                    }
                }
                _ => {
                    let c = tracked(|| unsafe { askar_key_sign_message(k, bb(&msg), std::ptr::null(), &mut b) });
                    run.settle("sign_message");
                    let signs = matches!(arg, "ed25519" | "k256" | "p256" | "p384");
                    if run.code("sign_message", c, signs) {
                        run.release("signature", b, None);
                    }
                }
            }
            ffi_key_free(&mut run, "key_free", k);
        }
        "aead" => {
            // arg: algorithm; message of n pattern bytes; the ciphertext comes back as an EncryptedBuffer, the plaintext as a SecretBuffer
            let s = W::copy(&key_secret(seed, arg));
            let mut nd = key_needles(&s);
            if n >= 16 {
                nd.push(msg[..16].to_vec());
                nd.push(msg[n - 16..].to_vec());
            }
            needles_set(nd);
            secrets.push(("key material".into(), s.to_vec()));
            secrets.push(("plaintext".into(), msg.to_vec()));
            let k = ffi_key(&mut run, "from_secret_bytes", arg, &s);
            let nonce_len = match arg { "xc20p" => 24, "a128kw" | "a256kw" => 0, "a128cbchs256" | "a256cbchs512" => 16, _ => 12 };
            let nonce = W::copy(&secret_bytes(seed, "nonce", nonce_len));
            let aad: &[u8] = if arg.ends_with("kw") { b"" } else { b"c20-aad" };
            let mut enc = NOENC;
            let c = tracked(|| unsafe { askar_key_aead_encrypt(k, bb(&msg), bb(&nonce), bb(aad), &mut enc) });
            run.settle("aead_encrypt");
            if run.code("aead_encrypt", c, true) {
                // buffer = ciphertext ‖ tag ‖ nonce
                let full = run.release("encrypted", enc.buffer, None);
                let nonce_pos = (enc.nonce_pos.max(0) as usize).min(full.len());
                let tag_pos = (enc.tag_pos.max(0) as usize).min(nonce_pos);
                let ct_all = W::copy(&full[..nonce_pos]);
                let (ct, tag) = ct_all.split_at(tag_pos);
                let mut dec = NOBUF;
                let c = tracked(|| unsafe { askar_key_aead_decrypt(k, bb(ct), bb(&nonce), bb(tag), bb(aad), &mut dec) });
                run.settle("aead_decrypt");
                if run.code("aead_decrypt", c, true) {
                    run.release("plaintext", dec, Some(&msg));
                }
                // a failing decryption (last byte flipped): an error whose JSON is looked up, and no buffer
                if !ct_all.is_empty() {
                    let mut bad = W::copy(&ct_all);
                    let last = bad.0.len() - 1;
                    bad.0[last] ^= 1;
                    let (ct, tag) = bad.split_at(tag_pos);
                    let mut dec = NOBUF;
                    let c = tracked(|| unsafe { askar_key_aead_decrypt(k, bb(ct), bb(&nonce), bb(tag), bb(aad), &mut dec) });
                    run.settle("aead_decrypt_bad");
                    if run.code("aead_decrypt_bad", c, false) {
                        run.release("plaintext-of-forgery", dec, None);
                    }
                }
            }
            ffi_key_free(&mut run, "key_free", k);
        }
        "wrap" => {
            // arg: algorithm of the wrapping key; the wrapped key is an Ed25519 / A256GCM key with known bytes
            let s = W::copy(&key_secret(seed, arg));
            let inner_alg = if n % 2 == 0 { "a256gcm" } else { "ed25519" };
            let inner = W::copy(&key_secret(seed ^ 0x77, inner_alg));
            let mut nd = key_needles(&s);
            nd.extend(key_needles(&inner));
            needles_set(nd);
            secrets.push(("key material".into(), s.to_vec()));
            secrets.push(("wrapped key material".into(), inner.to_vec()));
            let k = ffi_key(&mut run, "from_secret_bytes", arg, &s);
            let other = ffi_key(&mut run, "from_secret_bytes:inner", inner_alg, &inner);
            let nonce_len = match arg { "xc20p" => 24, "a128kw" | "a256kw" => 0, "a128cbchs256" | "a256cbchs512" => 16, _ => 12 };
            let nonce = W::copy(&secret_bytes(seed, "nonce", nonce_len));
            let mut enc = NOENC;
            let c = tracked(|| unsafe { askar_key_wrap_key(k, other, bb(&nonce), &mut enc) });
            run.settle("wrap_key");
            if run.code("wrap_key", c, true) {
                let full = run.release("wrapped", enc.buffer, None);
                let nonce_pos = (enc.nonce_pos.max(0) as usize).min(full.len());
                let tag_pos = (enc.tag_pos.max(0) as usize).min(nonce_pos);
                let ct_all = W::copy(&full[..nonce_pos]);
                let (ct, tag) = ct_all.split_at(tag_pos);
                let ia = CS::new(inner_alg);
                let mut un = NOKEY;
                let c = tracked(|| unsafe { askar_key_unwrap_key(k, ia.p(), bb(ct), bb(&nonce), bb(tag), &mut un) });
                run.settle("unwrap_key");
                if run.code("unwrap_key", c, true) {
                    let mut b = NOBUF;
                    let c = tracked(|| unsafe { askar_key_get_secret_bytes(un, &mut b) });
                    run.settle("get_secret_bytes");
                    if run.code("get_secret_bytes", c, true) {
                        run.release("unwrapped-secret", b, Some(&inner));
                    }
                    ffi_key_free(&mut run, "key_free:unwrapped", un);
                }
                // unwrapping with the wrong algorithm length / a damaged ciphertext: error JSON, no key
                if !ct_all.is_empty() {
                    let mut bad = W::copy(&ct_all);
                    bad.0[0] ^= 1;
                    let (ct, tag) = bad.split_at(tag_pos);
                    let mut un = NOKEY;
                    let c = tracked(|| unsafe { askar_key_unwrap_key(k, ia.p(), bb(ct), bb(&nonce), bb(tag), &mut un) });
                    run.settle("unwrap_key_bad");
                    if run.code("unwrap_key_bad", c, false) {
                        ffi_key_free(&mut run, "key_free:forged", un);
                    }
                }
            }
            ffi_key_free(&mut run, "key_free:inner", other);
            ffi_key_free(&mut run, "key_free", k);
        }
        "kex" => {
            // arg: curve; ECDH of two keys with known scalars, the derived A256GCM key is read back as bytes
            let s1 = W::copy(&key_secret(seed, arg));
            let s2 = W::copy(&key_secret(seed ^ 0x99, arg));
            let mut nd = key_needles(&s1);
            nd.extend(key_needles(&s2));
            needles_set(nd.clone());
            secrets.push(("key material".into(), s1.to_vec()));
            secrets.push(("key material".into(), s2.to_vec()));
            let k1 = ffi_key(&mut run, "from_secret_bytes", arg, &s1);
            let k2 = ffi_key(&mut run, "from_secret_bytes:peer", arg, &s2);
            let a = CS::new("a256gcm");
            let (mut d1, mut d2) = (NOKEY, NOKEY);
            let c = tracked(|| unsafe { askar_key_from_key_exchange(a.p(), k1, k2, &mut d1) });
            run.settle("from_key_exchange");
            // (a P-384 shared secret has 48 bytes and does not fit the 32-byte key: "Exceeded buffer size" — an error JSON to look at)
            let fits = arg != "p384";
            let ok1 = run.code("from_key_exchange", c, fits);
            let c = tracked(|| unsafe { askar_key_from_key_exchange(a.p(), k2, k1, &mut d2) });
            run.settle("from_key_exchange:peer");
            let ok2 = run.code("from_key_exchange:peer", c, fits);
            if ok1 && ok2 {
                let mut b = NOBUF;
                let c = tracked(|| unsafe { askar_key_get_secret_bytes(d1, &mut b) });
                run.settle("get_secret_bytes");
                if run.code("get_secret_bytes", c, true) {
                    // the shared secret is not known beforehand: from here on it is a needle too
                    let shared = if b.len > 0 && !b.data.is_null() { W::copy(unsafe { std::slice::from_raw_parts(b.data, b.len as usize) }) } else { W(vec![]) };
                    if shared.len() >= 16 {
                        nd.extend(key_needles(&shared));
                        needles_set(nd);
                    }
                    run.release("shared-secret", b, None);
                    let mut b2 = NOBUF;
                    let c = tracked(|| unsafe { askar_key_get_secret_bytes(d2, &mut b2) });
                    run.settle("get_secret_bytes:peer");
                    if run.code("get_secret_bytes:peer", c, true) {
                        run.release("shared-secret:peer", b2, Some(&shared));
                    }
                }
            }
            ffi_key_free(&mut run, "key_free:derived", d1);
            ffi_key_free(&mut run, "key_free:derived-peer", d2);
            ffi_key_free(&mut run, "key_free:peer", k2);
            ffi_key_free(&mut run, "key_free", k1);
        }
        "seal" => {
            // crypto_box_seal / seal_open with an X25519 key: the opened plaintext is a SecretBuffer
            let s = W::copy(&key_secret(seed, "x25519"));
            let mut nd = key_needles(&s);
            if n >= 16 {
                nd.push(msg[..16].to_vec());
            }
            needles_set(nd);
            secrets.push(("key material".into(), s.to_vec()));
            secrets.push(("plaintext".into(), msg.to_vec()));
            let k = ffi_key(&mut run, "from_secret_bytes", "x25519", &s);
            let mut sealed = NOBUF;
            let c = tracked(|| unsafe { askar_key_crypto_box_seal(k, bb(&msg), &mut sealed) });
            run.settle("crypto_box_seal");
            if run.code("crypto_box_seal", c, true) {
                let ct = run.release("sealed", sealed, None);
                let mut opened = NOBUF;
                let c = tracked(|| unsafe { askar_key_crypto_box_seal_open(k, bb(&ct), &mut opened) });
                run.settle("crypto_box_seal_open");
                if run.code("crypto_box_seal_open", c, true) {
                    run.release("opened", opened, Some(&msg));
                }
            }
            ffi_key_free(&mut run, "key_free", k);
        }
        "entry_value" => {
            // a record value of n pattern bytes, stored and fetched through the C API; `askar_entry_list_get_value` copies it into a
            // SecretBuffer (n = 0: `data` dangling, `len` 0); the list's own copy is released by `askar_entry_list_free`
            if n >= 16 {
                needles_set(vec![msg[..16].to_vec(), msg[n - 16..].to_vec()]);
            } else {
                needles_set(vec![]);
            }
            secrets.push(("record value".into(), msg.to_vec()));
            let raw = b58(&secret_bytes(seed, "ffi-raw", 32));
            let (uri, method, pass, cat, name) = (CS::new("sqlite://:memory:"), CS::new("raw"), CS::new(&raw), CS::new("cat"), CS::new("name"));
            let id = new_cb_id();
            let c = unsafe { askar_store_provision(uri.p(), method.p(), pass.p(), std::ptr::null(), 1, Some(cb_handle), id) };
            if let Some(st) = ffi_wait(&mut run, "store_provision", c, id) {
                let st = H(st.1);
                let id = new_cb_id();
                let c = unsafe { askar_session_start(st, std::ptr::null(), 0, Some(cb_handle), id) };
                if let Some(se) = ffi_wait(&mut run, "session_start", c, id) {
                    let se = H(se.1);
                    let id = new_cb_id();
                    let c = unsafe { askar_session_update(se, 0, cat.p(), name.p(), bb(&msg), std::ptr::null(), -1, Some(cb_unit), id) };
                    ffi_wait(&mut run, "session_update", c, id);
                    let id = new_cb_id();
                    let c = unsafe { askar_session_fetch(se, cat.p(), name.p(), 0, Some(cb_ptr), id) };
                    if let Some(l) = ffi_wait(&mut run, "session_fetch", c, id) {
                        let l = P(l.1 as *const u8);
                        if l.0.is_null() {
                            run.oracle.push(json!({"sig": format!("ffi:{}:session_fetch:no-row", sub)}));
                        } else {
                            for round in 0..2 {
                                let mut b = NOBUF;
                                let c = tracked(|| unsafe { askar_entry_list_get_value(l, 0, &mut b) });
                                run.settle("entry_list_get_value");
                                if run.code("entry_list_get_value", c, true) {
                                    run.release(if round == 0 { "value" } else { "value-again" }, b, Some(&msg));
                                }
                            }
                            // index out of range: an error, its JSON, and no buffer
                            let mut b = NOBUF;
                            let c = tracked(|| unsafe { askar_entry_list_get_value(l, 1, &mut b) });
                            run.settle("entry_list_get_value:out-of-range");
                            if run.code("entry_list_get_value:out-of-range", c, false) {
                                run.release("value-out-of-range", b, None);
                            }
                            tracked(|| unsafe { askar_entry_list_free(l) });
                            run.settle("entry_list_free");
                        }
                    }
                    let id = new_cb_id();
                    let c = unsafe { askar_session_close(se, 1, Some(cb_unit), id) };
                    ffi_wait(&mut run, "session_close", c, id);
                }
                let id = new_cb_id();
                let c = unsafe { askar_store_close(st, Some(cb_unit), id) };
                ffi_wait(&mut run, "store_close", c, id);
            }
        }
        "null" => {
            // `askar_buffer_free` of the default buffer (NULL, 0) and of an empty exported buffer: nothing is released
            needles_set(vec![]);
            run.release("null", NOBUF, Some(b""));
        }
        "foreign" => {
            // a block of exactly n bytes in the shape `from_secret` produces (len = capacity), filled with the pattern by the
            // caller (a C caller may write into `data`): released whole and wiped whatever it holds
            needles_set(if n >= 16 { vec![msg[..16].to_vec()] } else { vec![] });
            let mut v: Vec<u8> = Vec::with_capacity(n);
            v.extend_from_slice(&msg);
            let mut v = std::mem::ManuallyDrop::new(v);
            let b = SecretBuf { len: n as i64, data: if n == 0 { std::ptr::NonNull::<u8>::dangling().as_ptr() } else { v.as_mut_ptr() } };
            run.release("foreign", b, Some(&msg));
        }
        _ => {
            run.oracle.push(json!({"sig": format!("ffi:{}:unknown-subject", sub)}));
        }
    }
    set_tracking(false);
    needles_set(vec![]);
    // error TEXT of the C API: the JSON of every failing call, searched for every secret of the case
    let mut leak = false;
    for t in &run.texts {
        for (label, sec) in &secrets {
            let enc = find_secret(t, sec);
            if !enc.is_empty() {
                leak = true;
                let sig = format!("ffi:{}:error-json-holds-secret:{}", sub, label.replace(' ', "-"));
                if !run.oracle.iter().any(|o| o["sig"] == sig) {
                    run.oracle.push(json!({"sig": sig, "encodings": enc, "text": t.chars().take(400).collect::<String>()}));
                }
            }
        }
    }
    let lens: Vec<Value> = run.bufs.iter().map(|b| b["len"].clone()).collect();
    run.feat.insert("ffi-buffers".into(), json!(run.bufs.len()));
    json!({"out": {"bufs": run.bufs, "dirty_release": run.dirty > 0, "error_json_leak": leak},
           "oracle": run.oracle, "feat": run.feat, "model_input": {"lens": lens}, "diag": {"whats": run.whats, "errors": run.texts}})
}

// =================================================================================================
// Part B through the C API: c20:ffilog — the log campaign with the C API's own logger (`src/ffi/log.rs`).
// `askar_set_custom_logger` installs once per process, so every case runs in a child process (`askar_harness exec` on a
// `c20:ffilog-child` case); the records arrive through the C callback: message / target / module_path / file are all searched.

static FFI_RECORDS: Mutex<Vec<[String; 4]>> = Mutex::new(Vec::new());

extern "C" fn ffilog_cb(_ctx: *const std::os::raw::c_void, _level: i32, target: *const std::os::raw::c_char, message: *const std::os::raw::c_char,
                        module_path: *const std::os::raw::c_char, file: *const std::os::raw::c_char, _line: i32) {
    let s = |p: *const std::os::raw::c_char| if p.is_null() { String::new() } else { unsafe { std::ffi::CStr::from_ptr(p) }.to_string_lossy().to_string() };
    let rec = [s(message), s(target), s(module_path), s(file)];
    if let Ok(mut r) = FFI_RECORDS.lock() {
        r.push(rec);
    }
}

struct LogRun {
    steps: Vec<(String, bool)>,
    texts: Vec<String>, // error JSON of failing calls
}

impl LogRun {
    /// waits for the callback of an asynchronous call; a failure (return code or callback code) is looked up as JSON
    fn wait(&mut self, step: &str, c: capi::Code, id: i64) -> Option<capi::CbVal> {
        if c != 0 {
            self.texts.push(format!("{} -> {} {}", step, capi::code_name(c), capi::current_error()));
            return None;
        }
        match capi::wait_cb(id) {
            Some(v) if v.0 == 0 => Some(v),
            Some(v) => {
                self.texts.push(format!("{} -> {} {}", step, capi::code_name(v.0), capi::current_error()));
                None
            }
            None => {
                self.texts.push(format!("{} -> no callback", step));
                None
            }
        }
    }
    fn sync(&mut self, step: &str, c: capi::Code) -> bool {
        if c != 0 {
            self.texts.push(format!("{} -> {} {}", step, capi::code_name(c), capi::current_error()));
        }
        c == 0
    }
    fn step(&mut self, name: &str, ok: bool) {
        self.steps.push((name.to_string(), ok));
    }
}

/// reads every row of an entry list (value, tags, name) and frees it; `single`: the result of `askar_session_fetch`, whose
/// `askar_entry_list_count` is 0 by construction (`FfiResultList::Single`: `len()` = 0) although row 0 exists
fn ffilog_entry_list(run: &mut LogRun, l: usize, single: bool) -> usize {
    use capi::*;
    let l = P(l as *const u8);
    if l.0.is_null() {
        return 0;
    }
    let mut n = 0i32;
    unsafe { askar_entry_list_count(l, &mut n) };
    if single {
        n = 1;
    }
    for i in 0..n {
        let mut b = NOBUF;
        if run.sync("entry_list_get_value", unsafe { askar_entry_list_get_value(l, i, &mut b) }) {
            unsafe { askar_buffer_free(b) };
        }
        let mut s: *const std::os::raw::c_char = std::ptr::null();
        if run.sync("entry_list_get_tags", unsafe { askar_entry_list_get_tags(l, i, &mut s) }) {
            take_str(s);
        }
        let mut s: *const std::os::raw::c_char = std::ptr::null();
        if run.sync("entry_list_get_name", unsafe { askar_entry_list_get_name(l, i, &mut s) }) {
            take_str(s);
        }
    }
    unsafe { askar_entry_list_free(l) };
    n as usize
}

/// runs in the child process: installs the custom logger at Trace, walks the campaign through the C API, searches the records
pub fn exec_ffilog_child(case: &Value, tag: &str) -> Value {
    use capi::*;
    let scenario = case["scenario"].as_str().unwrap_or("");
    let seed = case["seed"].as_u64().unwrap_or(0);
    let mut feat = Map::new();
    feat_inc(&mut feat, &format!("ffilog:{}", scenario.split(':').next().unwrap_or("")));
    let rc = unsafe { askar_set_custom_logger(std::ptr::null(), ffilog_cb, None, None, 5) };
    if rc != 0 {
        return json!({"out": {"err": "logger"}, "oracle": [{"sig": "c20:ffi-logger-not-installed", "code": code_name(rc)}], "feat": feat});
    }
    let mut secrets: Vec<(String, Vec<u8>)> = vec![];
    let mut run = LogRun { steps: vec![], texts: vec![] };
    let (head, arg) = scenario.split_once(':').unwrap_or((scenario, ""));
    match head {
        "lifecycle" => {
            let path = scratch(&format!("ffilog-{}-{}", tag, seed));
            rm_db(&path);
            let uri_s = format!("sqlite://{}", path);
            let pass1 = secret_word(seed, "pass1", 26);
            let raw1 = b58(&secret_bytes(seed, "raw1", 32));
            let raw2 = b58(&secret_bytes(seed, "raw2", 32));
            let wrong = secret_word(seed, "wrong", 26);
            let cat_s = format!("cat-{}", secret_word(seed, "cat", 16));
            let name_s = format!("name-{}", secret_word(seed, "name", 16));
            let value = secret_bytes(seed, "value", 48);
            let value2 = secret_word(seed, "value2", 40);
            let tn = format!("tn-{}", secret_word(seed, "tagname", 14));
            let tv = format!("tv-{}", secret_word(seed, "tagvalue", 14));
            let ptn = format!("ptn-{}", secret_word(seed, "ptagname", 14));
            let ptv = format!("ptv-{}", secret_word(seed, "ptagvalue", 14));
            let keysec = key_secret(seed, "ed25519");
            let keysec2 = key_secret(seed, "a256gcm");
            let profile2 = format!("prof-{}", secret_word(seed, "profile", 10));
            for (l, s) in [("pass key", pass1.as_bytes()), ("raw store key (text)", raw1.as_bytes()), ("new raw store key (text)", raw2.as_bytes()), ("wrong pass key", wrong.as_bytes()),
                           ("record category", cat_s.as_bytes()), ("record name", name_s.as_bytes()), ("record value", &value[..]), ("record value (text)", value2.as_bytes()),
                           ("tag name", tn.as_bytes()), ("tag value", tv.as_bytes()), ("plaintext tag value", ptv.as_bytes()),
                           ("key material", &keysec[..]), ("key material", &keysec2[..])] {
                secrets.push((l.to_string(), s.to_vec()));
            }
            secrets.push(("raw store key".into(), secret_bytes(seed, "raw1", 32)));
            secrets.push(("new raw store key".into(), secret_bytes(seed, "raw2", 32)));
            let (method_s, pass_s) = if arg == "argon" { ("kdf:argon2i:int", pass1.clone()) } else { ("raw", raw1.clone()) };
            let (uri, method, pass, first, prof2) = (CS::new(&uri_s), CS::new(method_s), CS::new(&pass_s), CS::new("first"), CS::new(&profile2));
            let (cat, name, other, absent) = (CS::new(&cat_s), CS::new(&name_s), CS::new("other"), CS::new("absent"));
            let tags = CS::new(&json!({tn.clone(): tv.clone(), format!("~{}", ptn): ptv.clone()}).to_string());
            let filt = CS::new(&json!({"$and": [{tn.clone(): tv.clone()}, {format!("~{}", ptn): {"$like": format!("{}%", &ptv[..6])}}]}).to_string());
            let id = new_cb_id();
            let c = unsafe { askar_store_provision(uri.p(), method.p(), pass.p(), first.p(), 1, Some(cb_handle), id) };
            let st = run.wait("store_provision", c, id);
            run.step("provision", st.is_some());
            if let Some(st) = st {
                let st = H(st.1);
                let id = new_cb_id();
                let c = unsafe { askar_store_create_profile(st, prof2.p(), Some(cb_str), id) };
                run.wait("store_create_profile", c, id);
                let id = new_cb_id();
                let c = unsafe { askar_session_start(st, std::ptr::null(), 0, Some(cb_handle), id) };
                if let Some(se) = run.wait("session_start", c, id) {
                    let se = H(se.1);
                    let upd = |run: &mut LogRun, step: &str, op: i8, nm: &CS, val: &[u8], tg: &CS, exp: i64| -> bool {
                        let id = new_cb_id();
                        let c = unsafe { askar_session_update(se, op, cat.p(), nm.p(), bb(val), tg.p(), exp, Some(cb_unit), id) };
                        run.wait(step, c, id).is_some()
                    };
                    let a = upd(&mut run, "session_update:insert", 0, &name, &value, &tags, -1);
                    let b = upd(&mut run, "session_update:insert", 0, &other, value2.as_bytes(), &tags, 100000);
                    run.step("insert", a && b);
                    let dup = upd(&mut run, "session_update:insert-duplicate", 0, &name, &value, &CS::null(), -1);
                    run.step("insert-duplicate", dup);
                    let id = new_cb_id();
                    let c = unsafe { askar_session_fetch(se, cat.p(), name.p(), 0, Some(cb_ptr), id) };
                    let got = run.wait("session_fetch", c, id).map_or(0, |l| ffilog_entry_list(&mut run, l.1, true));
                    run.step("fetch", got == 1);
                    let id = new_cb_id();
                    let c = unsafe { askar_session_fetch_all(se, cat.p(), filt.p(), -1, std::ptr::null(), 0, 0, Some(cb_ptr), id) };
                    let got = run.wait("session_fetch_all", c, id).map_or(0, |l| ffilog_entry_list(&mut run, l.1, false));
                    run.step("fetch_all", got == 2);
                    let id = new_cb_id();
                    let c = unsafe { askar_session_count(se, cat.p(), filt.p(), Some(cb_i64), id) };
                    let cnt = run.wait("session_count", c, id).map_or(0, |v| v.1);
                    run.step("count", cnt == 2);
                    upd(&mut run, "session_update:replace", 1, &name, value2.as_bytes(), &tags, -1);
                    let miss = upd(&mut run, "session_update:replace-missing", 1, &absent, &value, &CS::null(), -1);
                    run.step("replace-missing", miss);
                    // keys
                    let (ed, gcm, k1n, k2n, meta) = (CS::new("ed25519"), CS::new("a256gcm"), CS::new("key-one"), CS::new("key-two"), CS::new("meta"));
                    let (mut k1, mut k2) = (NOKEY, NOKEY);
                    run.sync("key_from_secret_bytes", unsafe { askar_key_from_secret_bytes(ed.p(), bb(&keysec), &mut k1) });
                    run.sync("key_from_secret_bytes", unsafe { askar_key_from_secret_bytes(gcm.p(), bb(&keysec2), &mut k2) });
                    let id = new_cb_id();
                    let c = unsafe { askar_session_insert_key(se, k1, k1n.p(), meta.p(), tags.p(), -1, Some(cb_unit), id) };
                    run.wait("session_insert_key", c, id);
                    let id = new_cb_id();
                    let c = unsafe { askar_session_insert_key(se, k2, k2n.p(), std::ptr::null(), std::ptr::null(), -1, Some(cb_unit), id) };
                    run.wait("session_insert_key", c, id);
                    let id = new_cb_id();
                    let c = unsafe { askar_session_fetch_key(se, k1n.p(), 0, Some(cb_ptr), id) };
                    let mut key_ok = false;
                    if let Some(l) = run.wait("session_fetch_key", c, id) {
                        let l = P(l.1 as *const u8);
                        if !l.0.is_null() {
                            let mut lk = NOKEY;
                            if run.sync("key_entry_list_load_local", unsafe { askar_key_entry_list_load_local(l, 0, &mut lk) }) {
                                let mut sig = NOBUF;
                                if run.sync("key_sign_message", unsafe { askar_key_sign_message(lk, bb(b"msg"), std::ptr::null(), &mut sig) }) {
                                    key_ok = sig.len == 64;
                                    unsafe { askar_buffer_free(sig) };
                                }
                                // secret exports through the C API: the calls are logged (handle only), the results are not
                                let mut b = NOBUF;
                                if run.sync("key_get_secret_bytes", unsafe { askar_key_get_secret_bytes(lk, &mut b) }) {
                                    unsafe { askar_buffer_free(b) };
                                }
                                let mut b = NOBUF;
                                if run.sync("key_get_jwk_secret", unsafe { askar_key_get_jwk_secret(lk, &mut b) }) {
                                    unsafe { askar_buffer_free(b) };
                                }
                                unsafe { askar_key_free(lk) };
                            }
                            unsafe { askar_key_entry_list_free(l) };
                        }
                    }
                    run.step("key-ops", key_ok);
                    // AEAD through the C API, and a failing decryption
                    let nonce = [1u8; 12];
                    let mut enc = NOENC;
                    if run.sync("key_aead_encrypt", unsafe { askar_key_aead_encrypt(k2, bb(&value), bb(&nonce), bb(b""), &mut enc) }) {
                        let all = unsafe { std::slice::from_raw_parts(enc.buffer.data, enc.nonce_pos as usize) }.to_vec();
                        unsafe { askar_buffer_free(enc.buffer) };
                        let (ct, tg) = all.split_at(enc.tag_pos as usize);
                        let mut dec = NOBUF;
                        if run.sync("key_aead_decrypt", unsafe { askar_key_aead_decrypt(k2, bb(ct), bb(&nonce), bb(tg), bb(b""), &mut dec) }) {
                            unsafe { askar_buffer_free(dec) };
                        }
                        let mut dec = NOBUF;
                        let bad = run.sync("key_aead_decrypt:wrong-aad", unsafe { askar_key_aead_decrypt(k2, bb(ct), bb(&nonce), bb(tg), bb(b"x"), &mut dec) });
                        run.step("aead-wrong-aad", bad);
                    }
                    // failing key imports carrying key material
                    let mut bad = NOKEY;
                    let r = run.sync("key_from_secret_bytes:short", unsafe { askar_key_from_secret_bytes(ed.p(), bb(&keysec[..31]), &mut bad) });
                    run.step("key-import-short", r);
                    let jwk = format!("{{\"kty\":\"OKP\",\"crv\":\"Ed25519\",\"x\":\"AA\",\"d\":\"{}\"", b64(&keysec, true));
                    let r = run.sync("key_from_jwk:truncated", unsafe { askar_key_from_jwk(bb(jwk.as_bytes()), &mut bad) });
                    run.step("key-import-truncated-jwk", r);
                    let jwk = format!("{{\"kty\":\"OKP\",\"crv\":\"Ed25519\",\"x\":\"{}\",\"d\":\"{}\"}}", b64(&[7u8; 32], true), b64(&keysec, true));
                    let r = run.sync("key_from_jwk:mismatch", unsafe { askar_key_from_jwk(bb(jwk.as_bytes()), &mut bad) });
                    run.step("key-import-mismatched-jwk", r);
                    let id = new_cb_id();
                    let c = unsafe { askar_session_fetch_all_keys(se, ed.p(), std::ptr::null(), std::ptr::null(), -1, 0, Some(cb_ptr), id) };
                    let mut nkeys = 0i32;
                    if let Some(l) = run.wait("session_fetch_all_keys", c, id) {
                        let l = P(l.1 as *const u8);
                        if !l.0.is_null() {
                            unsafe { askar_key_entry_list_count(l, &mut nkeys) };
                            unsafe { askar_key_entry_list_free(l) };
                        }
                    }
                    run.step("fetch_all_keys", nkeys == 1);
                    let id = new_cb_id();
                    let c = unsafe { askar_session_remove_key(se, k2n.p(), Some(cb_unit), id) };
                    run.wait("session_remove_key", c, id);
                    unsafe { askar_key_free(k1) };
                    unsafe { askar_key_free(k2) };
                    let id = new_cb_id();
                    let c = unsafe { askar_session_close(se, 1, Some(cb_unit), id) };
                    run.wait("session_close", c, id);
                }
                // a transaction rolled back
                let id = new_cb_id();
                let c = unsafe { askar_session_start(st, std::ptr::null(), 1, Some(cb_handle), id) };
                if let Some(tx) = run.wait("session_start:txn", c, id) {
                    let tx = H(tx.1);
                    let intxn = CS::new("in-txn");
                    let id = new_cb_id();
                    let c = unsafe { askar_session_update(tx, 0, cat.p(), intxn.p(), bb(&value), tags.p(), -1, Some(cb_unit), id) };
                    run.wait("session_update:txn", c, id);
                    let id = new_cb_id();
                    let c = unsafe { askar_session_close(tx, 0, Some(cb_unit), id) };
                    run.wait("session_close:rollback", c, id);
                }
                // scan
                let id = new_cb_id();
                let c = unsafe { askar_scan_start(st, std::ptr::null(), cat.p(), filt.p(), -1, -1, std::ptr::null(), 0, Some(cb_handle), id) };
                let mut seen = 0usize;
                if let Some(sc) = run.wait("scan_start", c, id) {
                    let sc = H(sc.1);
                    loop {
                        let id = new_cb_id();
                        let c = unsafe { askar_scan_next(sc, Some(cb_ptr), id) };
                        match run.wait("scan_next", c, id) {
                            Some(l) if l.1 != 0 => seen += ffilog_entry_list(&mut run, l.1, false),
                            _ => break,
                        }
                    }
                    unsafe { askar_scan_free(sc) };
                }
                run.step("scan", seen == 2);
                let id = new_cb_id();
                let c = unsafe { askar_session_start(st, std::ptr::null(), 0, Some(cb_handle), id) };
                if let Some(se) = run.wait("session_start", c, id) {
                    let se = H(se.1);
                    let id = new_cb_id();
                    let c = unsafe { askar_session_update(se, 2, cat.p(), other.p(), bb(b""), std::ptr::null(), -1, Some(cb_unit), id) };
                    run.wait("session_update:remove", c, id);
                    let id = new_cb_id();
                    let c = unsafe { askar_session_remove_all(se, cat.p(), std::ptr::null(), Some(cb_i64), id) };
                    let n = run.wait("session_remove_all", c, id).map_or(99, |v| v.1);
                    run.step("remove_all", n == 1);
                    let id = new_cb_id();
                    let c = unsafe { askar_session_close(se, 1, Some(cb_unit), id) };
                    run.wait("session_close", c, id);
                }
                let (rawm, raw2c) = (CS::new("raw"), CS::new(&raw2));
                let id = new_cb_id();
                let c = unsafe { askar_store_rekey(st, rawm.p(), raw2c.p(), Some(cb_unit), id) };
                let rk = run.wait("store_rekey", c, id).is_some();
                run.step("rekey", rk);
                let id = new_cb_id();
                let c = unsafe { askar_store_close(st, Some(cb_unit), id) };
                run.wait("store_close", c, id);
                let id = new_cb_id();
                let c = unsafe { askar_store_open(uri.p(), rawm.p(), raw2c.p(), prof2.p(), Some(cb_handle), id) };
                let st2 = run.wait("store_open", c, id);
                run.step("open", st2.is_some());
                if let Some(st2) = st2 {
                    let id = new_cb_id();
                    let c = unsafe { askar_store_close(H(st2.1), Some(cb_unit), id) };
                    run.wait("store_close", c, id);
                }
                let id = new_cb_id();
                let c = unsafe { askar_store_open(uri.p(), method.p(), pass.p(), std::ptr::null(), Some(cb_handle), id) };
                let r = run.wait("store_open:old-key", c, id).is_some();
                run.step("open-old-key", r);
                let wrongc = CS::new(&wrong);
                let id = new_cb_id();
                let c = unsafe { askar_store_open(uri.p(), std::ptr::null(), wrongc.p(), std::ptr::null(), Some(cb_handle), id) };
                let r = run.wait("store_open:wrong-pass", c, id).is_some();
                run.step("open-wrong-pass", r);
                let missing = CS::new(&format!("{}-missing", uri_s));
                let id = new_cb_id();
                let c = unsafe { askar_store_open(missing.p(), std::ptr::null(), wrongc.p(), std::ptr::null(), Some(cb_handle), id) };
                let r = run.wait("store_open:missing", c, id).is_some();
                run.step("open-missing", r);
                let id = new_cb_id();
                let c = unsafe { askar_store_remove(uri.p(), Some(cb_i8), id) };
                let r = run.wait("store_remove", c, id).map_or(false, |v| v.1 == 1);
                run.step("remove", r);
            }
            rm_db(&path);
        }
        "uri" => {
            // every entry point x every credential-carrying URI that cannot connect, in one process
            let pw = format!("pw-{}", secret_word(seed, "uripw", 18));
            let pw_special = format!("p@s/{}", secret_word(seed, "uripw2", 14));
            let apw = format!("apw-{}", secret_word(seed, "adminpw", 18));
            let apw_special = special_word(seed, "adminpw2");
            let raw = b58(&secret_bytes(seed, "raw", 32));
            secrets.push(("uri password".into(), pw.clone().into_bytes()));
            secrets.push(("uri password (percent-decoded)".into(), pw_special.clone().into_bytes()));
            secrets.push(("uri admin_password".into(), apw.clone().into_bytes()));
            secrets.push(("uri admin_password (percent-decoded)".into(), apw_special.clone().into_bytes()));
            secrets.push(("raw store key (text)".into(), raw.clone().into_bytes()));
            let (rawm, rawc) = (CS::new("raw"), CS::new(&raw));
            for which in ["postgres", "postgres-encoded", "postgres-query-encoded", "postgres-adminpw-only", "sqlite-query-encoded", "unknown-scheme", "sqlite", "bad-percent"] {
                let uri_s = match which {
                    "postgres-query-encoded" => format!("postgres://user:{}@127.0.0.1:1/db?connect_timeout=1&admin_account=adm&admin_password={}", pw, pct(&apw_special)),
                    "sqlite-query-encoded" => format!("sqlite://user:{}@/nonexistent-dir-c20/x.db?admin_password={}&busy_timeout=1", pw, pct(&apw_special)),
                    "postgres" => format!("postgres://user:{}@127.0.0.1:1/db?connect_timeout=1&admin_account=adm&admin_password={}", pw, apw),
                    "postgres-encoded" => format!("postgres://user:{}@127.0.0.1:1/db?connect_timeout=1", pct(&pw_special)),
                    "postgres-adminpw-only" => format!("postgres://user:{}@127.0.0.1:1/db?connect_timeout=1&admin_password={}", pw, apw),
                    "postgres-adminpw-only-encoded" => format!("postgres://user:{}@127.0.0.1:1/db?admin_password={}&connect_timeout=1", pw, pct(&apw_special)),
                    "unknown-scheme" => format!("mysql://user:{}@db.example/db", pw),
                    "bad-percent" => format!("sqlite://user:{}@/nonexistent-dir-c20/x.db?admin_password={}%zz&x=%e9", pw, apw),
                    _ => format!("sqlite://user:{}@/nonexistent-dir-c20/x.db", pw),
                };
                let uri = CS::new(&uri_s);
                for entry in ["open", "provision", "remove"] {
                    let id = new_cb_id();
                    let ok = match entry {
                        "open" => {
                            let c = unsafe { askar_store_open(uri.p(), rawm.p(), rawc.p(), std::ptr::null(), Some(cb_handle), id) };
                            run.wait(&format!("store_open:{}", which), c, id).is_some()
                        }
                        "provision" => {
                            let c = unsafe { askar_store_provision(uri.p(), rawm.p(), rawc.p(), std::ptr::null(), 0, Some(cb_handle), id) };
                            run.wait(&format!("store_provision:{}", which), c, id).is_some()
                        }
                        _ => {
                            let c = unsafe { askar_store_remove(uri.p(), Some(cb_i8), id) };
                            run.wait(&format!("store_remove:{}", which), c, id).is_some()
                        }
                    };
                    run.step(&format!("{}-{}", entry, which), ok);
                }
            }
        }
        _ => return json!({"out": {"err": "setup", "msg": "unknown scenario"}, "oracle": [{"sig": format!("ffilog:{}:setup-failed", scenario)}], "feat": feat}),
    }
    let records: Vec<[String; 4]> = std::mem::take(&mut *FFI_RECORDS.lock().unwrap_or_else(|p| p.into_inner()));
    feat.insert("log-records".into(), json!(records.len()));
    feat.insert("ffi-error-json".into(), json!(run.texts.len()));
    let mut with_module = 0u64;
    let mut oracle: Vec<Value> = vec![];
    let mut leak = false;
    const FIELD: [&str; 4] = ["message", "target", "module_path", "file"];
    for rec in &records {
        if !rec[2].is_empty() && !rec[3].is_empty() {
            with_module += 1;
        }
        for (fi, text) in rec.iter().enumerate() {
            for (label, sec) in &secrets {
                let enc = find_secret(text, sec);
                if !enc.is_empty() {
                    leak = true;
                    let site = format!("{} {}", rec[1], rec[0].split(": ").next().unwrap_or("").chars().take(60).collect::<String>());
                    let sig = format!("ffilog:{}:{}:{}:record-holds-secret", label.replace(' ', "-"), FIELD[fi], site);
                    if !oracle.iter().any(|o| o["sig"] == sig) {
                        oracle.push(json!({"sig": sig, "scenario": scenario, "secret": label, "encodings": enc, "record": text.chars().take(500).collect::<String>()}));
                    }
                }
            }
        }
    }
    feat.insert("records-with-module-and-file".into(), json!(with_module));
    let mut json_leak = false;
    for t in &run.texts {
        for (label, sec) in &secrets {
            let enc = find_secret(t, sec);
            if !enc.is_empty() {
                json_leak = true;
                let sig = format!("ffilog:{}:error-json:{}:holds-secret", label.replace(' ', "-"), t.split(" -> ").next().unwrap_or(""));
                if !oracle.iter().any(|o| o["sig"] == sig) {
                    oracle.push(json!({"sig": sig, "scenario": scenario, "secret": label, "encodings": enc, "text": t.chars().take(500).collect::<String>()}));
                }
            }
        }
    }
    std::fs::remove_dir(format!("{}/askar-verif-c20-{}", std::env::temp_dir().display(), std::process::id())).ok();
    let steps_json: Vec<Value> = run.steps.iter().map(|(s, ok)| json!([s, ok])).collect();
    json!({"out": {"leak": leak, "error_json_leak": json_leak, "steps": steps_json}, "oracle": oracle, "feat": feat, "diag": {"errors": run.texts}})
}

/// parent side: one child process per case
fn exec_ffilog(case: &Value, _tag: &str) -> Value {
    use std::io::Write;
    use std::process::{Command, Stdio};
    let mut child_case = case.clone();
    child_case["kind"] = json!("c20:ffilog-child");
    let exe = match std::env::current_exe() {
        Ok(e) => e,
        Err(e) => return json!({"out": {"err": "child"}, "oracle": [{"sig": "ffilog:child:no-current-exe", "msg": e.to_string()}]}),
    };
    let mut child = match Command::new(exe).args(["exec", "--threads", "1"]).stdin(Stdio::piped()).stdout(Stdio::piped()).stderr(Stdio::null()).spawn() {
        Ok(c) => c,
        Err(e) => return json!({"out": {"err": "child"}, "oracle": [{"sig": "ffilog:child:spawn-failed", "msg": e.to_string()}]}),
    };
    if let Some(mut sin) = child.stdin.take() {
        writeln!(sin, "{}", child_case).ok();
    }
    let out = match child.wait_with_output() {
        Ok(o) => o,
        Err(e) => return json!({"out": {"err": "child"}, "oracle": [{"sig": "ffilog:child:wait-failed", "msg": e.to_string()}]}),
    };
    let text = String::from_utf8_lossy(&out.stdout);
    match text.lines().find(|l| !l.trim().is_empty()).and_then(|l| serde_json::from_str::<Value>(l).ok()) {
        Some(mut v) if out.status.success() => {
            if let Some(o) = v.as_object_mut() {
                o.remove("id");
            }
            v
        }
        _ => json!({"out": {"err": "child"}, "oracle": [{"sig": "ffilog:child:crashed-or-no-result", "status": format!("{:?}", out.status)}]}),
    }
}

// =================================================================================================
// generators

const BOUNDS: [usize; 36] = [0, 1, 2, 7, 8, 9, 15, 16, 17, 31, 32, 33, 47, 48, 49, 63, 64, 65, 95, 96, 127, 128, 129, 255, 256, 257, 511, 512, 513, 1023, 1024, 1025, 2047, 2048, 4096, 4097];
const BIG: [usize; 8] = [8191, 8192, 8193, 16385, 32767, 32769, 65536, 65537];

fn pick_size(r: &mut Rng, thorough: bool) -> usize {
    match r.below(10) {
        0..=4 => BOUNDS[r.below(21)],
        5..=6 => r.below(70),
        7..=8 => BOUNDS[r.below(BOUNDS.len())],
        _ => if thorough && r.chance(1, 3) { BIG[r.below(BIG.len())] } else { BOUNDS[r.below(BOUNDS.len())] },
    }
}

fn dspec(r: &mut Rng, n: usize) -> Value {
    json!({"s": r.below(128), "n": n})
}

fn gen_new(r: &mut Rng, thorough: bool) -> (Value, usize) {
    match r.below(10) {
        0..=2 => (json!({"op": "new", "ctor": "with_capacity", "n": pick_size(r, thorough)}), 0),
        3 => (json!({"op": "new", "ctor": "default"}), 0),
        4 => {
            let n = pick_size(r, thorough);
            (json!({"op": "new", "ctor": "new_with", "d": dspec(r, n)}), n)
        }
        _ => {
            let n = pick_size(r, thorough);
            let via = *r.pick(&["from_slice", "slice", "boxed", "vec", "from_slice_reserve", "vec", "from_slice_reserve"]);
            let extra = if via == "vec" || via == "from_slice_reserve" { *r.pick(&[0usize, 1, 2, 8, 16, 31, 32, 33, 100]) } else { 0 };
            (json!({"op": "new", "ctor": "from", "via": via, "d": dspec(r, n), "extra": extra}), n)
        }
    }
}

fn gen_buf_random(r: &mut Rng, id: String, thorough: bool) -> Value {
    let nops = 3 + r.below(if thorough { 45 } else { 28 });
    let mut ops: Vec<Value> = vec![];
    let mut lens: Vec<usize> = vec![];
    let limit = if thorough { 150_000 } else { 12_000 };
    for _ in 0..nops {
        if lens.is_empty() || (lens.len() < 4 && r.chance(1, 12)) {
            let (op, n) = gen_new(r, thorough);
            ops.push(op);
            lens.push(n);
            continue;
        }
        let i = r.below(lens.len());
        let len = lens[i];
        let w = r.below(100);
        match w {
            0..=24 => {
                // grow to exactly the next boundary, or by a picked amount
                let n = if r.chance(1, 2) {
                    let nexts: Vec<usize> = BOUNDS.iter().chain(if thorough { BIG.iter() } else { [].iter() }).cloned().filter(|b| *b > len).take(6).collect();
                    if nexts.is_empty() { r.below(40) } else { *r.pick(&nexts) - len }
                } else {
                    pick_size(r, thorough).min(2100)
                };
                if len + n > limit { continue; }
                let name = *r.pick(&["extend", "write", "bextend", "extend"]);
                ops.push(json!({"op": name, "i": i, "d": dspec(r, n)}));
                lens[i] = len + n;
            }
            25..=36 => {
                let n = pick_size(r, thorough).min(1100);
                if len + n > limit { continue; }
                let bad = r.chance(1, 14);
                let rp = r.below(len + 1);
                let pos = if bad { len + 1 + r.below(3) } else { *r.pick(&[0, len, len / 2, rp, len.saturating_sub(1)]) };
                ops.push(json!({"op": "insert", "i": i, "pos": pos, "d": dspec(r, n)}));
                if !bad { lens[i] = len + n; }
            }
            37..=46 => {
                let bad = r.chance(1, 10);
                let (s, e) = if bad {
                    if r.chance(1, 2) { (len / 2 + 1, len / 2) } else { (r.below(len + 1), len + 1 + r.below(3)) }
                } else {
                    let s = r.below(len + 1);
                    let e = s + r.below(len - s + 1);
                    *r.pick(&[(s, e), (0, len), (0, len / 2), (len / 2, len), (s, s)])
                };
                ops.push(json!({"op": "remove", "i": i, "s": s, "e": e}));
                if !(s > e || e > len) { lens[i] = len - (e - s); }
            }
            47..=58 => {
                let ps = pick_size(r, thorough);
                let n = *r.pick(&[ps, len + 1, len.saturating_sub(1), len, len * 2, len / 2, 0]);
                if n > limit { continue; }
                ops.push(json!({"op": "resize", "i": i, "n": n}));
                lens[i] = n;
            }
            59..=66 => { let ps = pick_size(r, thorough); ops.push(json!({"op": "reserve", "i": i, "n": *r.pick(&[0, 1, ps, len, len + 1])})) }
            67..=71 => { let ps = pick_size(r, thorough); ops.push(json!({"op": "ensure", "i": i, "n": *r.pick(&[0, 1, ps, len, len + 1, len * 2])})) }
            72..=77 => ops.push(json!({"op": "shrink", "i": i})),
            78..=80 => { ops.push(json!({"op": "clear", "i": i})); lens[i] = 0; }
            81..=82 => { ops.push(json!({"op": "ffi_free", "i": i})); lens.remove(i); }
            83..=88 => {
                if lens.len() < 5 { ops.push(json!({"op": "clone", "i": i})); lens.push(len); }
            }
            89..=93 => { ops.push(json!({"op": "drop", "i": i})); lens.remove(i); }
            94..=96 => { ops.push(json!({"op": "into_vec", "i": i})); lens.remove(i); }
            _ => { ops.push(json!({"op": "into_boxed", "i": i})); lens.remove(i); }
        }
    }
    json!({"kind": "c20:buf", "id": id, "ops": ops})
}

/// exhaustive-small: every (initial capacity, first length, second length) around the capacity boundaries
fn gen_buf_systematic(out: &mut Vec<Value>, thorough: bool) {
    let caps: &[usize] = if thorough { &[0, 1, 2, 7, 8, 9, 15, 16, 17, 31, 32, 33, 63, 64, 65, 100, 128] } else { &[0, 1, 8, 16, 31, 32, 33, 64] };
    for &c in caps {
        let firsts = [c.saturating_sub(1), c, c + 1];
        for (fi, &a) in firsts.iter().enumerate() {
            if fi > 0 && firsts[fi - 1] == a { continue; }
            let after = if a >= c && c > 0 { a.max(2 * c).max(32) } else if c == 0 { a.max(8) } else { c };
            let mut seconds = vec![0usize, 1, after.saturating_sub(a), after.saturating_sub(a) + 1, after.saturating_sub(a).saturating_sub(1)];
            seconds.sort();
            seconds.dedup();
            for &b in &seconds {
                let len = a + b;
                let ops = vec![
                    json!({"op": "new", "ctor": "with_capacity", "n": c}),
                    json!({"op": "extend", "i": 0, "d": {"s": 1, "n": a}}),
                    json!({"op": "write", "i": 0, "d": {"s": 2, "n": b}}),
                    json!({"op": "insert", "i": 0, "pos": len / 2, "d": {"s": 3, "n": 1}}),
                    json!({"op": "remove", "i": 0, "s": 0, "e": 1.min(len + 1)}),
                    json!({"op": "resize", "i": 0, "n": len + 1}),
                    json!({"op": "resize", "i": 0, "n": len / 2}),
                    json!({"op": "reserve", "i": 0, "n": 1}),
                    json!({"op": "clone", "i": 0}),
                    json!({"op": "shrink", "i": 0}),
                    json!({"op": "bextend", "i": 0, "d": {"s": 4, "n": 3}}),
                    json!({"op": "drop", "i": 1}),
                    json!({"op": "into_vec", "i": 0}),
                ];
                out.push(json!({"kind": "c20:buf", "id": format!("sys-{}-{}-{}", c, a, b), "ops": ops}));
            }
        }
    }
}

fn fmt_types() -> Vec<String> {
    let mut t: Vec<String> = ["SecretBytes", "ArrayKey", "PassKey", "Entry", "Options", "Options:query", "Options:query-special", "PostgresStoreOptions", "PostgresStoreOptions:query", "PostgresStoreOptions:query-special",
                              "Argon2", "BlsKeyGen", "RandomDet", "Encrypted", "KeyEntry", "Store", "Session",
                              "Error:secret_bytes_len", "Error:jwk_mismatch", "Error:jwk_garbage", "Error:bad_raw_key", "Error:wrong_pass_key", "Error:decrypt_bad_tag",
                              "Error:storage_garbage_file", "Error:top_garbage_file", "Error:storage_on_directory", "Error:storage_missing_dir", "Error:storage_unknown_scheme",
                              "Error:storage_bad_param", "Error:storage_kind_only", "Error:crypto_jwk_garbage", "Error:crypto_secret_len", "Error:crypto_bad_tag",
                              "SecretBytes:eq", "Scan", "Obs:SecretBytesAsHex", "Obs:EntryTagPlaintext", "Obs:EntryTagEncrypted", "Obs:EntryTags", "Obs:TagFilter"]
        .iter().map(|s| s.to_string()).collect();
    for (a, _) in ALGS.iter() {
        t.push(format!("Key:{}", a));
        t.push(format!("AnyKey:{}", a));
        t.push(format!("LocalKey:{}", a));
    }
    for a in ["ed25519", "x25519", "p256", "k256", "p384", "bls12381g1", "bls12381g2", "a256gcm"] {
        t.push(format!("JwkParts:{}", a));
    }
    t
}

fn log_scenarios() -> Vec<String> {
    let mut s = vec!["lifecycle:raw".to_string(), "lifecycle:argon".to_string()];
    for entry in ["open", "provision", "remove"] {
        for which in ["postgres", "postgres-encoded", "postgres-query-encoded", "postgres-adminpw-only", "postgres-adminpw-only-encoded",
                      "postgres-adminacct-only", "postgres-adminpw-twice", "sqlite-query-encoded", "unknown-scheme", "sqlite"] {
            s.push(format!("uri:{}/{}", entry, which));
        }
    }
    s
}

fn key_subjects() -> Vec<String> {
    let mut t = vec!["SecretBytes".to_string(), "PassKey".to_string(), "Store".to_string()];
    for (a, _) in ALGS.iter() {
        t.push(format!("LocalKey:{}", a));
        t.push(format!("AnyKey:{}", a));
    }
    t
}

/// generated cases for this property (each a JSON object with "kind": "c20:…")
pub fn gen(r: &mut Rng, thorough: bool, count: Option<usize>) -> Vec<Value> {
    let mut out = vec![];
    let diag = std::env::var("VERIF_C20_DIAG").map_or(false, |v| v == "1");
    gen_buf_systematic(&mut out, thorough);
    let nrand = count.unwrap_or(if thorough { 12_000 } else { 500 });
    for i in 0..nrand {
        let mut rr = r.fork();
        out.push(gen_buf_random(&mut rr, format!("buf-{}", i), thorough));
    }
    if diag {
        for c in out.iter_mut() {
            c["diag"] = json!(true);
        }
    }
    if count.is_some() {
        return out;
    }
    let reps = if thorough { 4 } else { 1 };
    for rep in 0..reps {
        for t in fmt_types() {
            if t.ends_with("query-special") {
                // one case per reserved character (the seed's last decimal digit selects it, see `special_word`)
                for j in 0..10u64 {
                    out.push(json!({"kind": "c20:fmt", "id": format!("fmt-{}-{}-{}", t, rep, j), "ty": t, "seed": (r.next() >> 12) / 10 * 10 + j}));
                }
                continue;
            }
            out.push(json!({"kind": "c20:fmt", "id": format!("fmt-{}-{}", t, rep), "ty": t, "seed": r.next() >> 12}));
        }
        for t in key_subjects() {
            out.push(json!({"kind": "c20:key", "id": format!("key-{}-{}", t, rep), "ty": t, "seed": r.next() >> 12}));
        }
    }
    for s in log_scenarios() {
        if s.ends_with("-query-encoded") {
            for j in [0u64, 1, 3, 9] {
                out.push(json!({"kind": "c20:log", "id": format!("log-{}-{}", s, j), "scenario": s, "seed": (r.next() >> 12) / 10 * 10 + j}));
            }
            continue;
        }
        out.push(json!({"kind": "c20:log", "id": format!("log-{}", s), "scenario": s, "seed": r.next() >> 12}));
    }
    // the C API: buffers under the allocator (c20:ffi), the C API's own logger in a child process (c20:ffilog)
    for rep in 0..reps {
        for (sub, n) in ffi_subjects(thorough) {
            out.push(json!({"kind": "c20:ffi", "id": format!("ffi-{}-{}-{}", sub, n, rep), "sub": sub, "n": n, "seed": r.next() >> 12}));
        }
    }
    for s in ["lifecycle:raw", "lifecycle:argon", "uri:all"] {
        for j in if s == "uri:all" { vec![1u64, 3, 9] } else { vec![0u64] } {
            out.push(json!({"kind": "c20:ffilog", "id": format!("ffilog-{}-{}", s, j), "scenario": s, "seed": (r.next() >> 12) / 10 * 10 + j}));
        }
    }
    out
}

/// (subject, message / value length) of the c20:ffi cases
fn ffi_subjects(thorough: bool) -> Vec<(String, usize)> {
    let mut v: Vec<(String, usize)> = vec![];
    for (a, _) in ALGS.iter() {
        v.push((format!("secret_bytes:{}", a), 0));
        v.push((format!("jwk_secret:{}", a), 0));
    }
    for a in ["ed25519", "x25519", "p256", "bls12381g1g2", "a256gcm"] {
        v.push((format!("public_bytes:{}", a), 0));
    }
    for a in ["ed25519", "k256", "p256", "p384", "x25519"] {
        v.push((format!("sign:{}", a), 40));
    }
    let sizes: &[usize] = if thorough { &[0, 1, 15, 16, 17, 31, 32, 33, 63, 64, 65, 255, 256, 1024, 4097] } else { &[0, 1, 16, 33, 64, 4097] };
    for a in ["a128gcm", "a256gcm", "a128cbchs256", "a256cbchs512", "c20p", "xc20p"] {
        for &n in sizes {
            v.push((format!("aead:{}", a), n));
        }
    }
    for a in ["a128kw", "a256kw"] {
        for &n in &[16usize, 24, 64] {
            v.push((format!("aead:{}", a), n));
        }
    }
    for a in ["a128gcm", "a256gcm", "a128cbchs256", "a256cbchs512", "c20p", "xc20p", "a128kw", "a256kw"] {
        v.push((format!("wrap:{}", a), 0));
        v.push((format!("wrap:{}", a), 1));
    }
    for a in ["x25519", "p256", "k256", "p384"] {
        v.push((format!("kex:{}", a), 0));
    }
    for &n in sizes {
        v.push(("seal:x25519".to_string(), n));
        v.push(("entry_value:sqlite".to_string(), n));
        v.push(("foreign:block".to_string(), n));
    }
    v.push(("null:default".to_string(), 0));
    v
}

/// run one case against the real code; returns {"out": …, "oracle": […], "feat": {…}}
pub fn exec(case: &Value, tag: &str) -> Value {
    match case["kind"].as_str().unwrap_or("") {
        "c20:buf" => exec_buf(case),
        "c20:fmt" => exec_fmt(case, tag),
        "c20:log" => exec_log(case, tag),
        "c20:key" => exec_key(case),
        "c20:ffi" => exec_ffi(case),
        "c20:ffilog" => exec_ffilog(case, tag),
        "c20:ffilog-child" => exec_ffilog_child(case, tag),
        k => json!({"out": {"err": format!("unknown kind {}", k)}}),
    }
}
