/- Driver for `kind = "c14:…"` cases: runs the model `Askar.Jwk` (configuration `Cfg.current`). -/
import Driver.Common
import AskarModel.Model.Jwk
import AskarModel.Crypto.Ec
import AskarModel.Crypto.Ed25519
import AskarModel.Crypto.X25519
import AskarModel.Crypto.Sha2

open Lean Askar Askar.Jwk

namespace Driver.C14

def algOfName (s : String) : Option Alg := Alg.all.find? fun a => a.name == s

def curveOf : Alg → Option Ec.Curve
  | .p256 => some Ec.p256
  | .p384 => some Ec.p384
  | .k256 => some Ec.k256
  | _ => none

def missing : Bytes := sb "MISSING-HINT"

/-- table lookup in the case's `prim` object: hex → some bytes, null → none (rejected), absent → a marker value -/
def hint (prim : Json) (key : String) : Option Bytes :=
  match prim.getObjVal? key with
  | .ok (.str s) => some ((Bytes.ofHex s).getD missing)
  | .ok .null => none
  | _ => some missing

/-- the curve operations: native arithmetic for the Weierstrass curves, the case's table (computed by the harness with the
    third-party crates through askar) for Ed25519 / X25519 / BLS12-381 -/
def prims (prim : Json) : Prims :=
  { pubOf := fun alg b =>
      match curveOf alg with
      | some c => c.pubOf b
      | none =>
        if alg = .blsG1G2 then
          match hint prim ("pub:bls12381g1:" ++ Bytes.toHex b), hint prim ("pub:bls12381g2:" ++ Bytes.toHex b) with
          | some p1, some p2 => some (p1 ++ p2)
          | _, _ => none
        else hint prim ("pub:" ++ alg.name ++ ":" ++ Bytes.toHex b)
    fromAffine := fun alg x y =>
      match curveOf alg with
      | some c => c.fromAffine x y
      | none => none
    decodePub := fun alg b =>
      match curveOf alg with
      | some c => c.fromSec1 b
      | none => hint prim ("dec:" ++ alg.name ++ ":" ++ Bytes.toHex b) }

/-- for the keypair and conversion cases Curve25519 is computed here as well (RFC 8032 / RFC 7748 specifications in
    `Crypto/Ed25519.lean`, `Crypto/X25519.lean`), not taken from the case's table: public key of an Ed25519 / X25519 secret and the
    validity of an Ed25519 public key (`VerifyingKey::from_bytes` = lenient decompression, the bytes are kept as given) -/
def nativePrims (P : Prims) : Prims :=
  { P with
    pubOf := fun alg b =>
      if alg = .ed25519 then some (Crypto.Ed25519.publicKey b)
      else if alg = .x25519 then some (Crypto.X25519.pubOf b)
      else P.pubOf alg b
    decodePub := fun alg b =>
      if alg = .ed25519 then (if Crypto.Ed25519.validPublic b then some b else none) else P.decodePub alg b }

/-- RFC 7748 §4.1: (u, v) = ((1+y)/(1-y), …) of the point that `decodeLenient` finds; 0 for y = 1 (inversion by Fermat: 0 ↦ 0) -/
def edToMontgomery (b : Bytes) : Option Bytes :=
  (Crypto.Ed25519.decodeLenient b).map fun pt =>
    let p := Crypto.Ed25519.p
    Crypto.Ed25519.natLE 32 ((1 + pt.y) % p * Crypto.Ed25519.finv (Crypto.Ed25519.fsub 1 pt.y) % p)

def convPrims : ConvPrims := { sha512 := Crypto.Sha2.sha512L, edToMontgomery := edToMontgomery }

def ascii (b : Bytes) : String := String.ofList (b.map fun c => Char.ofNat c.toNat)

def jres {α} (f : α → Json) : Res α → Json
  | .ok a => f a
  | .err e => jerr e.name
  | .panic _ => jerr "Panic"

def jopt (o : Option Bytes) : Json :=
  match o with
  | some b => jhex b
  | none => .null

def jparts (p : Parts) : Json :=
  Json.mkObj [("kty", jhex p.kty), ("kid", jopt p.kid), ("alg", jopt p.alg), ("crv", jopt p.crv), ("x", jopt p.x),
    ("y", jopt p.y), ("d", jopt p.d), ("k", jopt p.k),
    ("key_ops", match p.keyOps with | some n => jnat n | none => .null)]

def jtext (r : Res Bytes) : Json := jres (fun b => Json.str (ascii b)) r

def views (k : Key) (alg : Option Alg) : List (String × Json) :=
  [("jwk_public", jtext (toJwk k .publicKey alg)), ("thumb_pre", jtext (toJwk k .thumbprint alg))]

def jkey (k : Key) : Json :=
  Json.mkObj ([("alg", Json.str k.alg.name), ("secret", jres jhex (toSecretBytes k)), ("public", jres jhex (toPublicBytes k)),
    ("jwk_secret", jtext (toJwk k .secretKey none)), ("public_len", jres jnat (publicBytesLen k)),
    ("secret_len", jres jnat (secretBytesLen k))] ++ views k none
    ++ (if k.alg = .blsG1G2 then
          [("g1", Json.mkObj (views k (some .blsG1))), ("g2", Json.mkObj (views k (some .blsG2)))]
        else []))

def jvalOf (j : Json) : JVal :=
  match str! j "t" with
  | "str" => .str (hex! j "v")
  | "strarr" => .strArr ((arr! j "v").map fun x => (Bytes.ofHex (asStr x)).getD [])
  | "num" => .num
  | "bool" => .bool
  | "null" => .null
  | "arr" => .arr
  | _ => .obj

def membersOf (j : Json) : Option (List (Bytes × JVal)) :=
  match j.getObjVal? "members" with
  | .ok (.arr a) => some (a.toList.map fun m =>
      match m with
      | .arr #[k, v] => ((Bytes.ofHex (asStr k)).getD [], jvalOf v)
      | _ => ([], .null))
  | _ => none

def runCase (j : Json) : Json :=
  -- `"cfg": "fixed" | "pinned"` in a case overrides the configuration (used to validate the model of the repaired code
  -- against a patched build, and by seeded mutations); normal cases carry no such member
  let cfg := match strOpt j "cfg" with
    | some "fixed" => Cfg.fixed
    | some "pinned" => Cfg.pinned
    | _ => Cfg.current
  let kind := str! j "kind"
  let prim := (j.getObjVal? "prim").toOption.getD (Json.mkObj [])
  let P := prims prim
  if kind == "c14:b64" then
    jres (fun b => Json.mkObj [("ok", jhex b)]) (decodeBase64 (some (hex! j "hex")) (nat! j "n"))
  else if kind == "c14:parse" then
    let byteLevel := parseJwk cfg (hex! j "hex")
    let out := match byteLevel with
      | some p => Json.mkObj [("parts", jparts p)]
      | none => jerr "Invalid"
    match membersOf j with
    | some ms =>
      if visit cfg ms = byteLevel then out
      else Json.mkObj [("layer_mismatch", Json.mkObj [("bytes", out),
        ("tokens", match visit cfg ms with | some p => jparts p | none => jerr "Invalid")])]
    | none => out
  else if kind == "c14:jwk" then
    jres jkey (fromJwk cfg P (hex! j "hex"))
  else if kind == "c14:secret" then
    match algOfName (str! j "alg") with
    | some alg => jres jkey (fromSecretBytes cfg P alg (hex! j "bytes"))
    | none => jerr "unknown alg"
  else if kind == "c14:public" then
    match algOfName (str! j "alg") with
    | some alg => jres jkey (fromPublicBytes P alg (hex! j "bytes"))
    | none => jerr "unknown alg"
  else if kind == "c14:enc" || kind == "c14:convert" then
    let PN := if kind == "c14:convert" then nativePrims P else P
    let src : Res Key :=
      match (j.getObjVal? "jwk").toOption with
      | some (.str h) => fromJwk cfg PN ((Bytes.ofHex h).getD [])
      | _ =>
        match algOfName (str! j "alg") with
        | none => .err .unsupported
        | some alg =>
          match (j.getObjVal? "secret").toOption with
          | some (.str h) => fromSecretBytes cfg PN alg ((Bytes.ofHex h).getD [])
          | _ => fromPublicBytes PN alg (hex! j "public")
    match src with
    | .err e => Json.mkObj [("import_err", Json.str e.name)]
    | .panic _ => Json.mkObj [("import_err", Json.str "Panic")]
    | .ok k =>
      if kind == "c14:convert" then
        match algOfName (str! j "to") with
        | none => jerr "unknown alg"
        | some to => Json.mkObj [("conv", jres jkey (convertKey PN convPrims k to))]
      else
        let mode := match str! j "mode" with | "public" => Mode.publicKey | "secret" => Mode.secretKey | _ => Mode.thumbprint
        let view := (strOpt j "view").bind algOfName
        let ops := match (j.getObjVal? "ops").toOption with | some (.num n) => some n.mantissa.toNat | _ => none
        let kid := match (j.getObjVal? "kid").toOption with | some (.str h) => some ((Bytes.ofHex h).getD []) | _ => none
        -- `"bracket": true | false` in a case overrides the encoder variant (validation of the repaired model against a patched build)
        let bracket := match (j.getObjVal? "bracket").toOption with | some (.bool b) => b | _ => keyOpsBracketCurrent
        match toJwkWith bracket k mode view ops kid with
        | .ok t => Json.mkObj [("text", jhex t), ("parts", match parseJwk cfg t with
            | some p => Json.mkObj [("parts", jparts p)] | none => jerr "Invalid")]
        | .err e => jerr e.name
        | .panic _ => jerr "Panic"
  else if kind == "c14:typed" then
    match algOfName (str! j "type") with
    | none => jerr "unknown alg"
    | some alg =>
      jres (fun k => Json.mkObj [("alg", Json.str k.alg.name), ("secret", jres jhex (toSecretBytes k)),
        ("public", jres jhex (toPublicBytes k)), ("public_len", jres jnat (publicBytesLen k)),
        ("secret_len", jres jnat (secretBytesLen k))]) (fromJwkTyped cfg P alg (hex! j "hex"))
  else if kind == "c14:keypair" then
    match algOfName (str! j "alg") with
    | none => jerr "unknown alg"
    | some alg =>
      let PN := nativePrims P
      if str! j "op" == "to_public" then
        match fromPublicBytes PN alg (hex! j "bytes") with
        | .ok k => Json.mkObj [("keypair", jres jhex (toKeypairBytes k))]
        | .err e => Json.mkObj [("keypair", jerr e.name)]
        | .panic _ => Json.mkObj [("keypair", jerr "Panic")]
      else
        jres (fun k => Json.mkObj [("secret", jres jhex (toSecretBytes k)), ("public", jres jhex (toPublicBytes k)),
          ("keypair", jres jhex (toKeypairBytes k))]) (fromKeypairBytes cfg PN alg (hex! j "bytes"))
  else jerr ("unknown kind " ++ kind)

end Driver.C14
