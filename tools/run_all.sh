#!/bin/sh
# Runs every claimed check's quick (or given) tier on the current tree and prints one summary line each.
cd "$(dirname "$0")/.."
tier=${1:-quick}
rc=0
for p in $(python3 -c "import json;print(' '.join(c['property_id'] for c in json.load(open('MANIFEST.json'))['checks']))"); do
  out=$(./check $p --tier $tier 2>&1); r=$?
  echo "$out" | grep -E "^VIOLATION" 
  echo "$out" | tail -1
  [ $r -ne 0 ] && rc=1
done
exit $rc
