/-
C03, byte level — executable, total model of the decrypt paths of the storage layer:

* `askar-storage/src/protect/profile_key.rs`  `ProfileKeyImpl::{encrypt, encrypt_searchable, decrypt, derive_value_key,
                                               decrypt_entry_category/name/value, decrypt_entry_tags}`, `decode_utf8`
* `askar-storage/src/protect/store_key.rs`    `StoreKey::{wrap_data, unwrap_data}`     (defect D2: `&ciphertext[..12]` unchecked)
* `askar-storage/src/protect/mod.rs`          `KeyCache::load_key`                      (error re-mapping; panics re-raised by `unblock`)
* `askar-storage/src/backend/db_utils.rs`     `decode_tags`                             (byte for byte, explicit index arithmetic)
* `askar-crypto/src/alg/chacha20.rs`          `decrypt_in_place`                        (nonce / tag length checks, tag split)
* `askar-storage/src/error.rs`                `From<CryptoError>`                       (Invalid / InvalidNonce -> Input)

Every Rust slice / index / `from_slice` / `drain` carries its bounds check as an explicit `panic` outcome.
Third-party primitives are parameters: the detached ChaCha20-Poly1305 (`Aead`, idealised as `IdealAead`), the HMAC-based
derivation (`H`), `String::from_utf8` (`U`), the CBOR decoder of `ProfileKey::from_slice` (`parse`).  Core Lean only.
-/
import AskarModel.Base.Bytes
import AskarModel.Generated.Flags

namespace Askar.Decrypt

/-- **The one switch for defect D2** (`/verif/proposals/C03-D2.diff`).  `false` = current tree: `StoreKey::unwrap_data`
    slices `[..12]` without a length check.  Flip to `true` once the fix is applied (see `Props/C03.lean` for what to restate). -/
def unwrapChecksLength : Bool := Askar.Generated.Flags.unwrapChecksLength

/-- `askar_storage::ErrorKind` -/
inductive EK
  | Backend | Busy | Custom | Duplicate | Encryption | Input | NotFound | Unexpected | Unsupported
  deriving DecidableEq, Repr

def EK.name : EK → String
  | .Backend => "Backend" | .Busy => "Busy" | .Custom => "Custom" | .Duplicate => "Duplicate" | .Encryption => "Encryption"
  | .Input => "Input" | .NotFound => "NotFound" | .Unexpected => "Unexpected" | .Unsupported => "Unsupported"

inductive Res (α : Type) where
  | ok (a : α)
  | err (k : EK)
  | panic
  deriving DecidableEq, Repr

def Res.bind {α β : Type} : Res α → (α → Res β) → Res β
  | .ok a, f => f a
  | .err e, _ => .err e
  | .panic, _ => .panic

/-! ### Rust slice operations with their bounds checks -/

/-- `&b[..n]` -/
def sliceTo (b : Bytes) (n : Nat) : Res Bytes := if n ≤ b.length then .ok (b.take n) else .panic
/-- `&b[n..]` -/
def sliceFrom (b : Bytes) (n : Nat) : Res Bytes := if n ≤ b.length then .ok (b.drop n) else .panic
/-- `&b[lo..hi]` -/
def sliceRange (b : Bytes) (lo hi : Nat) : Res Bytes :=
  if lo ≤ hi ∧ hi ≤ b.length then .ok ((b.take hi).drop lo) else .panic
/-- `ArrayKey::<N>::from_slice(b)` / `GenericArray::clone_from_slice` (length assertion) -/
def fromSlice (b : Bytes) (n : Nat) : Res Bytes := if b.length = n then .ok b else .panic
/-- `SecretBytes::buffer_remove(0..n)` = `Vec::drain(0..n)` -/
def drainFront (b : Bytes) (n : Nat) : Res Bytes := if n ≤ b.length then .ok (b.drop n) else .panic

/-! ### the AEAD primitive (crate `chacha20poly1305`) as a parameter -/

/-- `enc key nonce aad msg` = ciphertext ‖ tag;  `dec key nonce aad (ciphertext ‖ tag)` -/
structure Aead where
  enc : Bytes → Bytes → Bytes → Bytes → Bytes
  dec : Bytes → Bytes → Bytes → Bytes → Option Bytes

/-- What the theorems use of the AEAD: correctness, the 16-byte tag, and `auth`: whatever decrypts under (k, n, a) IS the
    encryption of the returned message under (k, n, a).  For a scheme that recomputes the tag from (k, n, a, ciphertext) —
    ChaCha20-Poly1305 does — `auth` is an exact law, not an approximation (`toyAead` satisfies it).  The idealisation
    proper — what unforgeability promises only up to negligible probability — is made where bytes are classified:
    corrupted bytes are assumed to lie outside the range of `enc` under the keys in play (`Model/Tamper.lean`: `garbage`),
    and keys in play are `KeySeparatedOn`.  Both are named in the trusted base. -/
structure IdealAead (A : Aead) : Prop where
  enc_len : ∀ k n a m, (A.enc k n a m).length = m.length + 16
  dec_enc : ∀ k n a m, A.dec k n a (A.enc k n a m) = some m
  auth : ∀ k n a ct m, A.dec k n a ct = some m → ct = A.enc k n a m

/-- idealisation: among the keys in play (`S`), a ciphertext made under one key is rejected under any other
    (independent random keys).  Stated over a set of keys: over ALL byte strings it would contradict `enc_len` by counting. -/
def KeySeparatedOn (A : Aead) (S : Bytes → Prop) : Prop :=
  ∀ k k' n a m, S k → S k' → k ≠ k' → A.dec k' n a (A.enc k n a m) = none

/-- `Chacha20Key::<C20P>::decrypt_in_place(buffer, nonce, aad = [])`, error kinds already converted by
    `From<CryptoError> for Error` (`InvalidNonce`, `Invalid` -> `Input`; `Encryption` -> `Encryption`) -/
def c20pDecryptInPlace (A : Aead) (key buffer nonce : Bytes) : Res Bytes :=
  if nonce.length ≠ 12 then .err .Input
  else if buffer.length < 16 then .err .Input                           -- "Invalid size for encrypted data"
  else
    let tagStart := buffer.length - 16
    (sliceFrom buffer tagStart).bind fun t =>                           -- &buffer.as_ref()[tag_start..]
    (fromSlice t 16).bind fun _tag =>                                   -- tag.clone_from_slice(..)
    (sliceTo buffer tagStart).bind fun _ct =>                           -- &mut buffer.as_mut()[..tag_start]
    match A.dec key nonce [] buffer with
    | none => .err .Encryption                                          -- "AEAD decryption error"
    | some m => .ok m                                                   -- buffer_resize(tag_start)

/-! ### `ProfileKeyImpl`  (`protect/profile_key.rs`) -/

/-- `ProfileKeyImpl::encrypt` / `encrypt_searchable` with the nonce made explicit: nonce ‖ enc -/
def pkEncrypt (A : Aead) (key nonce msg : Bytes) : Bytes := nonce ++ A.enc key nonce [] msg

/-- `ProfileKeyImpl::decrypt` -/
def pkDecrypt (A : Aead) (ct key : Bytes) : Res Bytes :=
  if ct.length < 12 then .err .Encryption                               -- "invalid encrypted value"
  else
    (sliceTo ct 12).bind fun s =>                                       -- &buffer.as_ref()[..nonce_len]
    (fromSlice s 12).bind fun nonce =>                                  -- ArrayKey::from_slice
    (drainFront ct 12).bind fun body =>                                 -- buffer.buffer_remove(0..nonce_len)
    c20pDecryptInPlace A key body nonce

/-- the six keys of a profile (CBOR names ick ink ihk tnk tvk thk) -/
structure ProfileKey where
  ick : Bytes
  ink : Bytes
  ihk : Bytes
  tnk : Bytes
  tvk : Bytes
  thk : Bytes
  deriving DecidableEq, Repr

/-- the HMAC input of `derive_value_key`: be32 |category| ‖ category ‖ be32 |name| ‖ name  (`len() as u32` wraps) -/
def valueKeyInput (category name : Bytes) : Bytes :=
  Bytes.be32 category.length ++ category ++ Bytes.be32 name.length ++ name

/-- `derive_value_key`; `H key input` = the HMAC-SHA256 based `FromKeyDerivation` -/
def deriveValueKey (H : Bytes → Bytes → Bytes) (pk : ProfileKey) (category name : Bytes) : Bytes :=
  H pk.ihk (valueKeyInput category name)

/-- `encrypt_searchable`: the nonce is the first 12 bytes of `H hmac_key msg` -/
def encryptSearchable (A : Aead) (H : Bytes → Bytes → Bytes) (encKey hmacKey msg : Bytes) : Bytes :=
  pkEncrypt A encKey ((H hmacKey msg).take 12) msg

def encryptEntryCategory (A : Aead) (H : Bytes → Bytes → Bytes) (pk : ProfileKey) (c : Bytes) : Bytes := encryptSearchable A H pk.ick pk.ihk c
def encryptEntryName (A : Aead) (H : Bytes → Bytes → Bytes) (pk : ProfileKey) (n : Bytes) : Bytes := encryptSearchable A H pk.ink pk.ihk n
def encryptTagName (A : Aead) (H : Bytes → Bytes → Bytes) (pk : ProfileKey) (n : Bytes) : Bytes := encryptSearchable A H pk.tnk pk.thk n
def encryptTagValue (A : Aead) (H : Bytes → Bytes → Bytes) (pk : ProfileKey) (v : Bytes) : Bytes := encryptSearchable A H pk.tvk pk.thk v
/-- `encrypt_entry_value` with its random nonce made explicit -/
def encryptEntryValue (A : Aead) (H : Bytes → Bytes → Bytes) (pk : ProfileKey) (c n nonce v : Bytes) : Bytes :=
  pkEncrypt A (deriveValueKey H pk c n) nonce v

/-- `decode_utf8`: `String::from_utf8(..).map_err(Encryption)`; `U` = UTF-8 validity -/
def decodeUtf8 (U : Bytes → Bool) (b : Bytes) : Res Bytes := if U b then .ok b else .err .Encryption

def decryptEntryCategory (A : Aead) (U : Bytes → Bool) (pk : ProfileKey) (ct : Bytes) : Res Bytes :=
  (pkDecrypt A ct pk.ick).bind (decodeUtf8 U)
def decryptEntryName (A : Aead) (U : Bytes → Bool) (pk : ProfileKey) (ct : Bytes) : Res Bytes :=
  (pkDecrypt A ct pk.ink).bind (decodeUtf8 U)
def decryptEntryValue (A : Aead) (H : Bytes → Bytes → Bytes) (pk : ProfileKey) (c n ct : Bytes) : Res Bytes :=
  pkDecrypt A ct (deriveValueKey H pk c n)
def decryptTagName (A : Aead) (pk : ProfileKey) (ct : Bytes) : Res Bytes := pkDecrypt A ct pk.tnk
def decryptTagValue (A : Aead) (pk : ProfileKey) (ct : Bytes) : Res Bytes := pkDecrypt A ct pk.tvk

/-- `EncEntryTag` -/
structure EncTag where
  name : Bytes
  value : Bytes
  plaintext : Bool
  deriving DecidableEq, Repr

/-- `EntryTag` (`plaintext = true`: `Plaintext(name, value)`) -/
structure Tag where
  plaintext : Bool
  name : Bytes
  value : Bytes
  deriving DecidableEq, Repr

/-- one step of the `try_fold` of `decrypt_entry_tags` -/
def decryptEntryTag (A : Aead) (U : Bytes → Bool) (pk : ProfileKey) (t : EncTag) : Res Tag :=
  ((decryptTagName A pk t.name).bind (decodeUtf8 U)).bind fun name =>
  if t.plaintext then (decodeUtf8 U t.value).bind fun value => .ok ⟨true, name, value⟩
  else ((decryptTagValue A pk t.value).bind (decodeUtf8 U)).bind fun value => .ok ⟨false, name, value⟩

/-- `decrypt_entry_tags`: the first failure aborts -/
def decryptEntryTags (A : Aead) (U : Bytes → Bool) (pk : ProfileKey) : List EncTag → Res (List Tag)
  | [] => .ok []
  | t :: ts => (decryptEntryTag A U pk t).bind fun x => (decryptEntryTags A U pk ts).bind fun xs => .ok (x :: xs)

/-! ### `StoreKey::unwrap_data`, `KeyCache::load_key` -/

/-- `StoreKey::unwrap_data`; `storeKey = none` is the unprotected store.  `chk = false` is the current tree (D2):
    `&ciphertext[..12]` is evaluated without a length check. -/
def unwrapDataWith (chk : Bool) (A : Aead) (storeKey : Option Bytes) (ct : Bytes) : Res Bytes :=
  match storeKey with
  | none => .ok ct
  | some key =>
    if chk && decide (ct.length < 12) then .err .Encryption             -- the proposed check
    else
      (sliceTo ct 12).bind fun s =>                                     -- &ciphertext[..StoreKeyNonce::SIZE]   (D2)
      (fromSlice s 12).bind fun nonce =>                                -- StoreKeyNonce::from_slice
      (drainFront ct 12).bind fun body =>                               -- buffer.buffer_remove(0..SIZE)
      c20pDecryptInPlace A key body nonce

def unwrapData (A : Aead) (storeKey : Option Bytes) (ct : Bytes) : Res Bytes :=
  unwrapDataWith unwrapChecksLength A storeKey ct

/-- `KeyCache::load_key`: every unwrap error becomes `Encryption`; `ProfileKey::from_slice` failure is `Unsupported`;
    a panic inside the blocking task is re-raised by `unblock(..).await.expect(..)` -/
def loadKeyWith (chk : Bool) (A : Aead) (parse : Bytes → Option ProfileKey) (storeKey : Option Bytes) (ct : Bytes) : Res ProfileKey :=
  match unwrapDataWith chk A storeKey ct with
  | .ok d => match parse d with
    | some pk => .ok pk
    | none => .err .Unsupported
  | .err _ => .err .Encryption
  | .panic => .panic

def loadKey (A : Aead) (parse : Bytes → Option ProfileKey) (storeKey : Option Bytes) (ct : Bytes) : Res ProfileKey :=
  loadKeyWith unwrapChecksLength A parse storeKey ct

/-! ### `decode_tags`  (`backend/db_utils.rs`) -/

/-- value of one hex digit (crate `hex`: both cases) -/
def nibble (c : UInt8) : Option Nat :=
  if 0x30 ≤ c ∧ c ≤ 0x39 then some (c.toNat - 0x30)
  else if 0x61 ≤ c ∧ c ≤ 0x66 then some (c.toNat - 0x61 + 10)
  else if 0x41 ≤ c ∧ c ≤ 0x46 then some (c.toNat - 0x41 + 10)
  else none

/-- `hex::decode`: odd length or a non-hex character is an error -/
def hexDecode : Bytes → Option Bytes
  | [] => some []
  | [_] => none
  | a :: b :: rest =>
    match nibble a, nibble b, hexDecode rest with
    | some x, some y, some r => some (UInt8.ofNat (x * 16 + y) :: r)
    | _, _, _ => none

/-- the `if idx >= end || tags[idx] == b','` branch of the inner loop -/
def finishTag (tags : Bytes) (nameStart : Nat) (plaintext : Bool) (idx nameEnd : Nat) : Res (EncTag × Nat) :=
  if nameEnd = 0 then .err .Unexpected                                  -- return Err(())
  else
    (sliceRange tags nameStart nameEnd).bind fun nameHex =>             -- &tags[(name_start)..(name_end)]
    match hexDecode nameHex with
    | none => .err .Unexpected
    | some name =>
      (sliceRange tags (nameEnd + 1) idx).bind fun valueHex =>          -- &tags[(name_end + 1)..(idx)]
      match hexDecode valueHex with
      | none => .err .Unexpected
      | some value => .ok (⟨name, value, plaintext⟩, idx)

/-- the inner `loop` (state `idx`, `name_end`); returns the tag and the `idx` at `break`.
    Fuel exhaustion is reported as `panic` (and proved unreachable with the fuel `decodeTags` supplies). -/
def innerLoop (tags : Bytes) (end_ nameStart : Nat) (plaintext : Bool) : Nat → Nat → Nat → Res (EncTag × Nat)
  | 0, _, _ => .panic
  | fuel + 1, idx, nameEnd =>
    if idx ≥ end_ then finishTag tags nameStart plaintext idx nameEnd
    else match tags[idx]? with
      | none => .panic                                                  -- tags[idx]
      | some b =>
        if b = 0x2C then finishTag tags nameStart plaintext idx nameEnd -- b','
        else if b = 0x3A then                                           -- b':'
          if nameEnd ≠ 0 then .err .Unexpected
          else innerLoop tags end_ nameStart plaintext fuel (idx + 1) idx
        else innerLoop tags end_ nameStart plaintext fuel (idx + 1) nameEnd

/-- the outer `loop` -/
def outerLoop (tags : Bytes) (end_ : Nat) : Nat → Nat → List EncTag → Res (List EncTag)
  | 0, _, _ => .panic
  | fuel + 1, idx, acc =>
    if idx ≥ end_ then .ok acc
    else match tags[idx]? with
      | none => .panic                                                  -- tags[idx]
      | some b =>
        let plaintext : Bool := b = 0x31                                -- tags[idx] == b'1'
        match innerLoop tags end_ (idx + 2) plaintext (end_ + 2) (idx + 2) 0 with
        | .ok (t, idx') => outerLoop tags end_ fuel (idx' + 1) (acc ++ [t])
        | .err e => .err e
        | .panic => .panic

/-- `decode_tags`; `Err(())` is rendered as `Unexpected` (what both callers map it to) -/
def decodeTags (tags : Bytes) : Res (List EncTag) := outerLoop tags tags.length (tags.length + 1) 0 []

/-! what SQLite hands to `decode_tags`:
    `GROUP_CONCAT(it.plaintext || ':' || HEX(it.name) || ':' || HEX(it.value))`, NULL (no bytes) for an item without tags -/

def hexUpperDigit (n : Nat) : UInt8 := if n < 10 then UInt8.ofNat (0x30 + n) else UInt8.ofNat (0x41 + (n - 10))

/-- SQLite `HEX()` -/
def hexUpper : Bytes → Bytes
  | [] => []
  | x :: xs => hexUpperDigit (x.toNat / 16) :: hexUpperDigit (x.toNat % 16) :: hexUpper xs

def tagText (t : EncTag) : Bytes :=
  (if t.plaintext then 0x31 else 0x30) :: 0x3A :: (hexUpper t.name ++ 0x3A :: hexUpper t.value)

def groupConcat : List EncTag → Bytes
  | [] => []
  | [t] => tagText t
  | t :: ts => tagText t ++ 0x2C :: groupConcat ts

/-! ### a toy ideal AEAD (non-vacuity of the hypotheses; witnesses) -/

def checksum (b : Bytes) : UInt8 := b.foldl (· ^^^ ·) 0

/-- toy AEAD: the "tag" is the first key byte followed by 15 copies of a checksum over key, nonce, aad and message;
    `dec` recomputes it.  It satisfies `IdealAead` and is `KeySeparatedOn` keys with distinct first bytes. -/
def toyTag (k n a m : Bytes) : Bytes := k.headD 0 :: List.replicate 15 (checksum (k ++ n ++ a ++ m))

def toyAead : Aead :=
  ⟨fun k n a m => m ++ toyTag k n a m,
   fun k n a ct =>
     if ct.length < 16 then none
     else
       let m := ct.take (ct.length - 16)
       if ct.drop (ct.length - 16) = toyTag k n a m then some m else none⟩

end Askar.Decrypt
