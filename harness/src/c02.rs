//! C02: generators and executor (see DESIGN.md section 4, C02).
use crate::rng::Rng;
use serde_json::{json, Value};

/// generated cases for this property (each a JSON object with "kind": "c02…")
pub fn gen(_r: &mut Rng, _thorough: bool, _count: Option<usize>) -> Vec<Value> {
    vec![]
}

/// run one case against the real code; returns {"out": …, "oracle": […], "feat": {…}}
pub fn exec(_case: &Value, _tag: &str) -> Value {
    json!({"out": {"err": "not implemented"}})
}
