/-
Model A′ of C08: what `open` / `provision` / `rekey` do when the thing at the store's path is NOT a store this code wrote.

  askar-storage/src/backend/sqlite/provision.rs:207-230  `open`: the pool error arms (SQLITE_CANTOPEN → NotFound, every other
                                                         database error → Backend)
  …/provision.rs:374-443                                 `open_db`: the loop over the `config` rows, the checks after it
  askar-storage/src/any.rs:165-176                       `AnyBackend::rekey`: `Arc::get_mut` — refused when the handle has clones
  askar-storage/src/protect/profile_key.rs:70-72         `ProfileKey::from_slice` = `serde_cbor::from_slice` into the derived
                                                         `Deserialize` (+ askar-crypto/src/buffer/array.rs `KeyVisitor::visit_bytes`)

Facts of SQLite / sqlx that the model takes as given (validated by the run, tools/propcfg/C08.py "assumptions"):
  * `SELECT name, value FROM config WHERE name IN (…)` yields the rows in NAME order (primary-key index), whatever their rowids;
  * sqlx decodes a NULL into `String` / `Vec<u8>` as the EMPTY text / blob (no error) and refuses a BLOB where a `String` is asked
    for (`ColumnDecode` → `Backend`);
  * a path that is missing or is a directory → SQLITE_CANTOPEN (14); a file of ≥ 1 byte that is not a database (random bytes, a cut or
    garbled header) → SQLITE_NOTADB / SQLITE_CORRUPT while the pool connects; a file of 0 bytes (SQLite takes a 1-byte file for
    an empty database as well) or a database without `config` (a foreign one included) → "no such table" from the first query,
    and `provision` initialises a store in it;
  * `db_err.code()` is `Some(..)` for every `SqliteError` (sqlx-sqlite 0.7 error.rs:71): the `.expect("Expected SQLite error code")`
    in front of the CANTOPEN test cannot fire — there is no panic outcome to model.
-/
import AskarModel.Model.Keys
import AskarModel.Crypto.Cbor

namespace Askar.Keys
open Askar.Uri (Str)

/-! ### the `config` rows as `open_db` meets them -/

/-- one `value` cell of `config` -/
inductive Cell
  | missing               -- no row of that name
  | text (s : Str)        -- TEXT; a NULL is read as the empty text (`Cell.null`)
  | blob                  -- a BLOB: `row.try_get::<String>` fails
  deriving DecidableEq, Repr, Inhabited

/-- NULL: sqlx hands out `""` -/
def Cell.null : Cell := .text []

structure Config where
  defaultProfile : Cell
  key : Cell
  version : Cell
  deriving DecidableEq, Repr, Inhabited

def sOne : Str := [0x31]                                                -- "1"

/-- the configuration `init_db` writes -/
def Config.ofStore {C : Crypto} {I : Type} (st : Store C I) : Config :=
  { defaultProfile := .text st.defaultProfile, key := .text st.keyRef, version := .text sOne }

def Cell.isBlob : Cell → Bool
  | .blob => true
  | _ => false

def Cell.text? : Cell → Option Str
  | .text s => some s
  | _ => none

/-- The loop over the rows — visited as default_profile, key, version; `version ≠ "1"` returns from inside the loop, so a
    cell that does not decode in an EARLIER row wins over it — and the three checks after the loop, in the order of the code.
    Result: (profile to activate, key reference text). -/
def readConfig (cfg : Config) (profile : Option Str) : Except Err (Str × Str) :=
  if cfg.defaultProfile.isBlob then .error .backend
  else if cfg.key.isBlob then .error .backend
  else
    match cfg.version with
    | .blob => .error .backend
    | .missing => .error .unsupported                     -- "Store version not found"
    | .text v =>
      if v ≠ sOne then .error .unsupported                -- "Unsupported store version"
      else
        match (match profile with | some p => some p | none => cfg.defaultProfile.text?) with
        | none => .error .unsupported                     -- "Default store profile not found"
        | some p =>
          match cfg.key.text? with
          | none => .error .unsupported                   -- "Store key not found"
          | some k => .ok (p, k)

/-- `open_db` on arbitrary `config` rows: `readConfig`, then exactly the tail that `Keys.openDb` models -/
def openCfg {I : Type} (C : Crypto) (cfg : Config) (profiles : List (Str × C.Blob)) (items : I)
    (method : Option Method) (pass : PassKey) (profile : Option Str) : Except Err (Handle C) :=
  match readConfig cfg profile with
  | .error e => .error e
  | .ok (p, k) => openDb C { keyRef := k, defaultProfile := p, profiles := profiles, items := items } method pass (some p)

/-! ### what can be found at the path -/

inductive Disk (C : Crypto) (I : Type)
  | absent                                  -- nothing
  | dir                                     -- a directory
  | notDb                                   -- ≥ 1 byte, not an SQLite database
  | noTables                                -- 0 bytes, or a database without the `config` table
  | db (cfg : Config) (profiles : List (Str × C.Blob)) (items : I)

def Disk.ofFs {C : Crypto} {I : Type} : Fs C I → Disk C I
  | .absent => .absent
  | .empty => .noTables
  | .store st => .db (Config.ofStore st) st.profiles st.items

/-- `SqliteStoreOptions::open` on whatever is there.  The first component is the disk afterwards. -/
def openDisk {I : Type} (C : Crypto) (d : Disk C I) (method : Option Method) (pass : PassKey) (profile : Option Str) :
    Disk C I × Except Err (Handle C) :=
  (d, match d with
      | .absent => .error .notFound                -- SQLITE_CANTOPEN → "The requested database path was not found"
      | .dir => .error .notFound                   -- SQLITE_CANTOPEN as well
      | .notDb => .error .backend                  -- "Error connecting to database pool"
      | .noTables => .error .backend               -- "Error fetching store configuration" (no such table)
      | .db cfg ps it => openCfg C cfg ps it method pass profile)

/-- `SqliteStoreOptions::provision(…, recreate = false)` on whatever is there: a `config` table means `open_db` with the method
    check; a directory or a non-database cannot be turned into a pool (`Backend`, "Error creating database pool"); nothing /
    an empty database is initialised (`Keys.createStore`). -/
def provisionDisk {I : Type} (C : Crypto) (noItems : I) (d : Disk C I) (m : Method) (pass : PassKey) (profile : Option Str)
    (rnd : Rnd C) : Disk C I × Except Err (Handle C) :=
  match d with
  | .dir => (d, .error .backend)
  | .notDb => (d, .error .backend)
  | .db cfg ps it => (d, openCfg C cfg ps it (some m) pass profile)
  | .absent | .noTables =>
    let r := createStore C noItems m pass profile rnd
    (Disk.ofFs r.1, r.2)

/-! ### re-key through a shared handle -/

/-- `AnyBackend::rekey`: `Arc::get_mut(&mut self.0)` is `None` as soon as a clone of the handle is alive (`refs` = strong count);
    `err_msg!("Cannot re-key a store with multiple references")` has no kind argument = `Input`. -/
def rekeyAny {I : Type} (refs : Nat) (C : Crypto) (st : Store C I) (h : Handle C) (m : Method) (pass : PassKey) (rnd : Rnd C) :
    Store C I × Except Err (Handle C) :=
  if refs = 1 then rekey C st h m pass rnd else (st, .error .input)

/-! ### the profile-key record (`ProfileKey::from_slice`) -/

open Askar.Crypto in
/-- the six keys, in the order of the struct: ick ink ihk tnk tvk thk -/
structure PkRecord where
  ick : Bytes
  ink : Bytes
  ihk : Bytes
  tnk : Bytes
  tvk : Bytes
  thk : Bytes
  deriving DecidableEq, Repr

def nIck : Bytes := [0x69, 0x63, 0x6B]
def nInk : Bytes := [0x69, 0x6E, 0x6B]
def nIhk : Bytes := [0x69, 0x68, 0x6B]
def nTnk : Bytes := [0x74, 0x6E, 0x6B]
def nTvk : Bytes := [0x74, 0x76, 0x6B]
def nThk : Bytes := [0x74, 0x68, 0x6B]
def nVer : Bytes := [0x76, 0x65, 0x72]

open Askar.Crypto in
/-- one struct field out of the decoded map, as the derived `visit_map` + `KeyVisitor::visit_bytes` take it: the name must occur
    exactly once (a second occurrence is serde's "duplicate field"), as a BYTE string (a text is "invalid type") of exactly
    32 bytes ("invalid length") -/
def pkMember (m : Cbor.Map) (name : Bytes) : Option Bytes :=
  match m.filter fun e => e.1 = name with
  | [(_, .bytes b)] => if b.length = 32 then some b else none
  | _ => none

open Askar.Crypto in
/-- the version test of a reader that checks `ver` (the suggestion in proposals/C08-profile-key-version.diff): a first pass deserialises
    `struct Version { ver: String }` — the member must occur exactly once and hold "1" (serde's `String` visitor takes a text or
    a byte string) -/
def pkVersionOk (m : Cbor.Map) : Bool :=
  match m.filter fun e => e.1 = nVer with
  | [(_, .text v)] => v = sOne
  | [(_, .bytes v)] => v = sOne
  | _ => false

open Askar.Crypto in
/-- `ProfileKey::from_slice`, on the CBOR subset of `Crypto/Cbor.lean` (one definite map, text names, text / byte-string values;
    everything else — other major types, indefinite lengths, trailing bytes, a cut-off item — is a decode error there as in
    serde_cbor).  Every failure is `Unsupported` ("Invalid profile key").
    `checkVer = false` is the code as it stands: `#[serde(tag = "ver", rename = "1")]` on a STRUCT only makes the serialiser write
    the member; the derived deserialiser treats `ver` like any unknown member and skips it. -/
def pkDecode (checkVer : Bool) (b : Bytes) : Except Err PkRecord :=
  match Cbor.decode b with
  | none => .error .unsupported
  | some m =>
    if checkVer && !pkVersionOk m then .error .unsupported
    else
      match pkMember m nIck, pkMember m nInk, pkMember m nIhk, pkMember m nTnk, pkMember m nTvk, pkMember m nThk with
      | some a, some b, some c, some d, some e, some f => .ok ⟨a, b, c, d, e, f⟩
      | _, _, _, _, _, _ => .error .unsupported

/-- Today's source does not look at the version member.  A constant, not a flag read from the source: that a record with
    another `ver` is read is an OBSERVATION (no property states what should happen), the run only counts it
    (`obs:pk:ver-not-checked:*`). -/
def profileKeyChecksVersion : Bool := false

/-- `ProfileKey::from_slice` of the current tree -/
def pkDecodeCurrent (b : Bytes) : Except Err PkRecord := pkDecode profileKeyChecksVersion b

open Askar.Crypto in
/-- what `ProfileKey::to_bytes` writes -/
def PkRecord.toCbor (k : PkRecord) : Bytes :=
  Cbor.encodeMap [(nVer, .text sOne), (nIck, .bytes k.ick), (nInk, .bytes k.ink), (nIhk, .bytes k.ihk),
                  (nTnk, .bytes k.tnk), (nTvk, .bytes k.tvk), (nThk, .bytes k.thk)]

/-- `KeyCache::load_key` with the unwrap step as a parameter (`none` = the AEAD refuses, or fewer than 12 bytes) -/
def loadKeyWith {K : Type} (unwrap : Option K → Bytes → Option Bytes) (checkVer : Bool) (sk : Option K) (blob : Bytes) :
    Except Err PkRecord :=
  match unwrap sk blob with
  | none => .error .encryption                   -- "Error decrypting profile key"
  | some plain => pkDecode checkVer plain

end Askar.Keys
