import Driver.C09
def main : IO Unit := Driver.mainLoop fun _ j => Driver.C09.runCase j
