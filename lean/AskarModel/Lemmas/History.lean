/-
Helper lemmas for C10 (Props/C10.lean): serializability of the lock-protocol model
(`TxStore` against `linearize`) and soundness of the history checker.
-/
import AskarModel.Model.History
import AskarModel.Lemmas.Session
namespace Askar.Store
namespace Lemmas

variable (like : Bytes → Bytes → Bool) (page : Nat) (now : Int)

/-! ### unfolding `runMulti` -/

theorem runMulti_cons_fst (db : Db) (s : Sess) (op : Op) (rest : List (Sess × Op)) :
    (runMulti like page now db ((s, op) :: rest)).1
      = (runMulti like page now (step like page now s db op).1 rest).1 := rfl

/-- a single-element `runMulti` is `Store.step` -/
theorem runMulti_single_fst (db : Db) (s : Sess) (op : Op) :
    (runMulti like page now db [(s, op)]).1 = (step like page now s db op).1 := rfl

theorem runMulti_append (db : Db) (a b : List (Sess × Op)) :
    (runMulti like page now db (a ++ b)).1
      = (runMulti like page now (runMulti like page now db a).1 b).1 := by
  induction a generalizing db with
  | nil => rfl
  | cons x a ih =>
    obtain ⟨s, op⟩ := x
    rw [List.cons_append, runMulti_cons_fst, runMulti_cons_fst]
    exact ih _

/-! ### serializability of the lock-protocol model -/

theorem model_serializable (st : TxStore)
    (pend : Option (Nat × List (Sess × Op))) (h : pendOk like page now st pend) (cs : List Call) :
    (TxStore.run like page now st cs).1.db = (runMulti like page now st.db (linearize pend cs)).1 := by
  induction cs generalizing st pend with
  | nil => cases pend <;> rfl
  | cons cl cs ih =>
    rw [run_cons_fst]
    cases pend with
    | none =>
      have hw : st.wtxn = none := h
      cases cl with
      | stmt i t s op =>
        cases t with
        | true =>
          obtain ⟨h1, _, h3⟩ := begin_takes_lock like page now st i s op hw
          have hp : pendOk like page now (TxStore.step like page now st (.stmt i true s op)).1
              (some (i, [(s, op)])) := by
            show _ = some (i, _)
            rw [h1, h3, runMulti_single_fst]
          rw [ih _ _ hp, h3]
          rfl
        | false =>
          obtain ⟨h1, _, _⟩ := plain_call_immediate like page now st i s op hw
          have hw' : (TxStore.step like page now st (.stmt i false s op)).1.wtxn = none := by
            simp [TxStore.step, hw]
          have hp : pendOk like page now (TxStore.step like page now st (.stmt i false s op)).1 none := hw'
          rw [ih _ _ hp, h1]
          rfl
      | commit j =>
        have hs : (TxStore.step like page now st (.commit j)).1 = st := by
          simp [TxStore.step, hw]
        rw [hs]
        exact ih st none h
      | rollback j =>
        have hs : (TxStore.step like page now st (.rollback j)).1 = st := by
          simp [TxStore.step, hw]
        rw [hs]
        exact ih st none h
    | some p =>
      obtain ⟨i, acc⟩ := p
      have hw : st.wtxn = some (i, (runMulti like page now st.db acc).1) := h
      cases cl with
      | stmt j t s op =>
        cases t with
        | true =>
          by_cases hij : i = j
          · subst hij
            rw [step_owner like page now st i _ hw]
            have hl : linearize (some (i, acc)) (Call.stmt i true s op :: cs)
                = linearize (some (i, acc ++ [(s, op)])) cs := by
              simp [linearize]
            rw [hl]
            refine ih _ (some (i, acc ++ [(s, op)])) ?_
            show _ = some (i, _)
            rw [runMulti_append, runMulti_single_fst]
          · have hji : j ≠ i := fun e => hij e.symm
            rw [step_other like page now st i _ hw j true s op (Or.inr hji)]
            have hl : linearize (some (i, acc)) (Call.stmt j true s op :: cs)
                = linearize (some (i, acc)) cs := by
              simp [linearize, hij]
            rw [hl]
            exact ih st (some (i, acc)) h
        | false =>
          rw [step_other like page now st i _ hw j false s op (Or.inl rfl)]
          exact ih st (some (i, acc)) h
      | commit j =>
        by_cases hij : i = j
        · subst hij
          have hs : (TxStore.step like page now st (.commit i)).1
              = { db := (runMulti like page now st.db acc).1, wtxn := none } := by
            simp [TxStore.step, hw]
          have hl : linearize (some (i, acc)) (Call.commit i :: cs) = acc ++ linearize none cs := by
            simp [linearize]
          rw [hs, hl, runMulti_append]
          exact ih { db := (runMulti like page now st.db acc).1, wtxn := none } none rfl
        · rw [step_commit_other like page now st i _ hw j hij]
          have hl : linearize (some (i, acc)) (Call.commit j :: cs) = linearize (some (i, acc)) cs := by
            simp [linearize, hij]
          rw [hl]
          exact ih st (some (i, acc)) h
      | rollback j =>
        by_cases hij : i = j
        · subst hij
          have hs : (TxStore.step like page now st (.rollback i)).1 = { st with wtxn := none } := by
            simp [TxStore.step, hw]
          have hl : linearize (some (i, acc)) (Call.rollback i :: cs) = linearize none cs := by
            simp [linearize]
          rw [hs, hl]
          exact ih { st with wtxn := none } none rfl
        · rw [step_rollback_other like page now st i _ hw j hij]
          have hl : linearize (some (i, acc)) (Call.rollback j :: cs) = linearize (some (i, acc)) cs := by
            simp [linearize, hij]
          rw [hl]
          exact ih st (some (i, acc)) h

theorem model_serializable_closed (db : Db) (cs : List Call) :
    (TxStore.run like page now { db := db } cs).1.db
      = (runMulti like page now db (linearize none cs)).1 :=
  model_serializable like page now { db := db } none rfl cs

theorem failed_call_no_effect (st : TxStore) (j : Nat) (t : Bool) (s : Sess) (op : Op)
    (h : st.lockedByOther j = true) (hw : t = true ∨ op.isWrite = true) :
    (TxStore.step like page now st (.stmt j t s op)).1 = st := by
  rw [blocked_call_no_effect like page now st j t s op h hw]

end Lemmas
end Askar.Store

namespace Askar.History
namespace Lemmas

/-! ### the history checker -/

theorem replay_cons_some {init st : State} {t : Txn} {ts : List Txn}
    (h : replay init (t :: ts) = some st) :
    t.readsOk init = true ∧ replay (t.apply init) ts = some st := by
  simp only [replay] at h
  by_cases hr : t.readsOk init = true
  · rw [if_pos hr] at h
    exact ⟨hr, h⟩
  · rw [if_neg hr] at h
    cases h

theorem readsOk_mem {t : Txn} {st : State} {k : String} {r : Int}
    (h : t.readsOk st = true) (hm : (k, r) ∈ t.reads) : get st k = some r := by
  unfold Txn.readsOk at h
  have := (List.all_eq_true.1 h) _ hm
  simpa using this

theorem checker_sound (keys : List String) (init : State) (txns : List Txn) (final : State)
    (h : accept keys init txns final = true) : Serializable keys init txns final := by
  unfold accept at h
  refine ⟨txns, List.Perm.refl _, ?_⟩
  cases hr : replay init txns with
  | none => rw [hr] at h; cases h
  | some st => rw [hr] at h; exact ⟨st, rfl, h⟩

theorem snapshot_sound (keys : List String) (init : State) (txns : List Txn) (snap : State)
    (h : snapshotOk keys init txns snap = true) :
    ∃ n st, replay init (txns.take n) = some st ∧ sameOn keys st snap = true := by
  unfold snapshotOk at h
  cases hv : get snap "ver" with
  | none => rw [hv] at h; cases h
  | some v =>
    rw [hv] at h
    by_cases hneg : v < 0
    · simp [hneg] at h
    · simp only [hneg, if_false] at h
      cases hr : replay init (txns.take v.toNat) with
      | none => rw [hr] at h; cases h
      | some st => rw [hr] at h; exact ⟨v.toNat, st, hr, h⟩

theorem no_lost_update (k : String) (init st : State) (txns : List Txn) (v0 : Int)
    (hinc : ∀ t ∈ txns, t.Increments k) (h0 : get init k = some v0) (hr : replay init txns = some st) :
    get st k = some (v0 + txns.length) := by
  induction txns generalizing init v0 with
  | nil =>
    have : init = st := by simpa [replay] using hr
    subst this
    simpa using h0
  | cons t ts ih =>
    obtain ⟨hok, hrest⟩ := replay_cons_some hr
    obtain ⟨r, hmem, hwr⟩ := hinc t (List.mem_cons_self ..)
    have hget : get init k = some r := readsOk_mem hok hmem
    have hrv : r = v0 := by
      rw [h0] at hget
      exact (Option.some.inj hget).symm
    subst hrv
    have := ih (t.apply init) (r + 1) (fun t' ht' => hinc t' (List.mem_cons_of_mem _ ht')) (hwr init) hrest
    rw [this]
    congr 1
    simp only [List.length_cons]
    omega

theorem lost_update_rejected (k : String) (r : Int) (init : State) (t1 t2 : Txn)
    (h1 : (k, r) ∈ t1.reads) (h2 : (k, r) ∈ t2.reads)
    (w1 : ∀ st, get (t1.apply st) k = some (r + 1)) (w2 : ∀ st, get (t2.apply st) k = some (r + 1)) :
    replay init [t1, t2] = none ∧ replay init [t2, t1] = none := by
  have key : ∀ (a b : Txn), (k, r) ∈ b.reads → (∀ st, get (a.apply st) k = some (r + 1)) →
      replay init [a, b] = none := by
    intro a b hb wa
    cases hrp : replay init [a, b] with
    | none => rfl
    | some st =>
      obtain ⟨_, hrest⟩ := replay_cons_some hrp
      obtain ⟨hokb, _⟩ := replay_cons_some hrest
      have hget := readsOk_mem hokb hb
      rw [wa init] at hget
      have : r + 1 = r := Option.some.inj hget
      omega
  exact ⟨key t1 t2 h2 w1, key t2 t1 h1 w2⟩

end Lemmas
end Askar.History
