/-
Model A of C08: store keys and the store life cycle.

  askar-storage/src/protect/store_key.rs   StoreKeyMethod::{parse_uri, resolve}, StoreKeyReference::{parse_uri,
                                           compare_method, into_uri, resolve}, parse_raw_store_key
  askar-storage/src/protect/kdf/mod.rs     KdfMethod::{decode, encode, derive_new_key, derive_key}, parse_salt
  askar-storage/src/protect/kdf/argon2.rs  Level::{from_str, as_str}
  askar-storage/src/protect/pass_key.rs    PassKey (None / Some(str); `is_none`, deref to "" when None)
  askar-storage/src/backend/db_utils.rs    init_keys, encode_profile_key
  askar-storage/src/backend/sqlite/provision.rs   provision, open, open_db, init_db, remove
  askar-storage/src/backend/sqlite/mod.rs  rekey, create_profile, get/set_default_profile, list_profiles

Third-party primitives are parameters (`Crypto`): Argon2i (`kdf`), base58 + length check
(`rawKey`), and the ChaCha20-Poly1305 wrap of the CBOR profile key (`wrapPk` / `loadPk`, nonce random).
What they are assumed to satisfy is `Crypto.Laws` (decryptability, and the idealisation "a blob
sealed under one store key loads under no other").  Randomness (salt, nonce, fresh keys, the
uuid profile name) is an explicit argument `Rnd`.

The persistent state is the logical content of the SQLite file: `absent` (no file), `empty` (a
file without the `config` table: what a failed provisioning leaves behind), or a store with the
`config.key` text, `config.default_profile`, the `profiles` rows (name ↦ wrapped profile key) and
the items (never touched by the functions modelled here; type parameter).

Slices and panics: `StoreKey::unwrap_data` slices `ciphertext[..12]` unchecked (defect D2, property
C03); it is inside the abstract `loadPk` here, which is only ever applied to blobs produced by `wrapPk`
in the theorems.  Nothing else in the modelled code indexes.
-/
import AskarModel.Model.Uri

namespace Askar.Keys
open Askar.Uri (Str splitOnce)

/-- `ErrorKind` names of askar-storage -/
inductive Err | backend | busy | custom | duplicate | encryption | input | notFound | unexpected | unsupported
  deriving DecidableEq, Repr, Inhabited

def Err.name : Err → String
  | .backend => "Backend" | .busy => "Busy" | .custom => "Custom" | .duplicate => "Duplicate"
  | .encryption => "Encryption" | .input => "Input" | .notFound => "NotFound"
  | .unexpected => "Unexpected" | .unsupported => "Unsupported"

/-! ### constants (store_key.rs, kdf/mod.rs, kdf/argon2.rs) as ASCII bytes -/
def sKdf : Str := [0x6B, 0x64, 0x66]                                  -- "kdf"
def sRaw : Str := [0x72, 0x61, 0x77]                                  -- "raw"
def sNone : Str := [0x6E, 0x6F, 0x6E, 0x65]                           -- "none"
def sArgon2i : Str := [0x61, 0x72, 0x67, 0x6F, 0x6E, 0x32, 0x69]      -- "argon2i"
def sInt : Str := [0x69, 0x6E, 0x74]                                  -- "int"
def sMod : Str := [0x6D, 0x6F, 0x64]                                  -- "mod"
def sLevelInt : Str := [0x31, 0x33, 0x3A, 0x69, 0x6E, 0x74]           -- "13:int"
def sLevelMod : Str := [0x31, 0x33, 0x3A, 0x6D, 0x6F, 0x64]           -- "13:mod"
def sSalt : Str := [0x73, 0x61, 0x6C, 0x74]                           -- "salt"
def sSaltPrefix : Str := [0x3F, 0x73, 0x61, 0x6C, 0x74, 0x3D]         -- "?salt="

inductive Level | interactive | moderate
  deriving DecidableEq, Repr, Inhabited

/-- `Level::from_str` -/
def Level.fromStr (s : Str) : Option Level :=
  if s = sInt ∨ s = sLevelInt then some .interactive
  else if s = sMod ∨ s = sLevelMod then some .moderate
  else if s = [] then some .moderate      -- `Level::default()`
  else none

def Level.asStr : Level → Str
  | .interactive => sLevelInt
  | .moderate => sLevelMod

/-- `StoreKeyMethod` -/
inductive Method | kdf (l : Level) | raw | unprotected
  deriving DecidableEq, Repr, Inhabited

/-- `StoreKeyReference` -/
inductive KeyRef | kdf (l : Level) (detail : Str) | raw | unprotected
  deriving DecidableEq, Repr, Inhabited

/-- second half of `KdfMethod::decode`: the method name and the third piece of `splitn(3, ':')`,
    which is cut at its first `?` into level and detail -/
def kdfLevelDetail (method rest : Str) : Except Err (Level × Str) :=
  let ld := splitOnce 0x3F rest
  let detail := ld.2.getD []
  if method = sArgon2i then
    match Level.fromStr ld.1 with
    | some l => .ok (l, if detail.isEmpty then [] else 0x3F :: detail)
    | none => .error .unsupported
  else .error .unsupported

/-- `KdfMethod::decode` (`splitn(3, ':')`, then `splitn(2, '?')` on the third piece) -/
def kdfDecode (s : Str) : Except Err (Level × Str) :=
  let p1 := splitOnce 0x3A s
  if p1.1 = sKdf then
    let p2 : Str × Option Str := match p1.2 with
      | some r => splitOnce 0x3A r
      | none => ([], none)
    kdfLevelDetail p2.1 (p2.2.getD [])
  else .error .unsupported

/-- `KdfMethod::encode(Some(detail))` -/
def kdfEncode (l : Level) (detail : Str) : Str :=
  sKdf ++ [0x3A] ++ sArgon2i ++ [0x3A] ++ l.asStr ++ detail

/-- `StoreKeyMethod::parse_uri` -/
def Method.parse (uri : Str) : Except Err Method :=
  let prefix_ := (splitOnce 0x3A uri).1
  if prefix_ = sRaw then .ok .raw
  else if prefix_ = sKdf then (kdfDecode uri).map fun r => .kdf r.1
  else if prefix_ = sNone then .ok .unprotected
  else .error .unsupported

/-- `StoreKeyReference::parse_uri` -/
def KeyRef.parse (uri : Str) : Except Err KeyRef :=
  let prefix_ := (splitOnce 0x3A uri).1
  if prefix_ = sRaw then .ok .raw
  else if prefix_ = sKdf then (kdfDecode uri).map fun r => .kdf r.1 r.2
  else if prefix_ = sNone then .ok .unprotected
  else .error .unsupported

/-- `StoreKeyReference::into_uri` -/
def KeyRef.toUri : KeyRef → Str
  | .kdf l d => kdfEncode l d
  | .raw => sRaw
  | .unprotected => sNone

/-- `StoreKeyReference::compare_method` -/
def KeyRef.compareMethod : KeyRef → Method → Bool
  | .kdf l _, .kdf l' => l = l'
  | .raw, .raw => true
  | .unprotected, .unprotected => true
  | _, _ => false

/-- `From<StoreKeyReference> for StoreKeyMethod` -/
def KeyRef.method : KeyRef → Method
  | .kdf l _ => .kdf l
  | .raw => .raw
  | .unprotected => .unprotected

/-- the details `decode` can return and `derive_new_key` writes: empty, or `?` + something -/
def KeyRef.WF : KeyRef → Prop
  | .kdf _ d => d = [] ∨ ∃ b r, d = 0x3F :: b :: r
  | _ => True

/-- `PassKey`: `None` or `Some(text)`; `&*pass_key` is `""` for `None` -/
abbrev PassKey := Option Str
def PassKey.str (p : PassKey) : Str := p.getD []

/-! ### hex (the `hex` crate: `encode` lower-case, `decode_to_slice` either case, exact length) -/

def hexLow (n : Nat) : UInt8 := if n < 10 then UInt8.ofNat (0x30 + n) else UInt8.ofNat (0x57 + n)

def hexEncode (b : Bytes) : Str := b.flatMap fun x => [hexLow (x.toNat / 16), hexLow (x.toNat % 16)]

def hexDecode : Str → Option Bytes
  | [] => some []
  | [_] => none
  | h :: l :: rest =>
    match Uri.hexVal h, Uri.hexVal l, hexDecode rest with
    | some x, some y, some r => some (UInt8.ofNat (x * 16 + y) :: r)
    | _, _, _ => none

/-- `derive_new_key`: `format!("?salt={}", salt.as_hex())` -/
def saltDetail (salt : Bytes) : Str := sSaltPrefix ++ hexEncode salt

/-- `parse_salt::<U16>`: `Options::parse_uri(detail)?.query.get("salt")`, `hex::decode_to_slice` into 16 bytes -/
def parseSalt (detail : Str) : Except Err Bytes :=
  match Uri.mapGet (Uri.parseUri detail).query sSalt with
  | some s =>
    match hexDecode s with
    | some b => if b.length = 16 then .ok b else .error .input
    | none => .error .input
  | none => .error .input

/-! ### the primitives -/

structure Crypto where
  Key : Type
  PK : Type
  Blob : Type
  /-- Argon2i with the level's parameters: password bytes, 16-byte salt ↦ 32-byte key -/
  kdf : Level → Str → Bytes → Key
  /-- `parse_raw_store_key`: base58-decode onto 32 bytes and check the length (`none` = `Input` error) -/
  rawKey : Str → Option Key
  /-- `encode_profile_key`: CBOR of the profile key, wrapped under the store key (`None` = unprotected: stored as is) with a random nonce -/
  wrapPk : Option Key → Bytes → PK → Blob
  /-- `KeyCache::load_key`: unwrap (`Encryption` on failure) then `ProfileKey::from_slice` (`Unsupported`) -/
  loadPk : Option Key → Blob → Except Err PK

structure Crypto.Laws (C : Crypto) : Prop where
  /-- decryptability -/
  load_wrap : ∀ sk n pk, C.loadPk sk (C.wrapPk sk n pk) = .ok pk
  /-- idealisation of AEAD authenticity (and of "ciphertext is not a CBOR profile key"):
      a sealed blob loads under no other store key -/
  ideal : ∀ sk sk' n pk pk', C.loadPk sk' (C.wrapPk sk n pk) = .ok pk' → sk' = sk

/-- idealisations that turn "resolves to the same store key" into "is the same pass key":
    Argon2i and base58 decoding are injective (collision-free) -/
structure Crypto.Inj (C : Crypto) : Prop where
  kdf_inj : ∀ l p p' s, C.kdf l p s = C.kdf l p' s → p = p'
  raw_inj : ∀ s s' k, C.rawKey s = some k → C.rawKey s' = some k → s = s'

/-- the random choices one call may make -/
structure Rnd (C : Crypto) where
  salt : Bytes               -- `Level::generate_salt` (16 bytes)
  key : C.Key                -- `StoreKey::random`
  pk : C.PK                  -- `ProfileKey::new`
  nonce : Nat → Bytes        -- `StoreKeyNonce::random`, one per wrapped profile key
  profileName : Str          -- `random_profile_name` (uuid v4)

variable {C : Crypto}

/-- `StoreKeyMethod::resolve` -/
def Method.resolve (C : Crypto) (m : Method) (pass : PassKey) (rnd : Rnd C) : Except Err (Option C.Key × KeyRef) :=
  match m with
  | .kdf l =>
    if pass.isSome then .ok (some (C.kdf l pass.str rnd.salt), .kdf l (saltDetail rnd.salt))
    else .error .input
  | .raw =>
    if !pass.str.isEmpty then
      match C.rawKey pass.str with
      | some k => .ok (some k, .raw)
      | none => .error .input
    else .ok (some rnd.key, .raw)           -- a *random* key when the pass key is blank
  | .unprotected => .ok (none, .unprotected)

/-- `StoreKeyReference::resolve` -/
def KeyRef.resolve (C : Crypto) (r : KeyRef) (pass : PassKey) : Except Err (Option C.Key) :=
  match r with
  | .kdf l detail =>
    if pass.isSome then (parseSalt detail).map fun salt => some (C.kdf l pass.str salt)
    else .error .input
  | .raw =>
    if !pass.str.isEmpty then
      match C.rawKey pass.str with
      | some k => .ok (some k)
      | none => .error .input
    else .error .input
  | .unprotected => .ok none

/-- `init_keys`: (store key, key reference text, wrapped fresh profile key, profile key) -/
def initKeys (C : Crypto) (m : Method) (pass : PassKey) (rnd : Rnd C) :
    Except Err (Option C.Key × Str × C.Blob × C.PK) :=
  if m = .raw ∧ pass.str.isEmpty then .error .input      -- "Cannot create a store with a blank raw key"
  else
    match m.resolve C pass rnd with
    | .ok (sk, ref) => .ok (sk, ref.toUri, C.wrapPk sk (rnd.nonce 0) rnd.pk, rnd.pk)
    | .error e => .error e

/-! ### persistent state and handles -/

structure Store (C : Crypto) (I : Type) where
  keyRef : Str                          -- config 'key'
  defaultProfile : Str                  -- config 'default_profile'
  profiles : List (Str × C.Blob)        -- rows of `profiles` in id order
  items : I

inductive Fs (C : Crypto) (I : Type)
  | absent
  | empty                                -- file exists, no `config` table
  | store (st : Store C I)

/-- an open backend: the key cache's store key, the active profile and its key -/
structure Handle (C : Crypto) where
  storeKey : Option C.Key
  profile : Str
  pk : C.PK

def lookup {β : Type} (k : Str) : List (Str × β) → Option β
  | [] => none
  | (k', v) :: rest => if k' = k then some v else lookup k rest

/-- `if let Some(method) = method { if !wrap_ref.compare_method(&method) { … mismatch … } }` -/
def methodMismatch (ref : KeyRef) : Option Method → Bool
  | some m => !ref.compareMethod m
  | none => false

/-- `open_db` (the `version` row is always "1" in stores written by this code) -/
def openDb {I : Type} (C : Crypto) (st : Store C I) (method : Option Method) (pass : PassKey) (profile : Option Str) :
    Except Err (Handle C) :=
  let profile := profile.getD st.defaultProfile
  match KeyRef.parse st.keyRef with
  | .error e => .error e
  | .ok ref =>
    if methodMismatch ref method then .error .input          -- "Store key method mismatch"
    else
      match ref.resolve C pass with
      | .error e => .error e
      | .ok sk =>
        match lookup profile st.profiles with
        | none => .error .backend                       -- `fetch_one`: RowNotFound
        | some blob =>
          match C.loadPk sk blob with
          | .error e => .error e
          | .ok pk => .ok { storeKey := sk, profile := profile, pk := pk }

/-- `SqliteStoreOptions::open` -/
def openStore {I : Type} (C : Crypto) (fs : Fs C I) (method : Option Method) (pass : PassKey) (profile : Option Str) :
    Fs C I × Except Err (Handle C) :=
  match fs with
  | .absent => (fs, .error .notFound)                 -- SQLITE_CANTOPEN
  | .empty => (fs, .error .backend)                   -- no such table: config
  | .store st => (fs, openDb C st method pass profile)

/-- `init_db` on the file `pool(true)` has just created (or found without a `config` table):
    on an `init_keys` error the empty file stays behind -/
def createStore {I : Type} (C : Crypto) (noItems : I) (m : Method) (pass : PassKey) (profile : Option Str) (rnd : Rnd C) :
    Fs C I × Except Err (Handle C) :=
  let name := profile.getD rnd.profileName
  match initKeys C m pass rnd with
  | .error e => (.empty, .error e)
  | .ok r =>
    (.store { keyRef := r.2.1, defaultProfile := name, profiles := [(name, r.2.2.1)], items := noItems },
     .ok { storeKey := r.1, profile := name, pk := r.2.2.2 })

/-- `SqliteStoreOptions::provision`; `noItems` is the empty item table -/
def provision {I : Type} (C : Crypto) (noItems : I) (fs : Fs C I) (m : Method) (pass : PassKey) (profile : Option Str)
    (recreate : Bool) (rnd : Rnd C) : Fs C I × Except Err (Handle C) :=
  -- `try_remove_file` first, before anything is validated
  match (if recreate then Fs.absent else fs) with
  | .store st => (.store st, openDb C st (some m) pass profile)       -- config table found: `open_db`
  | _ => createStore C noItems m pass profile rnd

/-- wrapped keys re-wrapped under `sk'`: `load_key` with the handle's store key, `encode_profile_key` with the new one -/
def rewrap (C : Crypto) (sk sk' : Option C.Key) (nonce : Nat → Bytes) : Nat → List (Str × C.Blob) → Except Err (List (Str × C.Blob))
  | _, [] => .ok []
  | i, (name, blob) :: rest =>
    match C.loadPk sk blob with
    | .error e => .error e
    | .ok pk =>
      match rewrap C sk sk' nonce (i + 1) rest with
      | .error e => .error e
      | .ok rest' => .ok ((name, C.wrapPk sk' (nonce i) pk) :: rest')

/-- `SqliteBackend::rekey` (one transaction: all profile keys and the config row, or nothing).
    `guard` = the method/blank-pass-key check that precedes `resolve` (defect D25, fixed in 9124dcd:
    without it a blank raw pass key is answered by `StoreKey::random()`). -/
def rekeyG {I : Type} (guard : Bool) (C : Crypto) (st : Store C I) (h : Handle C) (m : Method) (pass : PassKey) (rnd : Rnd C) :
    Store C I × Except Err (Handle C) :=
  if guard = true ∧ m = .raw ∧ pass.str.isEmpty = true then (st, .error .input)   -- "Cannot re-key a store with a blank raw key"
  else
  match m.resolve C pass rnd with        -- `resolve`, not `init_keys`
  | .error e => (st, .error e)
  | .ok (sk', ref) =>
    match rewrap C h.storeKey sk' rnd.nonce 0 st.profiles with
    | .error e => (st, .error e)
    | .ok profiles' =>
      ({ st with profiles := profiles', keyRef := ref.toUri }, .ok { h with storeKey := sk' })

/-- whether the CURRENT source has the guard (tools/extract.py → `Generated.Flags.rekeyRefusesBlankRaw`) -/
def rekeyRefusesBlankRaw : Bool := Askar.Generated.Flags.rekeyRefusesBlankRaw

/-- `rekey` of the current tree -/
def rekey {I : Type} (C : Crypto) (st : Store C I) (h : Handle C) (m : Method) (pass : PassKey) (rnd : Rnd C) :
    Store C I × Except Err (Handle C) := rekeyG rekeyRefusesBlankRaw C st h m pass rnd

/-- `SqliteStoreOptions::remove` → `try_remove_file`: `true` iff a file was there -/
def removeStore {I : Type} (fs : Fs C I) : Fs C I × Bool :=
  match fs with
  | .absent => (.absent, false)
  | _ => (.absent, true)

/-- `create_profile(Some(name))` -/
def createProfile {I : Type} (C : Crypto) (st : Store C I) (h : Handle C) (name : Str) (rnd : Rnd C) : Store C I × Except Err Str :=
  match lookup name st.profiles with
  | some _ => (st, .error .duplicate)
  | none => ({ st with profiles := st.profiles ++ [(name, C.wrapPk h.storeKey (rnd.nonce 0) rnd.pk)] }, .ok name)

/-- `set_default_profile` (no existence check in the code) -/
def setDefaultProfile {I : Type} (st : Store C I) (name : Str) : Store C I := { st with defaultProfile := name }

/-- what a holder of store key `sk` reads out of the file: default profile, every profile with its
    unwrapped key, the items -/
def loadAll (C : Crypto) (sk : Option C.Key) : List (Str × C.Blob) → Except Err (List (Str × C.PK))
  | [] => .ok []
  | (name, blob) :: rest =>
    match C.loadPk sk blob with
    | .error e => .error e
    | .ok pk =>
      match loadAll C sk rest with
      | .error e => .error e
      | .ok r => .ok ((name, pk) :: r)

/-- every wrapped profile key of the store is sealed under `sk` (what provision / create_profile /
    rekey establish) -/
def SealedUnder {I : Type} (C : Crypto) (sk : Option C.Key) (st : Store C I) : Prop :=
  ∀ e ∈ st.profiles, ∃ n pk, e.2 = C.wrapPk sk n pk

/-! ### base58 (bs58 0.5, Bitcoin alphabet) for the executable instance -/

def b58Alphabet : Str :=
  "123456789ABCDEFGHJKLMNPQRSTUVWXYZabcdefghijkmnopqrstuvwxyz".toList.map fun c => UInt8.ofNat c.toNat

def b58Digit (b : UInt8) : Option Nat :=
  let i := b58Alphabet.findIdx (· = b)
  if i < 58 then some i else none

def beBytes : Nat → Nat → Bytes → Bytes
  | 0, _, acc => acc
  | fuel + 1, n, acc => if n = 0 then acc else beBytes fuel (n / 256) (UInt8.ofNat (n % 256) :: acc)

/-- `bs58::decode(s)`: `none` on a character outside the alphabet -/
def b58Decode (s : Str) : Option Bytes :=
  match s.mapM b58Digit with
  | none => none
  | some ds =>
    let zeros := (ds.takeWhile (· = 0)).length
    let v := ds.foldl (fun a d => a * 58 + d) 0
    some (List.replicate zeros 0 ++ beBytes s.length v [])

/-- `parse_raw_store_key` as a predicate on the text: decodes to exactly 32 bytes -/
def rawKeyBytes (s : Str) : Option Bytes :=
  match b58Decode s with
  | some b => if b.length = 32 then some b else none
  | none => none

end Askar.Keys
