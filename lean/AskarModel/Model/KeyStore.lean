/-
Model of the key-management layer of aries-askar (property C11):

* src/store.rs      `Session::{insert_key, fetch_key, fetch_all_keys, update_key, remove_key}`
* src/kms/entry.rs  `KeyParams` (CBOR {meta, ref, data}), `KeyEntry::from_entry`, accessors, `load_local_key`
* src/kms/local_key.rs `encode`, `to_jwk_thumbprints`, `algorithm`  (as the abstract `KeyOps`)

on top of the logical store model (`Model/Store.lean`): a key is one row of kind Kms (1), category
`cryptokey`, value = CBOR of `KeyParams`, tags `alg`, `thumb`* and the caller's tags under `user:`.

Third-party parts are parameters: the CBOR codec (`Cbor`, law: `dec (enc p) = some p`) and the key
material (`KeyOps K`: algorithm name, thumbprints, secret-JWK export, JWK import).

Two switches follow the code as it is NOW (see DESIGN.md section 5):
* `prefixAfterTilde = false` — `fetch_all_keys` prepends `user:` to the filter's names BEFORE the `~`
  plaintext marker is interpreted (defect D6);
* `symmetricJwkImport = false` — `from_jwk_any` has no `oct` branch (defect D15).
-/
import AskarModel.Model.Store
import AskarModel.Model.Spec
import AskarModel.Generated.Flags

namespace Askar.KeyStore
open Askar.Wql Askar.Store

/-- `EntryKind::Kms as i16` -/
def kmsKind : Kind := 1
/-- `KmsCategory::CryptoKey.as_str()` -/
def cryptoKey : String := "cryptokey"

/-- Does `fetch_all_keys` insert the `user:` prefix after a leading `~` of a filter name?
    Follows the code: no — `k.replace_range(0..0, "user:")` (defect D6).  Flip after the repair. -/
def prefixAfterTilde : Bool := Askar.Generated.Flags.keyFilterPrefixAfterTilde

/-- Does `from_jwk_any` import symmetric (`kty = oct`) JWKs?  Follows the code: no (defect D15). -/
def symmetricJwkImport : Bool := Askar.Generated.Flags.jwkOctImport

/-! ### Strings: the `user:` prefix -/

/-- `format!("user:{}", k)` -/
def addUser (k : String) : String := String.ofList ('u' :: 's' :: 'e' :: 'r' :: ':' :: k.toList)

/-- `name.starts_with("user:")` then `replace_range(0..5, "")` -/
def stripUser (n : String) : Option String :=
  match n.toList with
  | 'u' :: 's' :: 'e' :: 'r' :: ':' :: rest => some (String.ofList rest)
  | _ => none

/-- The closure passed to `map_names` in `fetch_all_keys`.  `fixed = false` is the code as it is:
    the prefix goes in front of everything, including a leading `~`.  `fixed = true` is the proposed
    repair (proposals/C11-D6.diff): the prefix goes after the marker. -/
def mapFilterName (fixed : Bool) (k : String) : String :=
  if fixed then
    match k.toList with
    | '~' :: rest => String.ofList ('~' :: 'u' :: 's' :: 'e' :: 'r' :: ':' :: rest)
    | _ => addUser k
  else addUser k

/-! ### `KeyParams` and its CBOR codec (serde_cbor, abstract) -/

/-- `KeyReference` -/
inductive KeyRef
  | mobileSecureElement
  | any (s : String)
  deriving DecidableEq, Repr, Inhabited

/-- `KeyParams { metadata, reference, data }` -/
structure KeyParams where
  «meta» : Option String
  ref : Option KeyRef
  data : Option Bytes
  deriving DecidableEq, Repr, Inhabited

/-- `KeyParams::to_bytes` / `KeyParams::from_slice` (serde_cbor).  Serialisation of this plain struct
    cannot fail; deserialisation of foreign bytes can. -/
structure Cbor where
  enc : KeyParams → Bytes
  dec : Bytes → Option KeyParams

/-- the round-trip law assumed of serde_cbor (exhibited by `Driver.C11.cbor`-style instances) -/
def Cbor.Lawful (C : Cbor) : Prop := ∀ p, C.dec (C.enc p) = some p

/-! ### Key material (askar-crypto, abstract) -/

/-- the eight symmetric algorithms (`KeyAlg::as_str`) -/
def symmetricAlgs : List String :=
  ["a128gcm", "a256gcm", "a128cbchs256", "a256cbchs512", "a128kw", "a256kw", "c20p", "xc20p"]

def isSymmetric (alg : String) : Bool := symmetricAlgs.contains alg

/-- can `from_jwk_any` dispatch a JWK of this algorithm? (`sym` = is there an `oct` branch) -/
def jwkImportable (sym : Bool) (alg : String) : Bool := sym || !isSymmetric alg

/-- What the KMS layer uses of a `LocalKey` / `Box<AnyKey>`. -/
structure KeyOps (K : Type) where
  /-- `key.algorithm().as_str()` -/
  alg : K → String
  /-- `key.to_jwk_thumbprints()` — two entries for BLS12-381 G1G2, one otherwise -/
  thumbs : K → Except Err (List String)
  /-- `key.encode()` = `to_jwk_secret(None)` -/
  encode : K → Except Err Bytes
  /-- `Box::<AnyKey>::from_jwk_slice` -/
  decode : Bytes → Except Err K
  /-- `KeyAlg::from_str(alg)` then `LocalKey::from_id(alg, id)` (hardware keys; unsupported in this build) -/
  fromId : String → String → Except Err K
  /-- `SecretBytes::as_opt_str`: the data as UTF-8 text -/
  asStr : Bytes → Option String

/-- What is assumed of the key codec (C14's subject): an exported key imports back to itself whenever
    `from_jwk_any` has a branch for its algorithm; and without an `oct` branch no import yields a
    symmetric key. -/
structure KeyOps.Lawful {K : Type} (sym : Bool) (O : KeyOps K) : Prop where
  decode_encode : ∀ k b, O.encode k = .ok b → jwkImportable sym (O.alg k) = true → O.decode b = .ok k
  no_oct : sym = false → ∀ b k, O.decode b = .ok k → isSymmetric (O.alg k) = false

/-! ### Tags written for a key -/

def userTag (t : Tag) : Tag := { t with name := addUser t.name }

/-- `if !alg.is_empty() { ins_tags.push(Encrypted("alg", alg)) }` -/
def algTags (alg : String) : List Tag := if alg.isEmpty then [] else [⟨false, "alg", alg⟩]

def thumbTag (t : String) : Tag := ⟨false, "thumb", t⟩

/-- the tag list `insert_key` builds -/
def keyTags (alg : String) (thumbs : List String) (user : List Tag) : List Tag :=
  algTags alg ++ thumbs.map thumbTag ++ user.map userTag

/-! ### `KeyEntry` -/

structure KeyEntry where
  name : String
  params : KeyParams
  alg : Option String
  thumbs : List String
  tags : List Tag
  deriving DecidableEq, Repr, Inhabited

/-- Rust `String: Ord` — bytewise on UTF-8 -/
def strLt (a b : String) : Bool := Bytes.lt (utf8 a) (utf8 b)

def strLe (a b : String) : Bool := !strLt b a

/-- derived `Ord` of `EntryTag`: `Encrypted < Plaintext`, then name, then value -/
def tagLe (a b : Tag) : Bool :=
  if a.plain != b.plain then !a.plain
  else if a.name != b.name then strLt a.name b.name
  else strLe a.value b.value

def insertSorted {α} (le : α → α → Bool) (x : α) : List α → List α
  | [] => [x]
  | y :: ys => if le x y then x :: y :: ys else y :: insertSorted le x ys

/-- `Vec::sort` (as a function: insertion sort) -/
def sortBy {α} (le : α → α → Bool) (l : List α) : List α := l.foldr (insertSorted le) []

def sortTags (l : List Tag) : List Tag := sortBy tagLe l
def sortStrs (l : List String) : List String := sortBy strLe l

/-- The loop of `KeyEntry::from_entry` over the row's tags: `user:` names are stripped and kept,
    `alg` (of either kind; the last one wins) and `thumb` are lifted out, anything else is dropped. -/
def liftTags : List Tag → Option String × List String × List Tag
  | [] => (none, [], [])
  | t :: ts =>
    let r := liftTags ts
    match stripUser t.name with
    | some n => (r.1, r.2.1, { t with name := n } :: r.2.2)
    | none =>
      if t.name == "alg" then ((match r.1 with | some a => some a | none => some t.value), r.2.1, r.2.2)
      else if t.name == "thumb" then (r.1, t.value :: r.2.1, r.2.2)
      else r

/-- `KeyEntry::from_entry` -/
def fromEntry (C : Cbor) (e : Entry) : Except Err KeyEntry :=
  match C.dec e.value with
  | none => .error .unexpected
  | some p =>
    let r := liftTags e.tags
    .ok ⟨e.name, p, r.1, sortStrs r.2.1, sortTags r.2.2⟩

/-- the `for row in rows { entries.push(KeyEntry::from_entry(row)?) }` loop -/
def fromEntries (C : Cbor) : List Entry → Except Err (List KeyEntry)
  | [] => .ok []
  | e :: es =>
    match fromEntry C e with
    | .error x => .error x
    | .ok k =>
      match fromEntries C es with
      | .error x => .error x
      | .ok ks => .ok (k :: ks)

/-- accessors -/
def KeyEntry.metadata (e : KeyEntry) : Option String := e.params.meta
def KeyEntry.isLocal (e : KeyEntry) : Bool := e.params.ref.isNone

/-- `KeyEntry::load_local_key` -/
def loadLocalKey {K : Type} (O : KeyOps K) (e : KeyEntry) : Except Err K :=
  match e.params.data with
  | none => .error .input                       -- "Missing key data"
  | some data =>
    match e.params.ref with
    | some .mobileSecureElement =>
      match O.asStr data with
      | none => .error .input                   -- "Could not convert key data to string for id"
      | some id =>
        match e.alg with
        | none => .error .input                 -- "Algorithm is required to get key by id"
        | some a => O.fromId a id
    | _ => O.decode data

/-! ### Session operations -/

section Ops
variable {K : Type} (C : Cbor) (O : KeyOps K)

/-- `Session::insert_key` -/
def insertKey (db : Db) (now : Int) (s : Sess) (name : String) (k : K) («meta» : Option String)
    (ref : Option KeyRef) (tags : Option (List Tag)) (expiryMs : Option Int) : Except Err Db :=
  match O.encode k with
  | .error e => .error e
  | .ok data =>
    let value := C.enc ⟨«meta», ref, some data⟩
    match O.thumbs k with
    | .error e => .error e
    | .ok ths =>
      doInsert db now s kmsKind cryptoKey name value (some (keyTags (O.alg k) ths (tags.getD []))) expiryMs

/-- `Session::fetch_key` -/
def fetchKey (db : Db) (now : Int) (s : Sess) (name : String) : Except Err (Option KeyEntry) :=
  match doFetch db now s kmsKind cryptoKey name with
  | none => .ok none
  | some row =>
    match fromEntry C row with
    | .error e => .error e
    | .ok k => .ok (some k)

/-- the filter `fetch_all_keys` hands to the backend -/
def keyFilter (fixed : Bool) (alg thumb : Option String) (f : Option (Query String)) : Option (Query String) :=
  let parts :=
    (match f with | some q => [q.mapNames (mapFilterName fixed)] | none => []) ++
    (match alg with | some a => [Query.cmp .eq "alg" a] | none => []) ++
    (match thumb with | some t => [Query.cmp .eq "thumb" t] | none => [])
  if parts.isEmpty then none else some (.and parts)

/-- `Session::fetch_all_keys` -/
def fetchAllKeys (like : Bytes → Bytes → Bool) (fixed : Bool) (db : Db) (now : Int) (s : Sess)
    (alg thumb : Option String) (f : Option (Query String)) (lim : Option Int) : Except Err (List KeyEntry) :=
  match doFetchAll like db now s (some kmsKind) (some cryptoKey) (keyFilter fixed alg thumb f) lim false with
  | .error e => .error e
  | .ok rows => fromEntries C rows

/-- `Session::remove_key` -/
def removeKey (db : Db) (s : Sess) (name : String) : Except Err Db :=
  doRemove db s kmsKind cryptoKey name

/-- `!t.name().starts_with("user:")` -/
def isSystemTag (t : Tag) : Bool := (stripUser t.name).isNone

/-- `Session::update_key` -/
def updateKey (db : Db) (now : Int) (s : Sess) (name : String) («meta» : Option String)
    (tags : Option (List Tag)) (expiryMs : Option Int) : Except Err Db :=
  match doFetch db now s kmsKind cryptoKey name with
  | none => .error .notFound
  | some row =>
    match C.dec row.value with
    | none => .error .unexpected
    | some p =>
      let value := C.enc { p with «meta» := «meta» }
      let upd := (tags.getD []).map userTag ++ row.tags.filter isSystemTag
      doReplace db now s kmsKind cryptoKey name value (some upd) expiryMs

/-! ### Call sequences -/

inductive KeyOp (K : Type)
  | insertKey (name : String) (k : K) («meta» : Option String) (ref : Option KeyRef) (tags : Option (List Tag)) (expiryMs : Option Int)
  | updateKey (name : String) («meta» : Option String) (tags : Option (List Tag)) (expiryMs : Option Int)
  | removeKey (name : String)
  | fetchKey (name : String)
  | fetchAllKeys (alg thumb : Option String) (f : Option (Query String)) (lim : Option Int)

inductive KeyOut
  | ok
  | err (e : Err)
  | entry (e : Option KeyEntry)
  | entries (es : List KeyEntry)
  deriving DecidableEq, Repr, Inhabited

def stepKey (like : Bytes → Bytes → Bool) (fixed : Bool) (now : Int) (s : Sess) (db : Db) : KeyOp K → Db × KeyOut
  | .insertKey n k m r t e =>
    match insertKey C O db now s n k m r t e with
    | .ok db' => (db', .ok)
    | .error x => (db, .err x)
  | .updateKey n m t e =>
    match updateKey C db now s n m t e with
    | .ok db' => (db', .ok)
    | .error x => (db, .err x)
  | .removeKey n =>
    match removeKey db s n with
    | .ok db' => (db', .ok)
    | .error x => (db, .err x)
  | .fetchKey n =>
    match fetchKey C db now s n with
    | .ok e => (db, .entry e)
    | .error x => (db, .err x)
  | .fetchAllKeys a t f lim =>
    match fetchAllKeys C like fixed db now s a t f lim with
    | .ok es => (db, .entries es)
    | .error x => (db, .err x)

def runKeys (like : Bytes → Bytes → Bool) (fixed : Bool) (now : Int) (s : Sess) : Db → List (KeyOp K) → Db × List KeyOut
  | db, [] => (db, [])
  | db, op :: ops =>
    let r := stepKey C O like fixed now s db op
    let r' := runKeys like fixed now s r.1 ops
    (r'.1, r.2 :: r'.2)

end Ops

/-! ### Reference (what the property text says `fetch_all_keys` returns) -/

/-- all live keys of the session's profile, as `KeyEntry`s, in creation order -/
def keyEntries (C : Cbor) (db : Db) (now : Int) (s : Sess) : List KeyEntry :=
  (db.items.filter fun it => it.inScope s.pid s.key (some kmsKind) (some cryptoKey) && live now it).filterMap
    fun it => match fromEntry C (toEntry it) with | .ok k => some k | .error _ => none

/-- "has that algorithm, has that thumbprint, and its USER tags satisfy the filter by the C04
    reference semantics" — on the entry as the caller sees it (names without prefix, both kinds). -/
def refMatch (like : Bytes → Bytes → Bool) (alg thumb : Option String) (f : Option (Query String)) (e : KeyEntry) : Bool :=
  (match alg with | some a => e.alg == some a | none => true) &&
  (match thumb with | some t => e.thumbs.contains t | none => true) &&
  (match f with | some q => holds like e.tags (tagQuery q) | none => true)

/-! ### Invariant of rows written through the key API -/

/-- the system tags `alg` / `thumb` of a row are encrypted tags, and all its `alg` tags agree
    (`insert_key` writes exactly one; `update_key` keeps what it finds) -/
structure SysTagsWF (tags : List Tag) : Prop where
  algEnc : ∀ t ∈ tags, t.name = "alg" → t.plain = false
  thumbEnc : ∀ t ∈ tags, t.name = "thumb" → t.plain = false
  oneAlg : ∀ t1 ∈ tags, ∀ t2 ∈ tags, t1.name = "alg" → t2.name = "alg" → t1.value = t2.value

/-- every key row of the session's profile was written by `insert_key` / `update_key` -/
def KeysWF (C : Cbor) (s : Sess) (db : Db) : Prop :=
  ∀ it ∈ db.items, it.pid = s.pid → it.kind = kmsKind → it.cat = cryptoKey →
    SysTagsWF it.tags ∧ ∃ p, C.dec it.value = some p

/-- the filter name does not carry the plaintext marker `~` -/
def encName (k : String) : Bool :=
  match k.toList with
  | '~' :: _ => false
  | _ => true

mutual
/-- every tag name mentioned by the filter satisfies `p` -/
def allNames {N : Type} (p : N → Bool) : Query N → Bool
  | .and qs => allNamesList p qs
  | .or qs => allNamesList p qs
  | .not q => allNames p q
  | .cmp _ n _ => p n
  | .isIn n _ => p n
  | .exist ns => ns.all p
def allNamesList {N : Type} (p : N → Bool) : List (Query N) → Bool
  | [] => true
  | q :: qs => allNames p q && allNamesList p qs
end

end Askar.KeyStore
