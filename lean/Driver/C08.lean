/- Driver for `kind = "c08"` (and `"c08:…"`) cases. -/
import Driver.Common

open Lean

namespace Driver.C08

def runCase (_j : Json) : Json := jerr "not implemented"

end Driver.C08
