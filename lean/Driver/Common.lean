/- JSON helpers for the line-protocol driver. -/
import Lean.Data.Json
import AskarModel.Base.Bytes

open Lean

namespace Driver

def getD? (j : Json) (k : String) : Option Json :=
  match j.getObjVal? k with
  | .ok .null => none
  | .ok v => some v
  | .error _ => none

def str! (j : Json) (k : String) : String :=
  match j.getObjVal? k with
  | .ok (.str s) => s
  | _ => ""

def strOpt (j : Json) (k : String) : Option String :=
  match getD? j k with
  | some (.str s) => some s
  | _ => none

def int! (j : Json) (k : String) : Int :=
  match j.getObjVal? k with
  | .ok v => (v.getInt?).toOption.getD 0
  | _ => 0

def intOpt (j : Json) (k : String) : Option Int :=
  match getD? j k with
  | some v => v.getInt?.toOption
  | none => none

def nat! (j : Json) (k : String) : Nat := (int! j k).toNat

def natOpt (j : Json) (k : String) : Option Nat := (intOpt j k).map Int.toNat

def bool! (j : Json) (k : String) : Bool :=
  match j.getObjVal? k with
  | .ok (.bool b) => b
  | _ => false

def arr! (j : Json) (k : String) : List Json :=
  match j.getObjVal? k with
  | .ok (.arr a) => a.toList
  | _ => []

def asArr (j : Json) : List Json :=
  match j with
  | .arr a => a.toList
  | _ => []

def asStr (j : Json) : String :=
  match j with
  | .str s => s
  | _ => ""

def hex! (j : Json) (k : String) : Askar.Bytes := (Askar.Bytes.ofHex (str! j k)).getD []

def jhex (b : Askar.Bytes) : Json := .str (Askar.Bytes.toHex b)

def jerr (name : String) : Json := Json.mkObj [("err", .str name)]

def jnat (n : Nat) : Json := .num (JsonNumber.fromNat n)
def jint (n : Int) : Json := .num (JsonNumber.fromInt n)

end Driver
