/- Helper lemmas for Props/C04SPg.lean: the dialect-parameterised `replaceGoD` against the token-level account,
   against the SQLite definitions of Model/WqlText.lean, and across the two dialects. -/
import AskarModel.Model.WqlTextPg
import AskarModel.Lemmas.WqlText

namespace Askar.Wql.Lemmas

/-! ### the SQLite instance IS the existing model -/

theorem placeholder_sqlite (i : Int) : Dialect.placeholder .sqlite i = placeholderChars i := rfl

theorem replaceGoD_sqlite (start : Int) (s : List Char) :
    ∀ (index : Int) (st : Scan), replaceGoD .sqlite start index st s = replaceGo start index st s := by
  induction s with
  | nil => intro index st; cases st <;> simp only [replaceGoD, replaceGo, placeholder_sqlite]
  | cons c cs ih => intro index st; cases st <;> simp only [replaceGoD, replaceGo, ih, placeholder_sqlite]

theorem replaceArgsD_sqlite (s : List Char) (start : Int) : replaceArgsD .sqlite s start = replaceArgs s start :=
  replaceGoD_sqlite start s start .text

theorem finalCharsD_sqlite (xs : List (String ⊕ Nat)) : finalCharsD .sqlite xs = finalChars xs := by
  simp only [finalCharsD, finalChars]
  congr 1

theorem finalStringD_sqlite (xs : List (String ⊕ Nat)) : finalStringD .sqlite xs = finalString xs := by
  rw [finalStringD, finalCharsD_sqlite, ← finalString_toList, String.ofList_toList]

theorem limitQueryD_sqlite (q : List Char) (nargs : Nat) (offset limit : Option Int) :
    (limitQueryD .sqlite q nargs offset limit).map (fun r => (r.1, r.2.1)) = limitQuery q nargs offset limit := by
  unfold limitQueryD limitQuery
  have e : Dialect.limitText .sqlite = " LIMIT $$, $$".toList := rfl
  by_cases h : (offset.isSome || limit.isSome) = true
  · rw [if_pos h, if_pos h, replaceArgsD_sqlite, Option.map_map, e]
    rfl
  · rw [if_neg h, if_neg h]
    rfl

theorem extendQueryD_sqlite (base : List Char) (nparams : Nat) (filter : Option (List Char × Nat))
    (offset limit : Option Int) (orderBy descending : Bool) :
    (extendQueryD .sqlite base nparams filter offset limit orderBy descending).map (fun r => (r.1, r.2.1))
      = extendQuery base nparams filter offset limit orderBy descending := by
  cases filter with
  | none =>
    simp only [extendQueryD, extendQuery]
    split
    · split
      · exact limitQueryD_sqlite _ _ _ _
      · rfl
    · rfl
  | some f =>
    obtain ⟨clause, k⟩ := f
    simp only [extendQueryD, extendQuery]
    split
    · split
      · exact limitQueryD_sqlite _ _ _ _
      · rfl
    · rfl

/-! ### the automaton on the three kinds of token, any dialect -/

section Go
variable (d : Dialect) (start : Int)

theorem goD_text (index : Int) (s rest : List Char) (h : s.contains '$' = false) :
    replaceGoD d start index .text (s ++ rest) = (replaceGoD d start index .text rest).map (s ++ ·) := by
  induction s with
  | nil => simp
  | cons c s ih =>
    have hc : c ≠ '$' := by
      intro hc; subst hc; simp at h
    have hs : s.contains '$' = false := by
      simp only [List.contains_cons, Bool.or_eq_false_iff] at h
      exact h.2
    simp only [List.cons_append, replaceGoD, hc, if_false, ih hs, Option.map_map]
    rfl

theorem goD_dd (index : Int) (rest : List Char) :
    replaceGoD d start index .text ('$' :: '$' :: rest)
      = (chk (index + 1)).bind fun i' => (replaceGoD d start i' .text rest).map (d.placeholder index ++ ·) := by
  simp [replaceGoD]

theorem goD_digits (index : Int) (ds more rest : List Char) (hmore : ∀ c ∈ more, c.isDigit = true) :
    replaceGoD d start index (.digits ds) (more ++ rest) = replaceGoD d start index (.digits (ds ++ more)) rest := by
  induction more generalizing ds with
  | nil => simp
  | cons c more ih =>
    have hc : c.isDigit = true := hmore c (by simp)
    simp only [List.cons_append, replaceGoD, hc, if_true]
    rw [ih (ds ++ [c]) (fun c' hc' => hmore c' (by simp [hc']))]
    simp

theorem goD_digits_end (index : Int) (ds rest : List Char) (hrest : startsDigit rest = false) :
    replaceGoD d start index (.digits ds) rest
      = (subIndex start ds).bind fun k => (chk (index + 1)).bind fun i' =>
          (replaceGoD d start i' .text rest).map (d.placeholder k ++ ·) := by
  cases rest with
  | nil =>
    simp only [replaceGoD]
    cases subIndex start ds <;> cases chk (index + 1) <;> simp
  | cons c cs =>
    have hc : c.isDigit = false := by simpa [startsDigit] using hrest
    simp only [replaceGoD, hc]
    by_cases h : c = '$'
    · subst h
      simp
    · simp [h]

theorem goD_num (index : Int) (n : Nat) (rest : List Char) (hrest : startsDigit rest = false) :
    replaceGoD d start index .text ('$' :: Nat.toDigits 10 n ++ rest)
      = (subIndex start (Nat.toDigits 10 n)).bind fun k => (chk (index + 1)).bind fun i' =>
          (replaceGoD d start i' .text rest).map (d.placeholder k ++ ·) := by
  obtain ⟨c, ds, hd⟩ := toDigits_cons n
  have hall := toDigits_all_digit n
  rw [hd] at hall ⊢
  have hdd : c.isDigit = true := hall c (by simp)
  have hne : c ≠ '$' := digit_ne_dollar hdd
  simp only [List.cons_append, replaceGoD, if_true, hne, if_false, hdd]
  rw [goD_digits d start index [c] ds rest (fun c' hc' => hall c' (by simp [hc'])),
    goD_digits_end d start index _ rest hrest]
  rfl

end Go

/-! ### the main lemma, with a running index, any dialect -/

theorem replaceGoD_tokens (d : Dialect) (start : Nat) (hs : 1 ≤ start) (ts : List Tok) :
    ∀ k : Nat, wfToks ts = true →
      (∀ n, Tok.ph (.num n) ∈ ts → (n : Int) + start ≤ i64Max) →
      (start : Int) + k + phCount ts ≤ i64Max →
      replaceGoD d start ((start : Int) + k) .text (toksChars ts) = some (finalCharsD d (replaceToks start k ts)) := by
  induction ts with
  | nil => intro k _ _ _; simp [toksChars, finalCharsD, replaceToks, replaceGoD]
  | cons t ts ih =>
    intro k hwf hnum hidx
    have hnum' : ∀ n, Tok.ph (.num n) ∈ ts → (n : Int) + start ≤ i64Max :=
      fun n hn => hnum n (by simp [hn])
    cases t with
    | text s =>
      simp only [wfToks, Bool.and_eq_true, Bool.not_eq_true'] at hwf
      simp only [phCount] at hidx
      have := ih k hwf.2 hnum' hidx
      simp only [toksChars_cons, Tok.chars]
      rw [goD_text _ _ _ _ _ hwf.1, this]
      simp [replaceToks, finalCharsD, finalPieceD]
    | ph p =>
      simp only [phCount] at hidx
      have hidx' : (start : Int) + (k + 1 : Nat) + phCount ts ≤ i64Max := by
        simp only [Int.natCast_add] at hidx ⊢; omega
      have hchk : chk ((start : Int) + k + 1) = some ((start : Int) + (k + 1 : Nat)) := by
        have e : (start : Int) + k + 1 = (start : Int) + (k + 1 : Nat) := by
          simp only [Int.natCast_add]; omega
        rw [e]
        exact chk_of_range (by omega) (by unfold i64Max at hidx' ⊢; omega)
      cases p with
      | dd =>
        simp only [wfToks] at hwf
        have := ih (k + 1) hwf hnum' hidx'
        simp only [toksChars_cons, Tok.chars, List.cons_append, List.nil_append]
        rw [goD_dd, hchk]
        simp only [Option.bind_some, this, Option.map_some]
        simp only [replaceToks, finalCharsD, List.flatMap_cons, finalPieceD, Dialect.placeholder]
        have : (start : Int) + k = ((start + k : Nat) : Int) := by simp
        rw [this]
        rfl
      | num n =>
        simp only [wfToks, Bool.and_eq_true, Bool.not_eq_true'] at hwf
        have := ih (k + 1) hwf.2 hnum' hidx'
        simp only [toksChars_cons, Tok.chars]
        rw [goD_num _ _ _ _ _ hwf.1, subIndex_toDigits start n hs (hnum n (by simp)), hchk]
        simp only [Option.bind_some, this, Option.map_some]
        simp only [replaceToks, finalCharsD, List.flatMap_cons, finalPieceD, Dialect.placeholder]
        rfl

theorem replaceArgsD_tokens_chars (d : Dialect) (ts : List Tok) (start : Nat) (hs : 1 ≤ start)
    (hwf : wfToks ts = true) (hno : NoOverflow start ts) :
    replaceArgsD d (toksChars ts) start = some (finalCharsD d (replaceToks start 0 ts)) := by
  have h := replaceGoD_tokens d start hs ts 0 hwf hno.1 (by simpa using hno.2)
  simpa only [replaceArgsD, Int.natCast_zero, Int.add_zero] using h

theorem replaceArgsD_tokens (d : Dialect) (ts : List Tok) (start : Nat) (hs : 1 ≤ start) (hwf : wfToks ts = true)
    (hno : NoOverflow start ts) :
    replaceArgsStrD d (toksString ts) start = some (finalStringD d (replaceToks start 0 ts)) := by
  simp only [replaceArgsStrD, toksString_toList, replaceArgsD_tokens_chars d ts start hs hwf hno, Option.map_some,
    finalStringD]

theorem encode_text_exactD (d : Dialect) (E : TagCrypto) (q : Query TagName) (c : Clause) (start : Nat)
    (hs : 1 ≤ start) (h : (encodeQuery E q).1 = some c)
    (hlen : (start : Int) + (encodeQuery E q).2.length ≤ i64Max) :
    replaceArgsStrD d (toksString (render c)) start = some (finalStringD d (replaceToks start 0 (render c))) :=
  replaceArgsD_tokens d (render c) start hs (render_wellformed c) (render_noOverflow E q c start hs h hlen)

/-! ### across the dialects: the Postgres output is the SQLite output with `?` re-spelled `$` -/

theorem respellChar_of_ne {c : Char} (h : c ≠ '?') : respellChar c = c := by
  simp [respellChar, h]

theorem respell_id (l : List Char) (h : l.contains '?' = false) : respell l = l := by
  induction l with
  | nil => rfl
  | cons c l ih =>
    simp only [List.contains_cons, Bool.or_eq_false_iff, beq_eq_false_iff_ne, ne_eq] at h
    simp only [respell, List.map_cons] at ih ⊢
    rw [ih h.2, respellChar_of_ne (fun e => h.1 e.symm)]

theorem digit_ne_qmark {c : Char} (h : c.isDigit = true) : c ≠ '?' := by
  intro hc
  subst hc
  exact absurd h (by decide)

theorem toDigits_no_qmark (n : Nat) : (Nat.toDigits 10 n).contains '?' = false := by
  rw [Bool.eq_false_iff]
  intro h
  have := List.contains_iff_mem.mp h
  exact digit_ne_qmark (toDigits_all_digit n _ this) rfl

theorem intChars_no_qmark (i : Int) : (intChars i).contains '?' = false := by
  cases i with
  | ofNat n => exact toDigits_no_qmark n
  | negSucc n =>
    simp only [intChars, List.contains_cons, Bool.or_eq_false_iff]
    exact ⟨by decide, toDigits_no_qmark _⟩

theorem respell_placeholder (k : Int) :
    respell (Dialect.placeholder .sqlite k) = Dialect.placeholder .postgres k := by
  simp only [Dialect.placeholder, Dialect.sigil, respell, List.map_cons]
  have := respell_id _ (intChars_no_qmark k)
  simp only [respell] at this
  rw [this]
  rfl

theorem respell_append (a b : List Char) : respell (a ++ b) = respell a ++ respell b := by
  simp [respell]

theorem respell_cons_ne (c : Char) (l : List Char) (h : c ≠ '?') : respell (c :: l) = c :: respell l := by
  simp [respell, respellChar_of_ne h]

/-- on ANY text without `?` (every start index, every scanner state, panics included) -/
theorem replaceGoD_respell (start : Int) (s : List Char) (h : s.contains '?' = false) :
    ∀ (index : Int) (st : Scan),
      replaceGoD .postgres start index st s = (replaceGoD .sqlite start index st s).map respell := by
  induction s with
  | nil =>
    intro index st
    cases st with
    | text => rfl
    | dollar => rfl
    | digits ds =>
      simp only [replaceGoD]
      cases subIndex start ds <;> cases chk (index + 1) <;> simp [respell_placeholder]
  | cons c cs ih =>
    simp only [List.contains_cons, Bool.or_eq_false_iff, beq_eq_false_iff_ne, ne_eq] at h
    have hc : c ≠ '?' := fun e => h.1 e.symm
    have ih := ih h.2
    intro index st
    cases st with
    | text =>
      simp only [replaceGoD]
      split
      · exact ih _ _
      · rw [ih, Option.map_map, Option.map_map]
        congr 1
        funext l
        exact (respell_cons_ne c l hc).symm
    | dollar =>
      simp only [replaceGoD]
      split
      · cases chk (index + 1) with
        | none => rfl
        | some i' =>
          simp only [Option.bind_some]
          rw [ih, Option.map_map, Option.map_map]
          congr 1
          funext l
          simp [respell_append, respell_placeholder]
      · split
        · exact ih _ _
        · rw [ih, Option.map_map, Option.map_map]
          congr 1
          funext l
          simp [respell_cons_ne _ _ hc, respell_cons_ne '$' _ (by decide)]
    | digits ds =>
      simp only [replaceGoD]
      split
      · exact ih _ _
      · cases subIndex start ds with
        | none => rfl
        | some k =>
          cases chk (index + 1) with
          | none => rfl
          | some i' =>
            simp only [Option.bind_some]
            split
            · rw [ih, Option.map_map, Option.map_map]
              congr 1
              funext l
              simp [respell_append, respell_placeholder]
            · rw [ih, Option.map_map, Option.map_map, Option.map_map, Option.map_map]
              congr 1
              funext l
              simp [respell_append, respell_placeholder, respell_cons_ne _ _ hc]

theorem replaceArgsD_respell (s : List Char) (start : Int) (h : s.contains '?' = false) :
    replaceArgsD .postgres s start = (replaceArgs s start).map respell := by
  rw [← replaceArgsD_sqlite]
  exact replaceGoD_respell start s h start .text

/-! ### `render` never writes a `?` -/

def tokNoQ : Tok → Bool
  | .text s => !s.toList.contains '?'
  | .ph _ => true

/-- no text token contains a `?` -/
def NoQ (ts : List Tok) : Prop := ∀ t ∈ ts, tokNoQ t = true

theorem noQ_nil : NoQ [] := fun _ h => nomatch h

theorem noQ_append {a b : List Tok} (ha : NoQ a) (hb : NoQ b) : NoQ (a ++ b) := by
  intro t ht
  rcases List.mem_append.mp ht with h | h
  · exact ha t h
  · exact hb t h

theorem noQ_cons {t : Tok} {ts : List Tok} (ht : tokNoQ t = true) (hts : NoQ ts) : NoQ (t :: ts) := by
  intro t' h
  rcases List.mem_cons.mp h with h | h
  · exact h ▸ ht
  · exact hts t' h

theorem noQ_ph (numbered : Bool) (i : Nat) : tokNoQ (phOf numbered i) = true := by
  cases numbered <;> rfl

theorem noQ_inl (numbered : Bool) (vs : List Nat) :
    NoQ ((vs.map fun i => [phOf numbered i]).intersperse [.text ", "]).flatten := by
  induction vs with
  | nil => exact noQ_nil
  | cons a vs ih =>
    cases vs with
    | nil => simpa using noQ_cons (noQ_ph numbered a) noQ_nil
    | cons b vs =>
      simp only [List.map_cons, List.intersperse_cons_cons, List.flatten_cons, List.cons_append,
        List.nil_append] at ih ⊢
      exact noQ_cons (noQ_ph numbered a) (noQ_cons (by decide) ih)

theorem noQ_renderCond (numbered : Bool) (c : Cond) : NoQ (renderCond numbered c) := by
  cases c with
  | none => exact noQ_nil
  | op o v pfx =>
    have h1 : tokNoQ (.text (" AND value " ++ o.sql ++ " ")) = true := by cases o <;> decide
    cases pfx with
    | none =>
      simp only [renderCond, List.append_nil]
      exact noQ_cons h1 (noQ_cons (noQ_ph numbered v) noQ_nil)
    | some pk =>
      obtain ⟨po, k⟩ := pk
      have g1 : tokNoQ (.text (" AND SUBSTR(value, 1, 12) " ++ po.sql ++ " ")) = true := by cases po <;> decide
      simp only [renderCond, List.cons_append, List.nil_append]
      exact noQ_cons h1 (noQ_cons (noQ_ph numbered v) (noQ_cons g1 (noQ_cons (noQ_ph numbered k) noQ_nil)))
  | inl vs =>
    simp only [renderCond]
    exact noQ_append (noQ_append (noQ_cons (by decide) noQ_nil) (noQ_inl numbered vs)) (noQ_cons (by decide) noQ_nil)

theorem noQ_renderList (op : ConjOp) (cs : List Clause) (ih : ∀ c ∈ cs, NoQ (render c)) :
    NoQ (renderList op cs) := by
  induction cs with
  | nil => simpa [renderList] using noQ_nil
  | cons c cs ihcs =>
    simp only [renderList]
    refine noQ_append (noQ_append (ih c (by simp)) ?_) (ihcs fun c' hc' => ih c' (by simp [hc']))
    split
    · exact noQ_nil
    · exact noQ_cons (by cases op <;> decide) noQ_nil

theorem render_noQ (c : Clause) : NoQ (render c) := by
  induction c using Clause.induct' with
  | sub neg a cnd p numbered =>
    simp only [render]
    refine noQ_append (noQ_append (noQ_cons ?_ (noQ_cons (noQ_ph numbered a) noQ_nil)) (noQ_renderCond numbered cnd))
      (noQ_cons ?_ noQ_nil)
    · cases neg <;> decide
    · cases p <;> decide
  | conj op cs ih =>
    simp only [render]
    refine noQ_append (noQ_append ?_ (noQ_renderList op cs ih)) ?_
    · split
      · exact noQ_cons (by decide) noQ_nil
      · exact noQ_nil
    · split
      · exact noQ_cons (by decide) noQ_nil
      · exact noQ_nil
  | zero => exact noQ_cons (by decide) noQ_nil

theorem tokChars_no_qmark (t : Tok) (h : tokNoQ t = true) : t.chars.contains '?' = false := by
  cases t with
  | text s => simpa [tokNoQ, Tok.chars] using h
  | ph p =>
    cases p with
    | dd => decide
    | num n =>
      simp only [Tok.chars, List.contains_cons, Bool.or_eq_false_iff]
      exact ⟨by decide, toDigits_no_qmark n⟩

theorem toksChars_no_qmark (ts : List Tok) (h : NoQ ts) : (toksChars ts).contains '?' = false := by
  induction ts with
  | nil => rfl
  | cons t ts ih =>
    rw [toksChars_cons, Bool.eq_false_iff]
    intro hc
    rcases List.mem_append.mp (List.contains_iff_mem.mp hc) with hm | hm
    · have := tokChars_no_qmark t (h t (by simp))
      rw [Bool.eq_false_iff] at this
      exact this (List.contains_iff_mem.mpr hm)
    · have := ih (fun t' ht' => h t' (by simp [ht']))
      rw [Bool.eq_false_iff] at this
      exact this (List.contains_iff_mem.mpr hm)

theorem render_no_qmark (c : Clause) : (toksChars (render c)).contains '?' = false :=
  toksChars_no_qmark _ (render_noQ c)

theorem respell_no_qmark (l : List Char) : (respell l).contains '?' = false := by
  induction l with
  | nil => rfl
  | cons c l ih =>
    simp only [respell, List.map_cons, List.contains_cons, Bool.or_eq_false_iff, beq_eq_false_iff_ne, ne_eq] at ih ⊢
    refine ⟨?_, ih⟩
    unfold respellChar
    split
    · decide
    · rename_i h; exact fun e => h e.symm

/-! ### the LIMIT / OFFSET suffix -/

theorem limitText_replaced (d : Dialect) (nargs : Nat) (hn : (nargs : Int) + 3 ≤ i64Max) :
    replaceArgsD d d.limitText ((nargs : Int) + 1)
      = some (match d with
        | .sqlite => " LIMIT ".toList ++ '?' :: Nat.toDigits 10 (nargs + 1) ++ ", ".toList ++ '?' :: Nat.toDigits 10 (nargs + 2)
        | .postgres => " LIMIT ".toList ++ '$' :: Nat.toDigits 10 (nargs + 1) ++ " OFFSET ".toList ++ '$' :: Nat.toDigits 10 (nargs + 2)) := by
  have hc : ((nargs : Int) + 1) = ((nargs + 1 : Nat) : Int) := by simp
  have hno (sep : String) : NoOverflow (nargs + 1) [.text " LIMIT ", .ph .dd, .text sep, .ph .dd] := by
    constructor
    · intro n hn; simp at hn
    · simp only [phCount]; unfold i64Max at hn ⊢; omega
  cases d with
  | sqlite =>
    have hg := replaceArgsD_tokens_chars .sqlite [.text " LIMIT ", .ph .dd, .text ", ", .ph .dd] (nargs + 1) (by omega)
      (by decide) (hno ", ")
    have ht : toksChars [.text " LIMIT ", .ph .dd, .text ", ", .ph .dd] = Dialect.limitText .sqlite := by decide
    rw [ht, ← hc] at hg
    rw [hg]
    simp [replaceToks, finalCharsD, finalPieceD, Dialect.sigil, Nat.add_assoc]
  | postgres =>
    have hg := replaceArgsD_tokens_chars .postgres [.text " LIMIT ", .ph .dd, .text " OFFSET ", .ph .dd] (nargs + 1)
      (by omega) (by decide) (hno " OFFSET ")
    have ht : toksChars [.text " LIMIT ", .ph .dd, .text " OFFSET ", .ph .dd] = Dialect.limitText .postgres := by decide
    rw [ht, ← hc] at hg
    rw [hg]
    simp [replaceToks, finalCharsD, finalPieceD, Dialect.sigil, Nat.add_assoc]

/-! ### a second pass over the Postgres output -/

theorem finalCharsD_pg_toksChars (xs : List (String ⊕ Nat)) :
    finalCharsD .postgres xs = toksChars (xs.map pieceTok) := by
  simp only [finalCharsD, toksChars, List.flatMap_map]
  congr 1
  funext x
  cases x <;> rfl

/-- `replaceToks` on text that carries numbered placeholders only: every number moves by `start − 1` -/
theorem replaceToks_pieceTok (start k : Nat) (xs : List (String ⊕ Nat)) :
    replaceToks start k (xs.map pieceTok)
      = xs.map (shiftPiece start) := by
  induction xs generalizing k with
  | nil => rfl
  | cons x xs ih =>
    cases x with
    | inl s => simp [pieceTok, replaceToks, ih, shiftPiece]
    | inr n => simp [pieceTok, replaceToks, ih, shiftPiece]

/-! ### `limit_query` / `extend_query`, any dialect -/

theorem limitQueryD_pg (q : List Char) (nargs : Nat) (offset limit : Option Int)
    (h : (offset.isSome || limit.isSome) = true) (hn : (nargs : Int) + 3 ≤ i64Max) :
    limitQueryD .postgres q nargs offset limit
      = some (q ++ (" LIMIT $" ++ toString (nargs + 1) ++ " OFFSET $" ++ toString (nargs + 2)).toList, nargs + 2,
          [Bind.ofOpt limit, .int (offset.getD 0)]) := by
  simp only [limitQueryD, h, if_true, limitText_replaced .postgres nargs hn, Option.map_some, Dialect.limitBinds,
    String.toList_append, natChars]
  have e1 : " LIMIT $".toList = " LIMIT ".toList ++ ['$'] := by decide
  have e2 : " OFFSET $".toList = " OFFSET ".toList ++ ['$'] := by decide
  rw [e1, e2]
  simp

theorem limitQueryD_sqlite_shape (q : List Char) (nargs : Nat) (offset limit : Option Int)
    (h : (offset.isSome || limit.isSome) = true) (hn : (nargs : Int) + 3 ≤ i64Max) :
    limitQueryD .sqlite q nargs offset limit
      = some (q ++ (" LIMIT ?" ++ toString (nargs + 1) ++ ", ?" ++ toString (nargs + 2)).toList, nargs + 2,
          [.int (offset.getD 0), .int (limit.getD (-1))]) := by
  simp only [limitQueryD, h, if_true, limitText_replaced .sqlite nargs hn, Option.map_some, Dialect.limitBinds,
    String.toList_append, natChars]
  have e1 : " LIMIT ?".toList = " LIMIT ".toList ++ ['?'] := by decide
  have e2 : ", ?".toList = ", ".toList ++ ['?'] := by decide
  rw [e1, e2]
  simp

theorem limitQueryD_none (d : Dialect) (q : List Char) (nargs : Nat) :
    limitQueryD d q nargs none none = some (q, nargs, []) := rfl

/-- `extend_query` in terms of `withFilter` / `filterArgs` -/
theorem extendQueryD_eq (d : Dialect) (base : List Char) (nparams : Nat) (filter : Option (List Char × Nat))
    (offset limit : Option Int) (orderBy descending : Bool) :
    extendQueryD d base nparams filter offset limit orderBy descending
      = if startsWithSelect (withFilter base filter) then
          (if offset.isSome || limit.isSome then
            limitQueryD d (if orderBy then orderByQuery (withFilter base filter) descending else withFilter base filter)
              (nparams + filterArgs filter) offset limit
           else some (if orderBy then orderByQuery (withFilter base filter) descending else withFilter base filter,
              nparams + filterArgs filter, []))
        else some (withFilter base filter, nparams + filterArgs filter, []) := by
  cases filter with
  | none => rfl
  | some f => obtain ⟨clause, k⟩ := f; rfl

theorem limitQueryD_count (d : Dialect) (q : List Char) (nargs : Nat) (offset limit : Option Int)
    (q' : List Char) (n : Nat) (bs : List Bind) (h : limitQueryD d q nargs offset limit = some (q', n, bs)) :
    n = nargs + (if offset.isSome || limit.isSome then 2 else 0)
      ∧ bs.length = (if offset.isSome || limit.isSome then 2 else 0) := by
  unfold limitQueryD at h
  by_cases hw : (offset.isSome || limit.isSome) = true
  · rw [if_pos hw] at h
    rw [if_pos hw]
    cases hr : replaceArgsD d d.limitText ((nargs : Int) + 1) with
    | none => rw [hr] at h; cases h
    | some l =>
      rw [hr] at h
      simp only [Option.map_some, Option.some.injEq, Prod.mk.injEq] at h
      obtain ⟨_, rfl, rfl⟩ := h
      cases d <;> simp [Dialect.limitBinds]
  · rw [if_neg hw] at h
    rw [if_neg hw]
    simp only [Option.some.injEq, Prod.mk.injEq] at h
    obtain ⟨_, rfl, rfl⟩ := h
    simp

theorem extendQueryD_count (d : Dialect) (base : List Char) (nparams : Nat) (filter : Option (List Char × Nat))
    (offset limit : Option Int) (orderBy descending : Bool) (q : List Char) (n : Nat) (bs : List Bind)
    (h : extendQueryD d base nparams filter offset limit orderBy descending = some (q, n, bs)) :
    n = nparams + filterArgs filter + (if windowAdded base filter offset limit then 2 else 0)
      ∧ bs.length = (if windowAdded base filter offset limit then 2 else 0) := by
  rw [extendQueryD_eq] at h
  unfold windowAdded
  by_cases hs : startsWithSelect (withFilter base filter) = true
  · rw [if_pos hs] at h
    simp only [hs, Bool.true_and]
    by_cases hw : (offset.isSome || limit.isSome) = true
    · rw [if_pos hw] at h
      exact limitQueryD_count d _ _ _ _ _ _ _ h
    · rw [if_neg hw] at h
      rw [if_neg hw]
      simp only [Option.some.injEq, Prod.mk.injEq] at h
      obtain ⟨_, rfl, rfl⟩ := h
      simp
  · rw [if_neg hs] at h
    simp only [Option.some.injEq, Prod.mk.injEq] at h
    obtain ⟨_, rfl, rfl⟩ := h
    simp [hs]

theorem extendQueryD_total (d : Dialect) (base : List Char) (nparams : Nat) (filter : Option (List Char × Nat))
    (offset limit : Option Int) (orderBy descending : Bool)
    (hn : ((nparams + filterArgs filter : Nat) : Int) + 3 ≤ i64Max) :
    (extendQueryD d base nparams filter offset limit orderBy descending).isSome = true := by
  rw [extendQueryD_eq]
  split
  · split
    · rename_i hw
      cases d with
      | sqlite => rw [limitQueryD_sqlite_shape _ _ _ _ hw hn]; rfl
      | postgres => rw [limitQueryD_pg _ _ _ _ hw hn]; rfl
    · rfl
  · rfl

/-! ### text pieces pass through `replaceToks` unchanged -/

theorem inl_mem_replaceToks (start k : Nat) (ts : List Tok) (s : String)
    (h : Sum.inl s ∈ replaceToks start k ts) : Tok.text s ∈ ts := by
  induction ts generalizing k with
  | nil => simp [replaceToks] at h
  | cons t ts ih =>
    cases t with
    | text s' =>
      simp only [replaceToks, List.mem_cons, Sum.inl.injEq] at h
      rcases h with h | h
      · simp [h]
      · exact List.mem_cons_of_mem _ (ih k h)
    | ph p =>
      cases p with
      | dd =>
        simp only [replaceToks, List.mem_cons, reduceCtorEq, false_or] at h
        exact List.mem_cons_of_mem _ (ih (k + 1) h)
      | num n =>
        simp only [replaceToks, List.mem_cons, reduceCtorEq, false_or] at h
        exact List.mem_cons_of_mem _ (ih (k + 1) h)

theorem wfToks_text_mem (ts : List Tok) (h : wfToks ts = true) (s : String) (hm : Tok.text s ∈ ts) :
    s.toList.contains '$' = false := by
  induction ts with
  | nil => cases hm
  | cons t ts ih =>
    cases t with
    | text s' =>
      simp only [wfToks, Bool.and_eq_true, Bool.not_eq_true'] at h
      rcases List.mem_cons.mp hm with e | hm
      · cases e; exact h.1
      · exact ih h.2 hm
    | ph p =>
      have hm' : Tok.text s ∈ ts := by
        rcases List.mem_cons.mp hm with e | hm
        · cases e
        · exact hm
      cases p with
      | dd => exact ih (by simpa [wfToks] using h) hm'
      | num n =>
        simp only [wfToks, Bool.and_eq_true] at h
        exact ih h.2 hm'

end Askar.Wql.Lemmas
