/-
Executable instance of SQLite's LIKE (`patternCompare` with the default, case-insensitive-ASCII,
no-ESCAPE configuration) as applied by the bundled SQLite 3.44 to BLOB operands: both operands are
converted to text, which ends at the first NUL.  Used by the driver; theorems keep `like` abstract.
-/
import AskarModel.Base.Bytes

namespace Askar

def asciiLower (c : Char) : Char := if 'A' ≤ c ∧ c ≤ 'Z' then Char.ofNat (c.toNat + 32) else c

def likeChars : List Char → List Char → Bool
  | [], s => s.isEmpty
  | '%' :: p, [] => likeChars p []
  | '%' :: p, c :: s => likeChars p (c :: s) || likeChars ('%' :: p) s
  | '_' :: _, [] => false
  | '_' :: p, _ :: s => likeChars p s
  | _ :: _, [] => false
  | c :: p, d :: s => asciiLower c == asciiLower d && likeChars p s
termination_by p s => (p.length + s.length, p.length)
decreasing_by all_goals simp_wf <;> omega

def textOfBlob (b : Bytes) : List Char :=
  let b := b.takeWhile (· != 0)
  match String.fromUTF8? (ByteArray.mk b.toArray) with
  | some s => s.toList
  | none => b.map fun x => Char.ofNat x.toNat

/-- `value LIKE pattern` -/
def sqliteLike (pattern value : Bytes) : Bool := likeChars (textOfBlob pattern) (textOfBlob value)

end Askar
