/- Helper lemmas for C20 Model B (formatting / logging non-interference). -/
import AskarModel.Model.SecretFmt

namespace Askar.SecretFmt
namespace Lemmas

theorem piece_render_ignores_secret (p : Piece) (hp : p.usesSecret = false) (pub : String) (s₁ s₂ : List UInt8) :
    p.render ⟨pub, s₁⟩ = p.render ⟨pub, s₂⟩ := by
  cases p <;> simp_all [Piece.usesSecret, Piece.render]

theorem render_ignores_secret (ps : List Piece) (h : ps.any Piece.usesSecret = false) (pub : String) (s₁ s₂ : List UInt8) :
    render ps ⟨pub, s₁⟩ = render ps ⟨pub, s₂⟩ := by
  induction ps with
  | nil => rfl
  | cons p ps ih =>
    simp only [List.any_cons, Bool.or_eq_false_iff] at h
    simp only [render, List.map_cons] at ih ⊢
    rw [piece_render_ignores_secret p h.1 pub s₁ s₂, ih h.2]

theorem fmt_noninterfering_partial (c : FmtCfg) (t : Ty) (ht : leaky c t = false) (pub : String) (s₁ s₂ : List UInt8) :
    render (debugFmt c t) ⟨pub, s₁⟩ = render (debugFmt c t) ⟨pub, s₂⟩ :=
  render_ignores_secret _ ht pub s₁ s₂

/-- a leaky template really shows the secret: two secrets that differ give different output -/
theorem render_depends_on_secret (ps : List Piece) (h : ps.any Piece.usesSecret = true) (pub : String) (s₁ s₂ : List UInt8)
    (hs : s₁ ≠ s₂) : render ps ⟨pub, s₁⟩ ≠ render ps ⟨pub, s₂⟩ := by
  induction ps with
  | nil => simp at h
  | cons p ps ih =>
    simp only [render, List.map_cons, ne_eq, List.cons.injEq, not_and]
    intro hp
    simp only [List.any_cons, Bool.or_eq_true] at h
    rcases h with h | h
    · exfalso
      cases p <;> simp_all [Piece.usesSecret, Piece.render]
    · exact ih h

/-- the classification in terms of the configuration: a type is leaky exactly when it is one of the six and ITS flag is off -/
theorem leaky_iff (c : FmtCfg) (t : Ty) :
    leaky c t = true ↔
      (c.optionsRedacts = false ∧ ∃ q, t = .options q) ∨ (c.pgOptionsRedacts = false ∧ ∃ q, t = .pgOptions q) ∨
      (c.argon2Redacts = false ∧ t = .argon2) ∨ (c.blsKeyGenRedacts = false ∧ t = .blsKeyGen) ∨
      (c.jwkPartsRedacts = false ∧ ∃ a, t = .jwkParts a) ∨
      (c.blsSecretRedacts = false ∧ ∃ a, a.isBls = true ∧ (t = .key a ∨ t = .anyKey a ∨ t = .localKey a)) := by
  obtain ⟨o, b, g, r, p, j⟩ := c
  cases t with
  | options q => cases q <;> cases o <;> simp [leaky, debugFmt, Piece.usesSecret]
  | pgOptions q => cases q <;> cases p <;> simp [leaky, debugFmt, Piece.usesSecret]
  | argon2 => cases r <;> simp [leaky, debugFmt, Piece.usesSecret]
  | blsKeyGen => cases g <;> simp [leaky, debugFmt, Piece.usesSecret]
  | jwkParts a => cases j <;> simp [leaky, debugFmt, Piece.usesSecret]
  | key a => cases a <;> cases b <;> simp [leaky, debugFmt, keyFmt, redactedKey, Alg.isBls, Piece.usesSecret]
  | anyKey a => cases a <;> cases b <;> simp [leaky, debugFmt, keyFmt, redactedKey, Alg.isBls, Piece.usesSecret]
  | localKey a => cases a <;> cases b <;> simp [leaky, debugFmt, keyFmt, redactedKey, Alg.isBls, Piece.usesSecret]
  | error e => simp [leaky, debugFmt, Piece.usesSecret]
  | _ => simp [leaky, debugFmt, Piece.usesSecret]

/-- nothing is leaky exactly when all six flags are on -/
theorem no_leaky_iff (c : FmtCfg) : (∀ t, leaky c t = false) ↔ c.allRedact = true := by
  constructor
  · intro h
    have h1 := h (.options false)
    have h2 := h (.key .bls12381g1)
    have h3 := h .blsKeyGen
    have h4 := h .argon2
    have h5 := h (.pgOptions false)
    have h6 := h (.jwkParts .ed25519)
    obtain ⟨o, b, g, r, p, j⟩ := c
    cases o <;> cases b <;> cases g <;> cases r <;> cases p <;> cases j <;>
      simp_all [leaky, debugFmt, keyFmt, Alg.isBls, Piece.usesSecret, FmtCfg.allRedact]
  · intro h t
    cases ht : leaky c t with
    | false => rfl
    | true =>
      exfalso
      have := (leaky_iff c t).mp ht
      obtain ⟨o, b, g, r, p, j⟩ := c
      simp only [FmtCfg.allRedact, Bool.and_eq_true] at h
      obtain ⟨⟨⟨⟨⟨rfl, rfl⟩, rfl⟩, rfl⟩, rfl⟩, rfl⟩ := h
      simp at this

theorem scenario_leaks_iff (c : FmtCfg) (s : Scenario) :
    s.leaks c = true ↔ c.optionsRedacts = false ∧ s.uriHasCredentials = true ∧ LogSite.anyOptions ∈ s.sites := by
  have hopt : LogSite.leaky c .anyOptions = true ↔ c.optionsRedacts = false := by
    obtain ⟨o, b, g, r, p, j⟩ := c
    cases o <;> simp [LogSite.leaky, leaky, debugFmt, Piece.usesSecret]
  simp only [Scenario.leaks, Bool.and_eq_true, List.any_eq_true]
  constructor
  · rintro ⟨h1, x, hx, hl⟩
    cases x with
    | anyOptions => exact ⟨hopt.mp hl, h1, hx⟩
    | label => simp [LogSite.leaky] at hl
    | ffiLabel => simp [LogSite.leaky] at hl
  · rintro ⟨h0, h1, h2⟩
    exact ⟨h1, .anyOptions, h2, hopt.mpr h0⟩

/-! ### error text -/

theorem head_secret (l : ErrLink) (tok : Tok) (ht : tok ∈ l.head) (hs : tok.isSecret = true) :
    ∃ m, l.message = some m ∧ tok ∈ m := by
  unfold ErrLink.head at ht
  cases hm : l.message with
  | none =>
    simp only [hm, Option.getD_none, List.mem_singleton] at ht
    subst ht; simp [Tok.isSecret] at hs
  | some m =>
    simp only [hm, Option.getD_some] at ht
    exact ⟨m, rfl, ht⟩

theorem mem_chainMessages {c : List ErrLink} {l : ErrLink} {m : List Tok} {tok : Tok}
    (hl : l ∈ c) (hm : l.message = some m) (ht : tok ∈ m) : tok ∈ chainMessages c := by
  simp only [chainMessages, List.mem_flatMap]
  exact ⟨l, hl, by simp [hm, ht]⟩

theorem chainMessages_cons (l : ErrLink) (c : List ErrLink) (tok : Tok) (h : tok ∈ chainMessages c) :
    tok ∈ chainMessages (l :: c) := by
  simp only [chainMessages, List.flatMap_cons, List.mem_append] at h ⊢
  exact Or.inr h

theorem errDisplay_secret (c : List ErrLink) (tok : Tok) (ht : tok ∈ errDisplay c) (hs : tok.isSecret = true) :
    tok ∈ chainMessages c := by
  induction c with
  | nil => simp [errDisplay] at ht
  | cons l rest ih =>
    cases rest with
    | nil =>
      simp only [errDisplay] at ht
      obtain ⟨m, hm, htm⟩ := head_secret l tok ht hs
      exact mem_chainMessages (List.mem_cons_self ..) hm htm
    | cons l' rest' =>
      simp only [errDisplay, List.mem_append, List.mem_singleton] at ht
      rcases ht with (ht | ht) | ht
      · obtain ⟨m, hm, htm⟩ := head_secret l tok ht hs
        exact mem_chainMessages (List.mem_cons_self ..) hm htm
      · subst ht; simp [Tok.isSecret] at hs
      · exact chainMessages_cons _ _ _ (ih ht)

theorem errDebug_secret (c : List ErrLink) (tok : Tok) (ht : tok ∈ errDebug c) (hs : tok.isSecret = true) :
    tok ∈ chainMessages c := by
  induction c with
  | nil =>
    simp only [errDebug, List.mem_singleton] at ht
    subst ht; simp [Tok.isSecret] at hs
  | cons l rest ih =>
    simp only [errDebug, List.mem_append, List.mem_singleton] at ht
    rcases ht with (((ht | ht) | ht) | ht) | ht
    · subst ht; simp [Tok.isSecret] at hs
    · exact chainMessages_cons _ _ _ (ih ht)
    · subst ht; simp [Tok.isSecret] at hs
    · cases hm : l.message with
      | none =>
        simp only [hm, Option.getD_none, List.mem_singleton] at ht
        subst ht; simp [Tok.isSecret] at hs
      | some m =>
        simp only [hm, Option.getD_some] at ht
        exact mem_chainMessages (List.mem_cons_self ..) hm ht
    · subst ht; simp [Tok.isSecret] at hs

theorem errTexts_secret (c : List ErrLink) (t : List Tok) (hT : t ∈ errTexts c) (tok : Tok) (ht : tok ∈ t)
    (hs : tok.isSecret = true) : tok ∈ chainMessages c := by
  induction c with
  | nil => simp [errTexts] at hT
  | cons l rest ih =>
    simp only [errTexts, List.mem_cons] at hT
    rcases hT with rfl | rfl | hT
    · exact errDisplay_secret _ tok ht hs
    · exact errDebug_secret _ tok ht hs
    · exact chainMessages_cons _ _ _ (ih hT)

theorem errJson_secret (c : List ErrLink) (tok : Tok) (ht : tok ∈ errJson c) (hs : tok.isSecret = true) :
    tok ∈ chainMessages c := by
  simp only [errJson, List.mem_append, List.mem_singleton] at ht
  rcases ht with (ht | ht) | ht
  · subst ht; simp [Tok.isSecret] at hs
  · exact errDisplay_secret _ tok ht hs
  · subst ht; simp [Tok.isSecret] at hs

theorem key_drop_wipes (k : KeyBlock) : ∀ c ∈ (dropKey k).cells, c = 0 := by
  intro c hc
  simp only [dropKey, List.mem_map] at hc
  obtain ⟨_, _, rfl⟩ := hc
  rfl

end Lemmas
end Askar.SecretFmt
