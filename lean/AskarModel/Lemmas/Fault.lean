import AskarModel.Model.Fault
namespace Askar.Store
namespace Lemmas
end Lemmas
end Askar.Store
