/-
C14 — key export/import round-trips; JWK import is tolerant, strict and panic-free.
ONLY property theorems, refutations with witnesses, and non-vacuity examples; the model is `Model/Jwk.lean`
(configuration `Cfg.current` = what /repo does now; `Cfg.pinned` = both known defects present; `Cfg.fixed` = both repaired),
helper lemmas and proofs are in `Lemmas/Jwk.lean`.  Curve arithmetic is the parameter `P : Prims`; no theorem assumes anything about it
except `jwk_roundtrip*`, whose hypotheses on `P` are written out (`Prims.CurveLaws`, `Key.OnCurve`, `Key.PubCanonical`).

Three full-strength statements are FALSE on the pinned tree and are kept visible as `def … : Prop` with a refutation:
* `VisitIgnoresUnknown`  (D4: the value of an unknown member is not consumed)      → `visit_ignores_unknown_refuted`, `_partial`, and the positive theorem for the repaired visitor;
* `BytesImportTotal`     (D3: p256/p384/k256 `from_secret_bytes` panics)           → `bytes_import_total_refuted`, `_partial`, `_fixed`;
* `VisitOrderIndependent` is false for EVERY configuration because of the `use` / `key_ops` pair (not observable through any key)
                                                                                   → `visit_order_independent_refuted`, `_partial` (everything but `key_ops`), `import_order_independent`.
`parse_render` is the parser-correctness theorem for the encoder's output (byte level, every configuration, the parser's own fuel);
`jwk_roundtrip` (export → text → import = the key, secret and public mode, all 8 asymmetric algorithms) is proved from it.
Its symmetric-key half is false (D15): `oct_import_unsupported`.

Second wave (coverage gaps): the encoder with `key_ops` / `kid` (`JwkBufferEncoder::finalize`), `key_ops` / `use` on import,
keypair bytes, key conversion — the last four sections.  One more full-strength statement is FALSE on the tree in /repo:
* `EncoderReadsBack` (`finalize` never writes the opening `[` of `key_ops`)        → `encoder_reads_back_current_refuted`,
  `encoder_keyops_never_parses_current` / `encoder_export_unimportable_current` (exactly what happens instead),
  `encoder_reads_back_partial` (everything without `key_ops`), `encoder_reads_back_repaired` / `encoder_roundtrip_repaired`.
The variant is the Bool argument of `renderJwk` / `toJwkWith`; `keyOpsBracketCurrent` is what /repo does now.
-/
import AskarModel.Model.Jwk
import AskarModel.Lemmas.Jwk
import AskarModel.Lemmas.JwkEnc
import AskarModel.Lemmas.JwkGap
import AskarModel.Generated.Tables

namespace Askar.C14
open Askar.Jwk

/-! ### base64url: one spelling per byte string, never beyond the output array -/

theorem b64_roundtrip (b : Bytes) : b64decode (b64encode b) = some b := Jwk.b64_roundtrip b

/-- no second spelling of a key: whatever decodes is the canonical encoding of the result
    (so padded, non-url-safe and trailing-bit variants are rejected) -/
theorem b64_canonical {s b : Bytes} (h : b64decode s = some b) : b64encode b = s := Jwk.b64_canonical h

/-- `decode_base64` never reports more bytes than the array holds; over-long text is an error whatever it contains -/
theorem b64_bounded {attr : Option Bytes} {n : Nat} {b : Bytes} (h : decodeBase64 attr n = .ok b) : b.length ≤ n := Jwk.b64_bounded h
theorem b64_overlong {s : Bytes} {n : Nat} (h : s.length > (n * 4 + 2) / 3) : decodeBase64 (some s) n = .err .invalid := Jwk.b64_overlong h

example : b64decode (sb "Zm9v") = some (sb "foo") := by decide
example : b64decode (sb "Zm9=") = none ∧ b64decode (sb "Zh") = none ∧ b64decode (sb "Zm+v") = none ∧ b64decode (sb "Z") = none := by decide

/-! ### unknown members -/

/-- Full strength: a member with an unrecognised name changes nothing, whatever its value (every JSON type), wherever it stands. -/
def VisitIgnoresUnknown (cfg : Cfg) : Prop :=
  ∀ (ms₁ ms₂ : List (Bytes × JVal)) (k : Bytes) (v : JVal), fieldOf k = none →
    visit cfg (ms₁ ++ (k, v) :: ms₂) = visit cfg (ms₁ ++ ms₂)

/-- FALSE on the pinned tree (witness: `{"kty":"OKP","ext":true}`) -/
theorem visit_ignores_unknown_refuted : ¬ VisitIgnoresUnknown Cfg.pinned := Jwk.visit_ignores_unknown_refuted

/-- the part that holds there: such a JWK is rejected — never imported as a different key -/
theorem visit_ignores_unknown_partial (ms₁ ms₂ : List (Bytes × JVal)) (k : Bytes) (v : JVal) (hk : fieldOf k = none) :
    visit Cfg.pinned (ms₁ ++ (k, v) :: ms₂) = none := Jwk.visit_unknown_fails rfl ms₁ ms₂ k v hk

/-- with the repair (`next_value::<IgnoredAny>()`) the full statement holds -/
theorem visit_ignores_unknown_fixed : VisitIgnoresUnknown Cfg.fixed := Jwk.visit_ignores_unknown_of_consume rfl

/-! ### member order -/

def VisitOrderIndependent (cfg : Cfg) : Prop :=
  ∀ ms ms' : List (Bytes × JVal), ms.Perm ms' → (ms.map (·.1)).Nodup → visit cfg ms = visit cfg ms'

/-- FALSE for every configuration: `"use":"sig","key_ops":["encrypt"]` gives {encrypt}, the other order {encrypt,sign,verify} -/
theorem visit_order_independent_refuted (cfg : Cfg) : ¬ VisitOrderIndependent cfg := Jwk.visit_order_independent_refuted cfg

/-- the part that holds: everything except the `key_ops` set is independent of the order (distinct member names) -/
theorem visit_order_independent_partial (cfg : Cfg) {ms ms' : List (Bytes × JVal)} (hp : ms.Perm ms')
    (hn : (ms.map (·.1)).Nodup) : (visit cfg ms).map Parts.core = (visit cfg ms').map Parts.core :=
  Jwk.visit_order_independent_core cfg hp hn

/-- and the import never reads `key_ops`: the imported key, or the error, does not depend on the member order -/
theorem import_order_independent (cfg : Cfg) (P : Prims) {ms ms' : List (Bytes × JVal)} (hp : ms.Perm ms')
    (hn : (ms.map (·.1)).Nodup) : fromMembers cfg P ms = fromMembers cfg P ms' := Jwk.import_order_independent cfg P hp hn

/-! ### exports -/

/-- a public export has no member `d` or `k` … -/
theorem public_export_no_secret (k : Key) (a : Option Alg) (ms : List Member) (h : encodeJwk k .publicKey a = .ok ms) :
    ∀ m ∈ ms, m.1 ≠ "d" ∧ m.1 ≠ "k" := Jwk.public_export_names k a ms h

/-- … is not a function of the secret at all (JWK and raw bytes) … -/
theorem public_export_independent_of_secret (k : Key) (a : Option Alg) (s' : Option Bytes) :
    encodeJwk { k with secret := s' } .publicKey a = encodeJwk k .publicKey a ∧
    toPublicBytes { k with secret := s' } = toPublicBytes k :=
  ⟨Jwk.public_export_independent_of_secret k a s', rfl⟩

/-- … and does not exist for symmetric keys -/
theorem public_export_symmetric (k : Key) (a : Option Alg) (h : k.alg.isSymmetric = true) :
    encodeJwk k .publicKey a = .err .unsupported := Jwk.public_export_symmetric k a h

/-- RFC 7638: the hashed text has exactly the required members of the key type, in lexicographic order, the `kty` member
    carries the key type, every member is (name and value) a member of the key's full export, and the text has no whitespace -/
theorem thumbprint_members (k : Key) (a : Option Alg) (ms : List Member) (h : encodeJwk k .thumbprint a = .ok ms) :
    ms.map (·.1) = rfc7638Members k.alg.jwkKty ∧ ("kty", sb k.alg.jwkKty) ∈ ms ∧
    ∃ full, encodeJwk k .secretKey a = .ok full ∧ ∀ m ∈ ms, m ∈ full :=
  ⟨Jwk.thumbprint_member_names k a ms h, Jwk.thumbprint_kty k a ms h, Jwk.thumbprint_members_of_export k a ms h⟩

theorem thumbprint_members_sorted : ∀ kty ∈ ["EC", "OKP", "oct"], (rfc7638Members kty).Pairwise (· < ·) := Jwk.rfc7638_sorted

example : renderMembers [("crv", sb "Ed25519"), ("kty", sb "OKP"), ("x", sb "AA")] = sb "{\"crv\":\"Ed25519\",\"kty\":\"OKP\",\"x\":\"AA\"}" := by decide

/-! ### raw bytes: any length, never a panic — except where the code panics -/

def BytesImportTotal (cfg : Cfg) : Prop :=
  ∀ (P : Prims) (alg : Alg) (b : Bytes), (fromSecretBytes cfg P alg b).isPanic = false ∧ (fromPublicBytes P alg b).isPanic = false

/-- FALSE on the pinned tree (witness: one byte offered as a P-256 secret) -/
theorem bytes_import_total_refuted : ¬ BytesImportTotal Cfg.pinned := Jwk.bytes_import_total_refuted

/-- exactly which inputs panic there: a Weierstrass-curve algorithm with a secret of the wrong length -/
theorem bytes_import_panic_iff (P : Prims) (alg : Alg) (b : Bytes) :
    (fromSecretBytes Cfg.pinned P alg b).isPanic = true ↔ (alg.isEc = true ∧ b.length ≠ alg.secretLen) :=
  Jwk.fromSecretBytes_panic_iff P alg b

/-- the part that holds for every configuration: the other 13 algorithms, every right-length input, and all public imports -/
theorem bytes_import_total_partial (cfg : Cfg) (P : Prims) (alg : Alg) (b : Bytes) :
    (alg.isEc = false ∨ b.length = alg.secretLen → (fromSecretBytes cfg P alg b).isPanic = false) ∧
    (fromPublicBytes P alg b).isPanic = false :=
  ⟨fun h => Jwk.fromSecretBytes_no_panic_of cfg P alg b (h.elim Or.inl fun h => Or.inr (Or.inl h)), Jwk.fromPublicBytes_no_panic P alg b⟩

/-- with the explicit length check the full statement holds -/
theorem bytes_import_total_fixed : BytesImportTotal Cfg.fixed := Jwk.bytes_import_total_of_lenCheck rfl

/-- JWK import cannot panic even on the pinned tree: `d` is decoded into exactly `secretLen` bytes before the conversion -/
theorem jwk_import_total (cfg : Cfg) (P : Prims) (text : Bytes) (ms : List (Bytes × JVal)) :
    (fromJwk cfg P text).isPanic = false ∧ (fromMembers cfg P ms).isPanic = false := by
  refine ⟨Jwk.fromJwk_no_panic cfg P text, ?_⟩
  unfold fromMembers
  split
  · exact Jwk.fromJwkAny_no_panic _ _ _
  · rfl

/-! ### an accepted key is the key that was encoded -/

/-- secret bytes: the imported key has that algorithm and exports exactly the input; importing the export gives the same key -/
theorem bytes_roundtrip {cfg : Cfg} {P : Prims} {alg : Alg} {b : Bytes} {k : Key} (h : fromSecretBytes cfg P alg b = .ok k) :
    k.alg = alg ∧ toSecretBytes k = .ok b ∧ b.length = alg.secretLen ∧
    ∃ s, toSecretBytes k = .ok s ∧ fromSecretBytes cfg P k.alg s = .ok k :=
  let ⟨h1, h2, h3⟩ := Jwk.secret_bytes_roundtrip h
  ⟨h1, h2, h3, Jwk.secret_bytes_reimport h⟩

/-- wrong length is an error (or, on the pinned tree for EC, the panic above) — never a key -/
theorem bytes_wrong_length_rejected (cfg : Cfg) (P : Prims) (alg : Alg) (b : Bytes) (h : b.length ≠ alg.secretLen) :
    (fromSecretBytes cfg P alg b).isOk = false := by
  cases hr : fromSecretBytes cfg P alg b with
  | ok k => exact absurd (Jwk.secret_bytes_roundtrip hr).2.2 h
  | err e => rfl
  | panic s => rfl

/-- JWK: with `d` the accepted key is (d, public key of d) and the encoded public members equal that public key, so
    mismatched d/x/y are rejected; without `d` there is no secret; EC points were found on the curve -/
theorem import_checks {cfg : Cfg} {P : Prims} {alg : Alg} {j : Parts} {k : Key} (h : fromJwkParts cfg P alg j = .ok k) :
    k.Consistent P ∧
    (j.d = none → k.secret = none) ∧
    (j.d.isSome → ∃ d, decodeExact j.d alg.secretLen = .ok d ∧ k.secret = some d) ∧
    (alg.isEc = true → ∃ x y, decodeExact j.x alg.secretLen = .ok x ∧ decodeExact j.y alg.secretLen = .ok y ∧
        P.fromAffine alg x y = some k.pub) ∧
    (alg.isEc = false → j.d.isSome → decodeExact j.x alg.pubLen = .ok k.pub) := Jwk.import_checks h

/-- D15 as a theorem about the dispatch: nothing with `kty = "oct"` can be imported (all 8 symmetric algorithms) -/
theorem oct_import_unsupported (cfg : Cfg) (P : Prims) (j : Parts) (h : j.kty = sb "oct") :
    fromJwkAny cfg P j = .err .unsupported := Jwk.oct_import_unsupported cfg P j h

/-! ### export → JSON text → import

`toJwk` is `JwkBufferEncoder` (no whitespace, no escapes); `fromJwk` runs the byte-level model of
`serde_json_core::from_str::<JwkParts>` (`parseJwk`, which supplies its own fuel: text length + 2) and then `from_jwk_any`. -/

/-- Parser correctness on everything the encoder can write: for every member list whose names and values contain neither `"`
    nor `\` (`MembersClean`, a decidable check; the names `crv kty x y d alg k`, the curve / key-type / `alg` names and all
    base64url text satisfy it — `Clean_b64encode`, `Clean_crv`), the byte-level parser run on the rendered text visits exactly
    those members, in order, as string values.  Holds for every configuration and for unknown member names as well
    (with D4 present both sides fail). -/
theorem parse_render (cfg : Cfg) (ms : List Member) (hc : MembersClean ms = true) :
    parseJwk cfg (renderMembers ms) = visit cfg (toks ms) := Jwk.parse_render cfg ms hc

/-- … and the premise holds for everything `encode_jwk` writes: any key (symmetric too), any mode, any `alg` view.  So the
    text of every export is parsed into exactly the members that were written. -/
theorem parse_export (cfg : Cfg) (k : Key) (mode : Mode) (a : Option Alg) (ms : List Member) (h : encodeJwk k mode a = .ok ms) :
    MembersClean ms = true ∧ toJwk k mode a = .ok (renderMembers ms) ∧ parseJwk cfg (renderMembers ms) = visit cfg (toks ms) :=
  ⟨Jwk.encodeJwk_clean k mode a ms h, by simp [toJwk, h], Jwk.parse_render cfg ms (Jwk.encodeJwk_clean k mode a ms h)⟩

/-- base64url text is clean, whatever the bytes -/
theorem b64_text_clean (b : Bytes) : Clean (b64encode b) = true := Jwk.Clean_b64encode b

/-- Round trip, key pairs: for every asymmetric algorithm and every key pair with the lengths of `Alg.pubLen` / `Alg.secretLen`
    whose public part is the public key of its secret (`Key.Consistent`), under the curve laws
    (`Prims.CurveLaws`: a public key computed from a secret is on the curve, resp. is a canonical encoding) and nothing else:
    the secret-mode export imports as the key, the public-mode export as its public half.  Every configuration. -/
theorem jwk_roundtrip (cfg : Cfg) (P : Prims) (hP : P.CurveLaws) (k : Key) (ha : k.alg.isSymmetric = false)
    (hs : k.WellSized) (hc : k.Consistent P) {d : Bytes} (hd : k.secret = some d) :
    (∃ t, toJwk k .secretKey none = .ok t ∧ fromJwk cfg P t = .ok k) ∧
    (∃ t, toJwk k .publicKey none = .ok t ∧ fromJwk cfg P t = .ok { k with secret := none }) :=
  Jwk.jwk_roundtrip_keypair cfg P hP k ha hs hc hd

/-- Round trip, any key (with or without secret), with the facts about the public part as hypotheses on the key instead of laws
    on `P`: the stored point is on the curve (`Key.OnCurve`, Weierstrass curves only) and, where the import goes through the
    crate's public-key decoder (no `d` in the text), the stored encoding is canonical (`Key.PubCanonical`; Ed25519 and BLS only).
    For a public-only key these cannot be dropped: `Key.Consistent` says nothing about it, and the crates reject other bytes. -/
theorem jwk_roundtrip_secret (cfg : Cfg) (P : Prims) (k : Key) (ha : k.alg.isSymmetric = false) (hs : k.WellSized)
    (hc : k.Consistent P) (hoc : k.OnCurve P) (hpc : k.secret = none → k.PubCanonical P) :
    ∃ t, toJwk k .secretKey none = .ok t ∧ fromJwk cfg P t = .ok k := Jwk.jwk_roundtrip_secret cfg P k ha hs hc hoc hpc

theorem jwk_roundtrip_public (cfg : Cfg) (P : Prims) (k : Key) (ha : k.alg.isSymmetric = false) (hs : k.WellSized)
    (hc : k.Consistent P) (hoc : k.OnCurve P) (hpc : k.PubCanonical P) :
    ∃ t, toJwk k .publicKey none = .ok t ∧ fromJwk cfg P t = .ok { k with secret := none } :=
  Jwk.jwk_roundtrip_public cfg P k ha hs hc hoc hpc

/-- the hypotheses on the key follow from the laws for every key pair -/
theorem keypair_pub_valid {P : Prims} (hP : P.CurveLaws) {k : Key} (hc : k.Consistent P) (ha : k.alg.isSymmetric = false)
    {d : Bytes} (hd : k.secret = some d) : k.OnCurve P ∧ k.PubCanonical P :=
  ⟨Jwk.Key.onCurve_of_laws hP hc ha hd, Jwk.Key.pubCanonical_of_laws hP hc ha hd⟩

/-! ### non-vacuity: the hypotheses above are satisfiable (toy curve: public key = secret) -/

def toy : Prims := { pubOf := fun _ d => some d, fromAffine := fun _ x y => some (x ++ y), decodePub := fun _ b => some b }

example : ∃ k, fromSecretBytes Cfg.pinned toy .ed25519 (List.replicate 32 7) = .ok k := ⟨_, rfl⟩
example : ∃ k, fromJwkParts Cfg.pinned toy .ed25519
    { kty := sb "OKP", crv := some (sb "Ed25519"), x := some (b64encode (List.replicate 32 7)), d := some (b64encode (List.replicate 32 7)) } = .ok k := by
  exact ⟨{ alg := .ed25519, secret := some (List.replicate 32 7), pub := List.replicate 32 7 }, by rfl⟩
example : ∃ ms, encodeJwk { alg := .p256, secret := none, pub := List.replicate 64 1 } .thumbprint none = .ok ms := ⟨_, rfl⟩
example : ([(sb "kty", JVal.str (sb "OKP")), (sb "x", JVal.str (sb "AA"))].map (·.1)).Nodup := by decide

/-! non-vacuity of the round trip: a toy primitive record that satisfies the curve laws (public key = the secret repeated up to
    the public length; every coordinate pair is a point; every encoding canonical), one Ed25519 and one P-256 key pair -/

def toyRT : Prims :=
  { pubOf := fun a d => some ((d ++ d ++ d ++ d ++ d).take a.pubLen), fromAffine := fun _ x y => some (x ++ y),
    decodePub := fun _ b => some b }

theorem toyRT_laws : toyRT.CurveLaws :=
  ⟨fun _ _ p _ _ => congrArg some (List.take_append_drop _ p), fun _ _ _ _ _ => rfl, fun _ _ _ => ⟨rfl, rfl⟩⟩

def edKey : Key := { alg := .ed25519, secret := some (List.replicate 32 7), pub := List.replicate 32 7 }
def p256Key : Key := { alg := .p256, secret := some (List.range 32 |>.map UInt8.ofNat),
                       pub := (List.range 32 ++ List.range 32) |>.map UInt8.ofNat }

example : edKey.alg.isSymmetric = false ∧ edKey.WellSized ∧ edKey.Consistent toyRT :=
  ⟨rfl, ⟨rfl, fun d h => by cases h; rfl⟩, fun d h _ => by cases h; decide⟩
example : p256Key.alg.isSymmetric = false ∧ p256Key.WellSized ∧ p256Key.Consistent toyRT :=
  ⟨rfl, ⟨rfl, fun d h => by cases h; rfl⟩, fun d h _ => by cases h; decide⟩

example : (∃ t, toJwk edKey .secretKey none = .ok t ∧ fromJwk Cfg.current toyRT t = .ok edKey) ∧
    (∃ t, toJwk edKey .publicKey none = .ok t ∧ fromJwk Cfg.current toyRT t = .ok { edKey with secret := none }) :=
  jwk_roundtrip _ _ toyRT_laws edKey rfl ⟨rfl, fun d h => by cases h; rfl⟩ (fun d h _ => by cases h; decide) rfl
example : (∃ t, toJwk p256Key .secretKey none = .ok t ∧ fromJwk Cfg.pinned toyRT t = .ok p256Key) ∧
    (∃ t, toJwk p256Key .publicKey none = .ok t ∧ fromJwk Cfg.pinned toyRT t = .ok { p256Key with secret := none }) :=
  jwk_roundtrip _ _ toyRT_laws p256Key rfl ⟨rfl, fun d h => by cases h; rfl⟩ (fun d h _ => by cases h; decide) rfl

/-- the exported text of the Ed25519 key, literally, and the byte-level parser run on it (by evaluation, not by the theorem) -/
example : toJwk edKey .publicKey none =
    .ok (sb "{\"crv\":\"Ed25519\",\"kty\":\"OKP\",\"x\":\"BwcHBwcHBwcHBwcHBwcHBwcHBwcHBwcHBwcHBwcHBwc\"}") := by rfl
example : fromJwk Cfg.pinned toyRT (sb "{\"crv\":\"Ed25519\",\"kty\":\"OKP\",\"x\":\"BwcHBwcHBwcHBwcHBwcHBwcHBwcHBwcHBwcHBwcHBwc\"}")
    = .ok { edKey with secret := none } := by rfl

/-- and a public-only key: the hypotheses on the public part are satisfiable too -/
example : ∃ t, toJwk { p256Key with secret := none } .publicKey none = .ok t ∧
    fromJwk Cfg.fixed toyRT t = .ok { p256Key with secret := none } :=
  jwk_roundtrip_public _ _ { p256Key with secret := none } rfl ⟨rfl, fun d h => by cases h⟩ (fun d h _ => by cases h)
    (fun _ => by decide) trivial

/-! ### the encoder with `key_ops` and `kid` (`JwkBufferEncoder::new(..).alg(..).key_ops(..).kid(..)`, `finalize`)

`renderJwk bracket ms ops kid` is the buffer after `finalize` (members of `encode_jwk`, then `key_ops`, then `kid`);
`bracket` = does `finalize` write the opening `[` of the array (`keyOpsBracketCurrent` = false: /repo today). -/

/-- Full strength: whatever the encoder is asked to write — the members of any export, any set of operations or none, a kid
    (without `"` and `\`: `add_str` escapes nothing) or none — the library's own byte-level parser reads back exactly that:
    the members in order, `key_ops` as the array of the set's names, `kid` as given. -/
def EncoderReadsBack (bracket : Bool) : Prop :=
  ∀ (cfg : Cfg) (ms : List Member) (ops : Option Nat) (kid : Option Bytes), MembersClean ms = true →
    (∀ k, kid = some k → Clean k = true) →
    parseJwk cfg (renderJwk bracket ms ops kid) = visit cfg (toks ms ++ extraToks ops kid)

/-- holds for the repaired encoder (one more byte: `[`) … -/
theorem encoder_reads_back_repaired : EncoderReadsBack true :=
  fun cfg ms ops kid hc hk => Jwk.parse_renderJwk_fixed' cfg ms hc ops kid hk

/-- … and is FALSE for the encoder without the `[` (defect D38, found by this check, repaired in 5c8ddba; witness:
    `{"kty":"OKP","key_ops":"sign","verify"]}`) -/
theorem encoder_reads_back_current_refuted : ¬ EncoderReadsBack false := by
  intro h
  have h1 := h Cfg.fixed [("kty", sb "OKP")] (some 12) none (by decide) (by intro k hk; cases hk)
  rw [Jwk.parse_renderJwk_current_fails _ _ (by decide)] at h1
  revert h1
  decide

/-- for the CURRENT tree (`keyOpsBracketCurrent` is read from the source by tools/extract.py): holds whenever the source writes the `[` -/
theorem encoder_reads_back_current (h : keyOpsBracketCurrent = true) : EncoderReadsBack keyOpsBracketCurrent := by
  rw [h]; exact encoder_reads_back_repaired

/-- what happens there instead, exactly: with `key_ops` set — ANY set (the empty one too), any members, any kid, any parser
    configuration — the text is not accepted by `JwkParts::from_str` … -/
theorem encoder_keyops_never_parses_current (cfg : Cfg) (ms : List Member) (hc : MembersClean ms = true) (o : Nat)
    (kid : Option Bytes) : parseJwk cfg (renderJwk false ms (some o) kid) = none :=
  Jwk.parse_renderJwk_current_fails cfg ms hc o kid

/-- … so every export of every key that carries `key_ops` is refused by the import (never imported as another key) -/
theorem encoder_export_unimportable_current (cfg : Cfg) (P : Prims) (k : Key) (mode : Mode) (a : Option Alg) (o : Nat)
    (kid : Option Bytes) (t : Bytes) (h : toJwkWith false k mode a (some o) kid = .ok t) :
    fromJwk cfg P t = .err .invalid := Jwk.encoder_export_unimportable cfg P k mode a o kid t h

/-- the part that holds for both variants: everything without `key_ops` (members and kid) -/
theorem encoder_reads_back_partial (bracket : Bool) (cfg : Cfg) (ms : List Member) (kid : Option Bytes)
    (hc : MembersClean ms = true) (hk : ∀ k, kid = some k → Clean k = true) :
    parseJwk cfg (renderJwk bracket ms none kid) = visit cfg (toks ms ++ extraToks none kid) := by
  rw [Jwk.renderJwk_no_ops]
  exact Jwk.parse_renderJwk_fixed' cfg ms hc none kid hk

/-- without the two arguments the encoder is the one of `toJwk` (so the theorems above extend `parse_render`) -/
theorem encoder_plain (bracket : Bool) (ms : List Member) : renderJwk bracket ms none none = renderMembers ms :=
  Jwk.renderJwk_plain bracket ms

/-- Repaired encoder, key level, all 8 asymmetric algorithms, every set `o` of the eight operations (`o < 256`), every kid
    without `"` / `\`, secret and public mode: the text is parsed back with exactly that set and that kid, and imports as the key
    (the hypotheses on the key are those of `jwk_roundtrip_secret` / `_public`). -/
theorem encoder_roundtrip_repaired (cfg : Cfg) (P : Prims) (k : Key) (ha : k.alg.isSymmetric = false) (hs : k.WellSized)
    (hc : k.Consistent P) (hoc : k.OnCurve P) (withD : Bool) (hpc : withD = false ∨ k.secret = none → k.PubCanonical P)
    (o : Nat) (ho : o < 256) (kid : Bytes) (hk : Clean kid = true) :
    ∃ t, toJwkWith true k (if withD then .secretKey else .publicKey) none (some o) (some kid) = .ok t ∧
      (∃ p, parseJwk cfg t = some p ∧ p.keyOps = some o ∧ p.kid = some kid) ∧
      fromJwk cfg P t = .ok (if withD then k else { k with secret := none }) :=
  Jwk.encoder_roundtrip_fixed cfg P k ha hs hc hoc withD hpc o ho kid hk

/-- the hypothesis `Clean kid` cannot be dropped in either variant: `add_str` escapes nothing, so a kid with a `"` writes other
    members (witness: kid = `x","d":"AAAA` is read back as kid = `x` and a private member d = `AAAA`) -/
theorem encoder_kid_injection : ∃ kid p, parseJwk Cfg.fixed (renderJwk true [("kty", sb "OKP")] none (some kid)) = some p ∧
    p.kid = some (sb "x") ∧ p.kid ≠ some kid ∧ p.d = some (sb "AAAA") :=
  ⟨sb "x\",\"d\":\"AAAA", { kty := sb "OKP", kid := some (sb "x"), d := some (sb "AAAA") }, by decide, rfl, by decide, rfl⟩

/-- the array element names: a set of the eight operations is written as names that are parsed back into that set -/
theorem keyops_names_roundtrip : ∀ o, o < 256 → opsOf (opsNames o) 0 = some o := Jwk.opsOf_opsNames

/- the text today and after the repair, literally (an Ed25519 public key, {sign, verify}, kid "k1") -/
set_option maxRecDepth 100000 in
example : toJwkWith false { alg := .ed25519, secret := none, pub := List.replicate 32 7 } .publicKey none (some 12) (some (sb "k1")) =
    .ok (sb "{\"crv\":\"Ed25519\",\"kty\":\"OKP\",\"x\":\"BwcHBwcHBwcHBwcHBwcHBwcHBwcHBwcHBwcHBwcHBwc\",\"key_ops\":\"sign\",\"verify\"],\"kid\":\"k1\"}") := by rfl
set_option maxRecDepth 100000 in
example : toJwkWith true { alg := .ed25519, secret := none, pub := List.replicate 32 7 } .publicKey none (some 12) (some (sb "k1")) =
    .ok (sb "{\"crv\":\"Ed25519\",\"kty\":\"OKP\",\"x\":\"BwcHBwcHBwcHBwcHBwcHBwcHBwcHBwcHBwcHBwcHBwc\",\"key_ops\":[\"sign\",\"verify\"],\"kid\":\"k1\"}") := by rfl
example : MembersClean [("kty", sb "OKP")] = true ∧ Clean (sb "k1") = true ∧ (12 : Nat) < 256 := by decide

/-! ### `key_ops` and `use` on import: recorded by the parser, never read by the import -/

/-- `"use"` with any string value, anywhere in the object: the imported key, or the error, is the same as without it -/
theorem import_ignores_use (cfg : Cfg) (P : Prims) (l₁ l₂ : List (Bytes × JVal)) (s : Bytes) :
    fromMembers cfg P (l₁ ++ (sb "use", .str s) :: l₂) = fromMembers cfg P (l₁ ++ l₂) := Jwk.import_ignores_use cfg P l₁ l₂ s

/-- `"key_ops"` with an array of strings in which no operation is repeated (unknown names allowed), anywhere: the same -/
theorem import_ignores_key_ops (cfg : Cfg) (P : Prims) (l₁ l₂ : List (Bytes × JVal)) (xs : List Bytes) {o : Nat}
    (ho : opsOf xs 0 = some o) :
    fromMembers cfg P (l₁ ++ (sb "key_ops", .strArr xs) :: l₂) = fromMembers cfg P (l₁ ++ l₂) :=
  Jwk.import_ignores_keyOps cfg P l₁ l₂ xs ho

/-- a repeated operation, a non-array, an array with a non-string element: the JWK is refused as a whole (Invalid) — strict, not a
    different key; likewise a `use` that is not a string -/
theorem import_refuses_bad_key_ops (cfg : Cfg) (P : Prims) (l₁ l₂ : List (Bytes × JVal)) (v : JVal)
    (hv : ∀ xs, v = .strArr xs → opsOf xs 0 = none) :
    fromMembers cfg P (l₁ ++ (sb "key_ops", v) :: l₂) = .err .invalid := Jwk.import_refuses_bad_keyOps cfg P l₁ l₂ v hv

theorem import_refuses_bad_use (cfg : Cfg) (P : Prims) (l₁ l₂ : List (Bytes × JVal)) (v : JVal) (hv : ∀ s, v ≠ .str s) :
    fromMembers cfg P (l₁ ++ (sb "use", v) :: l₂) = .err .invalid := Jwk.import_refuses_bad_use cfg P l₁ l₂ v hv

/-- names that are not operations do not count, wherever they stand in the array -/
theorem key_ops_unknown_name_ignored {s : Bytes} (hs : opBit s = none) (l₁ l₂ : List Bytes) (acc : Nat) :
    opsOf (l₁ ++ s :: l₂) acc = opsOf (l₁ ++ l₂) acc := Jwk.opsOf_unknown_ignored hs l₁ l₂ acc

example : opsOf [sb "sign", sb "bogus", sb "deriveBits"] 0 = some 132 ∧ opsOf [sb "sign", sb "verify", sb "sign"] 0 = none ∧
    opsOf [] 0 = some 0 ∧ opBit (sb "Sign") = none := by decide
example : useOps (sb "enc") = 51 ∧ useOps (sb "sig") = 12 ∧ useOps (sb "other") = 0 := by decide

/-! ### keypair bytes (`KeypairBytes` of Ed25519, X25519, secp256k1, P-256, P-384) -/

/-- never a panic: any configuration (also with D3 present — the secret half has the right length when it is converted),
    any algorithm, bytes of any length -/
theorem keypair_import_total (cfg : Cfg) (P : Prims) (alg : Alg) (b : Bytes) : (fromKeypairBytes cfg P alg b).isPanic = false :=
  Jwk.fromKeypairBytes_no_panic cfg P alg b

/-- an accepted string has the right length, its first half imports (as a secret) as exactly the returned key, its second half
    is that key's public export, and the key exports as the string: never a different key -/
theorem keypair_import_checks {cfg : Cfg} {P : Prims} {alg : Alg} {b : Bytes} {k : Key} (h : fromKeypairBytes cfg P alg b = .ok k) :
    k.alg = alg ∧ b.length = alg.secretLen + alg.pubBytesLen ∧ fromSecretBytes cfg P alg (b.take alg.secretLen) = .ok k ∧
    toPublicBytes k = .ok (b.drop alg.secretLen) ∧ toKeypairBytes k = .ok b := Jwk.fromKeypairBytes_ok h

/-- every other length is InvalidKeyData … -/
theorem keypair_wrong_length_rejected (cfg : Cfg) (P : Prims) (alg : Alg) (b : Bytes) (ha : alg.hasKeypairBytes = true)
    (hl : b.length ≠ alg.secretLen + alg.pubBytesLen) : fromKeypairBytes cfg P alg b = .err .invalidKeyData :=
  Jwk.fromKeypairBytes_wrong_length cfg P alg b ha hl

/-- … secret ‖ public-of-another-key is refused … -/
theorem keypair_mismatch_rejected (cfg : Cfg) (P : Prims) (alg : Alg) (b : Bytes) {k : Key}
    (hs : fromSecretBytes cfg P alg (b.take alg.secretLen) = .ok k) (hne : toPublicBytes k ≠ .ok (b.drop alg.secretLen)) :
    (fromKeypairBytes cfg P alg b).isOk = false := Jwk.fromKeypairBytes_mismatch cfg P alg b hs hne

/-- … and so is a secret half the curve does not accept (zero, not below the order), whatever the public half -/
theorem keypair_bad_scalar_rejected (cfg : Cfg) (P : Prims) (alg : Alg) (b : Bytes)
    (hs : (fromSecretBytes cfg P alg (b.take alg.secretLen)).isOk = false) : (fromKeypairBytes cfg P alg b).isOk = false :=
  Jwk.fromKeypairBytes_bad_scalar cfg P alg b hs

/-- round trip: the keypair export of every key made from secret bytes (5 algorithms; public part of the length the key type
    holds) imports as that key -/
theorem keypair_roundtrip {cfg : Cfg} {P : Prims} {alg : Alg} {s : Bytes} {k : Key} (ha : alg.hasKeypairBytes = true)
    (h : fromSecretBytes cfg P alg s = .ok k) (hs : k.pub.length = k.alg.pubLen) :
    ∃ b, toKeypairBytes k = .ok b ∧ fromKeypairBytes cfg P alg b = .ok k := Jwk.keypair_export_import ha h hs

/-- a public-only key has no keypair export -/
theorem keypair_public_only_no_export {k : Key} (ha : k.alg.hasKeypairBytes = true) (hs : k.secret = none) :
    toKeypairBytes k = .err .missingSecretKey := Jwk.toKeypairBytes_public_only ha hs

example : fromKeypairBytes Cfg.pinned toy .ed25519 (List.replicate 64 7) = .ok edKey := by rfl
example : fromKeypairBytes Cfg.pinned toy .ed25519 (List.replicate 32 7 ++ List.replicate 32 8) = .err .invalidKeyData := by rfl
example : fromKeypairBytes Cfg.pinned toy .p256 (List.replicate 64 7) = .err .invalidKeyData := by rfl
example : ∃ b, toKeypairBytes edKey = .ok b ∧ fromKeypairBytes Cfg.current toy .ed25519 b = .ok edKey :=
  keypair_roundtrip (cfg := Cfg.current) (P := toy) (alg := .ed25519) (s := List.replicate 32 7) rfl (by rfl) rfl

/-! ### key conversion (`convert_key`: Ed25519 → X25519, BLS12-381 G1G2 → G1 / G2)

`Ed25519KeyPair::to_x25519_keypair` on a key WITHOUT secret runs `CompressedEdwardsY(public).decompress().unwrap()`.
The only thing that keeps it from panicking is that every way to obtain such a key went through `VerifyingKey::from_bytes`,
which is that very decompression (`ConvPrims.Agrees`) and keeps the bytes as given. -/

/-- the `unwrap` is a real guard: on a key value whose public bytes do not decompress the conversion panics -/
theorem convert_panics_without_invariant :
    ∃ (P : Prims) (C : ConvPrims) (k : Key), (convertKey P C k .x25519).isPanic = true :=
  ⟨toy, { sha512 := id, edToMontgomery := fun _ => none }, { alg := .ed25519, secret := none, pub := [2] }, rfl⟩

/-- … and the invariant (`Key.EdPubValid`: a public-only Ed25519 key holds bytes that decompress) is all it needs -/
theorem convert_total_of_invariant (P : Prims) (C : ConvPrims) (k : Key) (to : Alg) (hv : k.EdPubValid C) :
    (convertKey P C k to).isPanic = false := Jwk.convertKey_no_panic_of_valid P C k to hv

/-- every import establishes the invariant — secret bytes, public bytes (ANY bytes: small-order points, non-canonical encodings,
    whatever the decoder accepts), JWK text, keypair bytes, and conversion itself — so no key obtainable through the API makes a
    conversion (to any algorithm) panic -/
theorem convert_total_of_import {cfg : Cfg} {P : Prims} {C : ConvPrims} (hl : C.Agrees P) (to : Alg) :
    (∀ alg b k, fromSecretBytes cfg P alg b = .ok k → (convertKey P C k to).isPanic = false) ∧
    (∀ alg b k, fromPublicBytes P alg b = .ok k → (convertKey P C k to).isPanic = false) ∧
    (∀ text k, fromJwk cfg P text = .ok k → (convertKey P C k to).isPanic = false) ∧
    (∀ alg b k, fromKeypairBytes cfg P alg b = .ok k → (convertKey P C k to).isPanic = false) ∧
    (∀ k₀ to₀ k, convertKey P C k₀ to₀ = .ok k → (convertKey P C k to).isPanic = false) :=
  ⟨fun _ _ k h => convert_total_of_invariant P C k to (Jwk.fromSecretBytes_edValid h),
   fun _ _ k h => convert_total_of_invariant P C k to (Jwk.fromPublicBytes_edValid hl h),
   fun _ k h => convert_total_of_invariant P C k to (Jwk.fromJwk_edValid hl h),
   fun _ _ k h => convert_total_of_invariant P C k to (Jwk.fromSecretBytes_edValid (Jwk.fromKeypairBytes_ok h).2.2.1),
   fun _ _ k h => convert_total_of_invariant P C k to (Jwk.convertKey_edValid h)⟩

/-- a conversion yields the algorithm asked for and neither loses nor invents a secret -/
theorem convert_shape {P : Prims} {C : ConvPrims} {k k' : Key} {to : Alg} (h : convertKey P C k to = .ok k') :
    k'.alg = to ∧ k'.secret.isSome = k.secret.isSome := Jwk.convertKey_shape h

/-- everything but the three pairs is Unsupported -/
theorem convert_unsupported (P : Prims) (C : ConvPrims) (k : Key) (to : Alg)
    (h : ¬ (k.alg = .blsG1G2 ∧ (to = .blsG1 ∨ to = .blsG2)) ∧ ¬ (k.alg = .ed25519 ∧ to = .x25519)) :
    convertKey P C k to = .err .unsupported := Jwk.convertKey_unsupported P C k to h

/-- G1G2 → G1 / G2 of a key pair IS the crate's own G1 / G2 key of the same secret bytes (under the one law that the pair type
    derives its public key as the two single derivations, `Prims.BlsSplit`) -/
theorem convert_bls_own_key (cfg : Cfg) (P : Prims) (C : ConvPrims) (hl : P.BlsSplit) {d : Bytes} {k : Key}
    (h : fromSecretBytes cfg P .blsG1G2 d = .ok k) :
    convertKey P C k .blsG1 = fromSecretBytes cfg P .blsG1 d ∧ convertKey P C k .blsG2 = fromSecretBytes cfg P .blsG2 d :=
  Jwk.convert_bls_own_key cfg P C hl h

/-! non-vacuity: conversion primitives that agree with `toy`, one conversion of each kind -/
def toyC : ConvPrims := { sha512 := fun b => b ++ b, edToMontgomery := fun b => some b }
example : toyC.Agrees toy := fun _ _ _ => rfl
def pad48 (d : Bytes) : Bytes := (d ++ List.replicate 48 0).take 48
def toyBls : Prims :=
  { toy with pubOf := fun a d => match a with
      | .blsG1 => some (pad48 d) | .blsG1G2 => some (pad48 d ++ d) | _ => some d }
example : toyBls.BlsSplit := fun d p h => by
  cases h
  have hl : (pad48 d).length = 48 := by simp [pad48]
  exact ⟨congrArg some (List.take_left' hl).symm, congrArg some (List.drop_left' hl).symm⟩
example : ∃ k, fromSecretBytes Cfg.current toyBls .blsG1G2 (List.replicate 32 5) = .ok k := ⟨_, rfl⟩
example : (convertKey toy toyC { edKey with secret := none } .x25519) = .ok { alg := .x25519, secret := none, pub := List.replicate 32 7 } := by rfl
example : ∃ k, convertKey toy toyC edKey .x25519 = .ok k ∧ k.secret.isSome = true := ⟨_, rfl, rfl⟩
example : convertKey toy toyC edKey .p256 = .err .unsupported := by rfl

/-! ### members with a NON-STRING JSON value (`kty kid alg crv x y d k use` = number, bool, null, array, object)

`access.next_value::<&str>()` fails in the deserializer, `JwkParts::try_from_str` maps that to Invalid "Error parsing JWK":
never InvalidKeyData, never a panic, never a key — for the dispatcher and for every concrete type alike. -/

/-- token level: wherever the member stands, whatever else the object contains, for every configuration -/
theorem non_string_member_refused (cfg : Cfg) (P : Prims) (l₁ l₂ : List (Bytes × JVal)) {key : Bytes} {f : Field}
    (hf : fieldOf key = some f) (hk : f ≠ .keyOps) (v : JVal) (hv : ∀ s, v ≠ .str s) :
    fromMembers cfg P (l₁ ++ (key, v) :: l₂) = .err .invalid := Jwk.fromMembers_non_string cfg P l₁ l₂ hf hk v hv

/-- byte level (the parser's own fuel): after any clean string members, a string-valued member name followed by a value text whose
    first byte is neither blank nor `"` (so: a number, `true` / `false`, `null`, `[…`, `{…`), followed by ANY further attribute
    texts: the parse fails, so the dispatcher's import and every concrete type's import answer Invalid -/
theorem non_string_member_refused_bytes (cfg : Cfg) (P : Prims) (ms : List Member) (hc : MembersClean ms = true) {name : Bytes}
    {f : Field} (hn : Clean name = true) (hf : fieldOf name = some f) (hk : f ≠ .keyOps) (c : UInt8) (v : Bytes)
    (hw : isWs c = false) (hq : c ≠ 34) (ts : List Bytes) :
    parseJwk cfg (objectWithBadValue ms name c v ts) = none ∧
    fromJwk cfg P (objectWithBadValue ms name c v ts) = .err .invalid ∧
    ∀ alg, fromJwkTyped cfg P alg (objectWithBadValue ms name c v ts) = .err .invalid := by
  have h := Jwk.parse_non_string cfg ms hc hn hf hk c v hw hq ts
  exact ⟨h, by simp [fromJwk, h], fun alg => by simp [fromJwkTyped, h]⟩

/-- the five value shapes for `"x"` after `kty` / `crv`, literally -/
example : ∀ v ∈ [sb "5", sb "true", sb "null", sb "[\"a\"]", sb "{}"],
    parseJwk Cfg.current (sb "{\"kty\":\"OKP\",\"crv\":\"Ed25519\",\"x\":" ++ v ++ sb "}") = none := by decide
example : objectWithBadValue [("kty", sb "OKP")] (sb "x") 53 [] [] = sb "{\"kty\":\"OKP\",\"x\":5}" ∧
    fieldOf (sb "x") = some .x ∧ Clean (sb "x") = true ∧ isWs 53 = false := by decide

/-! ### the concrete key types' own `from_jwk` (no dispatcher in front) given a foreign `kty` / `crv` -/

/-- for each of the 8 types: a `kty` the type does not accept (`Alg.ktyOk`: EC types "EC", Ed25519 / X25519 "OKP", BLS "OKP" or "EC")
    or a `crv` that is not the type's own (or absent) is InvalidKeyData, whatever the other members hold -/
theorem foreign_kty_crv_refused (cfg : Cfg) (P : Prims) (alg : Alg) (j : Parts) (ha : alg.isSymmetric = false)
    (h : alg.ktyOk j.kty = false ∨ j.crv ≠ some (sb alg.jwkCrv)) : fromJwkParts cfg P alg j = .err .invalidKeyData :=
  Jwk.fromJwkParts_foreign cfg P alg j ha h

/-- every (concrete type, JWK exported from a key of ANOTHER asymmetric algorithm) pair, secret and public form, at text level through
    the byte-level parser: InvalidKeyData — never a key -/
theorem foreign_jwk_refused (cfg : Cfg) (P : Prims) (alg : Alg) (k : Key) (withD : Bool) (ha : alg.isSymmetric = false)
    (hk : k.alg.isSymmetric = false) (hne : alg ≠ k.alg) :
    ∃ t, toJwk k (if withD then .secretKey else .publicKey) none = .ok t ∧ fromJwkTyped cfg P alg t = .err .invalidKeyData :=
  Jwk.fromJwkTyped_foreign_export cfg P alg k withD ha hk hne

/-- a symmetric key's JWK (`kty` = "oct", no `crv`) offered to any of the 8 types: InvalidKeyData -/
theorem oct_jwk_refused_by_types (cfg : Cfg) (P : Prims) (alg : Alg) (j : Parts) (ha : alg.isSymmetric = false)
    (h : j.kty = sb "oct") : fromJwkParts cfg P alg j = .err .invalidKeyData := by
  apply Jwk.fromJwkParts_foreign cfg P alg j ha
  left
  rw [h]
  cases alg <;> simp [Alg.isSymmetric] at ha <;> decide

/-- on the JWKs the dispatcher routes to a type, the type's own import is the dispatcher's import; and it never panics -/
theorem typed_import_agrees_with_dispatch (cfg : Cfg) (P : Prims) (alg : Alg) (text : Bytes) (j : Parts)
    (hp : parseJwk cfg text = some j) (hs : selectAlg j = some alg) : fromJwkTyped cfg P alg text = fromJwk cfg P text :=
  Jwk.fromJwkTyped_own cfg P alg text j hp hs

theorem typed_import_total (cfg : Cfg) (P : Prims) (alg : Alg) (text : Bytes) : (fromJwkTyped cfg P alg text).isPanic = false :=
  Jwk.fromJwkTyped_no_panic cfg P alg text

example : fromJwkParts Cfg.current toy .p256 (exportParts edKey true) = .err .invalidKeyData :=
  Jwk.fromJwkParts_foreign_export _ _ _ _ _ rfl rfl (by decide)
example : Alg.ktyOk .blsG1 (sb "EC") = true ∧ Alg.ktyOk .ed25519 (sb "EC") = false ∧ Alg.ktyOk .p256 (sb "OKP") = false := by decide

/-! ### `public_bytes_length` / `secret_bytes_length` announce what the exports produce -/

theorem public_bytes_length_exact {k : Key} {pb : Bytes} (h : toPublicBytes k = .ok pb) (hs : k.pub.length = k.alg.pubLen) :
    publicBytesLen k = .ok pb.length := Jwk.publicBytesLen_exact h hs

theorem secret_bytes_length_exact {cfg : Cfg} {P : Prims} {alg : Alg} {b : Bytes} {k : Key}
    (h : fromSecretBytes cfg P alg b = .ok k) : toSecretBytes k = .ok b ∧ secretBytesLen k = .ok b.length :=
  Jwk.secretBytesLen_exact h

example : publicBytesLen p256Key = .ok 33 ∧ publicBytesLen edKey = .ok 32 := ⟨rfl, rfl⟩


/-! ### the secret-key widths are the source's (regenerated from askar-crypto/src/alg/*.rs on every run) -/

/-- `Alg.secretLen` of the key types that declare `SECRET_KEY_LENGTH` as a literal equals the CURRENT source's constant -/
theorem secret_key_lengths_match_source :
    [("p256", Jwk.Alg.p256.secretLen), ("k256", Jwk.Alg.k256.secretLen), ("p384", Jwk.Alg.p384.secretLen),
     ("x25519", Jwk.Alg.x25519.secretLen)] = Askar.Generated.Tables.secretKeyLengths := by decide

end Askar.C14
