/- Driver for `kind = "c08:…"` cases: URI codec (Model/Uri.lean) and key life cycle (Model/Keys.lean). -/
import Driver.Common
import AskarModel.Model.Uri
import AskarModel.Model.Keys

open Lean

namespace Driver.C08
open Askar Askar.Uri Askar.Keys

def toStr (s : String) : Str := s.toUTF8.toList

def ofStr (b : Str) : String :=
  match String.fromUTF8? (ByteArray.mk b.toArray) with
  | some s => s
  | none => "hex:" ++ Askar.Bytes.toHex b

def jstr (b : Str) : Json := .str (ofStr b)

def strLt (a b : Str) : Bool := Askar.Bytes.lt a b

def sortBy {α : Type} (lt : α → α → Bool) (l : List α) : List α := (l.toArray.qsort lt).toList

def jopts (o : Uri.Options) : Json :=
  Json.mkObj [("scheme", jstr o.scheme), ("user", jstr o.user), ("password", jstr o.password),
    ("host", jstr o.host), ("path", jstr o.path), ("fragment", jstr o.fragment),
    ("query", .arr ((sortBy (fun a b => strLt a.1 b.1) o.query).map fun kv => Json.arr #[jstr kv.1, jstr kv.2]).toArray)]

def optsOf (j : Json) : Uri.Options × List (Str × Str) :=
  let qs := (arr! j "query").map fun p => match asArr p with
    | [k, v] => (toStr (asStr k), toStr (asStr v))
    | _ => ([], [])
  ({ scheme := toStr (str! j "scheme"), user := toStr (str! j "user"), password := toStr (str! j "password"),
     host := toStr (str! j "host"), path := toStr (str! j "path"), fragment := toStr (str! j "fragment"),
     query := qs.foldl mapInsert [] }, qs)

/-- equality of Options as Rust compares them (the query as a map) -/
def optsEq (a b : Uri.Options) : Bool :=
  a.scheme = b.scheme && a.user = b.user && a.password = b.password && a.host = b.host && a.path = b.path &&
  a.fragment = b.fragment &&
  sortBy (fun x y => strLt x.1 y.1) a.query = sortBy (fun x y => strLt x.1 y.1) b.query

def runUriOpts (j : Json) : Json :=
  match j.getObjVal? "o" with
  | .ok oj =>
    let (o, qs) := optsOf oj
    let uri := intoUriWith qs o
    let p := parseUri uri
    Json.mkObj [("uri", jstr uri), ("parsed", jopts p), ("rt", .bool (optsEq p o)), ("wf", .bool o.WF)]
  | _ => jerr "bad case"

def runUriParse (j : Json) : Json :=
  let p := parseUri (toStr (str! j "uri"))
  Json.mkObj [("parsed", jopts p), ("wf", .bool p.WF)]

def methodName : Method → String
  | .raw => "raw" | .unprotected => "none" | .kdf .interactive => "kdf:int" | .kdf .moderate => "kdf:mod"

def runMethod (j : Json) : Json :=
  match Method.parse (toStr (str! j "s")) with
  | .ok m => Json.mkObj [("ok", .str (methodName m))]
  | .error e => jerr e.name

/-! ### life cycle with a toy instance of the primitives -/

def toy : Crypto where
  Key := Bytes
  PK := Nat
  Blob := Option Bytes × Nat
  kdf l p s := (match l with | .interactive => 1 | .moderate => 2) :: s ++ p
  rawKey s := (rawKeyBytes s).map (0 :: ·)
  wrapPk sk _ pk := (sk, pk)
  loadPk sk b := if sk = b.1 then .ok b.2 else .error .encryption

abbrev Items := List (Str × Str × Str × Bytes)      -- profile, category, name, value

structure St where
  fs : Fs toy Items := .absent
  h : Option (Handle toy) := none
  ctr : Nat := 0

def mkRnd (n : Nat) : Rnd toy where
  salt := (List.range 16).map fun i => UInt8.ofNat ((n * 16 + i) % 256)
  key := [0xFF, UInt8.ofNat (n % 256), UInt8.ofNat (n / 256 % 256)]
  pk := n
  nonce := fun _ => []
  profileName := toStr "<random>"

def passOf (j : Json) (k : String) : PassKey := (strOpt j k).map toStr

def jskip (r : String) : Json := Json.mkObj [("skip", .str r)]
def jok (j : Json) : Json := Json.mkObj [("ok", j)]

def maskKeyRef (s : Str) : Str :=
  let rec go : Str → Str
    | [] => []
    | l@(b :: rest) => if sSalt ++ [0x3D] <+: l then sSalt ++ [0x3D] ++ toStr "<salt>" else b :: go rest
  go s

def dump (st : Store toy Items) : Json :=
  let profs := sortBy (fun (a b : Str) => strLt a b) (st.profiles.map (·.1))
  Json.mkObj [("default", jstr st.defaultProfile), ("keyref", jstr (maskKeyRef st.keyRef)),
    ("profiles", .arr (profs.map fun p =>
      let recs := sortBy (fun (a b : Str × Str × Bytes) => strLt a.1 b.1 || (a.1 = b.1 && strLt a.2.1 b.2.1))
        ((st.items.filter fun it => it.1 = p).map fun it => it.2)
      Json.arr #[jstr p, .arr (recs.map fun r => Json.arr #[jstr r.1, jstr r.2.1, jhex r.2.2]).toArray]).toArray)]

def withMethod (j : Json) (k : Method → St × Json) (s : St) : St × Json :=
  match Method.parse (toStr (str! j "method")) with
  | .ok m => k m
  | .error e => (s, jerr e.name)

def step (s : St) (j : Json) : St × Json :=
  let op := str! j "op"
  let s := { s with ctr := s.ctr + 1 }
  let rnd := mkRnd s.ctr
  match op, s.h, s.fs with
  | "provision", none, fs =>
    withMethod j (fun m =>
      let r := provision toy ([] : Items) fs m (passOf j "pass") ((strOpt j "profile").map toStr) (bool! j "recreate") rnd
      match r.2 with
      | .ok h => ({ s with fs := r.1, h := some h }, jok (jstr h.profile))
      | .error e => ({ s with fs := r.1 }, jerr e.name)) s
  | "provision", some _, _ => (s, jskip "open")
  | "open", none, fs =>
    let go (m : Option Method) : St × Json :=
      let r := openStore toy fs m (passOf j "pass") ((strOpt j "profile").map toStr)
      match r.2 with
      | .ok h => ({ s with fs := r.1, h := some h }, jok (jstr h.profile))
      | .error e => ({ s with fs := r.1 }, jerr e.name)
    match strOpt j "method" with
    | none => go none
    | some _ => withMethod j (fun m => go (some m)) s
  | "open", some _, _ => (s, jskip "open")
  | "rekey", some h, .store st =>
    withMethod j (fun m =>
      let r := rekey toy st h m (passOf j "pass") rnd
      match r.2 with
      | .ok h' => ({ s with fs := .store r.1, h := some h' }, .str "ok")
      | .error e => ({ s with fs := .store r.1 }, jerr e.name)) s
  | "close", some _, _ => ({ s with h := none }, .str "ok")
  | "remove", none, fs =>
    let r := removeStore fs
    ({ s with fs := r.1 }, Json.mkObj [("removed", .bool r.2)])
  | "remove", some _, _ => (s, jskip "open")
  | "create_profile", some h, .store st =>
    let r := createProfile toy st h (toStr (str! j "name")) rnd
    match r.2 with
    | .ok n => ({ s with fs := .store r.1 }, jok (jstr n))
    | .error e => (s, jerr e.name)
  | "set_default", some _, .store st => ({ s with fs := .store (setDefaultProfile st (toStr (str! j "name"))) }, .str "ok")
  | "get_default", some _, .store st => (s, jok (jstr st.defaultProfile))
  | "insert", some _, .store st =>
    let p := toStr (str! j "profile"); let c := toStr (str! j "c"); let n := toStr (str! j "n")
    match lookup p st.profiles with
    | none => (s, jerr "NotFound")
    | some _ =>
      if st.items.any fun it => it.1 = p && it.2.1 = c && it.2.2.1 = n then (s, jerr "Duplicate")
      else ({ s with fs := .store { st with items := st.items ++ [(p, c, n, hex! j "v")] } }, .str "ok")
  | "dump", some _, .store st => (s, dump st)
  | _, none, _ => (s, jskip "closed")
  | _, _, _ => (s, jskip "state")

def runLife (j : Json) : Json :=
  let r := (arr! j "ops").foldl (fun (acc : St × List Json) op =>
    let r := step acc.1 op
    (r.1, r.2 :: acc.2)) (({} : St), [])
  .arr r.2.reverse.toArray

def runCase (j : Json) : Json :=
  match str! j "kind" with
  | "c08:uri-opts" => runUriOpts j
  | "c08:uri-parse" => runUriParse j
  | "c08:method" => runMethod j
  | "c08:life" => runLife j
  | k => jerr ("unknown kind " ++ k)

end Driver.C08
