import Driver.C06
def main : IO Unit := Driver.mainLoop fun _ j => Driver.C06.runCase j
