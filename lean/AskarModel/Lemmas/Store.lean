/- Helper lemmas about the store model (paging, windows, id order, step inversion lemmas). -/
import AskarModel.Model.Store
namespace Askar.Store


theorem batches_flatten {α} (p : Nat) (rows : List α) : (batches p rows).flatten = rows := by
  fun_induction batches p rows with
  | case1 => simp
  | case2 rows hp hle he => simpa using he.symm
  | case3 rows hp hle he => simp
  | case4 rows hp hgt ih => simp [ih]

theorem batches_sizes {α} (p : Nat) (hp : 0 < p) (rows : List α) :
    ∀ b ∈ batches p rows, 0 < b.length ∧ b.length ≤ p := by
  fun_induction batches p rows with
  | case1 => omega
  | case2 rows hp' hle he => simp
  | case3 rows hp' hle he =>
    intro b hb
    simp at hb; subst hb
    refine ⟨?_, hle⟩
    cases b with
    | nil => simp at he
    | cons => simp
  | case4 rows hp' hgt ih =>
    intro b hb
    simp at hb
    rcases hb with rfl | hb
    · simp; omega
    · exact ih b hb

/-- every page except possibly the last is full -/
theorem batches_full {α} (p : Nat) (rows : List α) :
    ∀ pre b post, batches p rows = pre ++ b :: post → post ≠ [] → b.length = p := by
  fun_induction batches p rows with
  | case1 => intro pre b post h; cases pre <;> simp at h; simp [h.2]
  | case2 rows hp' hle he => intro pre b post h; simp at h
  | case3 rows hp' hle he => intro pre b post h; cases pre <;> simp at h; simp [h.2]
  | case4 rows hp' hgt ih =>
    intro pre b post h hne
    cases pre with
    | nil => simp at h; rw [← h.1]; simp; omega
    | cons x pre => simp at h; exact ih pre b post h.2 hne

theorem drainScan_of_full {α} (p : Nat) (bs : List (List α))
    (h : ∀ pre b post, bs = pre ++ b :: post → post ≠ [] → b.length = p) : drainScan p bs = bs := by
  induction bs with
  | nil => simp [drainScan]
  | cons b bs ih =>
    simp only [drainScan]
    by_cases hb : bs = []
    · subst hb; split <;> simp [drainScan]
    · have := h [] b bs rfl hb
      simp [this]
      exact ih (fun pre b' post hh hne => h (b :: pre) b' post (by simp [hh]) hne)

theorem drain_batches {α} (p : Nat) (rows : List α) : drainScan p (batches p rows) = batches p rows :=
  drainScan_of_full p _ (batches_full p rows)

theorem batches_length {α} (p : Nat) (hp : 0 < p) (rows : List α) :
    (batches p rows).length = (rows.length + p - 1) / p := by
  fun_induction batches p rows with
  | case1 => omega
  | case2 rows hp' hle he =>
    have : rows.length = 0 := by simpa using he
    simp [this]; exact (Nat.div_eq_of_lt (by omega)).symm
  | case3 rows hp' hle he =>
    have : 0 < rows.length := by cases rows <;> simp at he ⊢
    simp
    have h1 : rows.length + p - 1 = (rows.length - 1) + p := by omega
    rw [h1, Nat.add_div_right _ hp, Nat.div_eq_of_lt (by omega)]
  | case4 rows hp' hgt ih =>
    simp [ih]
    have h1 : rows.length + p - 1 = (rows.length - p + p - 1) + p := by omega
    rw [h1, Nat.add_div_right _ hp]



theorem consecutive_flatten {α} (rows : List α) (ws : List Nat) (off : Nat) :
    (consecutive rows off ws).flatten = rows.drop off := by
  induction ws generalizing off with
  | nil => simp [consecutive, window]
  | cons w ws ih =>
    simp only [consecutive, List.flatten_cons, ih]
    simp only [window, Option.getD_some, Int.toNat_natCast]
    have : ¬ ((w : Int) < 0) := by omega
    simp only [this, if_false]
    rw [← List.drop_drop]
    exact List.take_append_drop w (rows.drop off)

theorem lt_nextId (ids : List Nat) : ∀ x ∈ ids, x < nextId ids := by
  have key : ∀ (l : List Nat) (a : Nat), a ≤ l.foldl max a ∧ ∀ x ∈ l, x ≤ l.foldl max a := by
    intro l
    induction l with
    | nil => intro a; simp
    | cons y l ih =>
      intro a
      simp only [List.foldl_cons]
      have h := ih (max a y)
      refine ⟨by omega, ?_⟩
      intro x hx
      simp at hx
      rcases hx with rfl | hx
      · omega
      · exact h.2 x hx
  intro x hx
  have := (key ids 0).2 x hx
  unfold nextId; omega


theorem insertById_of_le (x : Item) (l : List Item) (h : ∀ y ∈ l, x.id ≤ y.id) : insertById x l = x :: l := by
  cases l with
  | nil => rfl
  | cons y ys => simp [insertById, h y (by simp)]

theorem sortById_of_sorted (l : List Item) (h : (l.map (·.id)).Pairwise (· < ·)) : sortById l = l := by
  induction l with
  | nil => rfl
  | cons x l ih =>
    simp only [List.map_cons, List.pairwise_cons] at h
    have : sortById (x :: l) = insertById x (sortById l) := rfl
    rw [this, ih h.2]
    apply insertById_of_le
    intro y hy
    exact Nat.le_of_lt (h.1 y.id (List.mem_map_of_mem hy))

theorem sorted_filter (l : List Item) (p : Item → Bool) (h : (l.map (·.id)).Pairwise (· < ·)) :
    ((l.filter p).map (·.id)).Pairwise (· < ·) := by
  rw [List.pairwise_map] at *
  exact h.sublist List.filter_sublist

theorem doInsert_ok {db : Db} {now s k c n v t e db'} (h : doInsert db now s k c n v t e = .ok db') :
    ∃ row : Item, row.id = nextId (db.items.map (·.id)) ∧ row.pid = s.pid ∧ row.key = s.key ∧ db'.items = db.items ++ [row]
      ∧ db'.profiles = db.profiles := by
  simp only [doInsert] at h
  split at h
  · cases h
  · split at h
    · cases h
    · injection h with h; subst h; exact ⟨_, rfl, rfl, rfl, rfl, rfl⟩

theorem doReplace_ok {db : Db} {now s k c n v t e db'} (h : doReplace db now s k c n v t e = .ok db') :
    db'.items.map (·.id) = db.items.map (·.id) ∧ db'.items.map (·.pid) = db.items.map (·.pid) ∧ db'.profiles = db.profiles := by
  simp only [doReplace] at h
  split at h
  · cases h
  · split at h
    · injection h with h; subst h
      refine ⟨?_, ?_, rfl⟩ <;>
      · simp only [List.map_map]; congr 1; funext it; simp only [Function.comp]; split <;> rfl
    · cases h

theorem doRemove_ok {db : Db} {s k c n db'} (h : doRemove db s k c n = .ok db') :
    db'.items = db.items.filter (fun it => !it.sameIdent s.pid s.key k c n) ∧ db'.profiles = db.profiles := by
  simp only [doRemove] at h
  split at h
  · injection h with h; subst h; exact ⟨rfl, rfl⟩
  · cases h

theorem step_sorted (like) (page now s) (db : Db) (op : Op) (h : Sorted db) : Sorted (step like page now s db op).1 := by
  unfold Sorted at *
  cases op with
  | insert k c n v t e =>
    simp only [step]
    split
    · rename_i db' heq
      obtain ⟨row, hid, _, _, hitems, _⟩ := doInsert_ok heq
      simp only [hitems, List.map_append, List.map_cons, List.map_nil, List.pairwise_append, h, true_and]
      refine ⟨by simp, ?_⟩
      intro a ha b hb
      simp at hb; subst hb; rw [hid]
      exact lt_nextId _ a ha
    · exact h
  | replace k c n v t e =>
    simp only [step]
    split
    · rename_i db' heq
      rw [(doReplace_ok heq).1]; exact h
    · exact h
  | remove k c n =>
    simp only [step]
    split
    · rename_i db' heq
      rw [(doRemove_ok heq).1]; exact sorted_filter _ _ h
    · exact h
  | removeAll k c f => simp only [step, doRemoveAll]; exact sorted_filter _ _ h
  | fetch => exact h
  | fetchAll => simp only [step]; split <;> exact h
  | count => exact h
  | scan => simp only [step]; split <;> exact h

theorem run_sorted (like) (page now s) (ops : List Op) (db : Db) (h : Sorted db) : Sorted (run like page now s db ops).1 := by
  induction ops generalizing db with
  | nil => exact h
  | cons op ops ih => simp only [run]; exact ih _ (step_sorted like page now s db op h)


end Askar.Store
