#!/bin/bash
# proc.sh <id> <check> : keep files, confirm in the scratch worktree (background), run the check in isolation
id=$1; chk=$2; cd /verif
mkdir -p seeded/$id && cp /tmp/seed/$id/{patch.diff,seed_demo.rs,demo_cmd.txt,meta.json} seeded/$id/
dest=$(sed -n 1p seeded/$id/demo_cmd.txt)
tools/confirm_seed.sh $id /tmp/seed/$id/wt /verif/seeded/$id $dest bash -c "$(sed -n 2p seeded/$id/demo_cmd.txt)" > /dev/null 2>&1 &
tools/seed_run.sh /verif/seeded/$id/patch.diff $chk > /tmp/seed/$id/check_$chk.out 2>&1
echo "== $id $chk"; grep -c '^VIOLATION' /tmp/seed/$id/check_$chk.out; grep -m3 '^DETAIL' /tmp/seed/$id/check_$chk.out | cut -c1-300; tail -1 /tmp/seed/$id/check_$chk.out
wait
