/-
C14, second wave — helper lemmas for: the encoder with `key_ops` / `kid` at key level, `key_ops` / `use` on import,
keypair bytes, key conversion.  (The byte-level parser lemmas for the encoder's text are in `Lemmas/JwkEnc.lean`.)
-/
import AskarModel.Model.Jwk
import AskarModel.Lemmas.Jwk
import AskarModel.Lemmas.JwkEnc

namespace Askar.Jwk

/-! ## `key_ops` / `use` on import -/

/-- a name that is not one of the eight operations does not change the set, wherever it stands -/
theorem opsOf_unknown_ignored {s : Bytes} (hs : opBit s = none) (l₁ l₂ : List Bytes) (acc : Nat) :
    opsOf (l₁ ++ s :: l₂) acc = opsOf (l₁ ++ l₂) acc := by
  induction l₁ generalizing acc with
  | nil => simp [opsOf, hs]
  | cons x xs ih =>
    simp only [List.cons_append, opsOf]
    cases opBit x with
    | none => exact ih acc
    | some b =>
      simp only []
      split
      · rfl
      · exact ih _

/-- the imported key (or error) is a function of everything but `key_ops` -/
theorem fromMembers_congr_core (cfg : Cfg) (P : Prims) {ms ms' : List (Bytes × JVal)}
    (h : (visit cfg ms).map Parts.core = (visit cfg ms').map Parts.core) : fromMembers cfg P ms = fromMembers cfg P ms' := by
  unfold fromMembers
  cases h1 : visit cfg ms with
  | none =>
    cases h2 : visit cfg ms' with
    | none => rfl
    | some p' => simp [h1, h2] at h
  | some p =>
    cases h2 : visit cfg ms' with
    | none => simp [h1, h2] at h
    | some p' =>
      simp only [h1, h2, Option.map_some, Option.some.injEq] at h
      show fromJwkAny cfg P p = fromJwkAny cfg P p'
      rw [← fromJwkAny_core cfg P p, ← fromJwkAny_core cfg P p', h]

theorem stepC_keyless {cfg : Cfg} {m : Bytes × JVal} {u : Upd} (he : effect cfg m = some u)
    (hu : ∀ a, (u.apply a).core = a.core) (o : Option Acc) : stepC cfg (o.map Acc.core) m = o.map Acc.core := by
  cases o with
  | none => simp [stepC]
  | some a =>
    simp only [Option.map_some, stepC, he, hu]
    rfl

/-- a member whose only effect is on the `key_ops` variable can be dropped without changing anything else -/
theorem visit_keyless_member (cfg : Cfg) (l₁ l₂ : List (Bytes × JVal)) (m : Bytes × JVal) (u : Upd)
    (he : effect cfg m = some u) (hu : ∀ a, (u.apply a).core = a.core) :
    (visit cfg (l₁ ++ m :: l₂)).map Parts.core = (visit cfg (l₁ ++ l₂)).map Parts.core := by
  rw [visit_core, visit_core, visitFrom_core, visitFrom_core, List.foldl_append, List.foldl_append, List.foldl_cons,
    ← visitFrom_core cfg {} l₁, stepC_keyless he hu]

/-- a member the visitor refuses makes the whole import fail, wherever it stands -/
theorem visit_bad_member (cfg : Cfg) (l₁ l₂ : List (Bytes × JVal)) (m : Bytes × JVal) (he : effect cfg m = none) :
    visit cfg (l₁ ++ m :: l₂) = none := by
  unfold visit
  rw [visitFrom_append]
  cases visitFrom cfg {} l₁ with
  | none => rfl
  | some a => simp [visitFrom, visitStep_eq, he]

theorem fieldOf_use : fieldOf (sb "use") = some .use := by decide

theorem effect_use (cfg : Cfg) (s : Bytes) : effect cfg (sb "use", .str s) = some (.use s) := by
  simp [effect, fieldOf_use]

theorem effect_keyOps (cfg : Cfg) (xs : List Bytes) : effect cfg (sb "key_ops", .strArr xs) = (opsOf xs 0).map .ops := by
  simp [effect, fieldOf_key_ops]

theorem use_keyless (s : Bytes) (a : Acc) : ((Upd.use s).apply a).core = a.core := by
  simp only [Upd.apply, Acc.setUse]
  split <;> rfl

/-- `"use"` with any string value: ignored by the import -/
theorem import_ignores_use (cfg : Cfg) (P : Prims) (l₁ l₂ : List (Bytes × JVal)) (s : Bytes) :
    fromMembers cfg P (l₁ ++ (sb "use", .str s) :: l₂) = fromMembers cfg P (l₁ ++ l₂) :=
  fromMembers_congr_core cfg P (visit_keyless_member cfg l₁ l₂ _ _ (effect_use cfg s) (use_keyless s))

/-- `"key_ops"` with an array of strings without a repeated operation: ignored by the import … -/
theorem import_ignores_keyOps (cfg : Cfg) (P : Prims) (l₁ l₂ : List (Bytes × JVal)) (xs : List Bytes) {o : Nat}
    (ho : opsOf xs 0 = some o) :
    fromMembers cfg P (l₁ ++ (sb "key_ops", .strArr xs) :: l₂) = fromMembers cfg P (l₁ ++ l₂) :=
  fromMembers_congr_core cfg P (visit_keyless_member cfg l₁ l₂ _ (.ops o) (by rw [effect_keyOps, ho]; rfl) (fun _ => rfl))

/-- … with a repeated operation, or any other JSON value: the whole JWK is refused (Invalid), whatever else it contains -/
theorem import_refuses_bad_keyOps (cfg : Cfg) (P : Prims) (l₁ l₂ : List (Bytes × JVal)) (v : JVal)
    (hv : ∀ xs, v = .strArr xs → opsOf xs 0 = none) :
    fromMembers cfg P (l₁ ++ (sb "key_ops", v) :: l₂) = .err .invalid := by
  have he : effect cfg (sb "key_ops", v) = none := by
    cases v with
    | strArr xs => rw [effect_keyOps, hv xs rfl]; rfl
    | _ => simp [effect, fieldOf_key_ops]
  simp [fromMembers, visit_bad_member cfg l₁ l₂ _ he]

theorem import_refuses_bad_use (cfg : Cfg) (P : Prims) (l₁ l₂ : List (Bytes × JVal)) (v : JVal) (hv : ∀ s, v ≠ .str s) :
    fromMembers cfg P (l₁ ++ (sb "use", v) :: l₂) = .err .invalid := by
  have he : effect cfg (sb "use", v) = none := by
    cases v with
    | str s => exact absurd rfl (hv s)
    | _ => simp [effect, fieldOf_use]
  simp [fromMembers, visit_bad_member cfg l₁ l₂ _ he]

/-! ## the encoder with `key_ops` / `kid`, at key level -/

/-- the tokens `finalize` adds -/
def extraToks (ops : Option Nat) (kid : Option Bytes) : List (Bytes × JVal) :=
  (match ops with | some o => [(sb "key_ops", JVal.strArr (opsNames o))] | none => []) ++
  (match kid with | some k => [(sb "kid", JVal.str k)] | none => [])

theorem parse_renderJwk_fixed' (cfg : Cfg) (ms : List Member) (hc : MembersClean ms = true) (ops : Option Nat)
    (kid : Option Bytes) (hk : ∀ k, kid = some k → Clean k = true) :
    parseJwk cfg (renderJwk true ms ops kid) = visit cfg (toks ms ++ extraToks ops kid) := by
  rw [parse_renderJwk_fixed cfg ms hc ops kid hk]
  cases ops <;> cases kid <;> simp [extraToks]

/-- without `key_ops` the bracket does not matter -/
theorem renderJwk_no_ops (b : Bool) (ms : List Member) (kid : Option Bytes) :
    renderJwk b ms none kid = renderJwk true ms none kid := rfl

theorem fieldOf_kid : fieldOf (sb "kid") = some .kid := by decide

/-- visiting `key_ops` (a set of the eight operations) and `kid` after members that were collected into `p` -/
theorem visit_extra (cfg : Cfg) (tk : List (Bytes × JVal)) (p : Parts) (hv : visit cfg tk = some p) (o : Nat) (ho : o < 256)
    (kid : Bytes) :
    visit cfg (tk ++ extraToks (some o) (some kid)) = some { p with keyOps := some o, kid := some kid } := by
  unfold visit at hv ⊢
  rw [visitFrom_append]
  cases ha : visitFrom cfg {} tk with
  | none => simp [ha] at hv
  | some a =>
    simp only [ha] at hv
    simp only [Option.bind_some, extraToks, List.cons_append, List.nil_append, visitFrom, visitStep, fieldOf_key_ops,
      fieldOf_kid, opsOf_opsNames o ho, Option.map_some]
    unfold Acc.finish at hv ⊢
    cases hk : a.kty with
    | none => simp [hk] at hv
    | some kty =>
      simp only [hk, Option.some.injEq] at hv ⊢
      rw [← hv]

theorem fromJwkAny_extra (cfg : Cfg) (P : Prims) (p : Parts) (o : Option Nat) (kid : Option Bytes) :
    fromJwkAny cfg P { p with keyOps := o, kid := kid } = fromJwkAny cfg P p := rfl

/-! ## keypair bytes -/

theorem toPublicBytes_no_panic (k : Key) : (toPublicBytes k).isPanic = false := by
  unfold toPublicBytes
  (repeat' split) <;> rfl

theorem fromKeypairBytes_no_panic (cfg : Cfg) (P : Prims) (alg : Alg) (b : Bytes) :
    (fromKeypairBytes cfg P alg b).isPanic = false := by
  unfold fromKeypairBytes
  split
  · rfl
  · split
    · rfl
    · rename_i hl
      have hl' : b.length = alg.secretLen + alg.pubBytesLen := by simpa using hl
      have hn := fromSecretBytes_no_panic_of cfg P alg (b.take alg.secretLen)
        (Or.inr (Or.inl (by rw [List.length_take]; omega)))
      cases hs : fromSecretBytes cfg P alg (b.take alg.secretLen) with
      | ok k =>
        simp only []
        have := toPublicBytes_no_panic k
        cases hp : toPublicBytes k with
        | ok pb => simp only []; split <;> rfl
        | err e => rfl
        | panic s => simp [hp, Res.isPanic] at this
      | err e => simp only []; split <;> rfl
      | panic s => simp [hs, Res.isPanic] at hn

/-- an accepted keypair string is secret ‖ public of the returned key — never a different key — and exports as itself -/
theorem fromKeypairBytes_ok {cfg : Cfg} {P : Prims} {alg : Alg} {b : Bytes} {k : Key}
    (h : fromKeypairBytes cfg P alg b = .ok k) :
    k.alg = alg ∧ b.length = alg.secretLen + alg.pubBytesLen ∧
    fromSecretBytes cfg P alg (b.take alg.secretLen) = .ok k ∧
    toPublicBytes k = .ok (b.drop alg.secretLen) ∧ toKeypairBytes k = .ok b := by
  unfold fromKeypairBytes at h
  split at h
  · cases h
  · rename_i hkp
    split at h
    · cases h
    · rename_i hl
      have hl' : b.length = alg.secretLen + alg.pubBytesLen := by simpa using hl
      cases hs : fromSecretBytes cfg P alg (b.take alg.secretLen) with
      | ok k' =>
        rw [hs] at h
        simp only [] at h
        cases hp : toPublicBytes k' with
        | ok pb =>
          rw [hp] at h
          simp only [] at h
          split at h
          · rename_i hpb
            cases h
            obtain ⟨ha, hsec, _⟩ := secret_bytes_roundtrip hs
            refine ⟨ha, hl', rfl, by rw [hp, hpb], ?_⟩
            have hsk : k.secret = some (b.take alg.secretLen) := by
              unfold toSecretBytes at hsec
              split at hsec
              · rename_i s hs'; cases hsec; exact hs'
              · cases hsec
            have hkp' : k.alg.hasKeypairBytes = true := by rw [ha]; simpa using hkp
            simp [toKeypairBytes, hkp', hsk, hp, hpb]
          · cases h
        | err e => rw [hp] at h; cases h
        | panic s => rw [hp] at h; cases h
      | err e => rw [hs] at h; simp only [] at h; split at h <;> cases h
      | panic s => rw [hs] at h; cases h

/-- wrong length: refused, whatever the bytes -/
theorem fromKeypairBytes_wrong_length (cfg : Cfg) (P : Prims) (alg : Alg) (b : Bytes) (ha : alg.hasKeypairBytes = true)
    (hl : b.length ≠ alg.secretLen + alg.pubBytesLen) : fromKeypairBytes cfg P alg b = .err .invalidKeyData := by
  simp [fromKeypairBytes, ha, hl]

/-- a public part that is not the public key of the secret part: refused -/
theorem fromKeypairBytes_mismatch (cfg : Cfg) (P : Prims) (alg : Alg) (b : Bytes) {k : Key}
    (hs : fromSecretBytes cfg P alg (b.take alg.secretLen) = .ok k) (hne : toPublicBytes k ≠ .ok (b.drop alg.secretLen)) :
    (fromKeypairBytes cfg P alg b).isOk = false := by
  cases h : fromKeypairBytes cfg P alg b with
  | ok k' =>
    obtain ⟨_, _, hs', hp, _⟩ := fromKeypairBytes_ok h
    rw [hs] at hs'
    cases hs'
    exact absurd hp hne
  | err e => rfl
  | panic s => rfl

/-- a secret part the curve refuses (zero, not below the order): refused -/
theorem fromKeypairBytes_bad_scalar (cfg : Cfg) (P : Prims) (alg : Alg) (b : Bytes)
    (hs : (fromSecretBytes cfg P alg (b.take alg.secretLen)).isOk = false) : (fromKeypairBytes cfg P alg b).isOk = false := by
  cases h : fromKeypairBytes cfg P alg b with
  | ok k' =>
    obtain ⟨_, _, hs', _, _⟩ := fromKeypairBytes_ok h
    rw [hs'] at hs
    cases hs
  | err e => rfl
  | panic s => rfl

theorem compress_length (n : Nat) (xy : Bytes) (h : n ≤ xy.length) : (compress n xy).length = n + 1 := by
  simp [compress, List.length_take]
  omega

theorem toPublicBytes_length {k : Key} (ha : k.alg.hasKeypairBytes = true) (hs : k.pub.length = k.alg.pubLen) :
    ∃ pb, toPublicBytes k = .ok pb ∧ pb.length = k.alg.pubBytesLen := by
  obtain ⟨alg, sec, pub⟩ := k
  cases alg <;> simp [Alg.hasKeypairBytes] at ha <;>
    simp [toPublicBytes, Alg.isSymmetric, Alg.isEc, Alg.pubBytesLen, Alg.pubLen, Alg.secretLen] at hs ⊢ <;>
    first | exact hs | (rw [compress_length _ _ (by omega)])

/-- the other direction: the keypair export of a key made from a secret imports as that key -/
theorem keypair_export_import {cfg : Cfg} {P : Prims} {alg : Alg} {s : Bytes} {k : Key} (ha : alg.hasKeypairBytes = true)
    (h : fromSecretBytes cfg P alg s = .ok k) (hs : k.pub.length = k.alg.pubLen) :
    ∃ b, toKeypairBytes k = .ok b ∧ fromKeypairBytes cfg P alg b = .ok k := by
  obtain ⟨hka, hsec, hlen⟩ := secret_bytes_roundtrip h
  have ha' : k.alg.hasKeypairBytes = true := by rw [hka]; exact ha
  obtain ⟨pb, hpb, hpl⟩ := toPublicBytes_length ha' hs
  have hsk : k.secret = some s := by
    unfold toSecretBytes at hsec
    split at hsec
    · rename_i s' hs'; cases hsec; exact hs'
    · cases hsec
  refine ⟨s ++ pb, by simp [toKeypairBytes, ha', hsk, hpb], ?_⟩
  have ht : (s ++ pb).take alg.secretLen = s := by rw [← hlen]; simp
  have hd : (s ++ pb).drop alg.secretLen = pb := by rw [← hlen]; simp
  have hl : (s ++ pb).length = alg.secretLen + alg.pubBytesLen := by rw [List.length_append, hlen, hpl, hka]
  simp [fromKeypairBytes, ha, hl, ht, hd, h, hpb]

theorem toKeypairBytes_public_only {k : Key} (ha : k.alg.hasKeypairBytes = true) (hs : k.secret = none) :
    toKeypairBytes k = .err .missingSecretKey := by
  simp [toKeypairBytes, ha, hs]

/-! ## key conversion -/

/-- the invariant that guards `decompress().unwrap()`: a public-only Ed25519 key holds bytes that decompress -/
def Key.EdPubValid (C : ConvPrims) (k : Key) : Prop :=
  k.alg = .ed25519 → k.secret = none → (C.edToMontgomery k.pub).isSome = true

/-- `VerifyingKey::from_bytes` IS `CompressedEdwardsY::decompress` (and keeps the bytes): what it accepts decompresses -/
def ConvPrims.Agrees (P : Prims) (C : ConvPrims) : Prop :=
  ∀ b p, P.decodePub .ed25519 b = some p → (C.edToMontgomery p).isSome = true

theorem convertKey_no_panic_of_valid (P : Prims) (C : ConvPrims) (k : Key) (to : Alg) (hv : k.EdPubValid C) :
    (convertKey P C k to).isPanic = false := by
  unfold convertKey
  split
  · rfl
  · split
    · rfl
    · split
      · rename_i h
        unfold toX25519
        cases hs : k.secret with
        | some s => rfl
        | none =>
          simp only []
          have := hv h.1 hs
          cases hm : C.edToMontgomery k.pub with
          | some u => rfl
          | none => simp [hm] at this
      · rfl

theorem fromSecretBytes_edValid {cfg : Cfg} {P : Prims} {C : ConvPrims} {alg : Alg} {b : Bytes} {k : Key}
    (h : fromSecretBytes cfg P alg b = .ok k) : k.EdPubValid C := by
  intro _ hs
  obtain ⟨_, hsec, _⟩ := secret_bytes_roundtrip h
  simp [toSecretBytes, hs] at hsec

theorem fromPublicBytes_edValid {P : Prims} {C : ConvPrims} (hl : C.Agrees P) {alg : Alg} {b : Bytes} {k : Key}
    (h : fromPublicBytes P alg b = .ok k) : k.EdPubValid C := by
  intro ha _
  obtain ⟨_, hka⟩ := fromPublicBytes_public_only h
  rw [ha] at hka
  subst hka
  unfold fromPublicBytes at h
  cases hd : decodePublic P .ed25519 b with
  | ok p =>
    rw [hd] at h
    cases h
    unfold decodePublic at hd
    simp only [] at hd
    split at hd
    · cases hd
    · split at hd
      · rename_i p' hp
        cases hd
        exact hl b _ hp
      · cases hd
  | err e => rw [hd] at h; cases h
  | panic s => rw [hd] at h; cases h

/-- where an accepted JWK key comes from: the secret import (then it has a secret), for a Weierstrass curve without `d` the
    checked point, otherwise the public-bytes import -/
theorem fromJwkParts_origin {cfg : Cfg} {P : Prims} {alg : Alg} {j : Parts} {k : Key} (h : fromJwkParts cfg P alg j = .ok k) :
    k.alg = alg ∧ (k.secret ≠ none ∨ alg.isEc = true ∨ ∃ b, fromPublicBytes P alg b = .ok k) := by
  have hsome : ∀ {kp : Key} {d : Bytes}, fromSecretBytes cfg P alg d = .ok kp → kp.alg = alg ∧ kp.secret ≠ none := by
    intro kp d hkp
    obtain ⟨ha, hs, _⟩ := secret_bytes_roundtrip hkp
    refine ⟨ha, fun hn => ?_⟩
    simp [toSecretBytes, hn] at hs
  unfold fromJwkParts at h
  split at h
  · rename_i hec
    split at h; · cases h
    split at h; · cases h
    obtain ⟨x, _, h⟩ := bind_ok_inv h
    obtain ⟨y, _, h⟩ := bind_ok_inv h
    split at h
    · cases h
    · split at h
      · obtain ⟨d, _, h⟩ := bind_ok_inv h
        obtain ⟨kp, hkp, h⟩ := bind_ok_inv h
        split at h
        · cases h
        · cases h
          exact ⟨(hsome hkp).1, Or.inl (hsome hkp).2⟩
      · cases h
        exact ⟨rfl, Or.inr (Or.inl hec)⟩
  · split at h
    · split at h; · cases h
      split at h; · cases h
      obtain ⟨x, _, h⟩ := bind_ok_inv h
      split at h
      · obtain ⟨d, _, h⟩ := bind_ok_inv h
        obtain ⟨kp, hkp, h⟩ := bind_ok_inv h
        obtain ⟨rfl, _⟩ := checkPublic_ok h
        exact ⟨(hsome hkp).1, Or.inl (hsome hkp).2⟩
      · exact ⟨(fromPublicBytes_public_only h).2, Or.inr (Or.inr ⟨x, h⟩)⟩
    · split at h
      · split at h; · cases h
        split at h; · cases h
        obtain ⟨x, _, h⟩ := bind_ok_inv h
        split at h
        · obtain ⟨d, _, h⟩ := bind_ok_inv h
          obtain ⟨kp, hkp, h⟩ := bind_ok_inv h
          obtain ⟨rfl, _⟩ := checkPublic_ok h
          exact ⟨(hsome hkp).1, Or.inl (hsome hkp).2⟩
        · exact ⟨(fromPublicBytes_public_only h).2, Or.inr (Or.inr ⟨x, h⟩)⟩
      · cases h

theorem fromJwkParts_edValid {cfg : Cfg} {P : Prims} {C : ConvPrims} (hl : C.Agrees P) {alg : Alg} {j : Parts} {k : Key}
    (h : fromJwkParts cfg P alg j = .ok k) : k.EdPubValid C := by
  obtain ⟨ha, ho⟩ := fromJwkParts_origin h
  intro hk hs
  rcases ho with hne | hec | ⟨b, hb⟩
  · exact absurd hs hne
  · rw [← ha, hk] at hec
    cases hec
  · exact fromPublicBytes_edValid hl hb hk hs

theorem fromJwk_edValid {cfg : Cfg} {P : Prims} {C : ConvPrims} (hl : C.Agrees P) {text : Bytes} {k : Key}
    (h : fromJwk cfg P text = .ok k) : k.EdPubValid C := by
  unfold fromJwk at h
  split at h
  · unfold fromJwkAny at h
    split at h
    · exact fromJwkParts_edValid hl h
    · cases h
  · cases h

/-- the public-bytes import of a key the conversion produced, and of the BLS halves: the invariant is kept (vacuously: not Ed25519) -/
theorem convertKey_edValid {P : Prims} {C : ConvPrims} {k k' : Key} {to : Alg} (h : convertKey P C k to = .ok k') :
    k'.EdPubValid C := by
  have : k'.alg ≠ .ed25519 := by
    unfold convertKey at h
    split at h
    · cases h; simp
    · split at h
      · cases h; simp
      · split at h
        · unfold toX25519 at h
          split at h
          · cases h; simp
          · split at h
            · cases h; simp
            · cases h
        · cases h
  exact fun ha => absurd ha this

/-- conversions outside the three supported pairs -/
theorem convertKey_unsupported (P : Prims) (C : ConvPrims) (k : Key) (to : Alg)
    (h : ¬ (k.alg = .blsG1G2 ∧ (to = .blsG1 ∨ to = .blsG2)) ∧ ¬ (k.alg = .ed25519 ∧ to = .x25519)) :
    convertKey P C k to = .err .unsupported := by
  obtain ⟨h1, h2⟩ := h
  have a : ¬ (k.alg = .blsG1G2 ∧ to = .blsG1) := fun hh => h1 ⟨hh.1, Or.inl hh.2⟩
  have b : ¬ (k.alg = .blsG1G2 ∧ to = .blsG2) := fun hh => h1 ⟨hh.1, Or.inr hh.2⟩
  simp only [convertKey, a, b, h2, if_false]

/-- a conversion neither loses nor invents a secret, and yields the requested algorithm -/
theorem convertKey_shape {P : Prims} {C : ConvPrims} {k k' : Key} {to : Alg} (h : convertKey P C k to = .ok k') :
    k'.alg = to ∧ (k'.secret.isSome = k.secret.isSome) := by
  unfold convertKey at h
  split at h
  · rename_i hh; cases h; exact ⟨hh.2.symm, rfl⟩
  · split at h
    · rename_i hh; cases h; exact ⟨hh.2.symm, rfl⟩
    · split at h
      · rename_i hh
        unfold toX25519 at h
        split at h
        · rename_i s hs; cases h; exact ⟨hh.2.symm, by simp [hs]⟩
        · rename_i hs
          split at h
          · cases h; exact ⟨hh.2.symm, by simp [hs]⟩
          · cases h
      · cases h

/-- `Pk::from_secret_scalar` of the pair type is the pair of the two single derivations -/
def Prims.BlsSplit (P : Prims) : Prop :=
  ∀ d p, P.pubOf .blsG1G2 d = some p → P.pubOf .blsG1 d = some (p.take 48) ∧ P.pubOf .blsG2 d = some (p.drop 48)

/-- G1G2 → G1 / G2 of a key pair is the crate's own G1 / G2 key of the same secret -/
theorem convert_bls_own_key (cfg : Cfg) (P : Prims) (C : ConvPrims) (hl : P.BlsSplit) {d : Bytes} {k : Key}
    (h : fromSecretBytes cfg P .blsG1G2 d = .ok k) :
    convertKey P C k .blsG1 = fromSecretBytes cfg P .blsG1 d ∧ convertKey P C k .blsG2 = fromSecretBytes cfg P .blsG2 d := by
  simp only [fromSecretBytes, Alg.isSymmetric, Alg.isEc, Alg.secretLen, Bool.false_eq_true, if_false] at h ⊢
  by_cases hlen : d.length = 32
  · simp only [hlen, ne_eq, not_true_eq_false, if_false] at h ⊢
    cases hp : P.pubOf .blsG1G2 d with
    | none => rw [hp] at h; cases h
    | some p =>
      rw [hp] at h
      cases h
      obtain ⟨h1, h2⟩ := hl d p hp
      simp [convertKey, h1, h2]
  · simp [hlen] at h

end Askar.Jwk

namespace Askar.Jwk

/-- repaired encoder, key level: the export with a set of operations and a kid is read back by the library's own parser with
    exactly that set and that kid, and still imports as the key -/
theorem encoder_roundtrip_fixed (cfg : Cfg) (P : Prims) (k : Key) (ha : k.alg.isSymmetric = false) (hs : k.WellSized)
    (hc : k.Consistent P) (hoc : k.OnCurve P) (withD : Bool) (hpc : withD = false ∨ k.secret = none → k.PubCanonical P)
    (o : Nat) (ho : o < 256) (kid : Bytes) (hk : Clean kid = true) :
    ∃ t, toJwkWith true k (if withD then .secretKey else .publicKey) none (some o) (some kid) = .ok t ∧
      (∃ p, parseJwk cfg t = some p ∧ p.keyOps = some o ∧ p.kid = some kid) ∧
      fromJwk cfg P t = .ok (if withD then k else { k with secret := none }) := by
  obtain ⟨ms, he, hcl, hv⟩ := export_visit cfg k ha withD
  have hp := parse_renderJwk_fixed' cfg ms hcl (some o) (some kid) (by intro k' hk'; cases hk'; exact hk)
  rw [visit_extra cfg _ _ hv o ho kid] at hp
  refine ⟨renderJwk true ms (some o) (some kid), by simp [toJwkWith, he], ⟨_, hp, rfl, rfl⟩, ?_⟩
  unfold fromJwk
  rw [hp]
  simp only []
  rw [fromJwkAny_extra]
  simp only [fromJwkAny, selectAlg_export k ha withD]
  exact fromJwkParts_export cfg P k ha hs hc hoc withD hpc

/-- the tree today, key level: every export that carries `key_ops` — any key, mode, view, set, kid — is refused by the import -/
theorem encoder_export_unimportable (cfg : Cfg) (P : Prims) (k : Key) (mode : Mode) (a : Option Alg) (o : Nat)
    (kid : Option Bytes) (t : Bytes) (h : toJwkWith false k mode a (some o) kid = .ok t) : fromJwk cfg P t = .err .invalid := by
  unfold toJwkWith at h
  cases he : encodeJwk k mode a with
  | ok ms =>
    rw [he] at h
    cases h
    unfold fromJwk
    rw [parse_renderJwk_current_fails cfg ms (encodeJwk_clean k mode a ms he) o kid]
  | err e => rw [he] at h; cases h
  | panic s => rw [he] at h; cases h

end Askar.Jwk

/-! ## third wave: members with a non-string value; the concrete types' own `from_jwk`; the length accessors -/

namespace Askar.Jwk

/-- token level: a string-valued member (`kty kid alg crv x y d k use`) with any other JSON value is refused by the visitor -/
theorem effect_non_string (cfg : Cfg) {key : Bytes} {f : Field} (hf : fieldOf key = some f) (hk : f ≠ .keyOps) (v : JVal)
    (hv : ∀ s, v ≠ .str s) : effect cfg (key, v) = none := by
  cases f <;> cases v <;> simp_all [effect]

theorem fromMembers_non_string (cfg : Cfg) (P : Prims) (l₁ l₂ : List (Bytes × JVal)) {key : Bytes} {f : Field}
    (hf : fieldOf key = some f) (hk : f ≠ .keyOps) (v : JVal) (hv : ∀ s, v ≠ .str s) :
    fromMembers cfg P (l₁ ++ (key, v) :: l₂) = .err .invalid := by
  simp [fromMembers, visit_bad_member cfg l₁ l₂ _ (effect_non_string cfg hf hk v hv)]

/-- byte level: `deserialize_str` on input whose first non-blank byte is not `"` -/
theorem deStr_non_quote (c : UInt8) (r : Bytes) (hw : isWs c = false) (hc : c ≠ 34) : deStr (c :: r) = none := by
  simp [deStr, skipWs_cons _ hw, hc]

/-- one turn of the loop on a string-valued member whose value text does not start with `"`: the deserializer reports an error -/
theorem mapLoop_nonString (cfg : Cfg) (fuel : Nat) (inp : Bytes) (first : Bool) (a : Acc) {name : Bytes} {f : Field}
    (hn : Clean name = true) (hf : fieldOf name = some f) (hk : f ≠ .keyOps) (c : UInt8) (v r : Bytes)
    (hw : isWs c = false) (hc : c ≠ 34)
    (hnext : mapNext inp first = some (some (attrText name (c :: v) ++ r))) :
    mapLoop cfg (fuel + 1) inp first a = none := by
  rw [mapLoop, hnext, attrText_append]
  simp only [deStr_quoted hn, hf]
  cases f <;> first | exact absurd rfl hk | simp [valueStr, colon_cons, List.cons_append, deStr_non_quote c _ hw hc]

/-- an attribute the loop fails on, after any attributes it accepts, before anything: the parse fails -/
theorem parse_attrs_bad (cfg : Cfg) (xs : List Attr) (hc : ∀ x ∈ xs, x.Ok) (bad : Bytes) (hq : ∃ t, bad = 34 :: t)
    (hbad : ∀ fuel inp first a r, mapNext inp first = some (some (bad ++ r)) → mapLoop cfg (fuel + 1) inp first a = none)
    (ts : List Bytes) : parseJwk cfg (renderAttrs (xs.map Attr.text ++ bad :: ts)) = none := by
  obtain ⟨bt, hbt⟩ := hq
  cases xs with
  | nil =>
    simp only [List.map_nil, List.nil_append, renderAttrs]
    rw [parseJwk, skipWs_cons _ (show isWs 123 = false by decide)]
    simp only [if_true]
    have hnext : mapNext (bad ++ (attrsTail ts ++ [125])) true = some (some (bad ++ (attrsTail ts ++ [125]))) := by
      rw [hbt, List.cons_append, mapNext_first]
    rw [hbad _ _ true {} _ hnext]
  | cons x xs =>
    have hc' : ∀ y ∈ xs, y.Ok := fun y hy => hc y (by simp [hy])
    simp only [List.map_cons, List.cons_append, renderAttrs, attrsTail_append, attrsTail, List.append_assoc,
      List.cons_append]
    rw [parseJwk, skipWs_cons _ (show isWs 123 = false by decide)]
    simp only [if_true]
    generalize hR : attrsTail ts ++ [125] = R
    have hlen : xs.length + 2 ≤ (x.text ++ (attrsTail (xs.map Attr.text) ++ 44 :: (bad ++ R))).length + 2 := by
      have := attrsTail_length (xs.map Attr.text)
      simp only [List.length_map] at this
      simp only [List.length_append, List.length_cons]
      omega
    obtain ⟨g, hg'⟩ := Nat.exists_eq_add_of_le hlen
    have hg : (x.text ++ (attrsTail (xs.map Attr.text) ++ 44 :: (bad ++ R))).length + 2 = (xs.length + (g + 1)) + 1 := by omega
    rw [hg, mapLoop_attr cfg _ _ true {} x _ (hc x (by simp)) (mapNext_first_attr x _)]
    cases visitStep cfg {} x.tok with
    | none => rfl
    | some a' =>
      simp only []
      rw [mapLoop_attrsTail cfg _ xs hc' (g + 1) a']
      cases visitFrom cfg a' (xs.map Attr.tok) with
      | none => rfl
      | some a'' =>
        simp only []
        have hnext : mapNext (44 :: (bad ++ R)) false = some (some (bad ++ R)) := by
          rw [hbt, List.cons_append, mapNext_comma]
        rw [hbad g _ false a'' _ hnext]

/-- the text of a JSON object: clean string members, then a string-valued member name with a value text that does not start with
    `"` (a number, `true`, `null`, `[…`, `{…`), then ANY further attribute texts -/
def objectWithBadValue (ms : List Member) (name : Bytes) (c : UInt8) (v : Bytes) (ts : List Bytes) : Bytes :=
  renderAttrs (ms.map (fun m => attrText (sb m.1) (quoted m.2)) ++ attrText name (c :: v) :: ts)

theorem parse_non_string (cfg : Cfg) (ms : List Member) (hc : MembersClean ms = true) {name : Bytes} {f : Field}
    (hn : Clean name = true) (hf : fieldOf name = some f) (hk : f ≠ .keyOps) (c : UInt8) (v : Bytes)
    (hw : isWs c = false) (hq : c ≠ 34) (ts : List Bytes) :
    parseJwk cfg (objectWithBadValue ms name c v ts) = none := by
  have hm : ms.map (fun m => attrText (sb m.1) (quoted m.2)) = (ms.map Attr.mem).map Attr.text := by
    simp [Attr.text, Function.comp_def]
  have hok : ∀ x ∈ ms.map Attr.mem, x.Ok := by
    intro x hx
    obtain ⟨m, hm', rfl⟩ := List.mem_map.mp hx
    simp only [MembersClean, List.all_eq_true, Bool.and_eq_true] at hc
    exact hc m hm'
  unfold objectWithBadValue
  rw [hm]
  exact parse_attrs_bad cfg _ hok _ ⟨_, attrText_append name (c :: v) [] ▸ (List.append_nil _).symm⟩
    (fun fuel inp first a r hnext => mapLoop_nonString cfg fuel inp first a hn hf hk c v r hw hq hnext) ts

/-! ### foreign `kty` / `crv` -/

/-- a concrete type's `from_jwk_parts` on a JWK whose `kty` it does not accept or whose `crv` is not its own (or is absent):
    InvalidKeyData — before any key material is looked at -/
theorem fromJwkParts_foreign (cfg : Cfg) (P : Prims) (alg : Alg) (j : Parts) (ha : alg.isSymmetric = false)
    (h : alg.ktyOk j.kty = false ∨ j.crv ≠ some (sb alg.jwkCrv)) : fromJwkParts cfg P alg j = .err .invalidKeyData := by
  cases alg <;> simp [Alg.isSymmetric] at ha <;>
    simp only [Alg.ktyOk, Alg.isEc, Alg.isBls, Bool.false_eq_true, if_false, if_true, Bool.or_eq_false_iff,
      decide_eq_false_iff_not] at h <;>
    simp only [fromJwkParts, Alg.isEc, Alg.isBls, Bool.false_eq_true, if_false, if_true] <;>
    (rcases h with h | h <;> simp_all)

theorem jwkCrv_injective (a b : Alg) (ha : a.isSymmetric = false) (hb : b.isSymmetric = false) (hne : a ≠ b) :
    sb b.jwkCrv ≠ sb a.jwkCrv := by
  cases a <;> simp [Alg.isSymmetric] at ha <;> cases b <;> simp [Alg.isSymmetric] at hb <;>
    first | exact absurd rfl hne | decide

/-- the JWK of a key of one asymmetric algorithm, offered to the type of another: InvalidKeyData (all 56 ordered pairs, secret and
    public form) -/
theorem fromJwkParts_foreign_export (cfg : Cfg) (P : Prims) (alg : Alg) (k : Key) (withD : Bool) (ha : alg.isSymmetric = false)
    (hk : k.alg.isSymmetric = false) (hne : alg ≠ k.alg) :
    fromJwkParts cfg P alg (exportParts k withD) = .err .invalidKeyData := by
  apply fromJwkParts_foreign cfg P alg _ ha
  right
  simp only [exportParts, ne_eq, Option.some.injEq]
  exact jwkCrv_injective alg k.alg ha hk hne

/-- … and at text level: the exported text of the key, through the byte-level parser -/
theorem fromJwkTyped_foreign_export (cfg : Cfg) (P : Prims) (alg : Alg) (k : Key) (withD : Bool) (ha : alg.isSymmetric = false)
    (hk : k.alg.isSymmetric = false) (hne : alg ≠ k.alg) :
    ∃ t, toJwk k (if withD then .secretKey else .publicKey) none = .ok t ∧ fromJwkTyped cfg P alg t = .err .invalidKeyData := by
  obtain ⟨ms, he, hcl, hv⟩ := export_visit cfg k hk withD
  refine ⟨renderMembers ms, by simp [toJwk, he], ?_⟩
  unfold fromJwkTyped
  rw [parse_render cfg ms hcl, hv]
  exact fromJwkParts_foreign_export cfg P alg k withD ha hk hne

/-- the dispatcher and the type agree on the type's own JWKs: `from_jwk_any` selects `alg` ⇒ same result -/
theorem fromJwkTyped_own (cfg : Cfg) (P : Prims) (alg : Alg) (text : Bytes) (j : Parts) (hp : parseJwk cfg text = some j)
    (hs : selectAlg j = some alg) : fromJwkTyped cfg P alg text = fromJwk cfg P text := by
  simp [fromJwkTyped, fromJwk, fromJwkAny, hp, hs]

theorem fromJwkTyped_no_panic (cfg : Cfg) (P : Prims) (alg : Alg) (text : Bytes) : (fromJwkTyped cfg P alg text).isPanic = false := by
  unfold fromJwkTyped
  split
  · exact fromJwkParts_no_panic cfg P alg _
  · rfl

/-! ### length accessors -/

theorem publicBytesLen_exact {k : Key} {pb : Bytes} (h : toPublicBytes k = .ok pb) (hs : k.pub.length = k.alg.pubLen) :
    publicBytesLen k = .ok pb.length := by
  obtain ⟨alg, sec, pub⟩ := k
  cases alg <;> simp [toPublicBytes, Alg.isSymmetric, Alg.isEc] at h <;> subst h <;>
    simp [publicBytesLen, Alg.isSymmetric, Alg.pubBytesLen, Alg.isEc, Alg.pubLen, Alg.secretLen] at hs ⊢ <;>
    first | exact hs.symm | (rw [compress_length _ _ (by omega)])

theorem secretBytesLen_exact {cfg : Cfg} {P : Prims} {alg : Alg} {b : Bytes} {k : Key} (h : fromSecretBytes cfg P alg b = .ok k) :
    toSecretBytes k = .ok b ∧ secretBytesLen k = .ok b.length := by
  obtain ⟨ha, hs, hl⟩ := secret_bytes_roundtrip h
  exact ⟨hs, by rw [secretBytesLen, ha, hl]⟩

end Askar.Jwk
